// C02 correspondence harness: momo::TreeSet / momo::TreeMap (unique and multi) against
//   * the property's own oracle: std::multiset<(key,id)> ordered by key (stable insertion, exact hinted insertion),
//   * the Lean model `btree` (same operation lines; results, counts, traversals, bounds and the complete node
//     shape = pre-order list of (isLeaf, count, capacity) read through -fno-access-control).
//   Lookups are made with the key type and with an argument of another type (Probe) wherever the traits allow it; maps
//   with a key class / pointer key use every spelling of insert / hinted add (Key&&, const Key&, creators, variadic).
// One source, several executables: -DC02_PART=<k> selects a group of template configurations (compile time).
#include "momo/TreeSet.h"
#include "momo/TreeMap.h"
#include "momo/HashSet.h"
#include "common/verif_common.h"

#include <set>
#include <map>
#include <vector>
#include <deque>
#include <algorithm>
#include <functional>
#include <string>

#ifndef C02_PART
#define C02_PART 0
#endif

using namespace vf;

// ------------------------------------------------------------------ element types (item relocation categories)

static long g_live = 0;	// live heap payloads of KM/KC/VM/VC (leak / double destruction ledger, next to ASan)

// trivially relocatable
struct KT { int k; int id; KT(int k_ = 0, int id_ = 0) : k(k_), id(id_) {} };
inline bool operator<(const KT& a, const KT& b) { return a.k < b.k; }

// nothrow-movable, not trivially copyable, owns heap memory
struct KM {
	int k; int id; int* p;
	KM(int k_ = 0, int id_ = 0) : k(k_), id(id_), p(new int(id_)) { ++g_live; }
	KM(const KM& o) : k(o.k), id(o.id), p(new int(*o.p)) { ++g_live; }
	KM(KM&& o) noexcept : k(o.k), id(o.id), p(o.p) { o.p = nullptr; }
	KM& operator=(const KM& o) { if (this != &o) { int* q = new int(*o.p); ++g_live; drop(); k = o.k; id = o.id; p = q; } return *this; }
	KM& operator=(KM&& o) noexcept { if (this != &o) { drop(); k = o.k; id = o.id; p = o.p; o.p = nullptr; } return *this; }
	~KM() { drop(); }
	void drop() { if (p) { if (*p != id) abort(); delete p; p = nullptr; --g_live; } }
};
inline bool operator<(const KM& a, const KM& b) { return a.k < b.k; }

// copy-only: the copy constructor may throw as far as the type system knows, no move operations, no nothrow swap
struct KC {
	int k; int id; int* p;
	KC(int k_ = 0, int id_ = 0) : k(k_), id(id_), p(new int(id_)) { ++g_live; }
	KC(const KC& o) : k(o.k), id(o.id), p(new int(*o.p)) { ++g_live; }
	KC& operator=(const KC& o) { if (this != &o) { int* q = new int(*o.p); ++g_live; drop(); k = o.k; id = o.id; p = q; } return *this; }
	~KC() { drop(); }
	void drop() { if (p) { if (*p != id) abort(); delete p; p = nullptr; --g_live; } }
};
inline bool operator<(const KC& a, const KC& b) { return a.k < b.k; }

// copy-only like KC (no move constructor declared, the copy constructor may throw), but assignment by value
// (copy-and-swap) and a noexcept swap found by ADL: ObjectManager says not nothrow relocatable, not nothrow move
// assignable, but nothrow swappable => nothrow shiftable: contiguous nodes shift their items with std::iter_swap
// (ObjectManager::pvShiftNothrow(false_type, true_type)) and an internal item is replaced by its predecessor through
// pvAssignAnyway(false_type, true_type, ...)
struct KS {
	int k; int id; int* p;
	KS(int k_ = 0, int id_ = 0) : k(k_), id(id_), p(new int(id_)) { ++g_live; }
	KS(const KS& o) : k(o.k), id(o.id), p(new int(*o.p)) { ++g_live; }
	KS& operator=(KS o) { swap(*this, o); return *this; }
	~KS() { drop(); }
	void drop() { if (p) { if (*p != id) abort(); delete p; p = nullptr; --g_live; } }
	friend void swap(KS& a, KS& b) noexcept { std::swap(a.k, b.k); std::swap(a.id, b.id); std::swap(a.p, b.p); }
};
inline bool operator<(const KS& a, const KS& b) { return a.k < b.k; }

// keys that are pointers: TreeTraits::IsLess(KeyArg1*, KeyArg2*) = std::less<const void*>; key k is the address of cell k
struct Cell { int k; };
static const int kCellCount = 1 << 16;
static Cell g_cells[kCellCount];
typedef const Cell* PK;

// a lookup argument that is not the key type (heterogeneous GetLowerBound / GetUpperBound / Find / ContainsKey /
// GetKeyCount): TreeTraits enables it when `key < arg` and `arg < key` are valid, TreeTraitsStd when the comparator is
// transparent
struct Probe { int k; };
inline bool operator<(int a, Probe b) { return a < b.k; }
inline bool operator<(Probe a, int b) { return a.k < b; }
#define C02_PROBE_OPS(K) \
	inline bool operator<(const K& a, Probe b) { return a.k < b.k; } \
	inline bool operator<(Probe a, const K& b) { return a.k < b.k; }
C02_PROBE_OPS(KT) C02_PROBE_OPS(KM) C02_PROBE_OPS(KC) C02_PROBE_OPS(KS)

// transparent comparison object with a state that must survive copy / move / swap of the container
struct TagLess {
	int tag;
	explicit TagLess(int tag_ = 0) : tag(tag_) {}
	typedef void is_transparent;
	template<class A, class B> bool operator()(const A& a, const B& b) const { return a < b; }
};

// findings of the typed layer below (it has no access to the context): reported by the runner after the operation
static std::string g_apiFail;
static std::map<std::string, uint64_t> g_apiCount;

// mapped values of the four categories (TreeMap<K, V>)
struct VT { int id; VT(int id_ = 0) : id(id_) {} };
struct VM {
	int id; int* p;
	VM(int id_ = 0) : id(id_), p(new int(id_)) { ++g_live; }
	VM(const VM& o) : id(o.id), p(new int(*o.p)) { ++g_live; }
	VM(VM&& o) noexcept : id(o.id), p(o.p) { o.p = nullptr; }
	VM& operator=(const VM& o) { if (this != &o) { int* q = new int(*o.p); ++g_live; drop(); id = o.id; p = q; } return *this; }
	VM& operator=(VM&& o) noexcept { if (this != &o) { drop(); id = o.id; p = o.p; o.p = nullptr; } return *this; }
	~VM() { drop(); }
	void drop() { if (p) { if (*p != id) abort(); delete p; p = nullptr; --g_live; } }
};
struct VC {
	int id; int* p;
	VC(int id_ = 0) : id(id_), p(new int(id_)) { ++g_live; }
	VC(const VC& o) : id(o.id), p(new int(*o.p)) { ++g_live; }
	VC& operator=(const VC& o) { if (this != &o) { int* q = new int(*o.p); ++g_live; drop(); id = o.id; p = q; } return *this; }
	~VC() { drop(); }
	void drop() { if (p) { if (*p != id) abort(); delete p; p = nullptr; --g_live; } }
};
struct VS {	// value counterpart of KS
	int id; int* p;
	VS(int id_ = 0) : id(id_), p(new int(id_)) { ++g_live; }
	VS(const VS& o) : id(o.id), p(new int(*o.p)) { ++g_live; }
	VS& operator=(VS o) { swap(*this, o); return *this; }
	~VS() { drop(); }
	void drop() { if (p) { if (*p != id) abort(); delete p; p = nullptr; --g_live; } }
	friend void swap(VS& a, VS& b) noexcept { std::swap(a.id, b.id); std::swap(a.p, b.p); }
};

// the relocation category the contiguous layout depends on (UserSettings.h: with gcc every type that declares a move
// constructor counts as nothrow relocatable, so the type must be copy-only)
typedef momo::internal::ObjectManager<KS, momo::MemManagerDefault> KSManager;
typedef momo::internal::ObjectManager<VS, momo::MemManagerDefault> VSManager;
typedef momo::internal::ObjectManager<KC, momo::MemManagerDefault> KCManager;
static_assert(!KSManager::isTriviallyRelocatable && !KSManager::isNothrowRelocatable && !KSManager::isNothrowMoveConstructible, "KS must not be nothrow relocatable");
static_assert(!std::is_nothrow_move_assignable<KS>::value && KSManager::isNothrowSwappable, "KS: assignment may throw, swap does not");
static_assert(KSManager::isNothrowShiftable && KSManager::isNothrowAnywayAssignable, "KS is shiftable by swaps");
static_assert(!VSManager::isNothrowRelocatable && !std::is_nothrow_move_assignable<VS>::value && VSManager::isNothrowSwappable && VSManager::isNothrowShiftable, "VS category");
static_assert(!KCManager::isNothrowRelocatable && !KCManager::isNothrowSwappable && !KCManager::isNothrowShiftable, "KC stays the category that forces the indexed layout");

// how (k, id) becomes a key object of a TreeMap and back; argState: 0 = intact, 1 = moved-from, 2 = damaged, -1 = not observable
template<class K> struct KeyCodec;
template<> struct KeyCodec<int> {
	static const bool movable = false;
	static int make(int k, int) { return k; }
	static int k(int key) { return key; }
	static bool intact(int, int) { return true; }
	static int argState(int, int, int) { return -1; }
};
template<> struct KeyCodec<PK> {
	static const bool movable = false;
	static PK make(int k, int) { if (k < 0 || k >= kCellCount) abort(); return &g_cells[k]; }
	static int k(PK key) { return (int)(key - g_cells); }
	static bool intact(PK key, int) { return key >= g_cells && key < g_cells + kCellCount && key->k == (int)(key - g_cells); }
	static int argState(PK, int, int) { return -1; }
};
template<class K, bool tMovable> struct ClassKeyCodec {
	static const bool movable = tMovable;
	static K make(int k, int id) { return K(k, id); }
	static int k(const K& key) { return key.k; }
	static bool intact(const K& key, int id) { return key.id == id && key.p != nullptr && *key.p == id; }
	static int argState(const K& key, int k, int id) {
		if (key.k != k || key.id != id) return 2;
		if (key.p == nullptr) return 1;
		return *key.p == id ? 0 : 2;
	}
};
template<> struct KeyCodec<KM> : ClassKeyCodec<KM, true> {};
template<> struct KeyCodec<KS> : ClassKeyCodec<KS, false> {};
template<> struct KeyCodec<KC> : ClassKeyCodec<KC, false> {};

template<class K> struct KHash { size_t operator()(const K& a) const { return std::hash<long long>()(((long long)a.k << 32) ^ (unsigned)a.id); } };
template<class K> struct KEq { bool operator()(const K& a, const K& b) const { return a.k == b.k && a.id == b.id; } };

typedef std::pair<int, int> KI;	// (key, id)
struct KeyLess { bool operator()(const KI& a, const KI& b) const { return a.first < b.first; } };
typedef std::multiset<KI, KeyLess> Ref;

// ------------------------------------------------------------------ configurations

template<class TItem, size_t tCap, size_t tStep, size_t tBlocks, size_t tCached, bool tCont, bool tLin, bool tMulti>
struct SetCf {
	typedef TItem Item;
	typedef momo::TreeNode<tCap, tStep, momo::MemPoolParams<tBlocks, tCached>, tCont> TN;
	typedef momo::TreeTraits<Item, tMulti, TN, tLin> Traits;
	typedef momo::TreeSet<Item, Traits> Cont;
	typedef Cont Set;
	static const bool isMap = false, multi = tMulti, lin = tLin, cont = tCont, defaultNode = false;
	static const size_t cap = tCap, step = (tStep > 0 ? tStep : tCap), blocks = tBlocks, cached = tCached;
	static Set& set(Cont& c) { return c; }
	static const Set& set(const Cont& c) { return c; }
};

template<class TVal, size_t tCap, size_t tStep, size_t tBlocks, size_t tCached, bool tCont, bool tLin, bool tMulti>
struct MapCf {
	typedef TVal Val;
	typedef momo::TreeNode<tCap, tStep, momo::MemPoolParams<tBlocks, tCached>, tCont> TN;
	typedef momo::TreeTraits<int, tMulti, TN, tLin> Traits;
	typedef int Key;
	typedef momo::TreeMap<int, Val, Traits> Cont;
	typedef typename Cont::TreeSet Set;
	static const bool isMap = true, multi = tMulti, lin = tLin, cont = tCont, defaultNode = false;
	static const bool rich = false;	// one spelling per operation (int lvalue keys)
	static const size_t cap = tCap, step = (tStep > 0 ? tStep : tCap), blocks = tBlocks, cached = tCached;
	static Set& set(Cont& c) { return c.mTreeSet; }
	static const Set& set(const Cont& c) { return c.mTreeSet; }
};

// TreeMap<K, V> with a key class (KM: movable, so the `Key&&` overloads really differ from the `const Key&` ones;
// KS / KC: copy-only) or a pointer key; every spelling of insert / hinted add is used (Api<Cf, true>, rich)
template<class TKey, class TVal, size_t tCap, size_t tStep, size_t tBlocks, size_t tCached, bool tCont, bool tLin, bool tMulti>
struct MapCfK {
	typedef TKey Key;
	typedef TVal Val;
	typedef momo::TreeNode<tCap, tStep, momo::MemPoolParams<tBlocks, tCached>, tCont> TN;
	typedef momo::TreeTraits<Key, tMulti, TN, tLin> Traits;
	typedef momo::TreeMap<Key, Val, Traits> Cont;
	typedef typename Cont::TreeSet Set;
	static const bool isMap = true, multi = tMulti, lin = tLin, cont = tCont, defaultNode = false;
	static const bool rich = true;
	static const size_t cap = tCap, step = (tStep > 0 ? tStep : tCap), blocks = tBlocks, cached = tCached;
	static Set& set(Cont& c) { return c.mTreeSet; }
	static const Set& set(const Cont& c) { return c.mTreeSet; }
};

// TreeTraitsStd with a transparent comparison object (is_transparent => IsValidKeyArg for every argument type); the
// object carries a tag that GetTreeTraits().GetLessFunc() must still show after copy / move / swap / clear
template<class TItem, size_t tCap, size_t tStep, size_t tBlocks, size_t tCached, bool tCont, bool tMulti>
struct SetCfStdT {
	typedef TItem Item;
	typedef momo::TreeNode<tCap, tStep, momo::MemPoolParams<tBlocks, tCached>, tCont> TN;
	typedef momo::TreeTraitsStd<Item, TagLess, tMulti, TN> Traits;
	typedef momo::TreeSet<Item, Traits> Cont;
	typedef Cont Set;
	static const bool isMap = false, multi = tMulti, lin = Traits::useLinearSearch, cont = tCont, defaultNode = false;
	static const size_t cap = tCap, step = (tStep > 0 ? tStep : tCap), blocks = tBlocks, cached = tCached;
	static Set& set(Cont& c) { return c; }
	static const Set& set(const Cont& c) { return c; }
	static Cont make() { return Cont(Traits(TagLess(77))); }
	static bool traitsOk(const Cont& c) { return c.GetTreeTraits().GetLessFunc().tag == 77; }
};
template<class TKey, class TVal, size_t tCap, size_t tStep, size_t tBlocks, size_t tCached, bool tCont, bool tMulti>
struct MapCfStdT {
	typedef TKey Key;
	typedef TVal Val;
	typedef momo::TreeNode<tCap, tStep, momo::MemPoolParams<tBlocks, tCached>, tCont> TN;
	typedef momo::TreeTraitsStd<Key, TagLess, tMulti, TN> Traits;
	typedef momo::TreeMap<Key, Val, Traits> Cont;
	typedef typename Cont::TreeSet Set;
	static const bool isMap = true, multi = tMulti, lin = Traits::useLinearSearch, cont = tCont, defaultNode = false;
	static const bool rich = true;
	static const size_t cap = tCap, step = (tStep > 0 ? tStep : tCap), blocks = tBlocks, cached = tCached;
	static Set& set(Cont& c) { return c.mTreeSet; }
	static const Set& set(const Cont& c) { return c.mTreeSet; }
	static Cont make() { return Cont(Traits(TagLess(77))); }
	static bool traitsOk(const Cont& c) { return c.GetTreeTraits().GetLessFunc().tag == 77; }
};

// containers are made by Cf::make() where the configuration has one (stateful traits), else default constructed
template<class Cf, class = void> struct ContFactory {
	static typename Cf::Cont make() { return typename Cf::Cont(); }
	static bool traitsOk(const typename Cf::Cont&) { return true; }
};
template<class Cf> struct ContFactory<Cf, decltype(void(Cf::make()))> {
	static typename Cf::Cont make() { return Cf::make(); }
	static bool traitsOk(const typename Cf::Cont& c) { return Cf::traitsOk(c); }
};

// TreeNode<> with its default template arguments (maxCapacity 32, capacityStep 4, MemPoolParams<8>)
template<class TItem, bool tLin, bool tMulti>
struct SetCfDefault {
	typedef TItem Item;
	typedef momo::TreeNodeDefault TN;
	typedef momo::TreeTraits<Item, tMulti, TN, tLin> Traits;
	typedef momo::TreeSet<Item, Traits> Cont;
	typedef Cont Set;
	static const bool isMap = false, multi = tMulti, lin = tLin, cont = TN::isContinuous, defaultNode = true;
	static const size_t cap = TN::maxCapacity, step = (TN::capacityStep > 0 ? TN::capacityStep : TN::maxCapacity), blocks = TN::MemPoolParams::blockCount, cached = 0;
	static Set& set(Cont& c) { return c; }
	static const Set& set(const Cont& c) { return c; }
};

// TreeTraitsStd holds the comparison object: a non-empty traits class, binary search
template<class TItem, size_t tCap, size_t tStep, size_t tBlocks, size_t tCached, bool tCont, bool tMulti>
struct SetCfStd {
	typedef TItem Item;
	typedef momo::TreeNode<tCap, tStep, momo::MemPoolParams<tBlocks, tCached>, tCont> TN;
	typedef momo::TreeTraitsStd<Item, std::less<Item>, tMulti, TN> Traits;
	typedef momo::TreeSet<Item, Traits> Cont;
	typedef Cont Set;
	static const bool isMap = false, multi = tMulti, lin = Traits::useLinearSearch, cont = tCont, defaultNode = false;
	static const size_t cap = tCap, step = (tStep > 0 ? tStep : tCap), blocks = tBlocks, cached = tCached;
	static Set& set(Cont& c) { return c; }
	static const Set& set(const Cont& c) { return c; }
};

// uniform access to sets and maps
template<class Cf, bool isMap = Cf::isMap> struct Api;

template<class Cf> struct Api<Cf, false> {
	typedef typename Cf::Cont Cont;
	typedef typename Cf::Item Item;
	typedef typename Cont::ConstIterator It;
	typedef typename Cont::ExtractedItem Ext;
	static int key(It it) { return it->k; }
	static int id(It it) { return it->id; }
	static std::pair<It, bool> insert(Cont& c, int k, int id, bool byCopy) {
		if (byCopy) { Item x(k, id); auto r = c.Insert(x); return { r.position, r.inserted }; }
		auto r = c.Insert(Item(k, id)); return { r.position, r.inserted };
	}
	static It add(Cont& c, It hint, int k, int id) { return c.Add(hint, Item(k, id)); }
	// AddCrt<Creator, extraCheck = false>: the position is not compared with the neighbours (hints that break the order)
	static It addRaw(Cont& c, It hint, int k, int id) {
		typedef typename Cont::template Creator<Item&&> Crt;
		return c.template AddCrt<Crt, false>(hint, Crt(c.GetMemManager(), Item(k, id)));
	}
	static size_t insertRange(Cont& c, const std::vector<KI>& v) {
		std::vector<Item> items; for (auto& x : v) items.push_back(Item(x.first, x.second));
		return c.Insert(items.begin(), items.end());
	}
	static It lower(const Cont& c, int k) { return c.GetLowerBound(Item(k, 0)); }
	static It upper(const Cont& c, int k) { return c.GetUpperBound(Item(k, 0)); }
	static It find(const Cont& c, int k) { return c.Find(Item(k, 0)); }
	static bool contains(const Cont& c, int k) { return c.ContainsKey(Item(k, 0)); }
	static size_t keyCount(const Cont& c, int k) { return c.GetKeyCount(Item(k, 0)); }
	// the same five lookups with an argument that is not the key type (template<KeyArg> overloads)
	static const bool het = Cf::Traits::template IsValidKeyArg<Probe>::value;
	static bool boundsHet(const Cont& c, int k, It& lb, It& ub, It& fi, bool& has, size_t& kc) {
		if constexpr (het) {
			Probe p{ k };
			lb = c.GetLowerBound(p); ub = c.GetUpperBound(p); fi = c.Find(p); has = c.ContainsKey(p); kc = c.GetKeyCount(p);
			return true;
		}
		else { (void)c; (void)k; (void)lb; (void)ub; (void)fi; (void)has; (void)kc; return false; }
	}
	static long initList(Cont&, const std::vector<KI>&) { return -1; }
	static size_t removeKey(Cont& c, int k) { return c.Remove(Item(k, 0)); }
	static size_t removePred(Cont& c, int m, int r) { return c.Remove([m, r] (const Item& x) { return x.k % m == r; }); }
	static KI extItem(const Ext& e) { return KI(e.GetItem().k, e.GetItem().id); }
	static std::pair<It, bool> insertExt(Cont& c, Ext&& e) { auto r = c.Insert(std::move(e)); return { r.position, r.inserted }; }
	static It addExt(Cont& c, It hint, Ext&& e) { return c.Add(hint, std::move(e)); }
	static void resetKey(Cont& c, It it, int k) { c.ResetKey(it, Item(k, it->id)); }
	static void mergeTo(Cont& src, Cont& dst) { src.MergeTo(dst); }
	template<class I> static auto rawNode(I it) -> decltype(it.mNode) { return it.mNode; }
	template<class I> static size_t rawIndex(I it) { return it.mItemIndex; }
};

template<class Cf> struct Api<Cf, true> {
	typedef typename Cf::Cont Cont;
	typedef typename Cf::Key Key;
	typedef typename Cf::Val Val;
	typedef KeyCodec<Key> KC;
	typedef typename Cont::ConstIterator It;
	typedef typename Cont::ExtractedPair Ext;
	static int key(It it) { return KC::k(it->key); }
	static int id(It it) {
		// the key object stored in the map carries the same id as the value and its payload
		if (!KC::intact(it->key, it->value.id) && g_apiFail.empty())
			g_apiFail = fmt("map key object damaged: key %d stored next to value id %d", KC::k(it->key), it->value.id);
		return it->value.id;
	}
	// after a call that received the key: moved-from exactly when it was passed as rvalue, is movable, and was inserted
	static void checkArg(const char* what, unsigned var, const Key& arg, int k, int id, bool rvalue, bool inserted) {
		int st = KC::argState(arg, k, id);
		if (st < 0) return;
		int exp = (rvalue && inserted && KC::movable) ? 1 : 0;
		if (st != exp && g_apiFail.empty())
			g_apiFail = fmt("%s spelling %u: key argument %d:%d is %s after the call (passed as %s, inserted %d)", what, var, k, id,
				st == 0 ? "intact" : st == 1 ? "moved-from" : "damaged", rvalue ? "rvalue" : "lvalue", inserted ? 1 : 0);
	}
	static std::pair<It, bool> insert(Cont& c, int k, int id, bool byCopy) {
		if constexpr (!Cf::rich) {
			if (byCopy) { Val v(id); auto r = c.Insert(k, v); return { It(r.position), r.inserted }; }
			auto r = c.Insert(k, Val(id)); return { It(r.position), r.inserted };
		}
		else {
			typedef typename Cont::template ValueCreator<Val&&> CrtR;
			typedef typename Cont::template ValueCreator<const Val&> CrtC;
			Key key = KC::make(k, id); const Key& ckey = key; Val val(id); const Val& cval = val;
			unsigned var = byCopy ? 4 + (unsigned)id % 3 : (unsigned)id % 4;
			typename Cont::InsertResult r;
			switch (var) {
			case 0: r = c.Insert(std::move(key), std::move(val)); break;	// Insert(Key&&, Value&&)
			case 1: r = c.Insert(std::move(key), cval); break;	// Insert(Key&&, const Value&)
			case 2: r = c.InsertCrt(std::move(key), CrtR(c.GetMemManager(), std::move(val))); break;	// InsertCrt(Key&&, ValueCreator&&)
			case 3: r = c.InsertVar(std::move(key), id); break;	// InsertVar(Key&&, ValueArgs&&...)
			case 4: r = c.Insert(ckey, std::move(val)); break;	// Insert(const Key&, Value&&)
			case 5: r = c.Insert(ckey, cval); break;	// Insert(const Key&, const Value&)
			default: r = c.InsertCrt(ckey, CrtC(c.GetMemManager(), cval)); break;	// InsertCrt(const Key&, ValueCreator&&)
			}
			g_apiCount[fmt("insert.spelling_%u", var)]++;
			checkArg("insert", var, key, k, id, var < 4, r.inserted);
			return { It(r.position), r.inserted };
		}
	}
	static It add(Cont& c, It hint, int k, int id) {
		if constexpr (!Cf::rich) return c.Add(hint, k, Val(id));
		else {
			typedef typename Cont::template ValueCreator<Val&&> CrtR;
			Key key = KC::make(k, id); const Key& ckey = key; Val val(id); const Val& cval = val;
			unsigned var = (unsigned)id % 7;
			It res;
			switch (var) {
			case 0: res = c.Add(hint, std::move(key), std::move(val)); break;	// Add(iter, Key&&, Value&&)
			case 1: res = c.Add(hint, std::move(key), cval); break;	// Add(iter, Key&&, const Value&)
			case 2: res = c.AddVar(hint, std::move(key), id); break;	// AddVar(iter, Key&&, ValueArgs&&...)
			case 3: {	// AddCrt(iter, PairCreator&&): the creator builds key and value in place
				auto pairCreator = [k, id] (Key* newKey, Val* newVal) {
					::new(static_cast<void*>(newKey)) Key(KC::make(k, id));
					::new(static_cast<void*>(newVal)) Val(id);
				};
				res = c.AddCrt(hint, pairCreator); break; }
			case 4: res = c.AddCrt(hint, std::move(key), CrtR(c.GetMemManager(), std::move(val))); break;	// AddCrt(iter, Key&&, ValueCreator&&)
			case 5: res = c.Add(hint, ckey, std::move(val)); break;	// Add(iter, const Key&, Value&&)
			default: res = c.Add(hint, ckey, cval); break;	// Add(iter, const Key&, const Value&)
			}
			g_apiCount[fmt("add.spelling_%u", var)]++;
			checkArg("hinted add", var, key, k, id, var != 3 && var < 5, true);
			return res;
		}
	}
	// extraCheck = false: the position is not compared with the neighbours (hints that break the order)
	static It addRaw(Cont& c, It hint, int k, int id) {
		typedef typename Cont::template ValueCreator<Val&&> Crt;
		if constexpr (Cf::rich) {
			if (id % 2 == 0) {
				auto pairCreator = [k, id] (Key* newKey, Val* newVal) {
					::new(static_cast<void*>(newKey)) Key(KC::make(k, id));
					::new(static_cast<void*>(newVal)) Val(id);
				};
				return c.template AddCrt<decltype(pairCreator)&, false>(hint, pairCreator);
			}
		}
		Key key = KC::make(k, id);
		return c.template AddCrt<Crt, false>(hint, static_cast<const Key&>(key), Crt(c.GetMemManager(), Val(id)));
	}
	static size_t insertRange(Cont& c, const std::vector<KI>& v) {
		std::vector<std::pair<Key, Val>> items; for (auto& x : v) items.push_back(std::pair<Key, Val>(KC::make(x.first, x.second), Val(x.second)));
		return c.Insert(items.begin(), items.end());
	}
	// TreeMap(std::initializer_list<Pair>): a new container from 1..6 pairs, swapped into the (null-root) slot
	static long initList(Cont& c, const std::vector<KI>& v) {
		if constexpr (!Cf::rich) { (void)c; (void)v; return -1; }
		else {
		typedef std::pair<Key, Val> P;
		auto p = [&v] (size_t i) { return P(KC::make(v[i].first, v[i].second), Val(v[i].second)); };
		auto build = [&c] (std::initializer_list<P> il) { Cont t(il); long n = (long)t.GetCount(); c.Swap(t); return n; };
		switch (v.size()) {
		case 1: return build({ p(0) });
		case 2: return build({ p(0), p(1) });
		case 3: return build({ p(0), p(1), p(2) });
		case 4: return build({ p(0), p(1), p(2), p(3) });
		case 5: return build({ p(0), p(1), p(2), p(3), p(4) });
		case 6: return build({ p(0), p(1), p(2), p(3), p(4), p(5) });
		default: return -1;
		}
		}
	}
	static It lower(const Cont& c, int k) { return c.GetLowerBound(KC::make(k, 0)); }
	static It upper(const Cont& c, int k) { return c.GetUpperBound(KC::make(k, 0)); }
	static It find(const Cont& c, int k) { return c.Find(KC::make(k, 0)); }
	static bool contains(const Cont& c, int k) { return c.ContainsKey(KC::make(k, 0)); }
	static size_t keyCount(const Cont& c, int k) { return c.GetKeyCount(KC::make(k, 0)); }
	// the same five lookups with an argument that is not the key type; const and non-const overloads must agree
	static const bool het = Cf::Traits::template IsValidKeyArg<Probe>::value;
	static bool boundsHet(const Cont& c, int k, It& lb, It& ub, It& fi, bool& has, size_t& kc) {
		if constexpr (het) {
			Probe p{ k };
			lb = c.GetLowerBound(p); ub = c.GetUpperBound(p); fi = c.Find(p); has = c.ContainsKey(p); kc = c.GetKeyCount(p);
			Cont& m = const_cast<Cont&>(c);
			typename Cont::Iterator mlb = m.GetLowerBound(p), mub = m.GetUpperBound(p), mfi = m.Find(p);
			if (!(It(mlb) == lb && It(mub) == ub && It(mfi) == fi) && g_apiFail.empty())
				g_apiFail = fmt("heterogeneous lookup of key %d: the non-const overloads return other positions than the const ones", k);
			return true;
		}
		else { (void)c; (void)k; (void)lb; (void)ub; (void)fi; (void)has; (void)kc; return false; }
	}
	static size_t removeKey(Cont& c, int k) { return c.Remove(KC::make(k, 0)); }
	static size_t removePred(Cont& c, int m, int r) { return c.Remove([m, r] (const Key& key, const Val&) { return KC::k(key) % m == r; }); }
	static KI extItem(const Ext& e) { return KI(KC::k(e.GetKey()), e.GetValue().id); }
	static std::pair<It, bool> insertExt(Cont& c, Ext&& e) { auto r = c.Insert(std::move(e)); return { It(r.position), r.inserted }; }
	static It addExt(Cont& c, It hint, Ext&& e) { return c.Add(hint, std::move(e)); }
	static void resetKey(Cont& c, It it, int k) {
		Key key = KC::make(k, it->value.id);
		if constexpr (Cf::rich) { if (k % 2 == 0) { c.ResetKey(it, std::move(key)); return; } }
		c.ResetKey(it, key);
	}
	static void mergeTo(Cont& src, Cont& dst) { dst.MergeFrom(src); }
	template<class I> static auto rawNode(I it) -> decltype(it.mTreeSetIterator.mNode) { return it.mTreeSetIterator.mNode; }
	template<class I> static size_t rawIndex(I it) { return it.mTreeSetIterator.mItemIndex; }
};

// destination adapter for the generic MergeTo<Set>: forwards to the real TreeSet::InsertCrt and logs the order of arrival
template<class Set>
struct LogDst {
	typedef typename Set::Key Key;
	typedef typename Set::Item Item;
	Set& set; std::vector<KI>* log;
	template<class Creator>
	typename Set::InsertResult InsertCrt(const Key& key, Creator&& cr) {
		if (log) log->push_back(KI(key.k, key.id));
		return set.template InsertCrt<Creator, false>(key, std::forward<Creator>(cr));
	}
};
template<class Set>
struct FwdDst {	// same without looking into the key (map keys are plain ints)
	typedef typename Set::Key Key;
	typedef typename Set::Item Item;
	Set& set;
	template<class Creator>
	typename Set::InsertResult InsertCrt(const Key& key, Creator&& cr) {
		return set.template InsertCrt<Creator, false>(key, std::forward<Creator>(cr));
	}
};

// ------------------------------------------------------------------ type-erased access to one configuration

struct ShapeInfo { std::string text; size_t nodes = 0, height = 0, emptyLeaves = 0, emptyInner = 0, maxLeafCap = 0, minLeafCap = 999; };

template<class Node>
static void shapeRec(Node* n, ShapeInfo& si, size_t depth)
{
	if (!si.text.empty()) si.text += ' ';
	si.text += fmt("%c%zu/%zu", n->IsLeaf() ? 'L' : 'I', n->GetCount(), n->GetCapacity());
	++si.nodes;
	si.height = std::max(si.height, depth);
	if (n->IsLeaf()) {
		if (n->GetCount() == 0) ++si.emptyLeaves;
		si.maxLeafCap = std::max(si.maxLeafCap, n->GetCapacity()); si.minLeafCap = std::min(si.minLeafCap, n->GetCapacity());
	}
	else {
		if (n->GetCount() == 0) ++si.emptyInner;
		for (size_t i = 0; i <= n->GetCount(); ++i) shapeRec(n->GetChild(i), si, depth + 1);
	}
}

// classification of the element an iterator points to (which removal path it takes)
enum IterClass { icLeaf = 0, icInternal = 1, icInternalPredFromInternal = 2, icInternalEmptyLeft = 3, icInternalEmptyLeftRootLast = 4 };

struct Box {
	size_t cap = 0, step = 0, blocks = 0; bool lin = false, multi = false, isMap = false, contRequested = false, contActual = false;
	bool defaultNode = false;	// TreeNode<> with its default arguments: the model takes them from Momo.Extracted
	bool statefulTraits = false;	// non-empty TreeTraits class: MergeTo(TreeSet&) always takes the generic path
	bool initListAvail = false;	// maps that use every spelling of the operations
	virtual ~Box() {}
	virtual size_t count(int sl) = 0;
	virtual bool traverse(int sl, std::vector<KI>& fwd, std::vector<KI>& bwd, size_t limit) = 0;
	virtual ShapeInfo shape(int sl) = 0;
	virtual void bounds(int sl, int k, size_t& lb, size_t& ub, size_t& fi, bool& has, size_t& kc) = 0;
	virtual bool boundsHet(int sl, int k, size_t& lb, size_t& ub, size_t& fi, bool& has, size_t& kc) = 0;	// false: the traits have no heterogeneous lookup
	virtual long initList(int sl, const std::vector<KI>& v) = 0;	// -1: not available
	virtual bool traitsOk(int sl) = 0;
	virtual size_t insert(int sl, int k, int id, bool byCopy, bool& inserted) = 0;
	virtual size_t add(int sl, size_t hint, int k, int id, bool& hintInternal) = 0;
	virtual size_t addRaw(int sl, size_t hint, int k, int id) = 0;
	virtual size_t insertRange(int sl, const std::vector<KI>& v) = 0;
	virtual size_t removeKey(int sl, int k) = 0;
	virtual size_t removeIdx(int sl, size_t i, int& cls) = 0;
	virtual size_t removeRange(int sl, size_t i, size_t j, bool& sameLeaf) = 0;
	virtual size_t removePred(int sl, int m, int r) = 0;
	virtual size_t extract(int sl, size_t i, KI& item, int& cls) = 0;
	virtual size_t reinsert(int sl, bool& inserted, bool& holderEmpty) = 0;
	virtual size_t addExt(int sl, size_t hint, bool& holderEmpty) = 0;
	virtual void dropExt() = 0;
	virtual void resetKey(int sl, size_t i, int k) = 0;
	virtual void merge(int a, int b) = 0;
	virtual void mergeGeneric(int a, int b) = 0;
	virtual bool mergeFromHash(int b, const std::vector<KI>& items, std::vector<KI>& log, size_t& left) = 0;
	virtual void copy(int a, int b, bool assign) = 0;
	virtual void move(int a, int b) = 0;
	virtual void swap(int a, int b) = 0;
	virtual void clear(int sl) = 0;
};

template<class Cf, bool isMap = Cf::isMap> struct RichOf { static const bool value = false; };
template<class Cf> struct RichOf<Cf, true> { static const bool value = Cf::rich; };

template<class Cf, bool isMap = Cf::isMap> struct HashMerge;
template<class Cf> struct HashMerge<Cf, false> {
	static bool run(typename Cf::Set& dstSet, const std::vector<KI>& items, std::vector<KI>& log, size_t& left) {
		typedef typename Cf::Item Item;
		momo::HashSet<Item, momo::HashTraitsStd<Item, KHash<Item>, KEq<Item>>> hs;
		for (auto& x : items) hs.Insert(Item(x.first, x.second));
		LogDst<typename Cf::Set> dst{ dstSet, &log };
		hs.MergeTo(dst);
		left = hs.GetCount();
		return true;
	}
};
template<class Cf> struct HashMerge<Cf, true> {
	static bool run(typename Cf::Set&, const std::vector<KI>&, std::vector<KI>&, size_t&) { return false; }
};

template<class Cf>
struct BoxT : Box {
	typedef typename Cf::Cont Cont;
	typedef Api<Cf> A;
	typedef typename A::It It;
	typedef typename A::Ext Ext;
	typedef typename Cf::Set Set;
	typedef ContFactory<Cf> F;
	Cont slots[4];
	Ext holder;

	BoxT() : slots{ F::make(), F::make(), F::make(), F::make() } {
		cap = Cf::cap; step = Cf::step; blocks = Cf::blocks; lin = Cf::lin; multi = Cf::multi; isMap = Cf::isMap;
		contRequested = Cf::cont; contActual = Set::Node::isContinuous;
		defaultNode = Cf::defaultNode; statefulTraits = !std::is_empty<typename Cf::Traits>::value;
		initListAvail = RichOf<Cf>::value;
		if (cap != Set::Node::maxCapacity || step != Set::Node::capacityStep) abort();
	}
	size_t indexOf(int sl, It it) { return (size_t)std::distance(It(slots[sl].GetBegin()), it); }
	It iterAt(int sl, size_t i) { return std::next(It(slots[sl].GetBegin()), (ptrdiff_t)i); }
	int classify(int sl, It it) {
		auto* node = A::rawNode(it);
		if (node->IsLeaf()) return icLeaf;
		auto* ch = node->GetChild(A::rawIndex(it));
		while (!ch->IsLeaf()) ch = ch->GetChild(ch->GetCount());
		for (auto* p = ch; p != node; p = p->GetParent())
			if (p->GetCount() > 0) return p->IsLeaf() ? icInternal : icInternalPredFromInternal;
		return (node == Cf::set(slots[sl]).mRootNode && node->GetCount() == 1) ? icInternalEmptyLeftRootLast : icInternalEmptyLeft;
	}

	size_t count(int sl) override { return slots[sl].GetCount(); }
	bool traverse(int sl, std::vector<KI>& fwd, std::vector<KI>& bwd, size_t limit) override {
		Cont& t = slots[sl]; bool ok = true;
		for (It it = t.GetBegin(); !(it == It(t.GetEnd())); ++it) { fwd.push_back(KI(A::key(it), A::id(it))); if (fwd.size() > limit) { ok = false; break; } }
		for (It it = t.GetEnd(); !(it == It(t.GetBegin())); ) { --it; bwd.push_back(KI(A::key(it), A::id(it))); if (bwd.size() > limit) { ok = false; break; } }
		return ok;
	}
	ShapeInfo shape(int sl) override {
		ShapeInfo si; auto* root = Cf::set(slots[sl]).mRootNode;
		if (!root) { si.text = "null"; si.minLeafCap = 0; return si; }
		shapeRec(root, si, 1); return si;
	}
	void bounds(int sl, int k, size_t& lb, size_t& ub, size_t& fi, bool& has, size_t& kc) override {
		const Cont& t = slots[sl];
		lb = indexOf(sl, A::lower(t, k)); ub = indexOf(sl, A::upper(t, k)); fi = indexOf(sl, A::find(t, k));
		has = A::contains(t, k); kc = A::keyCount(t, k);
	}
	bool boundsHet(int sl, int k, size_t& lb, size_t& ub, size_t& fi, bool& has, size_t& kc) override {
		const Cont& t = slots[sl]; It l, u, f;
		if (!A::boundsHet(t, k, l, u, f, has, kc)) return false;
		lb = indexOf(sl, l); ub = indexOf(sl, u); fi = indexOf(sl, f);
		return true;
	}
	long initList(int sl, const std::vector<KI>& v) override { return A::initList(slots[sl], v); }
	bool traitsOk(int sl) override { return F::traitsOk(slots[sl]); }
	size_t insert(int sl, int k, int id, bool byCopy, bool& inserted) override {
		auto res = A::insert(slots[sl], k, id, byCopy); inserted = res.second; return indexOf(sl, res.first);
	}
	size_t add(int sl, size_t hint, int k, int id, bool& hintInternal) override {
		It h = iterAt(sl, hint);
		hintInternal = Cf::set(slots[sl]).mRootNode && !A::rawNode(h)->IsLeaf();
		return indexOf(sl, A::add(slots[sl], h, k, id));
	}
	size_t addRaw(int sl, size_t hint, int k, int id) override { return indexOf(sl, A::addRaw(slots[sl], iterAt(sl, hint), k, id)); }
	size_t insertRange(int sl, const std::vector<KI>& v) override { return A::insertRange(slots[sl], v); }
	size_t removeKey(int sl, int k) override { return A::removeKey(slots[sl], k); }
	size_t removeIdx(int sl, size_t i, int& cls) override {
		It it = iterAt(sl, i); cls = classify(sl, it);
		return indexOf(sl, It(slots[sl].Remove(it)));
	}
	size_t removeRange(int sl, size_t i, size_t j, bool& sameLeaf) override {
		It bi = iterAt(sl, i), ei = iterAt(sl, j);
		sameLeaf = false;
		if (j > i) { It pe = std::prev(ei); sameLeaf = A::rawNode(bi) == A::rawNode(pe) && A::rawNode(bi)->IsLeaf(); }
		return indexOf(sl, It(slots[sl].Remove(bi, ei)));
	}
	size_t removePred(int sl, int m, int r) override { return A::removePred(slots[sl], m, r); }
	size_t extract(int sl, size_t i, KI& item, int& cls) override {
		It it = iterAt(sl, i); cls = classify(sl, it);
		size_t pos = indexOf(sl, It(slots[sl].Remove(it, holder)));
		item = A::extItem(holder);
		return pos;
	}
	size_t reinsert(int sl, bool& inserted, bool& holderEmpty) override {
		auto res = A::insertExt(slots[sl], std::move(holder)); inserted = res.second; holderEmpty = holder.IsEmpty();
		return indexOf(sl, res.first);
	}
	size_t addExt(int sl, size_t hint, bool& holderEmpty) override {
		It res = A::addExt(slots[sl], iterAt(sl, hint), std::move(holder)); holderEmpty = holder.IsEmpty();
		return indexOf(sl, res);
	}
	void dropExt() override { holder.Clear(); }
	void resetKey(int sl, size_t i, int k) override { A::resetKey(slots[sl], iterAt(sl, i), k); }
	void merge(int a, int b) override { A::mergeTo(slots[a], slots[b]); }
	void mergeGeneric(int a, int b) override { FwdDst<Set> dst{ Cf::set(slots[b]) }; Cf::set(slots[a]).MergeTo(dst); }
	bool mergeFromHash(int b, const std::vector<KI>& items, std::vector<KI>& log, size_t& left) override {
		return HashMerge<Cf>::run(Cf::set(slots[b]), items, log, left);
	}
	void copy(int a, int b, bool assign) override {
		if (assign) slots[b] = slots[a];	// copy assignment = copy construction + Swap
		else { Cont tmp(slots[a]); slots[b].Swap(tmp); }
	}
	void move(int a, int b) override { slots[b] = std::move(slots[a]); }
	void swap(int a, int b) override { slots[a].Swap(slots[b]); }
	void clear(int sl) override { slots[sl].Clear(); }
};

// ------------------------------------------------------------------ the runner (configuration independent)

struct Runner {
	Ctx& c; Box& box; Rng rng; std::string name; Suite s;
	Ref ref[4];
	bool holderFull = false; KI holderItem;
	bool husk[4] = { false, false, false, false };	// moved-from containers (no crew: GetTreeTraits() must not be called) and containers with default traits
	int nextId = 1;
	std::deque<std::string> recent;
	uint64_t opNo = 0;
	size_t bigLimit = 48;	// above this size traversals are written only every 8th operation

	static std::string modelLine(Box& b) {
		if (b.defaultNode) return fmt("model btree cap=default lin=%d multi=%d", b.lin ? 1 : 0, b.multi ? 1 : 0);
		return fmt("model btree cap=%zu step=%zu bg1=%d lin=%d multi=%d", b.cap, b.step, b.blocks > 1 ? 1 : 0, b.lin ? 1 : 0, b.multi ? 1 : 0);
	}

	Runner(Ctx& c_, Box& box_, const std::string& name_, uint64_t salt)
		: c(c_), box(box_), rng(c_.seed * 0x1000 + 2 + salt * 0x100000), name(name_), s(c_, name_, modelLine(box_)) {
		c.stats.count(std::string("layout.") + (box.contActual ? "continuous" : "indexed"));
		if (box.contRequested && !box.contActual) c.stats.count("layout.forced_indexed_by_item_category");
		c.stats.count(box.lin ? "search.linear" : "search.binary");
		c.stats.count(box.multi ? "keys.multi" : "keys.unique");
		c.stats.count(box.isMap ? "container.TreeMap" : "container.TreeSet");
		c.stats.count(fmt("capacity.%zu", box.cap));
	}

	// ---- helpers
	void op(const std::string& line) { s.op(line); recent.push_back(line); if (recent.size() > 14) recent.pop_front(); ++opNo; c.stats.evaluations++; }
	std::string seqText(const std::vector<KI>& v) { std::string t; for (auto& x : v) t += fmt(t.empty() ? "%d:%d" : " %d:%d", x.first, x.second); return t.empty() ? "-" : t; }
	std::string refText(int sl) { std::string t; for (auto& x : ref[sl]) t += fmt("%d:%d ", x.first, x.second); return t.empty() ? "-" : t; }
	std::string context(int sl) {
		std::string t = "cfg=" + name + " seed=" + std::to_string(c.seed) + " op#" + std::to_string(opNo) + " last ops: ";
		for (auto& r : recent) t += "[" + r + "] ";
		t += " oracle sequence of slot " + std::to_string(sl) + ": " + refText(sl);
		return t;
	}
	size_t refIndex(int sl, Ref::iterator it) { return (size_t)std::distance(ref[sl].begin(), it); }
	Ref::iterator refAt(int sl, size_t i) { return std::next(ref[sl].begin(), (ptrdiff_t)i); }

	// what the typed layer noticed during the last calls (key argument consumed / not consumed, stored key object
	// damaged, const and non-const overloads disagree)
	void apiFindings(int sl) {
		if (g_apiFail.empty()) return;
		c.fail("C02 %s; %s", g_apiFail.c_str(), context(sl).c_str());
		g_apiFail.clear();
	}

	// model-level lines + property-level comparison of the whole state of a slot
	void dump(int sl, bool force = false) {
		Ref& r = ref[sl];
		ShapeInfo si = box.shape(sl);
		op(fmt("shape %d", sl)); s.res(si.text);
		if (si.emptyLeaves) c.stats.count("state.with_empty_leaf");
		if (si.emptyInner) c.stats.count("state.with_empty_internal_node");
		c.stats.counters["height.max"] = std::max<uint64_t>(c.stats.counters["height.max"], si.height);
		c.stats.count(fmt("height.%02zu", si.height));
		if (box.count(sl) != r.size()) c.fail("C02 count: GetCount()=%zu, reference has %zu; %s", box.count(sl), r.size(), context(sl).c_str());
		std::vector<KI> fwd, bwd;
		bool ok = box.traverse(sl, fwd, bwd, r.size() + 2);
		apiFindings(sl);
		if (!husk[sl] && !box.traitsOk(sl)) c.fail("C02 traits object: GetTreeTraits().GetLessFunc() of slot %d lost its state; %s", sl, context(sl).c_str());
		std::vector<KI> expF(r.begin(), r.end()), expB(r.rbegin(), r.rend());
		if (!ok || fwd != expF) c.fail("C02 forward traversal: got [%s]; %s", seqText(fwd).c_str(), context(sl).c_str());
		if (!ok || bwd != expB) c.fail("C02 backward traversal: got [%s]; %s", seqText(bwd).c_str(), context(sl).c_str());
		if (force || r.size() <= bigLimit || opNo % 8 == 0) {
			op(fmt("fwd %d", sl)); s.res(seqText(fwd));
			op(fmt("bwd %d", sl)); s.res(seqText(bwd));
		}
	}

	void query(int sl, int k) {
		Ref& r = ref[sl];
		size_t lb, ub, fi, kc; bool has;
		box.bounds(sl, k, lb, ub, fi, has, kc);
		// the same lookups with an argument of another type (template<KeyArg> overloads); every other `q` line carries
		// their answer to the model, both answers are compared with the reference
		size_t hlb = 0, hub = 0, hfi = 0, hkc = 0; bool hhas = false;
		bool het = box.boundsHet(sl, k, hlb, hub, hfi, hhas, hkc);
		bool useHet = het && (opNo & 1);
		op(fmt("q %d %d", sl, k));
		if (useHet) s.res(fmt("lb=%zu ub=%zu find=%zu has=%d kc=%zu", hlb, hub, hfi, hhas ? 1 : 0, hkc));
		else s.res(fmt("lb=%zu ub=%zu find=%zu has=%d kc=%zu", lb, ub, fi, has ? 1 : 0, kc));
		size_t elb = refIndex(sl, r.lower_bound(KI(k, 0))), eub = refIndex(sl, r.upper_bound(KI(k, 0)));
		size_t ekc = eub - elb;
		if (lb != elb || ub != eub || kc != ekc || has != (ekc > 0) || fi != (ekc > 0 ? elb : r.size()))
			c.fail("C02 bounds: key %d lower=%zu upper=%zu find=%zu contains=%d keyCount=%zu, reference lower=%zu upper=%zu count=%zu; %s",
				k, lb, ub, fi, has ? 1 : 0, kc, elb, eub, ekc, context(sl).c_str());
		if (het) {
			c.stats.count("query.heterogeneous_argument");
			if (ekc == 0) c.stats.count(r.empty() ? "query.heterogeneous.empty_container" : elb == 0 ? "query.heterogeneous.absent_below_first" : elb == r.size() ? "query.heterogeneous.absent_above_last" : "query.heterogeneous.absent_inside");
			else c.stats.count(ekc > 1 ? "query.heterogeneous.present_run_of_equal_keys" : "query.heterogeneous.present");
			if (hlb != elb || hub != eub || hkc != ekc || hhas != (ekc > 0) || hfi != (ekc > 0 ? elb : r.size()))
				c.fail("C02 heterogeneous bounds (argument type Probe): key %d lower=%zu upper=%zu find=%zu contains=%d keyCount=%zu, reference lower=%zu upper=%zu count=%zu; %s",
					k, hlb, hub, hfi, hhas ? 1 : 0, hkc, elb, eub, ekc, context(sl).c_str());
		}
		apiFindings(sl);
	}
	void queries(int sl, int around) {
		query(sl, around);
		int maxKey = ref[sl].empty() ? 10 : ref[sl].rbegin()->first + 2;
		query(sl, (int)rng.below((uint64_t)maxKey + 1));
	}
	void queryAll(int sl) {
		int maxKey = ref[sl].empty() ? 3 : ref[sl].rbegin()->first + 2;
		int stepK = maxKey > 120 ? maxKey / 60 : 1;
		for (int k = 0; k <= maxKey; k += stepK) query(sl, k);
		c.stats.count("op.query_all_keys");
	}

	void noteStructure(const char* opName, const ShapeInfo& before, const ShapeInfo& after) {
		c.stats.count(std::string("op.") + opName);
		bool structural = before.nodes != after.nodes || before.height != after.height;
		if (after.height > before.height) c.stats.count("event.height_grew");
		if (after.height < before.height && after.height > 0) c.stats.count("event.root_collapsed");
		if (after.nodes > before.nodes) c.stats.count("event.node_split");
		if (after.nodes < before.nodes && after.nodes > 0) c.stats.count("event.nodes_merged_or_destroyed");
		if (after.nodes == before.nodes && after.text != before.text && after.maxLeafCap != before.maxLeafCap) c.stats.count("event.leaf_capacity_changed");
		if (structural || after.emptyLeaves || after.emptyInner)
			c.stats.nontrivial(fmt("%s|%s|h%zu>%zu|n%zu>%zu|e%zu,%zu", name.c_str(), opName, before.height, after.height,
				before.nodes, after.nodes, after.emptyLeaves > 0 ? (size_t)1 : 0, after.emptyInner > 0 ? (size_t)1 : 0));
	}
	void noteClass(const char* what, int cls) {
		static const char* names[] = { ".leaf_item", ".internal_item", ".internal_item_pred_from_internal_node", ".internal_item_empty_left_subtree", ".internal_root_loses_last_item_empty_left" };
		c.stats.count(std::string(what) + names[cls]);
	}

	// ---- operations (each: run on the implementation, write model lines, compare with the oracle)

	void opInsert(int sl, int k) {
		Ref& r = ref[sl];
		int id = nextId++;
		ShapeInfo b = box.shape(sl);
		bool ins; size_t pos = box.insert(sl, k, id, rng.chance(1, 3), ins);
		op(fmt("ins %d %d %d", sl, k, id)); s.res(fmt("pos=%zu ins=%d n=%zu", pos, ins ? 1 : 0, box.count(sl)));
		bool present = r.find(KI(k, 0)) != r.end();
		bool expIns = box.multi || !present;
		size_t expPos = expIns ? refIndex(sl, r.insert(KI(k, id))) : refIndex(sl, r.find(KI(k, 0)));
		if (ins != expIns || pos != expPos)
			c.fail("C02 insert: key %d id %d returned (index %zu, inserted %d), reference (index %zu, inserted %d); %s", k, id, pos, ins ? 1 : 0, expPos, expIns ? 1 : 0, context(sl).c_str());
		noteStructure("insert", b, box.shape(sl));
		dump(sl); queries(sl, k);
	}

	// hinted add with a valid hint chosen among all legal positions for the key
	void opAdd(int sl, int k) {
		Ref& r = ref[sl];
		size_t lo = refIndex(sl, r.lower_bound(KI(k, 0))), hi = refIndex(sl, r.upper_bound(KI(k, 0)));
		if (!box.multi && lo != hi) { opInsert(sl, k); return; }
		size_t h = (size_t)rng.range(lo, hi);
		int id = nextId++;
		ShapeInfo b = box.shape(sl);
		bool hintInternal; size_t pos = box.add(sl, h, k, id, hintInternal);
		c.stats.count(hintInternal ? "add.hint_in_internal_node" : "add.hint_in_leaf");
		op(fmt("add %d %zu %d %d", sl, h, k, id)); s.res(fmt("pos=%zu n=%zu", pos, box.count(sl)));
		size_t expPos = refIndex(sl, r.insert(refAt(sl, h), KI(k, id)));
		if (pos != expPos || expPos != h)
			c.fail("C02 hinted add: key %d id %d at hint index %zu returned index %zu, reference %zu; %s", k, id, h, pos, expPos, context(sl).c_str());
		noteStructure("hinted_add", b, box.shape(sl));
		dump(sl); queries(sl, k);
	}

	void opInsertRange(int sl, const std::vector<int>& keys) {
		Ref& r = ref[sl];
		std::vector<KI> v; std::string line = fmt("insr %d", sl);
		for (int k : keys) { v.push_back(KI(k, nextId++)); line += fmt(" %d:%d", v.back().first, v.back().second); }
		ShapeInfo b = box.shape(sl);
		size_t added = box.insertRange(sl, v);
		op(line); s.res(fmt("added=%zu n=%zu", added, box.count(sl)));
		size_t exp = 0;
		for (auto& x : v) if (box.multi || r.find(x) == r.end()) { r.insert(x); ++exp; }
		if (added != exp) c.fail("C02 range insert: %zu added, reference %zu; %s", added, exp, context(sl).c_str());
		noteStructure("range_insert", b, box.shape(sl));
		dump(sl); if (!keys.empty()) queries(sl, keys[0]);
	}

	void opRemoveKey(int sl, int k) {
		Ref& r = ref[sl];
		ShapeInfo b = box.shape(sl);
		size_t removed = box.removeKey(sl, k);
		op(fmt("remk %d %d", sl, k)); s.res(fmt("removed=%zu n=%zu", removed, box.count(sl)));
		size_t exp = r.erase(KI(k, 0));
		if (removed != exp) c.fail("C02 remove by key: key %d removed %zu, reference %zu; %s", k, removed, exp, context(sl).c_str());
		noteStructure(exp > 1 ? "remove_key_run" : "remove_key", b, box.shape(sl));
		dump(sl); queries(sl, k);
	}

	int keyNear(int sl, size_t i) { Ref& r = ref[sl]; return r.empty() ? 0 : refAt(sl, std::min(i, r.size() - 1))->first; }

	void opRemoveIdx(int sl, size_t i) {
		Ref& r = ref[sl];
		if (i >= r.size()) return;
		ShapeInfo b = box.shape(sl);
		int cls; size_t pos = box.removeIdx(sl, i, cls);
		noteClass("remove_iter", cls);
		op(fmt("remi %d %zu", sl, i)); s.res(fmt("pos=%zu n=%zu", pos, box.count(sl)));
		r.erase(refAt(sl, i));
		if (pos != i) c.fail("C02 remove by iterator: index %zu returned index %zu (must be the same); %s", i, pos, context(sl).c_str());
		noteStructure("remove_iter", b, box.shape(sl));
		dump(sl); queries(sl, keyNear(sl, i));
	}

	void opRemoveRange(int sl, size_t i, size_t j) {
		Ref& r = ref[sl];
		if (j > r.size()) j = r.size();
		if (i > j) i = j;
		ShapeInfo b = box.shape(sl);
		bool sameLeaf; size_t pos = box.removeRange(sl, i, j, sameLeaf);
		c.stats.count(j == i ? "remove_range.empty" : j - i == r.size() ? "remove_range.everything" : sameLeaf ? "remove_range.same_leaf" : "remove_range.general");
		op(fmt("remr %d %zu %zu", sl, i, j)); s.res(fmt("pos=%zu n=%zu", pos, box.count(sl)));
		r.erase(refAt(sl, i), refAt(sl, j));
		if (pos != i) c.fail("C02 remove range: [%zu,%zu) returned index %zu; %s", i, j, pos, context(sl).c_str());
		noteStructure("remove_range", b, box.shape(sl));
		dump(sl); queries(sl, keyNear(sl, i));
	}

	void opRemovePred(int sl, int m, int rem) {
		Ref& r = ref[sl];
		ShapeInfo b = box.shape(sl);
		size_t removed = box.removePred(sl, m, rem);
		op(fmt("remp %d %d %d", sl, m, rem)); s.res(fmt("removed=%zu n=%zu", removed, box.count(sl)));
		size_t exp = 0;
		for (auto it = r.begin(); it != r.end(); ) if (it->first % m == rem) { it = r.erase(it); ++exp; } else ++it;
		if (removed != exp) c.fail("C02 remove by predicate: key %% %d == %d removed %zu, reference %zu; %s", m, rem, removed, exp, context(sl).c_str());
		noteStructure("remove_pred", b, box.shape(sl));
		dump(sl); queries(sl, rem);
	}

	void opExtract(int sl, size_t i) {
		Ref& r = ref[sl];
		if (i >= r.size()) return;
		if (holderFull) opDropExt();
		ShapeInfo b = box.shape(sl);
		KI got; int cls; size_t pos = box.extract(sl, i, got, cls);
		noteClass("extract", cls);
		op(fmt("ext %d %zu", sl, i)); s.res(fmt("pos=%zu item=%d:%d n=%zu", pos, got.first, got.second, box.count(sl)));
		auto ri = refAt(sl, i);
		if (got != *ri || pos != i) c.fail("C02 extract: index %zu gave %d:%d at returned index %zu, reference %d:%d; %s", i, got.first, got.second, pos, ri->first, ri->second, context(sl).c_str());
		holderItem = *ri; holderFull = true; r.erase(ri);
		noteStructure("extract", b, box.shape(sl));
		dump(sl);
	}

	void opReinsert(int sl) {
		if (!holderFull) return;
		Ref& r = ref[sl];
		ShapeInfo b = box.shape(sl);
		bool ins, empty; size_t pos = box.reinsert(sl, ins, empty);
		op(fmt("reins %d", sl)); s.res(fmt("pos=%zu ins=%d n=%zu", pos, ins ? 1 : 0, box.count(sl)));
		bool present = r.find(holderItem) != r.end();
		bool expIns = box.multi || !present;
		size_t expPos = expIns ? refIndex(sl, r.insert(holderItem)) : refIndex(sl, r.find(holderItem));
		if (ins != expIns || pos != expPos || empty != expIns)
			c.fail("C02 re-insert of extracted %d:%d: (index %zu, inserted %d, handle empty %d), reference (index %zu, inserted %d); %s", holderItem.first, holderItem.second,
				pos, ins ? 1 : 0, empty ? 1 : 0, expPos, expIns ? 1 : 0, context(sl).c_str());
		if (expIns) holderFull = false;
		noteStructure("reinsert_extracted", b, box.shape(sl));
		dump(sl); queries(sl, holderItem.first);
	}

	void opAddExt(int sl) {
		if (!holderFull) return;
		Ref& r = ref[sl];
		int k = holderItem.first;
		size_t lo = refIndex(sl, r.lower_bound(KI(k, 0))), hi = refIndex(sl, r.upper_bound(KI(k, 0)));
		if (!box.multi && lo != hi) { opReinsert(sl); return; }
		size_t h = (size_t)rng.range(lo, hi);
		ShapeInfo b = box.shape(sl);
		bool empty; size_t pos = box.addExt(sl, h, empty);
		op(fmt("addext %d %zu", sl, h)); s.res(fmt("pos=%zu n=%zu", pos, box.count(sl)));
		r.insert(refAt(sl, h), holderItem);
		if (pos != h || !empty) c.fail("C02 hinted add of extracted %d:%d at index %zu returned %zu; %s", holderItem.first, holderItem.second, h, pos, context(sl).c_str());
		holderFull = false;
		noteStructure("add_extracted", b, box.shape(sl));
		dump(sl); queries(sl, k);
	}

	void opDropExt() { if (!holderFull) return; box.dropExt(); holderFull = false; op("dropext"); s.res("ok"); }

	void opResetKey(int sl, size_t i) {
		Ref& r = ref[sl];
		if (i >= r.size()) return;
		auto ri = refAt(sl, i);
		long lo = (i == 0) ? 0 : std::prev(ri)->first, hi = (i + 1 == r.size()) ? ri->first + 5 : std::next(ri)->first;
		if (!box.multi) { if (i > 0) ++lo; if (i + 1 < r.size()) --hi; }
		if (lo > hi) return;
		int k = (int)rng.range((uint64_t)lo, (uint64_t)hi);
		box.resetKey(sl, i, k);
		op(fmt("reset %d %zu %d", sl, i, k)); s.res("ok");
		KI x(k, ri->second); auto nx = std::next(ri); r.erase(ri); r.insert(nx, x);
		c.stats.count("op.reset_key");
		dump(sl); queries(sl, k);
	}

	// which branch TreeSet::MergeTo(TreeSet&) takes (TreeSet.h:936-978), decided from the oracle
	std::string mergeBranch(int a, int b) {
		Ref& ra = ref[a]; Ref& rb = ref[b];
		if (ra.empty()) return "src_empty";
		if (rb.empty()) return "dst_empty_swap";
		bool multi = box.multi;
		auto ordered = [multi] (int x, int y) { return multi ? !(y < x) : x < y; };
		if (ordered(ra.rbegin()->first, rb.begin()->first)) return "fast_src_before_dst";
		if (ordered(rb.rbegin()->first, ra.begin()->first)) return "fast_dst_before_src";
		size_t n = ra.size(), m = rb.size(), lg = 0; for (size_t x = n + m; x > 1; x >>= 1) ++lg;
		return n * lg < n + m ? "generic_by_key" : "linear";
	}
	// reference semantics of a merge: a source element goes behind the destination elements that are not greater
	// (upper-bound insertion, in source order); it stays in the source when the key is present and keys are unique
	void mergeOracle(int a, int b) {
		Ref& ra = ref[a]; Ref& rb = ref[b];
		for (auto it = ra.begin(); it != ra.end(); )
			if (box.multi || rb.find(*it) == rb.end()) { rb.insert(*it); it = ra.erase(it); } else ++it;
	}

	void opMerge(int a, int b) {
		if (a == b) return;
		if (box.statefulTraits) {	// `if (!std::is_empty<TreeTraits>::value) return pvMergeTo(dstTreeSet);`
			ShapeInfo bb0 = box.shape(b);
			box.merge(a, b);
			op(fmt("mergeg %d %d", a, b)); s.res(fmt("n=%zu %zu", box.count(a), box.count(b)));
			mergeOracle(a, b);
			c.stats.count("merge.generic_stateful_traits");
			noteStructure("merge", bb0, box.shape(b));
			dump(a, true); dump(b, true);
			return;
		}
		std::string br = mergeBranch(a, b);
		ShapeInfo ba = box.shape(a), bb = box.shape(b);
		c.stats.count("merge." + br);
		if (br.compare(0, 4, "fast") == 0)
			c.stats.count(ba.height == bb.height ? "merge.fast_equal_height" : (ba.height < bb.height) == (br == "fast_src_before_dst") ? "merge.fast_short_left" : "merge.fast_short_right");
		box.merge(a, b);
		op(fmt("merge %d %d", a, b)); s.res(fmt("n=%zu %zu", box.count(a), box.count(b)));
		if (box.multi && br == "fast_src_before_dst") {
			// the whole source precedes the destination, equal keys at the seam included
			Ref nr; for (auto& x : ref[a]) nr.insert(nr.end(), x); for (auto& x : ref[b]) nr.insert(nr.end(), x);
			ref[b].swap(nr); ref[a].clear();
		}
		else mergeOracle(a, b);
		ShapeInfo ab = box.shape(b);
		if (ab.emptyInner > bb.emptyInner + ba.emptyInner) c.stats.count("merge.fast_made_wrapper_nodes");
		noteStructure("merge", bb, ab);
		dump(a, true); dump(b, true);
		queries(b, ref[b].empty() ? 0 : ref[b].begin()->first);
	}

	// generic MergeTo<Set> through the forwarding adapter (pvMergeTo: extract one by one, InsertCrt by key)
	void opMergeGeneric(int a, int b) {
		if (a == b) return;
		ShapeInfo bb = box.shape(b);
		box.mergeGeneric(a, b);
		op(fmt("mergeg %d %d", a, b)); s.res(fmt("n=%zu %zu", box.count(a), box.count(b)));
		mergeOracle(a, b);
		c.stats.count("merge.generic_via_adapter");
		noteStructure("merge_generic", bb, box.shape(b));
		dump(a, true); dump(b, true);
	}

	// merge from a hash set: the order of arrival is logged by the adapter and replayed by the model
	void opMergeFromHash(int b, const std::vector<int>& keys) {
		std::vector<KI> items, log; size_t left = 0;
		for (int k : keys) items.push_back(KI(k, nextId++));
		ShapeInfo bb = box.shape(b);
		if (!box.mergeFromHash(b, items, log, left)) return;
		std::string line = fmt("mergeseq %d", b);
		for (auto& x : log) line += fmt(" %d:%d", x.first, x.second);
		op(line); s.res(fmt("n=%zu", box.count(b)));
		size_t moved = 0;
		for (auto& x : log) if (box.multi || ref[b].find(x) == ref[b].end()) { ref[b].insert(x); ++moved; }
		if (left != keys.size() - moved) c.fail("C02 merge from hash set: %zu left in the source, expected %zu; %s", left, keys.size() - moved, context(b).c_str());
		c.stats.count("merge.from_hash_set");
		noteStructure("merge_from_hash", bb, box.shape(b));
		dump(b, true);
	}

	void opCopy(int a, int b) {
		if (a == b) return;
		box.copy(a, b, rng.chance(1, 2));
		ref[b] = ref[a]; husk[b] = husk[a];
		op(fmt("copy %d %d", a, b)); s.res(fmt("n=%zu", box.count(b)));
		c.stats.count("op.copy");
		dump(a, true); dump(b, true);
	}
	void opMove(int a, int b) {
		if (a == b) return;
		box.move(a, b);
		husk[b] = husk[a]; husk[a] = true;
		ref[b].swap(ref[a]); ref[a].clear();
		op(fmt("move %d %d", a, b)); s.res(fmt("n=%zu", box.count(b)));
		c.stats.count("op.move");
		dump(a, true); dump(b, true);
	}
	void opSwap(int a, int b) {
		if (a == b) return;
		box.swap(a, b); ref[a].swap(ref[b]); std::swap(husk[a], husk[b]);
		op(fmt("swap %d %d", a, b)); s.res("ok");
		c.stats.count("op.swap");
		dump(a, true); dump(b, true);
	}
	void opClear(int sl) {
		box.clear(sl); ref[sl].clear();
		op(fmt("clear %d", sl)); s.res("ok");
		c.stats.count("op.clear");
		dump(sl, true);
	}

	// ---- key generators (keys stay >= 0)
	int keyFor(int dist, int i, int n) {
		switch (dist) {
		case 0: return 3 * i + 3;	// ascending
		case 1: return 3 * (n - i) + 3;	// descending
		case 2: return 3 * (int)rng.below((uint64_t)std::max(2, n / 6)) + 3;	// clustered duplicates
		default: return (int)rng.below((uint64_t)3 * n + 1) + 3;	// uniform
		}
	}
	int someKey(int sl) {
		Ref& r = ref[sl];
		if (r.empty() || rng.chance(1, 5)) return (int)rng.below(400);
		return refAt(sl, (size_t)rng.below(r.size()))->first + (rng.chance(1, 4) ? 1 : 0);
	}

	void build(int sl, int dist, int n) {
		c.stats.count(fmt("dist.%s", dist == 0 ? "ascending" : dist == 1 ? "descending" : dist == 2 ? "clustered_duplicates" : "uniform"));
		for (int i = 0; i < n; ++i) {
			int k = keyFor(dist, i, n);
			unsigned w = (unsigned)rng.below(10);
			if (w < 6) opInsert(sl, k);
			else if (w < 9) opAdd(sl, k);
			else {
				std::vector<int> keys; int len = (int)rng.range(1, 6);
				for (int j = 0; j < len && i < n; ++j, ++i) keys.push_back(keyFor(dist, i, n) - (rng.chance(1, 5) ? 2 : 0));
				opInsertRange(sl, keys);
			}
		}
	}

	void churn(int sl, int steps) {
		for (int i = 0; i < steps; ++i) {
			Ref& r = ref[sl];
			unsigned w = (unsigned)rng.below(100);
			if (w < 18) opInsert(sl, someKey(sl));
			else if (w < 28) opAdd(sl, someKey(sl));
			else if (w < 33) { std::vector<int> keys; int len = (int)rng.range(1, 7); int k0 = someKey(sl); bool sorted = rng.chance(2, 3);
				for (int j = 0; j < len; ++j) keys.push_back(sorted ? k0 + j * (int)rng.below(3) : someKey(sl)); opInsertRange(sl, keys); }
			else if (w < 45) opRemoveKey(sl, someKey(sl));
			else if (w < 63) { if (!r.empty()) opRemoveIdx(sl, (size_t)rng.below(r.size())); }
			else if (w < 71) { if (!r.empty()) { size_t i0 = (size_t)rng.below(r.size() + 1); size_t len = (size_t)rng.below(std::min<size_t>(r.size() - i0, box.cap * 3 + 4) + 1); opRemoveRange(sl, i0, i0 + len); } }
			else if (w < 74) opRemovePred(sl, (int)rng.range(2, 7), (int)rng.below(2));
			else if (w < 82) { if (!r.empty()) { opExtract(sl, (size_t)rng.below(r.size())); if (rng.chance(1, 2)) opReinsert(rng.chance(1, 4) ? (sl + 1) % 4 : sl); else if (rng.chance(1, 2)) opAddExt(rng.chance(1, 4) ? (sl + 1) % 4 : sl); else opDropExt(); } }
			else if (w < 90) { if (!r.empty()) opResetKey(sl, (size_t)rng.below(r.size())); }
			else if (w < 93) queryAll(sl);
			else if (w < 95) { int o = (sl + 1) % 4; opCopy(sl, o); if (!ref[o].empty()) opRemoveIdx(o, (size_t)rng.below(ref[o].size())); opInsert(o, someKey(o)); }
			else if (w < 97) { int o = (sl + 2) % 4; opMove(sl, o); opSwap(sl, o); }
			else if (w < 99) { int o = (sl + 3) % 4; opSwap(sl, o); opSwap(o, sl); }
			else { int o = (sl + 1) % 4; opCopy(sl, o); opClear(o); }
		}
	}

	// drain by one removal style until empty: leaves empty leaves / empty internal nodes behind on the way
	void drain(int sl, int style) {
		Ref& r = ref[sl];
		size_t guard = 0;
		while (!r.empty() && guard++ < 5000) {
			switch (style) {
			case 0: opRemoveIdx(sl, 0); break;	// always the first
			case 1: opRemoveIdx(sl, r.size() - 1); break;	// always the last
			case 2: opRemoveIdx(sl, r.size() / 2); break;
			case 3: opRemoveKey(sl, refAt(sl, (size_t)rng.below(r.size()))->first); break;
			case 4: { size_t i0 = (size_t)rng.below(r.size()); opRemoveRange(sl, i0, i0 + 1 + (size_t)rng.below(box.cap * 2 + 3)); break; }
			default: opRemoveIdx(sl, (size_t)rng.below(r.size())); break;
			}
		}
	}

	void mergeScenarios(int small, int large) {
		// slot 0 = source, slot 1 = destination
		for (int rel = 0; rel < 8; ++rel) {
			for (int sl = 0; sl < 2; ++sl) if (box.shape(sl).text != "null") opClear(sl);
			int nSrc = (rel % 2 == 0) ? small : large, nDst = (rel % 2 == 0) ? large : small;
			if (rel >= 6) { nSrc = (int)rng.range(1, (uint64_t)small + 1); nDst = (int)rng.range(1, (uint64_t)small + 1); }
			int base = 3 * std::max(small, large) + 1000;
			auto fill = [&] (int sl, int n, int from, int stride) { for (int i = 0; i < n; ++i) opInsert(sl, from + stride * i); };
			switch (rel / 2) {
			case 0: fill(0, nSrc, base - 3 * nSrc - 3, 3); fill(1, nDst, base, 3); break;	// source ordered before destination
			case 1: fill(0, nSrc, base + 3 * nDst + 3, 3); fill(1, nDst, base, 3); break;	// source ordered after destination
			case 2: fill(0, nSrc, base, 4); fill(1, nDst, base + 2, box.multi ? 2 : 6); break;	// interleaved
			default: fill(0, nSrc, base, 2);	// touching seam / into an empty tree whose root is still an (empty) leaf
				if (rng.chance(1, 2)) fill(1, nDst, base + 2 * nSrc, 2);
				else if (rng.chance(1, 2)) { fill(1, 2, 5, 1); opRemoveIdx(1, 0); opRemoveIdx(1, 0); c.stats.count("merge.dst_empty_leaf_root"); }
				break;
			}
			if (rel / 2 == 3 && box.multi && !ref[1].empty()) opInsert(0, ref[1].begin()->first);	// equal keys across the seam
			// trees that went through removals have lazily empty nodes on their spines
			if (rng.chance(1, 2) && ref[0].size() > 2) { opRemoveIdx(0, ref[0].size() - 1); opRemoveIdx(0, 0); }
			if (rng.chance(1, 2) && ref[1].size() > 2) { opRemoveIdx(1, 0); opRemoveIdx(1, ref[1].size() - 1); }
			opMerge(0, 1);
			queryAll(1);
			// the merged tree keeps working
			for (int i = 0; i < 6; ++i) { if (!ref[1].empty()) opRemoveIdx(1, (size_t)rng.below(ref[1].size())); opInsert(1, someKey(1)); }
			if (!ref[0].empty()) opInsert(0, someKey(0));
			opInsert(0, 7);	// the emptied source is usable again
		}
		// merge into an empty container and from an empty container
		opClear(0); opClear(1);
		for (int i = 0; i < small; ++i) opInsert(0, 5 * i);
		opMerge(0, 1); opMerge(0, 1);
		// generic path on the same kind of data, and from a hash set
		opClear(0);
		for (int i = 0; i < small; ++i) opInsert(0, 5 * i + (int)rng.below(3));
		opMergeGeneric(0, 1);
		std::vector<int> hk; for (int i = 0; i < small; ++i) hk.push_back(5 * (int)rng.below((uint64_t)small + 3) + 1);
		opMergeFromHash(1, hk);
		queryAll(1);
	}

	// hints that break the order (AddCrt with extraCheck = false): pvAdd and Remove(iter) are positional, so the
	// sequence must still be "insert at that index" / "erase at that index"; searches are only compared with the model
	void rawScenario(int sl, int steps) {
		s.comment(name + " hinted add with arbitrary (order-breaking) hints");
		if (box.shape(sl).text != "null") opClear(sl);
		std::vector<KI> seq;
		auto check = [&] (const char* what) {
			ShapeInfo si = box.shape(sl);
			op(fmt("shape %d", sl)); s.res(si.text);
			std::vector<KI> fwd, bwd;
			bool ok = box.traverse(sl, fwd, bwd, seq.size() + 2);
			std::vector<KI> rev(seq.rbegin(), seq.rend());
			if (!ok || fwd != seq || bwd != rev || box.count(sl) != seq.size())
				c.fail("C02 positional %s on an unsorted tree: forward [%s] backward [%s], expected forward [%s]; cfg=%s seed=%llu op#%llu",
					what, seqText(fwd).c_str(), seqText(bwd).c_str(), seqText(seq).c_str(), name.c_str(), (unsigned long long)c.seed, (unsigned long long)opNo);
			op(fmt("fwd %d", sl)); s.res(seqText(fwd));
			op(fmt("bwd %d", sl)); s.res(seqText(bwd));
			int k = (int)rng.below(60);
			size_t lb, ub, fi, kc; bool has;
			box.bounds(sl, k, lb, ub, fi, has, kc);	// no oracle: the sequence is not sorted
			size_t hlb = 0, hub = 0, hfi = 0, hkc = 0; bool hhas = false;
			// (the key count stays the homogeneous one: with unique keys GetKeyCount<KeyArg> walks from the lower bound,
			// GetKeyCount(const Key&) answers ContainsKey ? 1 : 0 - the same on a sorted sequence only)
			if (box.boundsHet(sl, k, hlb, hub, hfi, hhas, hkc) && (opNo & 1)) { lb = hlb; ub = hub; fi = hfi; has = hhas; if (box.multi) kc = hkc; }
			op(fmt("q %d %d", sl, k)); s.res(fmt("lb=%zu ub=%zu find=%zu has=%d kc=%zu", lb, ub, fi, has ? 1 : 0, kc));
			apiFindings(sl);
		};
		for (int i = 0; i < steps; ++i) {
			if (seq.empty() || rng.chance(2, 3)) {
				size_t h = (size_t)rng.below(seq.size() + 1); int k = (int)rng.below(60), id = nextId++;
				size_t pos = box.addRaw(sl, h, k, id);
				op(fmt("add %d %zu %d %d", sl, h, k, id)); s.res(fmt("pos=%zu n=%zu", pos, box.count(sl)));
				seq.insert(seq.begin() + (ptrdiff_t)h, KI(k, id));
				if (pos != h) c.fail("C02 hinted add (arbitrary hint): index %zu returned %zu; cfg=%s seed=%llu op#%llu", h, pos, name.c_str(), (unsigned long long)c.seed, (unsigned long long)opNo);
				c.stats.count("op.hinted_add_arbitrary_hint");
				check("add");
			}
			else {
				size_t i0 = (size_t)rng.below(seq.size()); int cls;
				size_t pos = box.removeIdx(sl, i0, cls);
				op(fmt("remi %d %zu", sl, i0)); s.res(fmt("pos=%zu n=%zu", pos, box.count(sl)));
				seq.erase(seq.begin() + (ptrdiff_t)i0);
				if (pos != i0) c.fail("C02 remove by iterator (unsorted tree): index %zu returned %zu; cfg=%s seed=%llu op#%llu", i0, pos, name.c_str(), (unsigned long long)c.seed, (unsigned long long)opNo);
				c.stats.count("op.remove_iter_unsorted");
				check("remove");
			}
		}
		box.clear(sl); op(fmt("clear %d", sl)); s.res("ok");
	}

	// TreeMap(std::initializer_list<Pair>) = range insertion into a new container: 1..6 pairs in any order, with
	// duplicates (model: `insr` on the null-root slot)
	void initListScenario(int sl) {
		if (!box.initListAvail) return;
		for (int len = 1; len <= 6; ++len) {
			if (box.shape(sl).text != "null") opClear(sl);
			Ref& r = ref[sl];
			std::vector<KI> v; std::string line = fmt("insr %d", sl);
			int k0 = 10 + (int)rng.below(20);
			for (int j = 0; j < len; ++j) {
				int k = rng.chance(1, 2) ? k0 + j : k0 + (int)rng.below((uint64_t)len + 1);
				v.push_back(KI(k, nextId++)); line += fmt(" %d:%d", k, v.back().second);
			}
			long n = box.initList(sl, v);
			if (n < 0) { c.fail("C02 harness: initializer-list construction of %zu pairs is not available; cfg=%s", v.size(), name.c_str()); return; }
			husk[sl] = true;	// the new container has default-constructed traits (TreeMap(pairs) : TreeMap(pairs, TreeTraits()))
			op(line); s.res(fmt("added=%ld n=%zu", n, box.count(sl)));
			size_t exp = 0;
			for (auto& x : v) if (box.multi || r.find(x) == r.end()) { r.insert(x); ++exp; }
			if ((size_t)n != exp) c.fail("C02 initializer-list constructor: %ld elements, reference %zu; %s", n, exp, context(sl).c_str());
			c.stats.count("op.construct_from_initializer_list");
			dump(sl, true); queryAll(sl);
			opInsert(sl, k0 + 1); if (!r.empty()) opRemoveIdx(sl, 0);
		}
		opClear(sl);
	}

	void run() {
		int cap = (int)box.cap;
		int nSmall = cap * 2 + 3;
		int nMed = cap <= 5 ? 40 + cap * 8 : cap == 8 ? 110 : 150;
		if (c.thorough) nMed = cap <= 5 ? 160 : cap == 8 ? 400 : 1300;
		int churnSteps = c.thorough ? 260 : 70;
		// all four key distributions: build, look at every key, churn, drain in a different style
		for (int dist = 0; dist < 4; ++dist) {
			s.comment(fmt("%s distribution %d", name.c_str(), dist));
			int n = (dist == 3) ? nMed : std::max(nSmall, nMed / 2);
			build(0, dist, n);
			queryAll(0);
			churn(0, churnSteps);
			queryAll(0);
			drain(0, (dist * 2 + (int)rng.below(2)) % 6);
			// an emptied tree (empty leaf root) is reused, then cleared
			build(0, (dist + 1) % 4, nSmall);
			drain(0, 5);
			if (dist % 2 == 0) opClear(0);
			for (int sl = 1; sl < 4; ++sl) if (!ref[sl].empty() && rng.chance(1, 2)) opClear(sl);
		}
		s.comment(name + " merges");
		for (int sl = 0; sl < 4; ++sl) opClear(sl);
		mergeScenarios(nSmall, c.thorough ? nMed : std::max(nSmall * 3, nMed / 2));
		opDropExt();
		for (int sl = 0; sl < 4; ++sl) opClear(sl);
		initListScenario(2);
		rawScenario(3, c.thorough ? 160 : 40);
		std::string t; for (auto& r : recent) t += r + "; ";
		c.stats.sample(name + ": ... " + t, 8);
	}
};

template<class Cf>
static void runConfig(Ctx& c, const char* name, uint64_t salt)
{
	long liveBefore = g_live;
	{
		BoxT<Cf> box;
		Runner r(c, box, name, salt);
		r.run();
	}
	for (auto& kv : g_apiCount) c.stats.counters[kv.first] += kv.second;
	g_apiCount.clear();
	if (!g_apiFail.empty()) { c.fail("C02 %s; cfg=%s seed=%llu", g_apiFail.c_str(), name, (unsigned long long)c.seed); g_apiFail.clear(); }
	if (g_live != liveBefore) c.fail("C02 element ledger: %ld element payloads still alive after the containers of %s were destroyed", g_live - liveBefore, name);
	c.stats.count("configs");
}

#define RUN(name, ...) runConfig<__VA_ARGS__>(c, name, __LINE__)

int main(int argc, char** argv)
{
	Ctx c = parseArgs(argc, argv);
	for (int i = 0; i < kCellCount; ++i) g_cells[i].k = i;
	// naming: <S|M><item category T|M|C>-c<maxCapacity>-s<capacityStep template argument>-b<blockCount>/<cachedFreeBlockCount>-<c|i><l|b><u|m>
#if C02_PART == 0 || C02_PART == 1
	RUN("ST-c1-s1-b1.0-clu", SetCf<KT, 1, 1, 1, 0, true, true, false>);
	RUN("ST-c1-s0-b8.16-ibm", SetCf<KT, 1, 0, 8, 16, false, false, true>);
	RUN("ST-c2-s1-b8.16-cbu", SetCf<KT, 2, 1, 8, 16, true, false, false>);
	RUN("ST-c2-s0-b1.0-ilm", SetCf<KT, 2, 0, 1, 0, false, true, true>);
	RUN("ST-c3-s1-b2.0-clm", SetCf<KT, 3, 1, 2, 0, true, true, true>);
	RUN("ST-c3-s0-b8.16-ibu", SetCf<KT, 3, 0, 8, 16, false, false, false>);
#endif
#if C02_PART == 0 || C02_PART == 2
	RUN("ST-c4-s2-b8.16-clu", SetCf<KT, 4, 2, 8, 16, true, true, false>);
	RUN("ST-c4-s1-b1.16-ibm", SetCf<KT, 4, 1, 1, 16, false, false, true>);
	RUN("ST-c5-s2-b8.16-cbm", SetCf<KT, 5, 2, 8, 16, true, false, true>);
	RUN("ST-c5-s1-b1.0-ilu", SetCf<KT, 5, 1, 1, 0, false, true, false>);
	RUN("ST-c5-s4-b3.2-clu", SetCf<KT, 5, 4, 3, 2, true, true, false>);
	RUN("ST-c8-s1-b8.16-clm", SetCf<KT, 8, 1, 8, 16, true, true, true>);
#endif
#if C02_PART == 0 || C02_PART == 3
	RUN("ST-c8-s2-b1.0-ibu", SetCf<KT, 8, 2, 1, 0, false, false, false>);
	RUN("ST-c8-s4-b8.16-cbu", SetCf<KT, 8, 4, 8, 16, true, false, false>);
	RUN("ST-c8-s0-b8.16-ilm", SetCf<KT, 8, 0, 8, 16, false, true, true>);
	RUN("ST-c32-s4-b8.16-clu", SetCf<KT, 32, 4, 8, 16, true, true, false>);
	RUN("ST-c32-s1-b8.16-ibm", SetCf<KT, 32, 1, 8, 16, false, false, true>);
#endif
#if C02_PART == 0 || C02_PART == 4
	RUN("ST-c32-s16-b1.0-cbu", SetCf<KT, 32, 16, 1, 0, true, false, false>);
	RUN("ST-c32-s0-b8.16-clm", SetCf<KT, 32, 0, 8, 16, true, true, true>);
	RUN("SM-c1-s1-b8.16-clm", SetCf<KM, 1, 1, 8, 16, true, true, true>);
	RUN("SM-c3-s1-b1.0-ibu", SetCf<KM, 3, 1, 1, 0, false, false, false>);
	RUN("SM-c4-s2-b8.16-cbm", SetCf<KM, 4, 2, 8, 16, true, false, true>);
	RUN("STdefault-lu", SetCfDefault<KT, true, false>);
#endif
#if C02_PART == 0 || C02_PART == 5
	RUN("SM-c8-s2-b8.16-clu", SetCf<KM, 8, 2, 8, 16, true, true, false>);
	RUN("SM-c32-s4-b8.16-cbm", SetCf<KM, 32, 4, 8, 16, true, false, true>);
	RUN("SC-c2-s1-b8.16-clu", SetCf<KC, 2, 1, 8, 16, true, true, false>);
	RUN("SC-c5-s2-b1.0-cbm", SetCf<KC, 5, 2, 1, 0, true, false, true>);
	RUN("SC-c8-s4-b8.16-ilu", SetCf<KC, 8, 4, 8, 16, false, true, false>);
	RUN("SMdefault-bm", SetCfDefault<KM, false, true>);
#endif
#if C02_PART == 0 || C02_PART == 6
	RUN("SC-c32-s4-b8.16-clm", SetCf<KC, 32, 4, 8, 16, true, true, true>);
	RUN("MT-c1-s1-b8.16-clu", MapCf<VT, 1, 1, 8, 16, true, true, false>);
	RUN("MT-c2-s1-b1.0-ibm", MapCf<VT, 2, 1, 1, 0, false, false, true>);
	RUN("MT-c4-s1-b8.16-cbu", MapCf<VT, 4, 1, 8, 16, true, false, false>);
	RUN("MT-c8-s2-b8.16-clm", MapCf<VT, 8, 2, 8, 16, true, true, true>);
	RUN("STstd-c3-s1-b8.16-cu", SetCfStd<KT, 3, 1, 8, 16, true, false>);
#endif
#if C02_PART == 0 || C02_PART == 7
	RUN("MT-c32-s4-b8.16-clu", MapCf<VT, 32, 4, 8, 16, true, true, false>);
	RUN("MM-c3-s1-b8.16-clm", MapCf<VM, 3, 1, 8, 16, true, true, true>);
	RUN("MM-c5-s2-b1.0-cbu", MapCf<VM, 5, 2, 1, 0, true, false, false>);
	RUN("MM-c32-s8-b8.16-ibm", MapCf<VM, 32, 8, 8, 16, false, false, true>);
	RUN("MC-c1-s1-b1.0-clm", MapCf<VC, 1, 1, 1, 0, true, true, true>);
	RUN("STstd-c5-s2-b1.0-im", SetCfStd<KT, 5, 2, 1, 0, false, true>);
#endif
#if C02_PART == 0 || C02_PART == 8
	RUN("MC-c4-s2-b8.16-cbu", MapCf<VC, 4, 2, 8, 16, true, false, false>);
	RUN("MC-c8-s1-b8.16-ilm", MapCf<VC, 8, 1, 8, 16, false, true, true>);
	RUN("MC-c32-s4-b8.16-cbu", MapCf<VC, 32, 4, 8, 16, true, false, false>);
	RUN("ST-c2-s2-b2.1-cbm", SetCf<KT, 2, 2, 2, 1, true, false, true>);
	RUN("ST-c3-s2-b8.16-clu", SetCf<KT, 3, 2, 8, 16, true, true, false>);
#endif
	// naming of the map configurations with a key class / pointer key: M<key category M|S|C|P = pointer><value category T|M|C|S>-...;
	// `het` = TreeTraitsStd with a transparent comparison object (TagLess)
#if C02_PART == 0 || C02_PART == 9
	RUN("MMM-c3-s1-b8.16-clm", MapCfK<KM, VM, 3, 1, 8, 16, true, true, true>);
	RUN("MMT-c4-s2-b1.0-cbu", MapCfK<KM, VT, 4, 2, 1, 0, true, false, false>);
	RUN("MMC-c2-s1-b8.16-ilu", MapCfK<KM, VC, 2, 1, 8, 16, false, true, false>);
	RUN("MMM-c8-s4-b8.16-ibm", MapCfK<KM, VM, 8, 4, 8, 16, false, false, true>);
	RUN("MPT-c4-s1-b8.16-clm", MapCfK<PK, VT, 4, 1, 8, 16, true, true, true>);
	RUN("MPM-c5-s2-b1.0-cbu", MapCfK<PK, VM, 5, 2, 1, 0, true, false, false>);
#endif
#if C02_PART == 0 || C02_PART == 10
	static_assert(SetCf<KS, 2, 1, 8, 16, true, true, false>::Set::Node::isContinuous, "KS items live in contiguous nodes");
	static_assert(MapCf<VS, 3, 1, 8, 16, true, true, true>::Set::Node::isContinuous, "VS values live in contiguous nodes");
	static_assert(MapCfK<KS, VS, 2, 1, 8, 16, true, false, false>::Set::Node::isContinuous, "KS keys with VS values live in contiguous nodes");
	static_assert(!MapCfK<KS, VC, 3, 1, 8, 16, true, false, false>::Set::Node::isContinuous, "a value that is not shiftable forces the indexed layout");
	RUN("SS-c2-s1-b8.16-clu", SetCf<KS, 2, 1, 8, 16, true, true, false>);
	RUN("SS-c3-s1-b1.0-cbm", SetCf<KS, 3, 1, 1, 0, true, false, true>);
	RUN("SS-c4-s2-b8.16-clm", SetCf<KS, 4, 2, 8, 16, true, true, true>);
	RUN("SS-c8-s4-b8.16-cbu", SetCf<KS, 8, 4, 8, 16, true, false, false>);
	RUN("MS-c3-s1-b8.16-clm", MapCf<VS, 3, 1, 8, 16, true, true, true>);
	RUN("MSS-c2-s1-b8.16-cbu", MapCfK<KS, VS, 2, 1, 8, 16, true, false, false>);
	RUN("MSM-c4-s2-b1.0-clm", MapCfK<KS, VM, 4, 2, 1, 0, true, true, true>);
#endif
#if C02_PART == 0 || C02_PART == 11
	RUN("SThet-c3-s1-b8.16-cu", SetCfStdT<KT, 3, 1, 8, 16, true, false>);
	RUN("SMhet-c4-s2-b1.0-im", SetCfStdT<KM, 4, 2, 1, 0, false, true>);
	RUN("SShet-c2-s1-b8.16-cm", SetCfStdT<KS, 2, 1, 8, 16, true, true>);
	RUN("MIThet-c3-s1-b8.16-cm", MapCfStdT<int, VT, 3, 1, 8, 16, true, true>);
	RUN("MMMhet-c4-s2-b8.16-cu", MapCfStdT<KM, VM, 4, 2, 8, 16, true, false>);
	RUN("MSC-c3-s1-b8.16-cbu", MapCfK<KS, VC, 3, 1, 8, 16, true, false, false>);
#endif
	return c.finish();
}
