// C04 / C10 correspondence harness for the fault-parametric array model (lean/Momo/Model/ArrFault.lean, engine `arrfault`).
//
// Random histories on the real momo::Array<Item, MemManager> (and ArrayIntCap<3>) in which an operation is run with
// its k-th fallible step failing.  Fallible steps are counted by ONE counter over the memory manager (Allocate,
// Reallocate) and the element type (copy construction, construction from an rvalue of a copy-only type, copy and
// move assignment of the throwing-assignment types) - exactly the steps at which the model consumes a decision of
// its fault schedule.  Every op line carries the fault position; the model predicts the complete resulting state:
// whether the call threw, count, capacity, every cell (id, `~` = moved-from), every memory-manager call incl. the
// refused one, number of live element objects and the outstanding blocks.
//   * model level: the line comparison above (exact: the element types are deterministic - a throwing constructor /
//     assignment leaves its operands untouched, a move leaves a marked source - so even the moved-from pattern after
//     a failed Insert/Remove is determined)
//   * property level (the properties' own oracle, independent of the model):
//       C04: an operation documented as strong that threw left count, cells, capacity-independent contents, the number of
//            live element objects and the outstanding blocks unchanged; a constructor that threw left nothing
//       C10: Insert*/Remove* that threw left count <= capacity, every slot below count a live or moved-from object
//            (canary), live objects == sum of counts, outstanding blocks == blocks owned by the containers
//   * also created by CreateCap / CreateCrt (model ops newcap / crt: the k-th fallible step = the allocation or the k-th creator
//     call fails), and now and then a capacity whose byte size overflows size_t is requested (Reserve, SetCount, constructor,
//     CreateCap): std::bad_array_new_length before any fallible step, everything as before (model: `get`)
#include "c04_arrfault.h"

#ifndef AF_PART
# define AF_PART 0
#endif

using namespace vf;

namespace af {

// ------------------------------------------------------------------ runner

template<typename TC>
class Runner
{
	typedef TC C;
	typedef typename C::Item T;
	typedef typename C::MemManager MMT;
	typedef typename C::ItemTraits IT;
	typedef Kind<T> K;
	typedef momo::internal::MemManagerProxy<MMT> Proxy;
	static const int slotCount = 3;
	static const size_t intCap = C::internalCapacity;
	static const bool hasInplace = Proxy::canReallocateInplace;
	// Data(Data&&) with an internal buffer static_asserts isNothrowRelocatable: no copy assignment then
	static const bool canAssign = (C::internalCapacity == 0) || IT::isNothrowRelocatable;

	Ctx& c; Rng& rng; Suite& s; std::string cfgName;
	std::unique_ptr<C> obj[slotCount];
	uint32_t nextId = 1;
	std::deque<std::string> history;
	std::map<std::string, long> maxPoints;	// per operation: largest number of fallible steps seen
	bool broken = false;
	long ext = 0;	// element objects alive outside the containers (the value argument of the running operation)

public:
	Runner(Ctx& c_, Rng& rng_, Suite& s_, const std::string& name) : c(c_), rng(rng_), s(s_), cfgName(name) {}

	static std::string header() {
		return fmt("model arrfault intcap=%zu keeps=%d nr=%d nm=%d realloc=%d inplace=%d gor=1 isz=%zu tc=%d tm=%d ta=%d lo=%d", intCap,
			(int)K::keeps, (int)IT::isNothrowRelocatable, (int)IT::isNothrowMoveConstructible,
			(int)(Proxy::canReallocate && IT::isTriviallyRelocatable), (int)Proxy::canReallocateInplace, sizeof(T),
			(int)K::tc, (int)K::tm, (int)K::ta, (int)K::lo);
	}

	void run(const Budget& b)
	{
		for (unsigned r = 0; r < b.rounds && !broken; ++r) {
			s.comment(fmt("%s round %u", cfgName.c_str(), r));
			history.clear();
			plain("new 0", [&] { obj[0].reset(new C()); }, 0);
			// CreateCrt with every fault position: the allocation, each creator call, none (slot 2 is free at the start of a round)
			if (canAssign) for (long k = 0; k <= 9 && !broken; ++k) {
				createCrt(2, std::integral_constant<bool, canAssign>(), k);
				if (!obj[2]) continue;
				destroy(2);
				break;
			}
			unsigned lim = (r % 3 == 2) ? b.maxSize : std::min<unsigned>(b.maxSize, 12);
			for (unsigned k = 0; k < b.opsPerRound && !broken; ++k) oneOp(lim);
			for (int o = 0; o < slotCount; ++o) if (obj[o]) destroy(o);
			if (!mw().live.empty()) fail("C04 leak", fmt("%zu blocks outstanding after destroying every container", mw().live.size()));
			if (K::lo && liveObjs() != 0) fail("C04 leak", fmt("%ld element objects alive after destroying every container", liveObjs()));
			mw().live.clear(); liveObjs() = 0;
		}
	}

private:
	uint32_t fresh() { return nextId++; }
	void note(const std::string& line) { history.push_back(line); if (history.size() > 16) history.pop_front(); }
	void fail(const std::string& what, const std::string& detail) {
		std::string h;
		for (auto& l : history) { h += l; h += "; "; }
		c.fail("%s: %s seed=%llu config=[%s] history(last %zu ops)=[%s]", what.c_str(), detail.c_str(), (unsigned long long)c.seed, cfgName.c_str(), history.size(), h.c_str());
		broken = true;
	}
	std::string cells(const C& a) { std::string r; for (size_t i = 0; i < a.GetCount(); ++i) { if (i) r += ' '; r += show(a.GetItems()[i]); } return r; }
	std::string state(int o) { if (!obj[o]) return "-"; const C& a = *obj[o]; return fmt("%zu %zu|", a.GetCount(), a.GetCapacity()) + cells(a); }
	std::string blocks() {
		std::vector<size_t> v; for (auto& kv : mw().live) v.push_back(kv.second.first);
		std::sort(v.begin(), v.end());
		std::string r; for (size_t i = 0; i < v.size(); ++i) { if (i) r += ' '; r += std::to_string(v[i]); }
		return r;
	}
	std::string ledger() {
		return (K::lo ? std::to_string(liveObjs() - ext) : std::string("-")) + " " + blocks() + (mw().badDealloc ? " !" : "");
	}
	std::string events() { std::string r; for (size_t i = 0; i < mw().ev.size(); ++i) { if (i) r += ' '; r += mw().ev[i]; } return r; }
	// what the containers own, from their own fields
	long ownedObjs() { long n = 0; for (int o = 0; o < slotCount; ++o) if (obj[o]) n += (long)obj[o]->GetCount(); return n; }
	std::string ownedBlocks() {
		std::vector<size_t> v;
		for (int o = 0; o < slotCount; ++o) if (obj[o] && obj[o]->GetCapacity() > intCap) v.push_back(obj[o]->GetCapacity() * sizeof(T));
		std::sort(v.begin(), v.end());
		std::string r; for (size_t i = 0; i < v.size(); ++i) { if (i) r += ' '; r += std::to_string(v[i]); }
		return r;
	}
	// C10 / C04 "valid and usable, nothing leaked": the state every operation must leave, thrown or not
	void checkValid(const std::string& line, bool threw) {
		const char* prop = threw ? "C10 basic guarantee" : "C04/C10 validity";
		for (int o = 0; o < slotCount; ++o) if (obj[o]) {
			const C& a = *obj[o];
			if (a.GetCount() > a.GetCapacity()) fail(prop, fmt("slot %d: count %zu exceeds capacity %zu after [%s]", o, a.GetCount(), a.GetCapacity(), line.c_str()));
			for (size_t i = 0; i < a.GetCount(); ++i) {
				uint32_t st = a.GetItems()[i].state;
				if (st != LIVE && st != MOVED) fail(prop, fmt("slot %d: item %zu of %zu is not a constructed object (state %x) after [%s]", o, i, a.GetCount(), st, line.c_str()));
			}
		}
		if (K::lo && liveObjs() - ext != ownedObjs()) fail(threw ? "C10 leak / double destroy" : "C04 leak / double destroy",
			fmt("%ld element objects alive, the containers hold %ld, after [%s]%s", liveObjs() - ext, ownedObjs(), line.c_str(), threw ? " (threw)" : ""));
		if (blocks() != ownedBlocks()) fail(threw ? "C10 leak" : "C04 leak",
			fmt("outstanding blocks [%s], the containers own [%s], after [%s]%s", blocks().c_str(), ownedBlocks().c_str(), line.c_str(), threw ? " (threw)" : ""));
		if (mw().badDealloc) { fail("C04 bad deallocation", fmt("%zu after [%s]", mw().badDealloc, line.c_str())); mw().badDealloc = 0; }
	}

	// an operation without a fault position (new / del / get / set / oracle)
	template<typename F> void plain(const std::string& line, F f, int o) {
		mw().ev.clear(); fp().countdown = -1;
		f();
		note(line); s.op(line);
		s.res("ok " + state(o) + "|" + events() + "|" + ledger());
		c.stats.evaluations++;
	}
	void destroy(int o) {
		mw().ev.clear();
		std::string line = fmt("del %d", o);
		obj[o].reset();
		note(line); s.op(line);
		s.res("ok 0 " + std::to_string(intCap) + "||" + events() + "|" + ledger());
		c.stats.evaluations++;
	}

	// fault position for an operation called `name`: none (1/4) or below the largest number of fallible steps seen + 1
	std::string pickK(const std::string& name, long& k) {
		long m = 2; auto it = maxPoints.find(name); if (it != maxPoints.end()) m = it->second;
		if (rng.chance(1, 4)) { k = -1; return "-"; }
		k = (long)std::min(rng.below((uint64_t)m + 1), rng.below((uint64_t)m + 2));	// biased towards the early steps
		return std::to_string(k);
	}

	// run `f` on slot o with the k-th fallible step failing; `strong` = documented as strongly exception-safe;
	// `ctor` = f constructs obj[o] (on an exception the object does not exist)
	template<typename F> void faulty(const std::string& name, const std::string& lineNoK, int o, bool strong, bool ctor, F f, const std::string& tail = "", long forceK = -2) {
		long k; std::string ks = pickK(name, k);
		if (forceK >= -1) { k = forceK; ks = k < 0 ? std::string("-") : std::to_string(k); }
		std::string line = lineNoK + " " + ks + tail;
		std::string before = ctor ? std::string() : state(o);
		std::string blocksBefore = blocks(); long liveBefore = liveObjs();
		mw().ev.clear();
		FP& p = fp(); p.points = 0; p.fired = false; p.countdown = k;
		bool threw = false;
		try { f(); }
		catch (const std::bad_alloc&) { threw = true; }
		catch (const ElemFault&) { threw = true; }
		p.countdown = -1;
		long pts = p.points;
		if (threw != p.fired) fail("harness", fmt("threw=%d fired=%d for [%s]", (int)threw, (int)p.fired, line.c_str()));
		long& mp = maxPoints[name]; if (pts > mp) mp = pts;
		note(line + (threw ? " -> threw" : ""));
		s.op(line);
		s.res(std::string(threw ? "threw " : "ok ") + ((threw && ctor) ? std::string("-") : state(o)) + "|" + events() + "|" + ledger());
		c.stats.evaluations++;
		c.stats.count("op." + name);
		if (threw) {
			c.stats.count(std::string("threw.") + (strong ? "strong." : "basic.") + name);
			c.stats.count(mw().ev.size() && (mw().ev.back()[0] == 'A' || mw().ev.back()[0] == 'R') ? "fault.memory_manager" : "fault.element");
			c.stats.nontrivial(cfgName + "|" + name + "|" + ks + "|" + (before.size() > 0 ? before.substr(0, before.find('|')) : ""));
			if (c.stats.samples.size() < 12 && rng.chance(1, 20)) c.stats.sample(cfgName + ": [" + before + "] " + line + " -> threw, [" + (ctor ? "-" : state(o)) + "] calls [" + events() + "]");
			// property level, C04
			if (strong) {
				std::string after = ctor ? std::string() : state(o);
				// capacity is not part of the property's "observable contents, order and count": compare count and cells
				auto strip = [](const std::string& st) { size_t bar = st.find('|'); size_t sp = st.find(' '); return st.substr(0, sp) + st.substr(bar); };
				if (!ctor && strip(after) != strip(before)) fail("C04 strong guarantee", fmt("[%s] threw and changed the container: before {%s} after {%s}", line.c_str(), before.c_str(), after.c_str()));
				if (K::lo && liveObjs() != liveBefore) fail("C04 strong guarantee / leak", fmt("[%s] threw: %ld element objects alive, %ld before", line.c_str(), liveObjs(), liveBefore));
				if (blocks() != blocksBefore) fail("C04 strong guarantee / leak", fmt("[%s] threw: outstanding blocks [%s], before [%s]", line.c_str(), blocks().c_str(), blocksBefore.c_str()));
			}
		}
		else if (k >= 0) c.stats.count("fault_position_beyond_last_step");
		checkValid(line, threw);
	}

	struct Arg { bool alias; size_t j; uint32_t id; std::string tok; };
	Arg pickArg(int o, size_t index) {
		size_t n = obj[o]->GetCount();
		Arg a; a.alias = n > 0 && rng.chance(1, 2); a.j = 0; a.id = 0;
		if (a.alias) {
			switch (rng.below(6)) {
			case 0: a.j = index > 0 ? index - 1 : 0; break;
			case 1: a.j = index; break;
			case 2: a.j = index + 1; break;
			case 3: a.j = 0; break;
			case 4: a.j = n - 1; break;
			default: a.j = (size_t)rng.below(n); break;
			}
			if (a.j >= n) a.j = n - 1;
			a.tok = fmt("e%zu", a.j);
			c.stats.count(a.j < index ? "alias.below_index" : "alias.at_or_above_index");
		}
		else { a.id = fresh(); a.tok = fmt("v%u", a.id); }
		return a;
	}
	size_t pickIndex(size_t n) {
		switch (rng.below(5)) { case 0: return 0; case 1: return n; case 2: return n > 0 ? n - 1 : 0; default: return (size_t)rng.below(n + 1); }
	}
	void setOracle(int o) {
		if (!hasInplace) return;
		bool b = rng.chance(1, 2);
		mw().oracle = b;
		plain(fmt("oracle %d %d", o, b ? 1 : 0), [] {}, o);
	}

	void oneOp(unsigned lim)
	{
		int o = (int)rng.below(slotCount);
		if (!obj[o]) { if (rng.chance(1, 2) || !obj[0]) { create(o); return; } o = 0; }
		C& a = *obj[o];
		size_t n = a.GetCount();
		bool mayGrow = n < lim;
		if (rng.chance(1, 30)) { overflow(o); return; }
		setOracle(o);
		unsigned kind = (unsigned)rng.below(mayGrow ? 30 : 40);
		if (!mayGrow && kind < 20) kind = 20 + kind % 8;
		switch (kind) {
		case 0: case 1: case 2: {	// AddBack(const Item&)
			Arg x = pickArg(o, n);
			if (x.alias) faulty("pushc", fmt("pushc %d %s", o, x.tok.c_str()), o, true, false, [&] { a.AddBack(static_cast<const C&>(a)[x.j]); });
			else { T v = K::make(x.id); ExtGuard eg(ext); faulty("pushc", fmt("pushc %d %s", o, x.tok.c_str()), o, true, false, [&] { a.AddBack(static_cast<const T&>(v)); }); }
			break; }
		case 3: case 4: case 5: {	// AddBack(Item&&)
			Arg x = pickArg(o, n);
			if (x.alias) faulty("pushm", fmt("pushm %d %s", o, x.tok.c_str()), o, true, false, [&] { a.AddBack(std::move(a[x.j])); });
			else { T v = K::make(x.id); ExtGuard eg(ext); faulty("pushm", fmt("pushm %d %s", o, x.tok.c_str()), o, true, false, [&] { a.AddBack(std::move(v)); }); }
			break; }
		case 6: case 7: {	// AddBackVar(const Item&) / AddBackVar(Item&&)
			Arg x = pickArg(o, n); bool mv = rng.chance(1, 2);
			std::string line = fmt("emplb %d %c %s", o, mv ? 'm' : 'c', x.tok.c_str());
			if (x.alias) {
				if (mv) faulty("emplb_m", line, o, true, false, [&] { a.AddBackVar(std::move(a[x.j])); });
				else faulty("emplb_c", line, o, true, false, [&] { a.AddBackVar(static_cast<const C&>(a)[x.j]); });
			}
			else {
				T v = K::make(x.id); ExtGuard eg(ext);
				if (mv) faulty("emplb_m", line, o, true, false, [&] { a.AddBackVar(std::move(v)); });
				else faulty("emplb_c", line, o, true, false, [&] { a.AddBackVar(static_cast<const T&>(v)); });
			}
			break; }
		case 8: case 9: case 20: {	// SetCount(count, item): shrinking, growing in place, growing with reallocation
			size_t cnt = (size_t)rng.below(n + 9); if (kind == 20) cnt = (size_t)rng.below(n + 1);
			Arg x = pickArg(o, n);
			std::string line = fmt("setc %d %zu %s", o, cnt, x.tok.c_str());
			if (x.alias) faulty("setc", line, o, true, false, [&] { a.SetCount(cnt, static_cast<const C&>(a)[x.j]); });
			else { T v = K::make(x.id); ExtGuard eg(ext); faulty("setc", line, o, true, false, [&] { a.SetCount(cnt, v); }); }
			break; }
		case 10: case 21: {	// Reserve
			size_t cap = (size_t)rng.below(n + 14);
			faulty("reserve", fmt("reserve %d %zu", o, cap), o, true, false, [&] { a.Reserve(cap); });
			break; }
		case 11: case 22: case 23: {	// Shrink(capacity) / Shrink()
			size_t cap = rng.chance(1, 2) ? n : (size_t)rng.below(n + 6);
			faulty("shrinkto", fmt("shrinkto %d %zu", o, cap), o, true, false, [&] { if (cap == n) a.Shrink(); else a.Shrink(cap); });
			break; }
		case 12: case 13: {	// InsertVar(index, const Item& / Item&&)
			size_t idx = pickIndex(n); Arg x = pickArg(o, idx); bool mv = rng.chance(1, 2);
			std::string line = fmt("empl %d %zu %c %s", o, idx, mv ? 'm' : 'c', x.tok.c_str());
			if (x.alias) {
				if (mv) faulty("empl_m", line, o, false, false, [&] { a.InsertVar(idx, std::move(a[x.j])); });
				else faulty("empl_c", line, o, false, false, [&] { a.InsertVar(idx, static_cast<const C&>(a)[x.j]); });
			}
			else {
				T v = K::make(x.id); ExtGuard eg(ext);
				if (mv) faulty("empl_m", line, o, false, false, [&] { a.InsertVar(idx, std::move(v)); });
				else faulty("empl_c", line, o, false, false, [&] { a.InsertVar(idx, static_cast<const T&>(v)); });
			}
			break; }
		case 14: case 15: {	// Insert(index, Item&&)
			size_t idx = pickIndex(n); Arg x = pickArg(o, idx);
			std::string line = fmt("ins1m %d %zu %s", o, idx, x.tok.c_str());
			if (x.alias) faulty("ins1m", line, o, false, false, [&] { a.Insert(idx, std::move(a[x.j])); });
			else { T v = K::make(x.id); ExtGuard eg(ext); faulty("ins1m", line, o, false, false, [&] { a.Insert(idx, std::move(v)); }); }
			break; }
		case 16: case 17: case 18: {	// Insert(index, count, const Item&) / Insert(index, const Item&)
			size_t idx = pickIndex(n); Arg x = pickArg(o, idx);
			size_t cnt = (size_t)rng.below(6);
			bool single = cnt == 1 && rng.chance(1, 2);
			std::string line = fmt("insn %d %zu %zu %s", o, idx, cnt, x.tok.c_str());
			if (x.alias) faulty("insn", line, o, false, false, [&] { if (single) a.Insert(idx, static_cast<const C&>(a)[x.j]); else a.Insert(idx, cnt, static_cast<const C&>(a)[x.j]); });
			else { T v = K::make(x.id); ExtGuard eg(ext); faulty("insn", line, o, false, false, [&] { if (single) a.Insert(idx, static_cast<const T&>(v)); else a.Insert(idx, cnt, v); }); }
			break; }
		case 19: case 29: {	// Insert(index, begin, end), forward iterators over external values
			size_t idx = pickIndex(n); size_t cnt = (size_t)rng.below(6);
			std::vector<T> vals; std::string ids;
			vals.reserve(cnt);
			for (size_t i = 0; i < cnt; ++i) { uint32_t id = fresh(); vals.push_back(K::make(id)); ids += fmt(" %u", id); }
			// the fault position precedes the values on the line
			long k; std::string ks = pickK("insr", k);
			insertRange(o, idx, vals, ids, k, ks);
			break; }
		case 24: case 25: case 26: case 30: case 31: case 32: {	// Remove(index, count)
			size_t idx = pickIndex(n); size_t cnt = (size_t)rng.below(std::min<size_t>(n - idx, 5) + 1);
			if (!mayGrow && rng.chance(1, 2)) cnt = (size_t)rng.below(n - idx + 1);
			faulty("rem", fmt("rem %d %zu %zu", o, idx, cnt), o, false, false, [&] { a.Remove(idx, cnt); });
			break; }
		case 27: case 33: case 34: {	// Remove(filter)
			unsigned m = (unsigned)rng.range(1, 4), rr = (unsigned)rng.below(m);
			auto pr = [m, rr](const T& t) { return t.state == LIVE && t.id % m == rr; };
			faulty("remif", fmt("remif %d %u %u", o, m, rr), o, false, false, [&] { a.Remove(pr); });
			break; }
		case 28: case 35: {	// a[j] = fresh value (repairs moved-from items; not under test: no fault)
			if (n == 0) break;
			size_t j = (size_t)rng.below(n); uint32_t id = fresh();
			// prefer a moved-from item
			for (size_t i = 0; i < n; ++i) if (a.GetItems()[i].state == MOVED) { j = i; break; }
			T v = K::make(id); ExtGuard eg(ext);
			plain(fmt("set %d %zu %u", o, j, id), [&] { a[j] = static_cast<const T&>(v); }, o);
			break; }
		default: twoObjects(o); break;
		}
	}

	void insertRange(int o, size_t idx, std::vector<T>& vals, const std::string& ids, long k, const std::string& ks) {
		C& a = *obj[o];
		std::string line = fmt("insr %d %zu %s%s", o, idx, ks.c_str(), ids.c_str());
		std::string before = state(o);
		mw().ev.clear();
		FP& p = fp(); p.points = 0; p.fired = false; p.countdown = k;
		bool threw = false;
		const T* b = vals.data(); const T* e = vals.data() + vals.size();
		try { a.Insert(idx, b, e); }
		catch (const std::bad_alloc&) { threw = true; }
		catch (const ElemFault&) { threw = true; }
		p.countdown = -1;
		long& mp = maxPoints["insr"]; if (p.points > mp) mp = p.points;
		note(line + (threw ? " -> threw" : ""));
		vals.clear();	// the external values die before the ledger is read
		s.op(line);
		s.res(std::string(threw ? "threw " : "ok ") + state(o) + "|" + events() + "|" + ledger());
		c.stats.evaluations++; c.stats.count("op.insr");
		if (threw) { c.stats.count("threw.basic.insr"); c.stats.nontrivial(cfgName + "|insr|" + ks + "|" + before.substr(0, before.find('|'))); }
		checkValid(line, threw);
	}

	void create(int o) {
		int src = -1;
		for (int q = 0; q < slotCount; ++q) if (q != o && obj[q] && rng.chance(1, 2)) src = q;
		if (src >= 0) {	// Array(const Array&, bool shrink)
			bool shr = rng.chance(1, 2);
			faulty("cctor", fmt("cctor %d %d %d", o, src, shr ? 1 : 0), o, true, true, [&] { if (shr) obj[o].reset(new C(*obj[src])); else obj[o].reset(new C(*obj[src], false)); });
		}
		else if (rng.chance(1, 2)) {	// Array(count, item)
			size_t n = (size_t)rng.below(8); uint32_t id = fresh(); T v = K::make(id); ExtGuard eg(ext);
			faulty("fill", fmt("fill %d %zu v%u", o, n, id), o, true, true, [&] { obj[o].reset(new C(n, v)); });
		}
		else if (canAssign && rng.chance(1, 2)) createCrt(o, std::integral_constant<bool, canAssign>());
		else plain(fmt("new %d", o), [&] { obj[o].reset(new C()); }, o);
	}
	// CreateCrt(count, itemMultiCreator) with the k-th fallible step (the allocation, then one copy construction per creator call)
	// failing; CreateCap(capacity).  They return by value through Array(Data&&): with an internal buffer only for nothrow-relocatable
	// items (= canAssign).  Property level: a call that threw left no element object and no block (faulty, `ctor`); a call that
	// returned made exactly `count` creator calls, the i-th one for element i, and the elements are what the calls made
	void createCrt(int, std::false_type, long = -2) {}
	void createCrt(int o, std::true_type, long forceK = -2) {
		if (forceK == -2 && rng.chance(1, 3)) {
			size_t n = (size_t)rng.below(12);
			faulty("newcap", fmt("newcap %d %zu", o, n), o, true, true, [&] { obj[o].reset(new C(C::CreateCap(n))); });
			if (obj[o] && (obj[o]->GetCount() != 0 || obj[o]->GetCapacity() < n)) fail("C05 CreateCap", fmt("count %zu capacity %zu for CreateCap(%zu)", obj[o]->GetCount(), obj[o]->GetCapacity(), n));
			return;
		}
		size_t n = (size_t)rng.below(8);
		std::vector<T> vals; std::string ids;
		vals.reserve(n);
		for (size_t i = 0; i < n; ++i) { uint32_t id = fresh(); vals.push_back(K::make(id)); ids += fmt(" %u", id); }
		std::vector<T*> ptrs; size_t calls = 0;
		auto creator = [&vals, &ptrs, &calls](T* p) { ptrs.push_back(p); size_t i = calls++; ::new(static_cast<void*>(p)) T(static_cast<const T&>(vals.at(i))); };
		ext += (long)n;
		faulty("crt", fmt("crt %d", o), o, true, true, [&] { obj[o].reset(new C(C::CreateCrt(n, creator))); }, ids, forceK);
		ext -= (long)n;
		if (obj[o]) {
			const C& a = *obj[o];
			bool ok = calls == n && a.GetCount() == n;
			for (size_t i = 0; ok && i < n; ++i) ok = a.GetItems()[i].id == vals[i].id && (intCap > 0 || ptrs[i] == a.GetItems() + i);
			if (!ok) fail("C05 CreateCrt", fmt("%zu creator calls for count %zu, contents {%s}, values [%s]", calls, n, state(o).c_str(), ids.c_str()));
		}
		else if (calls > n) fail("C05 CreateCrt", fmt("%zu creator calls for count %zu", calls, n));
		c.stats.count(obj[o] ? "crt.completed" : (calls > 0 ? "crt.creator_threw" : "crt.allocation_failed"));
	}

	// Array::Data::pvCheckCapacity: a capacity whose byte size does not fit size_t is refused with std::bad_array_new_length
	// before any fallible step (no memory-manager call, no element operation); C04: contents, count and capacity as before.
	// The model answers `get`: the unchanged state, no call, the ledger as it was
	void overflow(int o) {
		C& a = *obj[o];
		const size_t big = SIZE_MAX / sizeof(T) + 1;
		size_t arg = rng.chance(1, 2) ? big : rng.chance(1, 2) ? SIZE_MAX : big + (size_t)rng.below(SIZE_MAX - big);
		unsigned v = (unsigned)rng.below(canAssign ? 4 : 3);
		const char* what = v == 0 ? "Reserve" : v == 1 ? "SetCount(count, item)" : v == 2 ? "Array(count, item)" : "CreateCap";
		T x = K::make(fresh()); ExtGuard eg(ext);
		std::string before = state(o), blocksBefore = blocks(); long liveBefore = liveObjs();
		int outcome = 0;
		FP& p = fp(); p.points = 0; p.fired = false;
		plain(fmt("get %d", o), [&] {
			try {
				if (v == 0) a.Reserve(arg);
				else if (v == 1) { if (a.GetCount() > 0 && rng.chance(1, 2)) a.SetCount(arg, static_cast<const C&>(a)[0]); else a.SetCount(arg, x); }
				else if (v == 2) { std::unique_ptr<C> t(new C(arg, x)); }
				else overflowCap(arg, std::integral_constant<bool, canAssign>());
			}
			catch (const std::bad_array_new_length&) { outcome = 1; }
			catch (const std::bad_alloc&) { outcome = 2; }
			catch (...) { outcome = 3; }
		}, o);
		c.stats.count(std::string("overflow.") + what + (a.GetCount() ? ".nonempty" : ".empty"));
		std::string tag = fmt("slot %d: %s(%zu) with sizeof(Item) = %zu", o, what, arg, sizeof(T));
		if (outcome != 1) fail("C04 capacity overflow: no std::bad_array_new_length", tag + (outcome == 0 ? " returned" : outcome == 2 ? " threw another std::bad_alloc" : " threw something else"));
		else if (state(o) != before) fail("C04 strong guarantee", tag + fmt(" threw and changed the container: before {%s} after {%s}", before.c_str(), state(o).c_str()));
		else if (!mw().ev.empty() || p.points != 0) fail("C04 capacity overflow", tag + fmt(": %ld fallible steps, memory-manager calls [%s] before the exception", p.points, events().c_str()));
		else if (blocks() != blocksBefore || liveObjs() != liveBefore) fail("C04 strong guarantee / leak", tag + fmt(": blocks [%s] before [%s], %ld element objects, %ld before", blocks().c_str(), blocksBefore.c_str(), liveObjs(), liveBefore));
		checkValid(tag, true);
	}
	void overflowCap(size_t, std::false_type) {}
	void overflowCap(size_t n, std::true_type) { std::unique_ptr<C> t(new C(C::CreateCap(n))); }

	void twoObjects(int o) {
		int q = (o + 1 + (int)rng.below(slotCount - 1)) % slotCount;
		if (!obj[q]) { create(q); return; }
		if (rng.chance(1, 4)) { destroy(q); return; }
		copyAssign(o, q, std::integral_constant<bool, canAssign>());
	}
	void copyAssign(int o, int q, std::true_type) {
		setOracle(q);
		faulty("casg", fmt("casg %d %d", o, q), o, true, false, [&] { *obj[o] = static_cast<const C&>(*obj[q]); });
	}
	void copyAssign(int, int, std::false_type) {}
};

template<size_t N, typename T, typename MMT>
using Arr = momo::Array<T, MMT, momo::ArrayItemTraits<T, MMT>, momo::ArraySettings<N>>;

template<typename C>
static void runConfig(Ctx& c, Rng& rng, const char* name, const Budget& b)
{
	Suite s(c, std::string("arrfault_") + name, Runner<C>::header());
	Runner<C> r(c, rng, s, name);
	r.run(b);
	c.stats.count(std::string("config.") + name);
}

} // namespace af

using namespace af;

typedef MM<false, false> MM00;
typedef MM<true, false> MM10;
typedef MM<false, true> MM01;
typedef MM<true, true> MM11;

// what the element types are meant to exercise, checked against the real traits
static_assert(momo::ArrayItemTraits<Tr, MM10>::isTriviallyRelocatable, "Tr");
static_assert(momo::ArrayItemTraits<ElM<false>, MM00>::isNothrowMoveConstructible && !momo::ArrayItemTraits<ElM<false>, MM00>::isTriviallyRelocatable, "ElM");
static_assert(momo::ArrayItemTraits<ElM<true>, MM00>::isNothrowMoveConstructible && momo::ArrayItemTraits<ElM<true>, MM00>::isNothrowRelocatable, "ElM throwing assignment");
static_assert(!momo::ArrayItemTraits<ElC<false>, MM00>::isNothrowRelocatable && !momo::ArrayItemTraits<ElC<false>, MM00>::isNothrowMoveConstructible, "ElC");
static_assert(!momo::ArrayItemTraits<ElC<true>, MM00>::isNothrowRelocatable, "ElC throwing assignment");
// ElS: for Array the category of ElC<true>; for ObjectManager a swappable one (pvShiftNothrow / pvAssignAnyway swap variants)
static_assert(!momo::ArrayItemTraits<ElS, MM00>::isNothrowRelocatable && !momo::ArrayItemTraits<ElS, MM00>::isNothrowMoveConstructible
	&& !momo::ArrayItemTraits<ElS, MM00>::isTriviallyRelocatable, "ElS");
static_assert(momo::internal::ObjectManager<ElS, MM00>::isNothrowSwappable && momo::internal::ObjectManager<ElS, MM00>::isNothrowShiftable
	&& momo::internal::ObjectManager<ElS, MM00>::isNothrowAnywayAssignable && !std::is_nothrow_move_assignable<ElS>::value, "ElS");

int main(int argc, char** argv)
{
	Ctx c = parseArgs(argc, argv);
	Rng rng(c.seed * 0x1000 + 0x4AF + AF_PART);
	Budget b = c.thorough ? Budget{ 260, 120, 70 } : Budget{ 36, 110, 40 };
#if AF_PART == 0 || AF_PART == 1
	runConfig<Arr<0, ElM<false>, MM00>>(c, rng, "a0_nm", b);
	runConfig<Arr<3, ElM<false>, MM00>>(c, rng, "a3_nm", b);
#endif
#if AF_PART == 0 || AF_PART == 2
	runConfig<Arr<0, ElM<true>, MM00>>(c, rng, "a0_nm_ta", b);
	runConfig<Arr<2, ElM<true>, MM01>>(c, rng, "a2_nm_ta_inplace", b);
#endif
#if AF_PART == 0 || AF_PART == 3
	runConfig<Arr<0, ElC<false>, MM00>>(c, rng, "a0_co", b);
	runConfig<Arr<2, ElC<false>, MM00>>(c, rng, "a2_co", b);
#endif
#if AF_PART == 0 || AF_PART == 4
	runConfig<Arr<0, ElC<true>, MM00>>(c, rng, "a0_co_ta", b);
	runConfig<Arr<0, Tr, MM00>>(c, rng, "a0_triv", b);
#endif
#if AF_PART == 0 || AF_PART == 5
	runConfig<Arr<0, Tr, MM10>>(c, rng, "a0_triv_realloc", b);
	runConfig<Arr<3, Tr, MM11>>(c, rng, "a3_triv_both", b);
#endif
#if AF_PART == 0 || AF_PART == 6
	runConfig<Arr<0, ElS, MM00>>(c, rng, "a0_sw", b);
	runConfig<Arr<2, ElS, MM01>>(c, rng, "a2_sw_inplace", b);
#endif
	return c.finish();
}
