// C17 correspondence harness (1/2): momo::HashSorter - Sort / SortPrehashed / IsSorted / Find / GetBounds,
// pvMultShift and pvGetStepCount at function level (-fno-access-control).
//
// Items are (key, id) pairs; equality compares keys only, so the exact arrangement that Sort produces is
// visible through the ids and is compared with the model cell by cell.  Sort is called with a logging
// iterSwapper: the number of swaps and an order-sensitive checksum of their index pairs are compared with
// the model's swap log.  Hash of a key = table entry (keys below the table size) or a formula family; the
// model driver (lean/Driver/Sort.lean) implements the same tables / families / LCG.
//
// Property-level oracle (independent of the model): after Sort the sequence is a permutation of the input,
// hash codes are non-decreasing, equal items are contiguous, a prehashed array still holds hash(item) in
// every cell; IsSorted, Find, GetBounds are compared with a linear scan.
#include "momo/HashSorter.h"
#include "common/verif_common.h"

#include <algorithm>
#include <vector>
#include <map>
#include <string>

#include <csignal>
#include <dlfcn.h>

using namespace vf;

// the case being executed, reported as a FAIL line (= concrete failing input) if a sanitizer or a signal kills the run
static std::string g_current;
static void reportCurrent() { printf("FAIL C17 aborted (sanitizer report / signal) while running: %s\n", g_current.c_str()); fflush(stdout); }
static void onSignal(int sig) { reportCurrent(); _Exit(1); }
static void installCrashReporter() {
	// g++ links libasan and libubsan as two runtimes, each with its own death callback: register with every one loaded
	typedef void (*SetCallback)(void (*)(void));
	for (const char* lib : { "libasan.so.8", "libasan.so.6", "libasan.so.5", "libubsan.so.1", "libtsan.so.2" })
		if (void* h = dlopen(lib, RTLD_NOLOAD | RTLD_NOW))
			if (SetCallback set = (SetCallback)dlsym(h, "__sanitizer_set_death_callback")) set(reportCurrent);
	std::signal(SIGSEGV, onSignal); std::signal(SIGABRT, onSignal); std::signal(SIGFPE, onSignal);
}

struct Item { uint32_t key; uint32_t id; };

struct HashCfg {
	std::vector<uint64_t> tab;
	unsigned fam = 0;
	uint64_t operator()(uint64_t key) const {
		if (key < tab.size()) return tab[(size_t)key];
		switch (fam) {
		case 0: return 0x5555555555555555ull;
		case 1: return key % 2 == 0 ? 1000ull : 9223372036854775813ull;
		case 2: return key % 2 == 0 ? 0ull : ~0ull;
		case 3: return key * 0x9E3779B97F4A7C15ull;
		case 4: return key;
		case 5: return (key % 3) * 4611686018427387904ull;
		case 6: return ~0ull - key % 4;
		case 7: return (key % 256) * 72057594037927936ull;
		case 8: return (key / 4) * 0x9E3779B97F4A7C15ull;
		default: return key * 4294967296ull;
		}
	}
};

struct HashFn {
	const HashCfg* cfg;
	size_t operator()(const Item& it) const { return (size_t)(*cfg)(it.key); }
};
struct EqFn {
	bool operator()(const Item& a, const Item& b) const { return a.key == b.key; }
};

// log of the iterSwapper calls: number of calls and an order-sensitive checksum of the (index1, index2) pairs
struct SwapLog { uint64_t n = 0, chk = 0; };
template<typename Iterator>
struct TraceSwapper {
	Iterator begin; SwapLog* log;
	void operator()(Iterator a, Iterator b) const {
		log->n++;
		log->chk = log->chk * 1000003ull + (uint64_t)(a - begin) * 65537ull + (uint64_t)(b - begin) + 1;
		std::iter_swap(a, b);
	}
};

static uint64_t lcgNext(uint64_t x) { return x * 6364136223846793005ull + 1442695040888963407ull; }

static uint64_t chkIds(const std::vector<Item>& v) { uint64_t c = 0; for (auto& it : v) c = c * 1000003ull + it.id + 1; return c; }
static uint64_t chkU64(const std::vector<size_t>& v) { uint64_t c = 0; for (auto x : v) c = c * 1000003ull + (uint64_t)x + 1; return c; }

static std::string keysStr(const std::vector<Item>& v, size_t maxn = 40) {
	std::string s = "[";
	for (size_t i = 0; i < v.size() && i < maxn; ++i) s += fmt(i ? " %u" : "%u", v[i].key);
	if (v.size() > maxn) s += fmt(" ... (%zu items)", v.size());
	return s + "]";
}
static std::string tabStr(const HashCfg& h) {
	std::string s = fmt("fam=%u tab=[", h.fam);
	for (size_t i = 0; i < h.tab.size(); ++i) s += fmt(i ? " %llu" : "%llu", (unsigned long long)h.tab[i]);
	return s + "]";
}

// ---------- linear-scan specifications ----------

static bool specIsSorted(const std::vector<Item>& v, const HashCfg& h) {
	for (size_t i = 1; i < v.size(); ++i) if (h(v[i].key) < h(v[i - 1].key)) return false;
	// equal items contiguous: a key never reappears after a different key followed it
	for (size_t i = 0; i < v.size(); ++i)
		for (size_t j = i + 1; j < v.size(); ++j)
			if (v[j].key == v[i].key) { for (size_t m = i + 1; m < j; ++m) if (v[m].key != v[i].key) return false; }
	return true;
}
// linear-time version for long sequences
static bool specIsSortedFast(const std::vector<Item>& v, const HashCfg& h) {
	std::map<uint32_t, size_t> last;
	for (size_t i = 0; i < v.size(); ++i) {
		if (i > 0 && h(v[i].key) < h(v[i - 1].key)) return false;
		auto it = last.find(v[i].key);
		if (it != last.end() && it->second + 1 != i) return false;
		last[v[i].key] = i;
	}
	return true;
}

struct Seq {
	std::vector<Item> items;
	std::vector<size_t> hashes;	// parallel array when prehashed
	bool pre = false;
};

// the real calls, through raw pointers or vector iterators (alternating), plain or prehashed
struct Impl {
	const HashCfg& h;
	bool useVecIter;
	SwapLog sort(Seq& q) const {
		HashFn hf{ &h }; EqFn eq; SwapLog log;
		typedef std::vector<Item>::iterator VI;
		if (q.pre) {
			if (useVecIter) momo::HashSorter::SortPrehashed(q.items.begin(), q.items.size(), q.hashes.begin(), eq, TraceSwapper<VI>{ q.items.begin(), &log });
			else momo::HashSorter::SortPrehashed(q.items.data(), q.items.size(), q.hashes.data(), eq, TraceSwapper<Item*>{ q.items.data(), &log });
		} else {
			if (useVecIter) momo::HashSorter::Sort(q.items.begin(), q.items.size(), hf, eq, TraceSwapper<VI>{ q.items.begin(), &log });
			else momo::HashSorter::Sort(q.items.data(), q.items.size(), hf, eq, TraceSwapper<Item*>{ q.items.data(), &log });
		}
		return log;
	}
	bool isSorted(Seq& q) const {
		HashFn hf{ &h }; EqFn eq;
		if (q.pre) {
			if (useVecIter) return momo::HashSorter::IsSortedPrehashed(q.items.begin(), q.items.size(), q.hashes.begin(), eq);
			return momo::HashSorter::IsSortedPrehashed(q.items.data(), q.items.size(), q.hashes.data(), eq);
		}
		if (useVecIter) return momo::HashSorter::IsSorted(q.items.begin(), q.items.size(), hf, eq);
		return momo::HashSorter::IsSorted(q.items.data(), q.items.size(), hf, eq);
	}
	std::pair<size_t, bool> find(Seq& q, uint32_t key) const {
		HashFn hf{ &h }; EqFn eq; Item it{ key, 0xFFFFFFFFu };
		if (q.pre) {
			if (useVecIter) { auto r = momo::HashSorter::FindPrehashed(q.items.begin(), q.items.size(), q.hashes.begin(), it, (size_t)h(key), eq); return { (size_t)(r.iterator - q.items.begin()), r.found }; }
			auto r = momo::HashSorter::FindPrehashed(q.items.data(), q.items.size(), q.hashes.data(), it, (size_t)h(key), eq);
			return { (size_t)(r.iterator - q.items.data()), r.found };
		}
		if (useVecIter) { auto r = momo::HashSorter::Find(q.items.begin(), q.items.size(), it, hf, eq); return { (size_t)(r.iterator - q.items.begin()), r.found }; }
		auto r = momo::HashSorter::Find(q.items.data(), q.items.size(), it, hf, eq);
		return { (size_t)(r.iterator - q.items.data()), r.found };
	}
	std::pair<size_t, size_t> bounds(Seq& q, uint32_t key) const {
		HashFn hf{ &h }; EqFn eq; Item it{ key, 0xFFFFFFFFu };
		if (q.pre) {
			if (useVecIter) { auto b = momo::HashSorter::GetBoundsPrehashed(q.items.begin(), q.items.size(), q.hashes.begin(), it, (size_t)h(key), eq); return { (size_t)(b.GetBegin() - q.items.begin()), (size_t)(b.GetEnd() - q.items.begin()) }; }
			auto b = momo::HashSorter::GetBoundsPrehashed(q.items.data(), q.items.size(), q.hashes.data(), it, (size_t)h(key), eq);
			return { (size_t)(b.GetBegin() - q.items.data()), (size_t)(b.GetEnd() - q.items.data()) };
		}
		if (useVecIter) { auto b = momo::HashSorter::GetBounds(q.items.begin(), q.items.size(), it, hf, eq); return { (size_t)(b.GetBegin() - q.items.begin()), (size_t)(b.GetEnd() - q.items.begin()) }; }
		auto b = momo::HashSorter::GetBounds(q.items.data(), q.items.size(), it, hf, eq);
		return { (size_t)(b.GetBegin() - q.items.data()), (size_t)(b.GetEnd() - q.items.data()) };
	}
};

static const char* modeStr(const Seq& q) { return q.pre ? "prehashed" : "plain"; }

// property-level check of a Sort result against its input
// returns whether the result is a correctly arranged sequence (later operations are specified only then)
static bool checkSorted(Ctx& c, const HashCfg& h, const Seq& before, const Seq& after)
{
	int failsBefore = c.failures;
	size_t n = before.items.size();
	bool ok = after.items.size() == n;
	std::vector<uint32_t> seen(n, 0);
	for (size_t i = 0; ok && i < n; ++i) {
		const Item& it = after.items[i];
		if (it.id >= n || seen[it.id]++ || before.items[it.id].key != it.key) ok = false;
	}
	if (!ok) c.fail("C17 sort-permutation: %s %s input keys=%s: result is not a permutation of the input", modeStr(before), tabStr(h).c_str(), keysStr(before.items).c_str());
	for (size_t i = 1; i < n; ++i)
		if (h(after.items[i].key) < h(after.items[i - 1].key)) {
			c.fail("C17 sort-hash-order: %s %s input keys=%s: hash decreases at position %zu of result keys=%s", modeStr(before), tabStr(h).c_str(), keysStr(before.items).c_str(), i, keysStr(after.items).c_str());
			break;
		}
	if (!specIsSortedFast(after.items, h) && ok)
		c.fail("C17 sort-grouping: %s %s input keys=%s: equal items not contiguous (or hash order broken) in result keys=%s", modeStr(before), tabStr(h).c_str(), keysStr(before.items).c_str(), keysStr(after.items).c_str());
	if (before.pre) {
		bool inStep = after.hashes.size() == n;
		for (size_t i = 0; inStep && i < n; ++i) if (after.hashes[i] != (size_t)h(after.items[i].key)) inStep = false;
		if (!inStep) c.fail("C17 sort-parallel-hashes: prehashed %s input keys=%s: hash array no longer matches the items", tabStr(h).c_str(), keysStr(before.items).c_str());
	}
	return c.failures == failsBefore;
}

// Find / GetBounds against a linear scan; writes the op lines
static void queries(Ctx& c, Suite& s, const HashCfg& h, const Impl& impl, Seq& q, const std::vector<uint32_t>& keys)
{
	size_t n = q.items.size();
	for (uint32_t key : keys) {
		size_t first = n, last = n, cnt = 0;
		for (size_t i = 0; i < n; ++i) if (q.items[i].key == key) { if (cnt++ == 0) first = i; last = i; }
		auto fr = impl.find(q, key);
		s.op(fmt("fd %u", key)); s.res(fmt("%zu %d", fr.first, fr.second ? 1 : 0));
		c.stats.evaluations++;
		if (fr.second != (cnt > 0) || (fr.second && (fr.first >= n || q.items[fr.first].key != key)) || fr.first > n)
			c.fail("C17 find: %s %s keys=%s Find(key=%u hash=%llu) returned index=%zu found=%d, linear scan: %s",
				modeStr(q), tabStr(h).c_str(), keysStr(q.items).c_str(), key, (unsigned long long)h(key), fr.first, (int)fr.second,
				cnt ? fmt("present at %zu..%zu", first, last).c_str() : "absent");
		auto br = impl.bounds(q, key);
		s.op(fmt("gb %u", key)); s.res(fmt("%zu %zu", br.first, br.second));
		c.stats.evaluations++;
		bool okB = cnt ? (br.first == first && br.second == last + 1) : (br.first == br.second && br.first <= n);
		if (!okB)
			c.fail("C17 bounds: %s %s keys=%s GetBounds(key=%u hash=%llu) returned [%zu,%zu), linear scan: %s",
				modeStr(q), tabStr(h).c_str(), keysStr(q.items).c_str(), key, (unsigned long long)h(key), br.first, br.second,
				cnt ? fmt("[%zu,%zu)", first, last + 1).c_str() : "empty");
		// coverage classes
		bool hashPresent = false;
		for (size_t i = 0; i < n && !hashPresent; ++i) hashPresent = h(q.items[i].key) == h(key);
		if (cnt) { c.stats.count("query.present"); if (cnt > 1) c.stats.count("query.present_multi"); }
		else if (hashPresent) c.stats.count("query.absent_hash_collides");
		else if (n == 0) c.stats.count("query.on_empty");
		else if (h(key) < h(q.items[0].key)) c.stats.count("query.absent_below_all");
		else if (h(key) > h(q.items[n - 1].key)) c.stats.count("query.absent_above_all");
		else c.stats.count("query.absent_between");
	}
}

static void setLine(Suite& s, const Seq& q)
{
	std::string line = q.pre ? "set h" : "set p";
	for (auto& it : q.items) line += fmt(" %u", it.key);
	s.op(line); s.res("ok");
}

static void isSortedLine(Ctx& c, Suite& s, const HashCfg& h, const Impl& impl, Seq& q, bool fast)
{
	bool got = impl.isSorted(q);
	bool want = fast ? specIsSortedFast(q.items, h) : specIsSorted(q.items, h);
	s.op("is"); s.res(got ? "1" : "0");
	c.stats.evaluations++;
	c.stats.count(want ? "issorted.true" : "issorted.false");
	if (got != want)
		c.fail("C17 issorted: %s %s keys=%s IsSorted returned %d, linear scan says %d", modeStr(q), tabStr(h).c_str(), keysStr(q.items).c_str(), (int)got, (int)want);
}

static std::string sortLine(const Seq& q, const SwapLog& log)
{
	std::string line;
	for (size_t i = 0; i < q.items.size(); ++i) line += fmt(i ? " %u" : "%u", q.items[i].id);
	if (q.pre) {
		line += " |";
		for (size_t i = 0; i < q.hashes.size(); ++i) line += fmt(" %llu", (unsigned long long)q.hashes[i]);
		if (q.hashes.empty()) line += " ";
	}
	return line + fmt(" ; %llu %llu", (unsigned long long)log.n, (unsigned long long)log.chk);
}

static void setHash(Suite& s, const HashCfg& h)
{
	std::string line = "hf tab";
	for (auto x : h.tab) line += fmt(" %llu", (unsigned long long)x);
	s.op(line); s.res("ok");
	s.op(fmt("hf fam %u", h.fam)); s.res("ok");
}

// ---------- suite arith: pvMultShift, pvGetStepCount ----------

static void runArith(Ctx& c, Rng& rng)
{
	Suite s(c, "arith", "model sort");
	std::vector<uint64_t> edge;
	for (unsigned k = 0; k <= 64; ++k) {
		uint64_t p = (k == 64) ? 0 : (1ull << k);
		for (int d = -2; d <= 2; ++d) edge.push_back(p + (uint64_t)(int64_t)d);
	}
	for (uint64_t x = 0; x < 40; ++x) edge.push_back(x);
	edge.push_back(0xFFFFFFFF00000000ull); edge.push_back(0x00000000FFFFFFFFull); edge.push_back(0xFFFFFFFEFFFFFFFFull);
	auto one = [&](uint64_t hv, uint64_t n) {
		g_current = fmt("pvMultShift(%llu, %llu)", (unsigned long long)hv, (unsigned long long)n);
		size_t r = momo::HashSorter::pvMultShift((size_t)hv, (size_t)n);
		s.op(fmt("ms %llu %llu", (unsigned long long)hv, (unsigned long long)n)); s.res(fmt("%zu", r));
		c.stats.evaluations++;
		unsigned __int128 prod = (unsigned __int128)hv * n;
		uint64_t hi = (uint64_t)(prod >> 64);
		// the property needs an index inside the sequence: r < n whenever n > 0 (the exact value is compared with the model)
		if (n > 0 && r >= n)
			c.fail("C17 multshift: pvMultShift(%llu, %llu) = %zu is not an index below %llu (floor(h*n/2^64) = %llu)", (unsigned long long)hv, (unsigned long long)n, r, (unsigned long long)n, (unsigned long long)hi);
		if (r == hi) c.stats.count("multshift.exact"); else c.stats.count("multshift.below_exact");
	};
	for (uint64_t hv : edge) for (uint64_t n : edge) one(hv, n);
	unsigned rnd = c.thorough ? 400000 : 40000;
	for (unsigned i = 0; i < rnd; ++i) one(rng.biased(64), rng.biased(i % 4 == 0 ? 64 : 24));
	for (unsigned k = 0; k <= 40; ++k)
		for (int d = -1; d <= 1; ++d) {
			uint64_t n = (1ull << k) + (uint64_t)(int64_t)d;
			size_t r = momo::HashSorter::pvGetStepCount((size_t)n);
			s.op(fmt("sc %llu", (unsigned long long)n)); s.res(fmt("%zu", r));
			c.stats.evaluations++;
		}
	c.stats.nontrivial("arith");
}

// ---------- suite exh: all sequences of length 0..maxLen over a 3-letter alphabet ----------

static void runExhaustive(Ctx& c, Rng& rng)
{
	Suite s(c, "exh", "model sort");
	const uint64_t MAXH = ~0ull;
	std::vector<std::pair<std::string, std::vector<uint64_t>>> tables = {
		{ "const-mid", std::vector<uint64_t>(6, 0x5555555555555555ull) },
		{ "const-zero", std::vector<uint64_t>(6, 0) },
		{ "const-max", std::vector<uint64_t>(6, MAXH) },
		{ "two-valued", { 1000, 9223372036854775813ull, 1000, 9223372036854775813ull, 1000, 9223372036854775813ull } },
		{ "extreme", { 0, MAXH, 0, MAXH, 0, MAXH } },
		{ "extreme-mid", { 0, MAXH, 1ull << 63, 1ull << 63, 0, MAXH } },
		{ "injective-spread", { 3ull << 62, 1ull << 62, 1ull << 63, 1ull << 63, 1ull << 60, MAXH - (1ull << 60) } },
		{ "injective-low", { 30, 10, 20, 20, 5, 40 } },
		{ "injective-high", { MAXH - 30, MAXH - 10, MAXH - 20, MAXH - 20, MAXH - 40, MAXH - 5 } },
	};
	unsigned extra = c.thorough ? 12 : 2;
	for (unsigned t = 0; t < extra; ++t) {
		std::vector<uint64_t> tab(6);
		uint64_t pool[3] = { rng.next(), rng.next(), rng.next() };
		for (auto& x : tab) x = rng.chance(1, 2) ? pool[rng.below(3)] : rng.biased(64);
		tables.push_back({ "random", tab });
	}
	const unsigned maxLen = c.thorough ? 8 : 7;
	const std::vector<uint32_t> qkeys = { 0, 1, 2, 3, 4, 5 };
	unsigned long long flip = 0;
	for (auto& tb : tables) {
		HashCfg h; h.tab = tb.second; h.fam = 0;
		setHash(s, h);
		for (int pre = 0; pre < 2; ++pre) {
			for (unsigned len = 0; len <= maxLen; ++len) {
				unsigned long long total = 1; for (unsigned i = 0; i < len; ++i) total *= 3;
				for (unsigned long long code = 0; code < total; ++code) {
					Seq q; q.pre = pre != 0;
					unsigned long long x = code;
					for (unsigned i = 0; i < len; ++i) { q.items.push_back(Item{ (uint32_t)(x % 3), i }); x /= 3; }
					if (q.pre) for (auto& it : q.items) q.hashes.push_back((size_t)h(it.key));
					Impl impl{ h, (flip++ & 1) != 0 };
					g_current = fmt("%s %s %s, IsSorted/Find/GetBounds/Sort on keys=", tb.first.c_str(), modeStr(q), tabStr(h).c_str()) + keysStr(q.items);
					setLine(s, q);
					bool arranged = specIsSorted(q.items, h);
					isSortedLine(c, s, h, impl, q, false);
					if (arranged) {	// "any sequence arranged that way", not only what Sort produces
						queries(c, s, h, impl, q, qkeys);
						c.stats.count("exh.queried_unsorted_but_arranged");
					}
					Seq before = q;
					SwapLog log = impl.sort(q);
					s.op("sort"); s.res(sortLine(q, log));
					c.stats.count("sort.swaps", log.n);
					c.stats.evaluations++;
					// IsSorted / Find / GetBounds on the result are specified only if Sort arranged it (and kept the hashes in step)
					if (checkSorted(c, h, before, q)) {
						isSortedLine(c, s, h, impl, q, false);
						queries(c, s, h, impl, q, qkeys);
					}
					std::set<uint32_t> distinct; for (auto& it : q.items) distinct.insert(it.key);
					if (len >= 3 && distinct.size() >= 2) c.stats.nontrivial(fmt("%s/%d/%u/%llu", tb.first.c_str(), pre, len, code));
					c.stats.count(fmt("exh.len%u", len));
					if (len == 5 && code == 77) c.stats.sample(fmt("exh %s %s keys=%s -> ids %s", tb.first.c_str(), modeStr(q), keysStr(before.items).c_str(), sortLine(q, log).c_str()));
				}
			}
		}
		c.stats.count("exh.tables");
	}
}

// ---------- suite rand: long random sequences x hash families x plain/prehashed ----------

static void runRandom(Ctx& c, Rng& rng)
{
	Suite s(c, "rand", "model sort");
	unsigned rounds = c.thorough ? 260 : 60;
	for (unsigned round = 0; round < rounds; ++round) {
		HashCfg h;
		h.fam = (unsigned)(round % 10);
		bool lowSpread = (h.fam == 0 || h.fam == 1 || h.fam == 2 || h.fam == 5 || h.fam == 6 || h.fam == 7);
		// optional small table on top of the family: extreme values for the first keys
		if (rng.chance(1, 3)) { h.tab = { 0, ~0ull, rng.biased(64) }; }
		size_t n;
		switch (rng.below(6)) {
		case 0: n = (size_t)rng.range(0, 70); break;				// around the 2^6 step threshold
		case 1: n = (size_t)rng.range(60, 300); break;
		case 2: n = (size_t)rng.range(3900, 4300); break;			// around 2^12
		case 3: n = (size_t)rng.range(300, 3000); break;
		case 4: n = (size_t)rng.range(5000, c.thorough ? 120000 : 30000); break;
		default: n = (size_t)rng.range(1, 40); break;
		}
		if (c.thorough && round == 7) { n = (size_t)(1u << 22) + 5; h.fam = 3; lowSpread = false; }	// pvGetStepCount = 3
		uint64_t K;
		switch (rng.below(5)) {
		case 0: K = 1 + rng.below(3); break;
		case 1: K = 1 + n / 10; break;
		case 2: K = 1 + n; break;
		case 3: K = 1 + 10 * (uint64_t)n; break;
		default: K = 1 + rng.below(60); break;
		}
		// pvGroup is quadratic in (run length x distinct keys of the run): keep that product small
		if (lowSpread) { while ((uint64_t)n * std::min<uint64_t>(K, n) > 3000000ull) { if (n > 3000) n /= 2; else K = K / 2 + 1; } }
		if (h.fam == 8) { while ((uint64_t)n * std::min<uint64_t>(K, n) > 400000000ull) n /= 2; }
		uint64_t seed = rng.next() >> 1;
		Seq q; q.pre = rng.chance(1, 2);
		uint64_t x = seed;
		for (size_t i = 0; i < n; ++i) { x = lcgNext(x); q.items.push_back(Item{ (uint32_t)((x >> 33) % K), (uint32_t)i }); }
		if (q.pre) for (auto& it : q.items) q.hashes.push_back((size_t)h(it.key));
		Impl impl{ h, (round & 1) != 0 };
		g_current = fmt("random sequence %s %s n=%zu K=%llu lcg-seed=%llu (keys = (lcg >> 33) %% K), IsSorted/Sort/Find/GetBounds", modeStr(q), tabStr(h).c_str(), n, (unsigned long long)K, (unsigned long long)seed);
		setHash(s, h);
		s.op(fmt("gen %s %zu %llu %llu", q.pre ? "h" : "p", n, (unsigned long long)K, (unsigned long long)seed)); s.res("ok");
		isSortedLine(c, s, h, impl, q, true);
		Seq before = q;
		SwapLog log = impl.sort(q);
		s.op("sortsum"); s.res(fmt("%zu %llu %llu ; %llu %llu", q.items.size(), (unsigned long long)chkIds(q.items), (unsigned long long)chkU64(q.hashes), (unsigned long long)log.n, (unsigned long long)log.chk));
		c.stats.count("sort.swaps", log.n);
		c.stats.evaluations++;
		bool sortedOk = checkSorted(c, h, before, q);
		if (sortedOk) isSortedLine(c, s, h, impl, q, true);
		std::vector<uint32_t> keys;
		unsigned nq = c.thorough ? 60 : 30;
		for (unsigned i = 0; i < nq; ++i) {
			switch (rng.below(4)) {
			case 0: keys.push_back((uint32_t)rng.below(K + 6)); break;
			case 1: keys.push_back(n ? q.items[(size_t)rng.below(n)].key : 0); break;
			case 2: keys.push_back((uint32_t)(K + rng.below(1000))); break;			// absent
			default: keys.push_back((uint32_t)rng.below(4)); break;
			}
		}
		if (n) { keys.push_back(q.items[0].key); keys.push_back(q.items[n - 1].key); }
		if (sortedOk) queries(c, s, h, impl, q, keys);
		size_t sc = momo::HashSorter::pvGetStepCount(n);
		c.stats.count(fmt("rand.stepcount%zu", sc));
		c.stats.count(fmt("rand.fam%u", h.fam));
		c.stats.count(q.pre ? "rand.prehashed" : "rand.plain");
		if (n >= 3) c.stats.nontrivial(fmt("rand/%u/%zu/%llu/%llu", h.fam, n, (unsigned long long)K, (unsigned long long)seed));
		c.stats.sample(fmt("rand fam=%u %s n=%zu K=%llu seed=%llu -> chk=%llu", h.fam, modeStr(q), n, (unsigned long long)K, (unsigned long long)seed, (unsigned long long)chkIds(q.items)));
	}
}

int main(int argc, char** argv)
{
	Ctx c = parseArgs(argc, argv);
	installCrashReporter();
	Rng rng(c.seed * 0x1000 + 17);
	runArith(c, rng);
	runExhaustive(c, rng);
	runRandom(c, rng);
	return c.finish();
}
