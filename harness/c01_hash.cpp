// C01 / C11 correspondence harness: momo::HashSet / HashMap against (a) a std::map reference
// (property level) and (b) the Lean model `hashtable` (model level: counts, capacities, generations,
// complete bucket layout incl. WasFull flags and search bounds, read with -fno-access-control).
// Compile with -DVF_FAULTS=1 for the C11 variant (allocation refusal at growth, failing element
// creation, failures inside the migration to a larger table, throwing hash functor).
#define MOMO_INCLUDE_OLD_HASH_BUCKETS
#include <cstring>
#include "momo/HashSet.h"
#include "momo/HashMap.h"
#include "common/verif_elems.h"

#include <map>
#include <set>
#include <optional>
#include <algorithm>

#ifndef VF_FAULTS
#define VF_FAULTS 0
#endif
#ifndef VF_PART
#define VF_PART 0
#endif
// VF_PTRBITS = 48 / 32: every container allocates through a manager that declares ptrUsefulBitCount = 48 / 32 (32: from an
// arena below 4 GB); the build also defines MOMO_MEM_MANAGER_PTR_USEFUL_BIT_COUNT (see common/verif_ptrbits.h, observation O3),
// so that BucketLimP4 packs pointer and state into 6 / 4 bytes (BucketLimP4PtrState) and keeps 6 / 8 metadata bytes
#ifndef VF_PTRBITS
#define VF_PTRBITS 0
#endif
#include "common/verif_ptrbits.h"

using namespace vf;

#if VF_PTRBITS
typedef FaultMMBits<VF_PTRBITS> HMM;
#else
typedef FaultMM HMM;
#endif

// run-time override of HashTraits::GetLogStartBucketCount (0 = none): a traits class that asks for an absurd first table
static size_t g_logStartOverride = 0;

// fault builds (C11): MOMO_CHECK throws std::invalid_argument instead of asserting, so that a check that fails inside pvAdd
// (pvAddGrow's sizing loop, HashSet.h:1135-1142) is reported with the insertion that provoked it instead of aborting the run
#if VF_FAULTS
#define VF_CHECK_MODE momo::CheckMode::exception
#else
#define VF_CHECK_MODE momo::CheckMode::bydefault
#endif
struct NoExtra : public momo::HashSetSettings { static const momo::CheckMode checkMode = VF_CHECK_MODE; static const momo::ExtraCheckMode extraCheckMode = momo::ExtraCheckMode::nothing; };
struct NoExtraMap : public momo::HashMapSettings { static const momo::CheckMode checkMode = VF_CHECK_MODE; static const momo::ExtraCheckMode extraCheckMode = momo::ExtraCheckMode::nothing; };

template<typename Key, typename HashBucket, bool tFast, unsigned tLogStart>
struct FamTraits : public momo::HashTraits<Key, HashBucket>
{
	static const bool isFastNothrowHashable = tFast;
	template<typename ItemTraits>
	using Bucket = typename HashBucket::template Bucket<ItemTraits, !isFastNothrowHashable>;
	size_t GetLogStartBucketCount() const noexcept { return g_logStartOverride ? g_logStartOverride : tLogStart; }
	size_t GetHashCode(const Key& key) const { return famHash(idOf(key)); }
	bool IsEqual(const Key& a, const Key& b) const { return idOf(a) == idOf(b); }
};

static uint64_t mixh(uint64_t h, uint64_t x) { return h * 1000003ull + x + 1; }

// ---------- adapters: uniform view of HashSet<Key> and HashMap<Key, uint32_t>
template<typename Key, typename Traits>
struct SetAd {
	typedef momo::HashSet<Key, Traits, HMM, momo::HashSetItemTraits<Key, HMM>, NoExtra> C;
	typedef C HS;
	static const bool isMap = false;
	C c;
	HS& hs() { return c; }
	bool insert(uint32_t k, uint32_t) { return c.Insert(Key(k)).inserted; }
	std::optional<uint32_t> find(uint32_t k) { auto p = c.Find(Key(k)); if (!p) return std::nullopt; return 0u; }
	bool remove(uint32_t k) { return c.Remove(Key(k)); }
	size_t removePred(uint32_t m, uint32_t r) { return c.Remove([m, r](const Key& x) { return idOf(x) % m == r; }); }
	std::vector<uint32_t> trav() { std::vector<uint32_t> v; for (const Key& x : c) v.push_back(idOf(x)); return v; }
	template<typename Item> static uint32_t keyOf(const Item& it) { return idOf(it); }
	template<typename Item> static uint32_t valOf(const Item&) { return 0; }
	typename C::ExtractedItem handle;
	std::optional<uint32_t> extract(uint32_t k) { auto p = c.Find(Key(k)); if (!p) return std::nullopt; c.Remove(typename C::ConstIterator(p), handle); return 0u; }
	bool hasHandle() { return !handle.IsEmpty(); }
	bool reinsert() { return c.Insert(std::move(handle)).inserted; }
};

template<typename Key, typename Traits>
struct MapAd {
	typedef momo::HashMap<Key, uint32_t, Traits, HMM, momo::HashMapKeyValueTraits<Key, uint32_t, HMM>, NoExtraMap> C;
	typedef decltype(C::mHashSet) HS;
	static const bool isMap = true;
	C c;
	HS& hs() { return c.mHashSet; }
	bool insert(uint32_t k, uint32_t v) { return c.Insert(Key(k), v).inserted; }
	std::optional<uint32_t> find(uint32_t k) { auto p = c.Find(Key(k)); if (!p) return std::nullopt; return p->value; }
	bool remove(uint32_t k) { return c.Remove(Key(k)); }
	size_t removePred(uint32_t m, uint32_t r) { return c.Remove([m, r](const Key& x, const uint32_t&) { return idOf(x) % m == r; }); }
	std::vector<uint32_t> trav() { std::vector<uint32_t> v; for (auto ref : c) v.push_back(idOf(ref.key)); return v; }
	template<typename Item> static uint32_t keyOf(const Item& it) { return idOf(*it.GetKeyPtr()); }
	template<typename Item> static uint32_t valOf(const Item& it) { return *it.GetValuePtr(); }
	typename C::ExtractedPair handle;
	std::optional<uint32_t> extract(uint32_t k) { auto p = c.Find(Key(k)); if (!p) return std::nullopt; c.Remove(typename C::ConstIterator(p), handle); return handle.GetValue(); }
	bool hasHandle() { return !handle.IsEmpty(); }
	bool reinsert() { return c.Insert(std::move(handle)).inserted; }
};

// HashMap<Key, Val> whose mapped value is an instrumented element class too: every combination of the relocation / assignment
// categories of key and value (MapKeyValueTraits picks pvRelocate / pvReplace / pvReplaceRelocate / pvRelocateExec by them).
// extract() answers the value only if the node handle holds the key asked for and both objects are alive.
template<typename Key, typename Val, typename Traits>
struct MapAdV {
	typedef momo::HashMap<Key, Val, Traits, HMM, momo::HashMapKeyValueTraits<Key, Val, HMM>, NoExtraMap> C;
	typedef decltype(C::mHashSet) HS;
	static const bool isMap = true;
	C c;
	HS& hs() { return c.mHashSet; }
	bool insert(uint32_t k, uint32_t v) { Key key(k); Val val(v); return c.Insert(key, val).inserted; }
	std::optional<uint32_t> find(uint32_t k) { auto p = c.Find(Key(k)); if (!p || idOf(p->key) != k || p->key.state != 0xA11CE || p->value.state != 0xA11CE) return std::nullopt; return idOf(p->value); }
	bool remove(uint32_t k) { return c.Remove(Key(k)); }
	size_t removePred(uint32_t m, uint32_t r) { return c.Remove([m, r](const Key& x, const Val&) { return idOf(x) % m == r; }); }
	std::vector<uint32_t> trav() { std::vector<uint32_t> v; for (auto ref : c) v.push_back(idOf(ref.key)); return v; }
	template<typename Item> static uint32_t keyOf(const Item& it) { return idOf(*it.GetKeyPtr()); }
	template<typename Item> static uint32_t valOf(const Item& it) { return idOf(*it.GetValuePtr()); }
	typename C::ExtractedPair handle;
	std::optional<uint32_t> extract(uint32_t k) {
		auto p = c.Find(Key(k)); if (!p) return std::nullopt;
		c.Remove(typename C::ConstIterator(p), handle);
		if (handle.IsEmpty() || idOf(handle.GetKey()) != k || handle.GetKey().state != 0xA11CE || handle.GetValue().state != 0xA11CE) return std::nullopt;
		return idOf(handle.GetValue());
	}
	bool hasHandle() { return !handle.IsEmpty(); }
	bool reinsert() { return c.Insert(std::move(handle)).inserted; }
};

// ---------- layout of the real table
struct GenInfo { size_t L; size_t count; };

template<typename Ad, typename HS>
static uint64_t layoutSum(HS& s, std::vector<GenInfo>* gens, std::string* dump)
{
	typedef typename HS::Bucket Bucket;
	uint64_t h = 0;
	Bucket fresh;
	bool first = true;
	for (auto* bk = s.mBuckets; bk != nullptr; bk = bk->GetNextBuckets()) {
		size_t L = bk->GetLogCount(), n = bk->GetCount(), cnt = 0;
		h = mixh(mixh(h, 7777), L);
		auto& params = bk->GetBucketParams();
		if (dump) { *dump += (first ? "" : " || "); *dump += fmt("L=%zu", L); first = false; }
		bool firstB = true;
		for (size_t i = 0; i < n; ++i) {
			Bucket& b = (*bk)[i];
			auto bounds = b.GetBounds(params);
			size_t c = bounds.GetCount();
			cnt += c;
			bool wf = b.WasFull();
			size_t mp = b.GetMaxProbe(L);
			if (c == 0 && wf == fresh.WasFull() && mp == fresh.GetMaxProbe(L)) continue;
			h = mixh(mixh(h, i), wf ? 1 : 0);
			h = mixh(h, mp);
			std::string items;
			for (size_t j = 0; j < c; ++j) {
				uint32_t k = Ad::keyOf(bounds[j]), v = Ad::valOf(bounds[j]);
				h = mixh(mixh(h, k), v);
				if (dump) items += fmt(j ? ",%u:%u" : "%u:%u", k, v);
			}
			if (dump) { *dump += fmt(" b%zu=[%s]w%dp%zu", i, items.c_str(), wf ? 1 : 0, mp); firstB = false; }
		}
		(void)firstB;
		if (gens) gens->push_back(GenInfo{L, cnt});
	}
	return h;
}

template<typename Ad>
static std::string summary(Ad& a, std::vector<GenInfo>* gensOut = nullptr)
{
	std::vector<GenInfo> gens;
	uint64_t s = layoutSum<Ad>(a.hs(), &gens, nullptr);
	std::string g;
	for (size_t i = 0; i < gens.size(); ++i) g += fmt(i ? ",%zu" : "%zu", gens[i].L);
	if (gensOut) *gensOut = gens;
	return fmt("c=%zu cap=%zu g=%s s=%llu", a.hs().GetCount(), a.hs().GetCapacity(), g.c_str(), (unsigned long long)s);
}

// LimP / LimP1 / Lim4: WasFull <=> the bucket has used the memory pool that holds maxCount items
template<typename Bucket>
static size_t fullFromByPools()
{
	Bucket fresh;
	if (fresh.WasFull()) return 0;
	size_t top = Bucket::pvGetMemPoolIndex(Bucket::maxCount);
	for (size_t c = 1; c <= Bucket::maxCount; ++c) if (Bucket::pvGetMemPoolIndex(c) == top) return c;
	return Bucket::maxCount;
}

// largest legal log2(bucket count): HashSetBuckets::Create throws std::length_error above it
template<typename HS>
static size_t maxLogOf()
{
	size_t K = 0;
	while (K + 1 < 64 && (size_t{1} << (K + 1)) <= HS::Buckets::maxBucketCount) ++K;
	return K;
}

// log2 of the bucket count pvAddGrow asks Buckets::Create for (HashSet.h:1132-1142): pvGetNewLogBucketCount(), raised while the
// capacity of that size does not exceed the count (a table overloaded by refused growths); the model's `growLog`
template<typename HS>
static size_t growLogOf(HS& s)
{
	const auto& tr = s.GetHashTraits();
	size_t nl = s.pvGetNewLogBucketCount();
	size_t cap = tr.CalcCapacity(size_t{1} << nl, HS::bucketMaxItemCount);
	for (int guard = 0; cap <= s.GetCount() && guard < 40; ++guard) {
		size_t next = tr.CalcCapacity(size_t{1} << (nl + 1), HS::bucketMaxItemCount);
		if (next <= cap) break;	// MOMO_CHECK(nextCapacity > newCapacity)
		++nl; cap = next;
	}
	return nl;
}

// width of the packed (pointer, state) field of BucketLimP4 (0 for the other bucket classes)
template<typename B> static auto ptrStateBits(int) -> decltype(size_t{B::PtrState::bitCount}) { return B::PtrState::bitCount; }
template<typename B> static size_t ptrStateBits(long) { return 0; }

// Bucket interface of the table (HashSet::GetBucketCount / GetBucketBounds / GetBucketIndex) against a direct walk over the
// generations: bucket indices run through the newest bucket array first, then through the older ones that still hold items
// after an interrupted migration. Property level (C01: every key is found - here: in the bucket the table reports for it).
template<typename Ad, typename Key>
static void bucketApiCheck(Ctx& c, Ad& a, const std::string& suiteName, const char* when)
{
	typedef typename Ad::HS HS;
	HS& s = a.hs();
	const HS& cs = s;
	size_t total = 0, gens = 0;
	for (auto* bk = s.mBuckets; bk != nullptr; bk = bk->GetNextBuckets()) { total += bk->GetCount(); ++gens; }
	if (cs.GetBucketCount() != total) { c.fail("C01 bucket api: %s %s: GetBucketCount=%zu, the generations have %zu buckets", suiteName.c_str(), when, cs.GetBucketCount(), total); return; }
	std::map<uint32_t, size_t> where;
	size_t g = 0, items = 0;
	for (auto* bk = s.mBuckets; bk != nullptr; bk = bk->GetNextBuckets()) {
		auto& params = bk->GetBucketParams();
		for (size_t i = 0; i < bk->GetCount(); ++i, ++g) {
			auto direct = (*bk)[i].GetBounds(params);
			auto api = cs.GetBucketBounds(g);
			std::vector<uint32_t> kd, ka;
			for (size_t j = 0; j < direct.GetCount(); ++j) kd.push_back(Ad::keyOf(direct[j]));
			for (const auto& item : api) ka.push_back(Ad::keyOf(item));
			if (kd != ka) { c.fail("C01 bucket api: %s %s: GetBucketBounds(%zu) of %zu (generation with 2^%zu buckets, %zu generations) has %zu items, the bucket itself %zu (or other keys)",
				suiteName.c_str(), when, g, total, bk->GetLogCount(), gens, ka.size(), kd.size()); return; }
			for (uint32_t k : kd) where[k] = g;
			items += kd.size();
		}
	}
	if (items != s.GetCount()) c.fail("C01 bucket api: %s %s: the buckets hold %zu items, GetCount=%zu", suiteName.c_str(), when, items, s.GetCount());
	if (s.mBuckets == nullptr) return;	// GetBucketIndex requires a table
	for (auto& kv : where) {
		size_t bi = cs.GetBucketIndex(Key(kv.first));
		if (bi != kv.second) { c.fail("C01 bucket api: %s %s: GetBucketIndex(%u)=%zu but the key is stored in bucket %zu (%zu generations)", suiteName.c_str(), when, kv.first, bi, kv.second, gens); return; }
	}
	// an absent key: its start bucket in the newest generation
	for (uint32_t k = 900000; k < 900003; ++k) {
		if (where.count(k)) continue;
		size_t bi = cs.GetBucketIndex(Key(k));
		size_t expect = HS::Bucket::GetStartBucketIndex((size_t)hashFam(hc().fam, k), s.mBuckets->GetCount());
		if (bi != expect) { c.fail("C01 bucket api: %s %s: GetBucketIndex(absent %u)=%zu, start bucket is %zu", suiteName.c_str(), when, k, bi, expect); return; }
	}
	c.stats.count(gens >= 2 ? "bucket_api.checks_with_2plus_generations" : "bucket_api.checks");
}

struct Cfg { const char* kind; unsigned n; const char* elem; bool fast; bool isMap; unsigned logStart; size_t fullFrom; };

// ---------- one run
template<typename Ad, typename Key>
static void runConfig(Ctx& c, Rng& rng, const Cfg& cfg, unsigned fam, unsigned keyRange, unsigned nOps, unsigned runNo)
{
	typedef typename Ad::HS HS;
	hc().fam = fam; hc().throwCountdown = -1; hc().fired = false;
	mm().disarm(); ec().copyCountdown = -1;
	const bool relocatable = HS::ItemTraits::isNothrowRelocatable;
	std::string suiteName = fmt("%s%u_%s_%s%s_h%u_r%u", cfg.kind, cfg.n, cfg.elem, cfg.isMap ? "map" : "set", cfg.fast ? "" : "_slow", fam, runNo);
	const size_t maxLog = maxLogOf<HS>();
	const size_t pbits = ptrStateBits<typename HS::Bucket>(0);
	Suite s(c, suiteName, fmt("model hashtable kind=%s n=%u isz=%zu ial=%zu part=%d fast=%d reloc=%d fullFrom=%zu logstart=%u hash=%u maxlog=%zu pbits=%zu",
		cfg.kind, cfg.n, sizeof(typename HS::Item), (size_t)HS::ItemTraits::alignment, cfg.fast ? 0 : 1, cfg.fast ? 1 : 0,
		relocatable ? 1 : 0, cfg.fullFrom, cfg.logStart, fam, maxLog, pbits));
	if (pbits != 0) {
		c.stats.count(fmt("limp4.ptr_state_bits_%zu", pbits));
		if (VF_PTRBITS != 0 && pbits != VF_PTRBITS) c.fail("harness: %s: BucketLimP4PtrState has %zu bits in a build for %d", suiteName.c_str(), pbits, (int)VF_PTRBITS);
	}
	// cross-check of what the header line claims about the instantiated types
	if (HS::areItemsNothrowRelocatable != (cfg.fast && relocatable && HS::Bucket::isNothrowAddableIfNothrowCreatable))
		c.fail("harness: areItemsNothrowRelocatable mismatch in %s", suiteName.c_str());
	{
		Ad A, B;	// two tables of the same type: A is the subject, B the partner of copy/move/swap/merge
		std::map<uint32_t, uint32_t> refA, refB;
		std::optional<std::pair<uint32_t, uint32_t>> refHandle;
		uint32_t serial = 1;
		std::string history;
		auto tail = [&]() { return " | A " + summary(A) + " | B " + summary(B); };
		auto fullCheck = [&](const char* when) {
			// property level: every key of the reference is found with its value, no other key, exact count, each visited once
			if (A.hs().GetCount() != refA.size()) c.fail("C01 count: %s %s: GetCount=%zu expected %zu", suiteName.c_str(), when, A.hs().GetCount(), refA.size());
			for (auto& kv : refA) { auto f = A.find(kv.first); if (!f) { c.fail("C01 lookup: %s %s: present key %u not found", suiteName.c_str(), when, kv.first); break; }
				if (Ad::isMap && *f != kv.second) { c.fail("C01 value: %s %s: key %u has value %u expected %u", suiteName.c_str(), when, kv.first, *f, kv.second); break; } }
			for (uint32_t k = 0; k < keyRange + 3; ++k) if (!refA.count(k) && A.find(k)) { c.fail("C01 phantom: %s %s: absent key %u found", suiteName.c_str(), when, k); break; }
			std::vector<uint32_t> tr = A.trav();
			std::vector<uint32_t> sorted = tr; std::sort(sorted.begin(), sorted.end());
			std::vector<uint32_t> exp; for (auto& kv : refA) exp.push_back(kv.first);
			if (sorted != exp) c.fail("C01 traversal: %s %s: traversal visits %zu elements, reference has %zu (or duplicates)", suiteName.c_str(), when, tr.size(), exp.size());
			bucketApiCheck<Ad, Key>(c, A, suiteName, when);
		};
		// scripted prologue (C11, element copies can throw): fresh keys with the migration failing at once, so that
		// generations pile up across several growth steps; then the failure point is moved inside the oldest generation
		std::vector<std::pair<uint32_t, long>> script;
#if VF_FAULTS
		if (!relocatable && runNo % 2 == 0) {
			unsigned nPile = 40 + (unsigned)rng.below(60);
			for (unsigned i = 0; i < nPile; ++i) script.push_back({ keyRange + 1000 + i, 1 });
			for (unsigned i = 0; i < 12; ++i) script.push_back({ keyRange + 2000 + i, 2 + (long)rng.below(6) });
			std::reverse(script.begin(), script.end());
		}
#endif
		// scripted prologue (C13 seen from the container): with a hash family that sends every key to start bucket 0 (constant,
		// high byte only) an open-addressing table is crowded with distinct fresh keys until the probe distance passes 256
		// (Open2N2<1>, OpenN1<1>) resp. 280 buckets (Open2N2<2>): displacements that the search-bound encoders cannot store
		// exactly. Every one of these keys must stay findable (fullCheck) and the model must reproduce the stored bounds.
		bool crowding = false;
		if (script.empty() && std::strncmp(cfg.kind, "Open", 4) == 0 && (fam == 0 || fam == 2) && cfg.n <= 2 && runNo % 2 == 1) {
			crowding = true;
			unsigned nCrowd = cfg.n == 1 ? 300 : 560;
			for (unsigned i = 0; i < nCrowd; ++i) script.push_back({ keyRange + 5000 + i, -1 });
			std::reverse(script.begin(), script.end());
			c.stats.count("crowded_open_table_runs");
		}
		// scripted prologue (C11, fault builds): PERSISTENT REFUSAL. Fresh keys are inserted; once the table is at its capacity
		// EVERY bucket array pvAddGrow asks for is refused (phase 1), insertion after insertion, so that the table is overloaded:
		// the count passes the capacity of the next bucket count and of the one after it (unlimited buckets, LimP<15>), or every
		// bucket is full (the other limited kinds: `Hash table is full` is the only legal failure, and only then). After every
		// insertion: it succeeded, or answered 'full' with literally every bucket full. Then memory is back (phase 2): the next
		// insertion must succeed and grow the table to a capacity above the count, all keys found. The model must reproduce
		// count, capacity, generations and layout after every one of these insertions.
		struct Persist { int phase = 0; uint32_t nextKey = 0; unsigned steps = 0, refused = 0, fulls = 0; size_t nl0 = 0, capNext = 0, capNext2 = 0, target = 0; bool armed = false; } persist;
		unsigned extraOps = 0;
#if VF_FAULTS
		{
			const std::string kd = cfg.kind;
			const bool kindOK = kd == "UnlimP" || kd == "LimP" || kd == "LimP1" || kd == "LimP4" || (kd == "Open2N2" && cfg.n == 3);
			if (script.empty() && kindOK && runNo % 4 == 1) { persist.phase = 1; persist.nextKey = keyRange + 7000; c.stats.count("persist.runs"); }
		}
#endif
		const unsigned totalOps = nOps + (unsigned)script.size();
		for (unsigned step = 0; step < totalOps + extraOps; ++step) {
			unsigned r = (unsigned)rng.below(100);
			uint32_t k = (uint32_t)rng.below(keyRange);
			long forcedCopy = -1;
			int mode = 0;	// 2 = persistent refusal: refuse the bucket array; 3 = memory is back
			if (!script.empty()) { r = 0; k = script.back().first; forcedCopy = script.back().second; script.pop_back(); }
			else if (persist.phase != 0) { r = 0; k = persist.nextKey++; mode = persist.phase == 1 ? 2 : 3; ++extraOps; }
			std::string op, res;
			size_t gensBefore = 0;
			{ std::vector<GenInfo> g; layoutSum<Ad>(A.hs(), &g, nullptr); gensBefore = g.size(); }
#if VF_FAULTS
			if (forcedCopy < 0 && mode == 0 && gensBefore >= 2 && rng.chance(3, 4)) {
				// several generations coexist: push towards the next growth with fresh keys (C11: repeated failures)
				r = 0;
				for (unsigned t = 0; t < 8 && refA.count(k); ++t) k = (uint32_t)rng.below(keyRange);
			}
#endif
			if (r < 46) {
				// ---- insert, possibly under a fault
				uint32_t v = Ad::isMap ? serial++ : 0;
				bool present = refA.count(k) != 0;
				std::vector<GenInfo> before; layoutSum<Ad>(A.hs(), &before, nullptr);
				size_t countBefore = A.hs().GetCount();
				std::string ftoks;
				bool armG = false, armA = false, armC = false, armH = false;
				// the bucket array the next growth would allocate is recognised by its size
				const size_t growLog = growLogOf(A.hs());
				const size_t growSize = HS::Buckets::pvGetBufferSize(growLog);
				const size_t capBefore = A.hs().GetCapacity(), bucketsBefore = A.hs().mBuckets ? A.hs().mBuckets->GetCount() : 0;
				if (growLog != A.hs().pvGetNewLogBucketCount() && countBefore >= capBefore) c.stats.count("grow.target_above_next_size");
#if VF_FAULTS
				if (mode == 2) {
					if (A.hs().mBuckets != nullptr && countBefore >= capBefore) {
						if (!persist.armed) {
							persist.armed = true; persist.nl0 = A.hs().pvGetNewLogBucketCount();
							const auto& tr = A.hs().GetHashTraits();
							persist.capNext = tr.CalcCapacity(size_t{1} << persist.nl0, HS::bucketMaxItemCount);
							persist.capNext2 = tr.CalcCapacity(size_t{1} << (persist.nl0 + 1), HS::bucketMaxItemCount);
							persist.target = persist.capNext2 + 2;
						}
						armG = true; mm().refuseSize = growSize;
					}
				}
				else if (mode == 3) { /* no fault: memory is back */ }
				else if (forcedCopy >= 0) { armC = true; ec().copyCountdown = forcedCopy; }
				else if (gensBefore >= 2 && (!relocatable || !cfg.fast) && rng.chance(4, 5)) {
					// several generations coexist: keep the migration failing early so that they survive until the next growth
					if (!relocatable && (cfg.fast || rng.chance(1, 2))) { armC = true; ec().copyCountdown = 1 + (long)rng.below(3); }
					else if (!cfg.fast) { armH = true; hc().throwCountdown = 1 + (long)rng.below(4); }
				}
				else if (rng.chance(1, 3)) {
					unsigned w = (unsigned)rng.below(10);
					armG = (w < 4) || w == 8; armA = (w >= 4 && w < 7) || w == 8; armC = (w == 7); armH = (w == 9) && !cfg.fast;	// a traits class that declares isFastNothrowHashable must not throw
					if (armG) mm().refuseSize = growSize;
					if (armA) mm().refuseAfter = (long)rng.below(4);
					if (armC) ec().copyCountdown = (long)rng.below(3);
					if (armH) hc().throwCountdown = (long)rng.below(6);
				}
				else if (A.hs().GetCount() >= A.hs().GetCapacity() && A.hs().GetCount() > 0 && rng.chance(1, 2)) {
					// growth is imminent: aim a failure at the migration of the elements to the larger table
					long inside = 1 + (long)rng.below(A.hs().GetCount());
					if (!cfg.fast && rng.chance(1, 2)) { armH = true; hc().throwCountdown = inside; }	// lookup hashes once, then the migration rehashes
					else if (!relocatable) { armC = true; ec().copyCountdown = inside; }	// the new element is copied first, then the migrated ones
					else { armA = true; mm().refuseAfter = 1 + (long)rng.below(3); }	// allocations after the bucket array: pool buffers
				}
#endif
				std::string out;
				bool threwHashAtLookup = false;
				uint64_t hashCallsBefore = hc().calls;
				// no table yet and the traits ask for a first table beyond the largest legal bucket count: HashSetBuckets::Create must
				// throw std::length_error and the container stays as it was (empty, no buckets); the next insertion builds a normal table
				bool absurdStart = false;
				if (forcedCopy < 0 && mode == 0 && A.hs().mBuckets == nullptr && !armG && !armA && !armC && !armH && maxLog + 1 < 64 && rng.chance(1, 2)
					&& A.hs().GetHashTraits().CalcCapacity(size_t{1} << (maxLog + 1), HS::bucketMaxItemCount) > 0) {
					absurdStart = true; g_logStartOverride = maxLog + 1;
					ftoks += fmt(" nl=%zu", maxLog + 1);
					c.stats.count("length_error.absurd_first_table");
				}
				try { bool ins = A.insert(k, v); out = ins ? "1" : "0"; if (ins) refA[k] = v; }
				catch (const std::length_error&) { out = "E:length"; }
				catch (const std::bad_alloc&) { out = "E:throw"; }
				catch (const std::runtime_error& e) { out = std::string(e.what()) == "copy" ? "E:throw" : "E:runtime"; }
				catch (const std::domain_error&) { out = "E:user"; threwHashAtLookup = true; }
				catch (const std::invalid_argument& e) {
					// (fault builds only: exception check mode) inserting a key by value is never a misuse: a check inside pvAdd failed
					out = "E:invalid_argument";
					c.fail("C11 insert: %s: Insert of the %s key %u answered std::invalid_argument (%s) - count %zu, capacity %zu, %zu buckets, %u growths refused in a row before; "
						"a single-element insertion must succeed unless every bucket on the probe path is full",
						suiteName.c_str(), present ? "present" : "absent", k, e.what(), countBefore, capBefore, bucketsBefore, persist.refused);
				}
				(void)hashCallsBefore;
				bool firedG = mm().refused(growSize), firedA = mm().refusedOther(growSize), firedC = ec().firedCopy, firedH = hc().fired;
				mm().disarm(); ec().copyCountdown = -1; ec().firedCopy = false; hc().throwCountdown = -1; hc().fired = false;
				g_logStartOverride = 0;
				std::vector<GenInfo> after; layoutSum<Ad>(A.hs(), &after, nullptr);
				if (absurdStart) {
					if (out != "E:length") c.fail("C01 length: %s insert %u with a first table of 2^%zu buckets (max 2^%zu) answered %s, expected std::length_error", suiteName.c_str(), k, maxLog + 1, maxLog, out.c_str());
					if (A.hs().GetCount() != countBefore || A.hs().mBuckets != nullptr || A.hs().GetCapacity() != 0) c.fail("C04 strong: %s insert %u threw length_error but the table changed", suiteName.c_str(), k);
				}
				else if (out == "E:length") c.fail("C01 length: %s insert %u threw std::length_error", suiteName.c_str(), k);
				if (threwHashAtLookup) {
					// a throwing hash before anything changed: the lookup of pvInsert, or (slow hash) nothing else can throw E:user out of Insert
					ftoks += " fh";
					if (A.hs().GetCount() != countBefore) c.fail("C11 strong: %s insert %u threw from the hash functor but the count changed", suiteName.c_str(), k);
				} else {
					if (firedG) ftoks += " fg";
					if (out == "E:throw" && (firedA || firedC || (firedG && before.empty()))) { if (!(firedG && before.empty() && !firedA && !firedC)) ftoks += " fa"; }
					if (out == "1" && after.size() >= 2) {
						// migration was interrupted: how many items had moved when it stopped
						bool grew = before.empty() || after[0].L != before[0].L;
						size_t oldBefore = 0;
						if (grew) oldBefore = countBefore; else for (size_t i = 1; i < before.size(); ++i) oldBefore += before[i].count;
						size_t oldAfter = 0; for (size_t i = 1; i < after.size(); ++i) oldAfter += after[i].count;
						ftoks += fmt(" rs=%zu", oldBefore - oldAfter);
						c.stats.count("fault.migration_interrupted");
					}
				}
				if (firedG) c.stats.count("fault.grow_refused");
				if (firedA) c.stats.count("fault.alloc_refused");
				if (firedC) c.stats.count("fault.copy_threw");
				if (firedH) c.stats.count("fault.hash_threw");
				if (out == "E:runtime") c.stats.count("fault.table_full");
				(void)armG; (void)armA; (void)armC; (void)armH;
				if (present && out != "0" && !threwHashAtLookup) c.fail("C01 insert: %s key %u present but insert answered %s", suiteName.c_str(), k, out.c_str());
				if (!present && out == "0") c.fail("C01 insert: %s key %u absent but insert answered 0", suiteName.c_str(), k);
				// C11: a refused bucket array must not make the insertion fail while the existing table has room on the probe path
				if (firedG && !firedA && !firedC && !before.empty() && out == "E:throw") c.fail("C11 fallback: %s insert %u failed with bad_alloc although a table exists", suiteName.c_str(), k);
				op = fmt("ins %u %u%s", k, v, ftoks.c_str()); res = out;
				if (after.size() >= 2 || gensBefore >= 2) c.stats.nontrivial(fmt("%s#%u", suiteName.c_str(), step));
				if (mode == 2) {
					++persist.steps;
					const size_t cnt = A.hs().GetCount();
					if (armG) {
						c.stats.nontrivial(fmt("%s#%u", suiteName.c_str(), step));	// an insertion right after / under a refused growth
						if (firedG) { ++persist.refused; c.stats.count("persist.refused_growths"); } else c.stats.count("persist.predicted_array_not_requested");
						if (cnt > persist.capNext) c.stats.count("persist.insertions_with_count_above_next_capacity");
						if (cnt > persist.capNext2) c.stats.count("persist.insertions_with_count_above_second_next_capacity");
					}
					if (out == "E:runtime") {
						// 'Hash table is full' is legal only if literally every bucket of the (only) bucket array is full
						++persist.fulls; c.stats.count("persist.full_answers");
						size_t notFull = 0;
						if (A.hs().mBuckets != nullptr) for (size_t i = 0; i < A.hs().mBuckets->GetCount(); ++i) if (!(*A.hs().mBuckets)[i].IsFull()) ++notFull;
						if (notFull != 0) c.fail("C11 persistent refusal: %s: insert %u answered 'Hash table is full' although %zu of %zu buckets are not full (count %zu, %u growths refused in a row)",
							suiteName.c_str(), k, notFull, bucketsBefore, cnt, persist.refused);
					}
					else if (out != "1") {
						if (out != "E:invalid_argument")	// (that one has been reported above)
							c.fail("C11 persistent refusal: %s: insert of the absent key %u answered %s with the bucket array refused for the %u-th time in a row (count %zu, capacity %zu, %zu buckets): "
								"it must succeed in the existing table unless every bucket on the probe path is full", suiteName.c_str(), k, out.c_str(), persist.refused, countBefore, capBefore, bucketsBefore);
						persist.steps = 1000;	// give up refusing: the next insertion finds memory back
					}
					const bool grew = armG && (after.size() != before.size() || (!after.empty() && !before.empty() && after[0].L != before[0].L));
					if (persist.steps % 8 == 0) fullCheck("persistent refusal");
					if (grew) { persist.phase = 0; c.stats.count("persist.abandoned_table_grew"); }
					else if (persist.fulls >= 2 || (persist.armed && cnt >= persist.target) || persist.steps > 700) persist.phase = 2;
				}
				else if (mode == 3) {
					persist.phase = 0;
					const size_t cnt = A.hs().GetCount(), cap = A.hs().GetCapacity();
					if (out != "1")
						c.fail("C11 overloaded growth: %s: after %u growths refused in a row (count %zu, capacity %zu, %zu buckets; the next size 2^%zu has capacity %zu) memory is back, "
							"but insert of the absent key %u answered %s", suiteName.c_str(), persist.refused, countBefore, capBefore, bucketsBefore, persist.nl0, persist.capNext, k, out.c_str());
					else if (countBefore >= capBefore && (cap <= countBefore || cnt > cap || after.empty() || before.empty() || after[0].L <= before[0].L))
						c.fail("C11 overloaded growth: %s: after %u refused growths (count %zu, capacity %zu, %zu buckets) insert %u succeeded but the table did not grow to a capacity above the count: count %zu, capacity %zu",
							suiteName.c_str(), persist.refused, countBefore, capBefore, bucketsBefore, k, cnt, cap);
					else if (countBefore >= capBefore) {
						c.stats.count("persist.recovered_growths");
						c.stats.count(fmt("persist.growth_target_steps_above_next_size_%zu", after[0].L - persist.nl0));
						c.stats.nontrivial(fmt("%s#%u", suiteName.c_str(), step));
					}
					fullCheck("memory back after persistent refusal");
				}
			}
			else if (r < 62) {
				auto f = A.find(k);
				op = fmt("find %u", k); res = f ? fmt("1 %u", *f) : "0";
				auto it = refA.find(k);
				if ((it != refA.end()) != (bool)f) c.fail("C01 lookup: %s key %u %s but find says %s", suiteName.c_str(), k, it != refA.end() ? "present" : "absent", f ? "found" : "not found");
				else if (f && Ad::isMap && *f != it->second) c.fail("C01 value: %s key %u value %u expected %u", suiteName.c_str(), k, *f, it->second);
			}
			else if (r < 80) {
				bool rem = A.remove(k);
				op = fmt("rem %u", k); res = rem ? "1" : "0";
				if (rem != (refA.erase(k) != 0)) c.fail("C01 remove: %s key %u: Remove answered %d", suiteName.c_str(), k, rem ? 1 : 0);
			}
			else if (r < 83) {
				uint32_t m = (uint32_t)rng.range(2, 5), rr = (uint32_t)rng.below(m);
				size_t n = A.removePred(m, rr);
				size_t e = 0; for (auto it = refA.begin(); it != refA.end();) { if (it->first % m == rr) { it = refA.erase(it); ++e; } else ++it; }
				op = fmt("rempred %u %u", m, rr); res = fmt("%zu", n);
				if (n != e) c.fail("C01 remove-if: %s removed %zu expected %zu", suiteName.c_str(), n, e);
			}
			else if (r < 86) {
				size_t cap = (size_t)rng.below(keyRange * 2 + 8);
				// now and then a request that needs more buckets than HashSetBuckets can hold: std::length_error, table unchanged.
				// (2^20 above the capacity of the largest legal table: the floating-point capacity formulas are exact to ~2^11 there)
				bool huge = false;
				if (rng.chance(1, 8) && maxLog + 1 < 64) {
					const auto& tr = A.hs().GetHashTraits();
					size_t capK = tr.CalcCapacity(size_t{1} << maxLog, HS::bucketMaxItemCount), capK1 = tr.CalcCapacity(size_t{1} << (maxLog + 1), HS::bucketMaxItemCount);
					if (capK1 > capK && capK1 - capK > (size_t{1} << 21)) { huge = true; cap = capK + (size_t{1} << 20); c.stats.count("length_error.huge_reserve"); }
				}
				std::vector<GenInfo> before; layoutSum<Ad>(A.hs(), &before, nullptr);
				size_t countBefore = A.hs().GetCount();
				const std::string summaryBefore = summary(A);
				std::string ftoks, out = "ok";
				// size of the bucket array Reserve will allocate
				size_t rnl = A.hs().pvGetNewLogBucketCount();
				while (A.hs().GetHashTraits().CalcCapacity(size_t{1} << rnl, HS::bucketMaxItemCount) < cap) ++rnl;
				const size_t growSize = HS::Buckets::pvGetBufferSize(rnl);
#if VF_FAULTS
				if (!huge && rng.chance(1, 3) && cap > A.hs().GetCapacity()) {
					if (rng.chance(1, 2)) {
						mm().refuseSize = growSize;
					} else { mm().refuseAfter = (long)rng.range(1, 4); if (!cfg.fast) hc().throwCountdown = (long)rng.below(5); }
				}
#endif
				try { A.hs().Reserve(cap); } catch (const std::bad_alloc&) { out = "E:throw"; } catch (const std::length_error&) { out = "E:length"; }
				if (huge) {
					if (out != "E:length") c.fail("C01 length: %s Reserve(%zu) needs 2^%zu buckets (max 2^%zu) but answered %s, expected std::length_error", suiteName.c_str(), cap, rnl, maxLog, out.c_str());
					if (summary(A) != summaryBefore) c.fail("C04 strong: %s Reserve(%zu) threw length_error but the table changed: %s -> %s", suiteName.c_str(), cap, summaryBefore.c_str(), summary(A).c_str());
				}
				else if (out == "E:length") c.fail("C01 length: %s Reserve(%zu) threw std::length_error", suiteName.c_str(), cap);
				bool firedG = mm().refused(growSize);
				mm().disarm(); hc().throwCountdown = -1; hc().fired = false;
				std::vector<GenInfo> after; layoutSum<Ad>(A.hs(), &after, nullptr);
				if (firedG) ftoks += " fg";
				else if (out == "E:throw") ftoks += " fg";	// BucketParams allocation of a first table refused: same observable outcome
				if (out == "ok" && after.size() >= 2) {
					bool grew = before.empty() || after[0].L != before[0].L;
					size_t oldBefore = 0;
					if (grew) oldBefore = countBefore; else for (size_t i = 1; i < before.size(); ++i) oldBefore += before[i].count;
					size_t oldAfter = 0; for (size_t i = 1; i < after.size(); ++i) oldAfter += after[i].count;
					ftoks += fmt(" rs=%zu", oldBefore - oldAfter);
					c.stats.count("fault.migration_interrupted");
				}
				if (out == "E:throw" && A.hs().GetCount() != countBefore) c.fail("C04 strong: %s Reserve threw but the count changed", suiteName.c_str());
				op = fmt("reserve %zu%s", cap, ftoks.c_str()); res = out;
			}
			else if (r < 87) {
				bool shrink = rng.chance(1, 2);
				A.hs().Clear(shrink); refA.clear();
				op = fmt("clear %d", shrink ? 1 : 0); res = "ok";
			}
			else if (r < 91) {
				if (!refHandle) {
					auto e = A.extract(k);
					op = fmt("ext %u", k); res = e ? fmt("1 %u", *e) : "0";
					auto it = refA.find(k);
					if ((it != refA.end()) != (bool)e) c.fail("C01 extract: %s key %u", suiteName.c_str(), k);
					if (e) { refHandle = std::make_pair(k, it->second); refA.erase(it); }
				} else {
					bool ins = false; std::string out;
					try { ins = A.reinsert(); out = ins ? "1" : "0"; } catch (const std::bad_alloc&) { out = "E:throw"; } catch (const std::runtime_error&) { out = "E:runtime"; }
					bool expect = !refA.count(refHandle->first);
					if (out == "1" || out == "0") { if (ins != expect) c.fail("C01 reinsert: %s key %u answered %d", suiteName.c_str(), refHandle->first, ins ? 1 : 0); }
					if (ins) { refA[refHandle->first] = refHandle->second; refHandle.reset(); }
					op = "reins"; res = out;
					// a refused handle stays with the caller (C10); keep it for the next round only if it still holds the element
					if (!ins && A.hasHandle()) { /* still ours */ }
				}
			}
			else if (r < 93) {
				B.c = A.c; refB = refA; op = "copyto"; res = "ok";
				if (B.hs().GetCount() != refB.size()) c.fail("C14 copy: %s count", suiteName.c_str());
			}
			else if (r < 94) { B.c = std::move(A.c); refB = refA; refA.clear(); op = "moveto"; res = "ok"; if (A.hs().GetCount() != 0) c.fail("C14 move: %s source not empty", suiteName.c_str());
				A.c = typename Ad::C();	/* a moved-from hash container is usable again once assigned (C14) */ }
			else if (r < 96) { std::swap(refA, refB); A.c.Swap(B.c); op = "swap"; res = "ok"; }
			else if (r < 98) {
				A.c.MergeTo(B.c);
				for (auto it = refA.begin(); it != refA.end();) { if (!refB.count(it->first)) { refB[it->first] = it->second; it = refA.erase(it); } else ++it; }
				op = "mergeto"; res = "ok";
				if (B.hs().GetCount() != refB.size() || A.hs().GetCount() != refA.size()) c.fail("C10 merge: %s counts src=%zu dst=%zu expected %zu %zu", suiteName.c_str(), A.hs().GetCount(), B.hs().GetCount(), refA.size(), refB.size());
			}
			else op = (r == 98) ? "trav" : "dump";
			if (op == "trav") { std::vector<uint32_t> tr = A.trav(); res.clear(); for (size_t i = 0; i < tr.size(); ++i) res += fmt(i ? " %u" : "%u", tr[i]); }
			if (op == "dump") { res.clear(); layoutSum<Ad>(A.hs(), nullptr, &res); }
			s.op(op); s.res(res + tail());
			c.stats.evaluations++;
			if (history.size() < 160) history += op + "; ";
			if (step % 16 == 15 || step + 1 == nOps || step + 1 == totalOps + extraOps) fullCheck(op.c_str());
			if (crowding && !script.empty()) {
				// a search bound that is too small may be repaired by the very next insertion from the same start bucket:
				// during the crowding prologue every key of the reference is looked up after EVERY insertion
				for (auto& kv : refA) if (!A.find(kv.first)) { c.fail("C01 lookup: %s crowding, after %zu insertions into one start bucket (%s): present key %u not found", suiteName.c_str(), refA.size(), op.c_str(), kv.first); break; }
				c.stats.count("crowded_lookup_sweeps");
			}
			{
				std::vector<GenInfo> g; layoutSum<Ad>(A.hs(), &g, nullptr);
				if (g.size() >= 2) { c.stats.count("state.ops_with_2plus_generations"); bucketApiCheck<Ad, Key>(c, A, suiteName, op.c_str()); }
				if (g.size() >= 3) c.stats.count("state.ops_with_3plus_generations");
				if (!g.empty() && g[0].L > cfg.logStart) c.stats.count("state.ops_after_growth");
			}
		}
		c.stats.sample(suiteName + ": " + history);
		c.stats.nontrivial(suiteName);
	}
	// C03 piggyback: everything given back, every element destroyed
	if (!mm().live.empty()) c.fail("C03 leak: %s: %zu blocks outstanding after destruction", suiteName.c_str(), mm().live.size());
	if (mm().badDealloc) { c.fail("C03 dealloc: %s: %zu deallocations of unknown blocks / wrong size", suiteName.c_str(), mm().badDealloc); mm().badDealloc = 0; }
	if (ec().live != 0) { c.fail("C03 elements: %s: %ld element objects still alive", suiteName.c_str(), ec().live); ec().live = 0; }
	mm().live.clear();
}

template<typename HashBucket, typename Key, bool fast, bool isMap, unsigned logStart>
static void runKind(Ctx& c, Rng& rng, const char* kind, unsigned n, const char* elem, size_t (*ff)(), unsigned runs)
{
	typedef FamTraits<Key, HashBucket, fast, logStart> Traits;
	typedef typename std::conditional<isMap, MapAd<Key, Traits>, SetAd<Key, Traits>>::type Ad;
	Cfg cfg{ kind, n, elem, fast, isMap, logStart, ff ? ff() : n };
	if (!fast) runs *= 3;	// slow-hash traits keep hash bits next to the items and reuse them on growth (C12): more histories
	for (unsigned run = 0; run < runs; ++run) {
		unsigned fam = (unsigned)rng.below(8);
		// open addressing with one or two items per bucket: run 1 always uses a family that sends every key to one start bucket
		// (constant / high byte only), which triggers the crowding prologue of runConfig
		if (std::strncmp(kind, "Open", 4) == 0 && n <= 2 && run == 1) fam = rng.chance(1, 2) ? 0 : 2;
		static const unsigned ranges[] = { 12, 40, 150, 600 };
		unsigned keyRange = ranges[rng.below(4)];
		unsigned nOps = c.thorough ? 1200 : 260;
		runConfig<Ad, Key>(c, rng, cfg, fam, keyRange, nOps, run);
	}
}

template<typename HashBucket, typename Key, bool fast, bool isMap, unsigned logStart>
static size_t ffPools()
{
	typedef FamTraits<Key, HashBucket, fast, logStart> Traits;
	typedef typename std::conditional<isMap, MapAd<Key, Traits>, SetAd<Key, Traits>>::type Ad;
	return fullFromByPools<typename Ad::HS::Bucket>();
}

template<typename Bucket> static size_t fullFromV(unsigned, std::true_type) { return fullFromByPools<Bucket>(); }
template<typename Bucket> static size_t fullFromV(unsigned n, std::false_type) { return n; }
template<typename HashBucket, typename Key, typename Val, bool fast, unsigned logStart, bool pools>
static void runKindV(Ctx& c, Rng& rng, const char* kind, unsigned n, const char* elem, unsigned runs)
{
	typedef FamTraits<Key, HashBucket, fast, logStart> Traits;
	typedef MapAdV<Key, Val, Traits> Ad;
	Cfg cfg{ kind, n, elem, fast, true, logStart, fullFromV<typename Ad::HS::Bucket>(n, std::integral_constant<bool, pools>()) };
	if (!fast) runs *= 3;
	for (unsigned run = 0; run < runs; ++run) {
		unsigned fam = (unsigned)rng.below(8);
		static const unsigned ranges[] = { 12, 40, 150, 600 };
		unsigned keyRange = ranges[rng.below(4)];
		unsigned nOps = c.thorough ? 1200 : 260;
		runConfig<Ad, Key>(c, rng, cfg, fam, keyRange, nOps, run);
	}
}
#define KINDV(HB, KEY, VAL, FAST, LS, NAME, N, ELEM, POOLS) runKindV<HB, KEY, VAL, FAST, LS, POOLS>(c, rng, NAME, N, ELEM, runs)
#define KIND(HB, KEY, FAST, MAP, LS, NAME, N, ELEM, FF) runKind<HB, KEY, FAST, MAP, LS>(c, rng, NAME, N, ELEM, FF, runs)
#define POOLS(HB, KEY, FAST, MAP, LS) (&ffPools<HB, KEY, FAST, MAP, LS>)

int main(int argc, char** argv)
{
	Ctx c = parseArgs(argc, argv);
	Rng rng(c.seed * 0x1000 + 1 + VF_FAULTS * 10 + VF_PART * 100);
	unsigned runs = c.thorough ? 36 : 10;	// a run costs ~30 ms; the compile dominates the check
	typedef ElemT<16, 8> E16;
	typedef ElemT<40, 16> E40;
#if VF_PART == 0
	// chained small-array buckets
	KIND(momo::HashBucketLimP4<1>, Elem4, true, false, 2, "LimP4", 1, "e4", nullptr);
	KIND(momo::HashBucketLimP4<2>, Elem4, true, false, 2, "LimP4", 2, "e4", nullptr);
	KIND(momo::HashBucketLimP4<3>, E16, true, true, 1, "LimP4", 3, "e16", nullptr);
	KIND(momo::HashBucketLimP4<4>, Elem4, true, false, 3, "LimP4", 4, "e4", nullptr);
	KIND(momo::HashBucketLimP4<4>, E16, false, true, 2, "LimP4", 4, "e16", nullptr);
	KIND(momo::HashBucketLimP4<4>, ElemNM, false, true, 2, "LimP4", 4, "nm", nullptr);
	KIND(momo::HashBucketLimP4<4>, ElemCO, true, false, 2, "LimP4", 4, "co", nullptr);
	KIND(momo::HashBucketLimP4<2>, E40, false, false, 2, "LimP4", 2, "e40", nullptr);
#elif VF_PART == 1
	typedef momo::HashBucketLimP<3> LimP3; typedef momo::HashBucketLimP<5, momo::MemPoolParams<>, false> LimP5;
	KIND(LimP3, Elem4, true, false, 2, "LimP", 3, "e4", POOLS(LimP3, Elem4, true, false, 2));
	KIND(LimP5, E16, true, true, 2, "LimP", 5, "e16", POOLS(LimP5, E16, true, true, 2));
	typedef momo::HashBucketLimP1<3> LimP1_3;
	KIND(LimP1_3, Elem4, true, false, 2, "LimP1", 3, "e4", POOLS(LimP1_3, Elem4, true, false, 2));
	KIND(LimP1_3, ElemNM, true, true, 2, "LimP1", 3, "nm", POOLS(LimP1_3, ElemNM, true, true, 2));
	typedef momo::HashBucketLim4<2> Lim4_2;
	KIND(Lim4_2, Elem4, true, false, 2, "Lim4", 4, "e4", POOLS(Lim4_2, Elem4, true, false, 2));
	KIND(momo::HashBucketUnlimP<>, Elem4, true, false, 2, "UnlimP", 0, "e4", nullptr);
	KIND(momo::HashBucketUnlimP<>, ElemCO, true, true, 2, "UnlimP", 0, "co", nullptr);
	KIND(momo::HashBucketOne<>, Elem4, true, false, 3, "One", 1, "e4", nullptr);
	KIND(momo::HashBucketOne<>, E16, false, true, 3, "One", 1, "e16", nullptr);
	KIND(momo::HashBucketOne<>, ElemCO, true, false, 3, "One", 1, "co", nullptr);
#elif VF_PART == 4
	// maps whose key AND value are element classes, in the combinations of relocation / assignment categories that the other parts lack
	// (nm = nothrow-move, ca = copy-only nothrow-assign, sw = copy-only noexcept swap, ct = copy-only throwing assign; key_value)
	KINDV(momo::HashBucketLimP4<4>, ElemSW, ElemCT, true, 2, "LimP4", 4, "sw_ct", false);
	KINDV(momo::HashBucketLimP4<3>, ElemCT, ElemCA, false, 1, "LimP4", 3, "ct_ca", false);
	KINDV(momo::HashBucketLimP4<2>, ElemCT, ElemCT, true, 2, "LimP4", 2, "ct_ct", false);
	KINDV(momo::HashBucketLimP4<4>, ElemNM, ElemSW, true, 2, "LimP4", 4, "nm_sw", false);
	KINDV(momo::HashBucketLimP4<4>, ElemCA, ElemNM, true, 2, "LimP4", 4, "ca_nm", false);
	typedef momo::HashBucketLimP1<3> LimP1_3V;
	KINDV(LimP1_3V, ElemCA, ElemSW, true, 2, "LimP1", 3, "ca_sw", true);
	KINDV(momo::HashBucketUnlimP<>, ElemCT, ElemCT, true, 2, "UnlimP", 0, "ct_ct", false);
	KINDV(momo::HashBucketOpen2N2<3>, ElemSW, ElemCA, true, 2, "Open2N2", 3, "sw_ca", false);
	KINDV(momo::HashBucketOpen8, ElemCT, ElemCT, true, 1, "Open8", 7, "ct_ct", false);
	KINDV(momo::HashBucketOpen2N2<2>, ElemCA, ElemCT, false, 2, "Open2N2", 2, "ca_ct", false);
#elif VF_PART == 3
	// configuration corners of the chained buckets.
	// (1) HashBucketLimP<5..15> with pointer state: (items pointer, count, pool index) are packed into one word and decoded by
	//     UIntMath::DivBySmall with a divisor > 4 (pool index resp. pool index rounded up to even): 8-byte item with alignment 8
	//     (odd pools skipped, divisors 2,4,6,8), 16-byte items (divisors 1..7), map pairs, a copy-only key, LimP<15> with a
	//     16-byte item of alignment 16 (divisors 2..16)
	typedef ElemT<8, 8> E8; typedef ElemT<16, 16> E16A;
	typedef momo::HashBucketLimP<7> LimP7; typedef momo::HashBucketLimP<15> LimP15;
	KIND(LimP7, E8, true, false, 2, "LimP", 7, "e8", POOLS(LimP7, E8, true, false, 2));
	KIND(LimP7, E16, true, false, 1, "LimP", 7, "e16", POOLS(LimP7, E16, true, false, 1));
	KIND(LimP7, E8, false, true, 2, "LimP", 7, "e8", POOLS(LimP7, E8, false, true, 2));
	KIND(LimP7, ElemCO8, true, false, 2, "LimP", 7, "co8", POOLS(LimP7, ElemCO8, true, false, 2));
	KIND(LimP15, E16A, true, false, 1, "LimP", 15, "e16a", POOLS(LimP15, E16A, true, false, 1));
	// (2) memory pools with one block per buffer (MemPoolParams<1>): CanDeallocateAll() is false, so Clear / destruction give every
	//     bucket array back one by one (the memPool.Deallocate branch of BucketLimP / BucketLimP1 / BucketLimP4::Clear)
	typedef momo::MemPoolParams<1> Pool1;
	typedef momo::HashBucketLimP<3, Pool1> LimP3x1; typedef momo::HashBucketLimP<5, Pool1, false> LimP5x1; typedef momo::HashBucketLimP<7, Pool1> LimP7x1;
	KIND(LimP3x1, Elem4, true, false, 2, "LimP", 3, "e4x1", POOLS(LimP3x1, Elem4, true, false, 2));
	KIND(LimP5x1, E16, true, true, 2, "LimP", 5, "e16x1", POOLS(LimP5x1, E16, true, true, 2));
	KIND(LimP7x1, ElemCO8, true, false, 2, "LimP", 7, "co8x1", POOLS(LimP7x1, ElemCO8, true, false, 2));
	typedef momo::HashBucketLimP1<3, Pool1> LimP1x1;
	KIND(LimP1x1, ElemNM, true, true, 2, "LimP1", 3, "nmx1", POOLS(LimP1x1, ElemNM, true, true, 2));
	KIND(LimP1x1, ElemCO, true, false, 2, "LimP1", 3, "cox1", POOLS(LimP1x1, ElemCO, true, false, 2));
	typedef momo::HashBucketLimP4<4, Pool1> LimP4x1;
	KIND(LimP4x1, Elem4, true, false, 2, "LimP4", 4, "e4x1", nullptr);
	KIND(LimP4x1, ElemCO, false, true, 2, "LimP4", 4, "cox1", nullptr);
#else
	// open addressing
	KIND(momo::HashBucketOpen2N2<1>, Elem4, true, false, 3, "Open2N2", 1, "e4", nullptr);
	KIND(momo::HashBucketOpen2N2<2>, E16, true, true, 2, "Open2N2", 2, "e16", nullptr);
	KIND(momo::HashBucketOpen2N2<3>, Elem4, true, false, 2, "Open2N2", 3, "e4", nullptr);
	KIND(momo::HashBucketOpen2N2<3>, E16, false, true, 2, "Open2N2", 3, "e16", nullptr);
	KIND(momo::HashBucketOpen2N2<3>, ElemCO, true, false, 2, "Open2N2", 3, "co", nullptr);
	typedef momo::HashBucketOpenN1<1, true> ON1; typedef momo::HashBucketOpenN1<3, true> ON3; typedef momo::HashBucketOpenN1<7, false> ON7;
	KIND(ON1, Elem4, true, false, 3, "OpenN1", 1, "e4", nullptr);
	KIND(ON3, E16, true, true, 2, "OpenN1", 3, "e16", nullptr);
	KIND(ON7, ElemNM, true, false, 1, "OpenN1", 7, "nm", nullptr);
	KIND(momo::HashBucketOpen8, Elem4, true, false, 2, "Open8", 7, "e4", nullptr);
	KIND(momo::HashBucketOpen8, ElemCO, true, true, 1, "Open8", 7, "co", nullptr);
#endif
	return c.finish();
}
