// C04 correspondence / sweep harness.
//  (a) model level: momo::internal::ObjectManager::RelocateCreate / CopyExec on instrumented elements,
//      every count 0..5 and every failing step, against the Lean model `obj` (final slot states,
//      constructor / destructor counts, well-formed trace);
//  (b) property level: for every operation documented as strongly exception-safe, on containers in
//      states where the operation allocates / relocates / splits / grows, the k-th allocation, the k-th
//      element copy and the k-th functor call are made to fail for k = 0,1,2,… until the operation
//      succeeds; after each exception the observable state must equal the snapshot, no element may
//      have leaked, and the retried operation must succeed (container fully usable).
#define MOMO_INCLUDE_OLD_HASH_BUCKETS
#include "momo/Array.h"
#include "momo/SegmentedArray.h"
#include "momo/HashSet.h"
#include "momo/HashMap.h"
#include "momo/HashMultiMap.h"
#include "momo/TreeSet.h"
#include "momo/TreeMap.h"
#include "common/verif_elems.h"

#include <functional>
#include <memory>

using namespace vf;

// ------------------------------------------------------------------ (a) ObjectManager against the model
template<typename E> static std::string slot(const E* p, bool everConstructed)
{
	if (!everConstructed && p->state != 0xA11CE && p->state != 0x30FED) return "-";
	if (p->state == 0xA11CE) return fmt("L%u", p->id);
	if (p->state == 0x30FED) return fmt("M%u", p->id);
	return "-";
}

template<typename E>
static void objSuite(Ctx& c, Suite& s, const char* cat, bool copyOnly)
{
	typedef momo::internal::ObjectManager<E, FaultMM> OM;
	FaultMM memManager;
	for (unsigned count = 0; count <= 5; ++count) {
		for (int k = -1; k <= (int)count + 1; ++k) {
			alignas(16) unsigned char srcBuf[6 * sizeof(E)], dstBuf[6 * sizeof(E)], newBuf[sizeof(E)];
			std::memset(srcBuf, 0xEE, sizeof srcBuf); std::memset(dstBuf, 0xEE, sizeof dstBuf); std::memset(newBuf, 0xEE, sizeof newBuf);
			E* src = reinterpret_cast<E*>(srcBuf); E* dst = reinterpret_cast<E*>(dstBuf); E* nw = reinterpret_cast<E*>(newBuf);
			for (unsigned i = 0; i < count; ++i) ::new(static_cast<void*>(src + i)) E(1000 + i);
			long c0 = ec().constructed, d0 = ec().destroyed;
			bool creatorThrows = false;
			if (k >= 0) { if (copyOnly) { if ((unsigned)k < count) ec().copyCountdown = k; else if ((unsigned)k == count) creatorThrows = true; } else if (k == 0) creatorThrows = true; }
			auto creator = [creatorThrows](E* p) { if (creatorThrows) throw std::runtime_error("creator"); ::new(static_cast<void*>(p)) E(7); };
			bool threw = false;
			try { OM::RelocateCreate(memManager, src, dst, count, creator, nw); } catch (const std::runtime_error&) { threw = true; }
			ec().copyCountdown = -1; ec().firedCopy = false;
			std::string ss, ds;
			for (unsigned i = 0; i < count; ++i) { ss += (i ? " " : "") + slot(src + i, true); ds += (i ? " " : "") + slot(dst + i, false); }
			std::string line = fmt("%s src=[%s] dst=[%s] new=%s ctor=%ld dtor=%ld wf=true", threw ? "threw" : "ok", ss.c_str(), ds.c_str(),
				slot(nw, false).c_str(), ec().constructed - c0, ec().destroyed - d0);
			s.op(fmt("relcreate %s %u %s", cat, count, k < 0 ? "-" : fmt("%d", k).c_str())); s.res(line);
			c.stats.evaluations++; c.stats.nontrivial(fmt("relcreate %s %u %d", cat, count, k));
			if (threw) c.stats.count("obj.relocateCreate_threw");
			// property level (C04): a failed RelocateCreate leaves every source object alive and nothing constructed elsewhere
			if (threw) {
				for (unsigned i = 0; i < count; ++i) if (src[i].state != 0xA11CE || src[i].id != 1000 + i) c.fail("C04 RelocateCreate: %s count=%u fail step %d: source %u not intact", cat, count, k, i);
				if (ec().constructed - c0 != ec().destroyed - d0) c.fail("C04 RelocateCreate: %s count=%u fail step %d: %ld constructed, %ld destroyed", cat, count, k, ec().constructed - c0, ec().destroyed - d0);
			}
			// clean up whatever is alive
			for (unsigned i = 0; i < count; ++i) { if (src[i].state == 0xA11CE || src[i].state == 0x30FED) src[i].~E(); if (dst[i].state == 0xA11CE || dst[i].state == 0x30FED) dst[i].~E(); }
			if (nw->state == 0xA11CE) nw->~E();
		}
	}
}

// ------------------------------------------------------------------ (b) k-th failure sweeps
enum Mode { M_ALLOC = 0, M_COPY = 1, M_FUNC = 2 };
static const char* modeName[] = { "alloc", "copy", "functor" };
struct FuncCtl { long countdown = -1; bool fired = false; };
static FuncCtl& fc() { static FuncCtl f; return f; }
static void funcPoint() { FuncCtl& f = fc(); if (f.countdown == 0) { f.countdown = -1; f.fired = true; throw std::domain_error("functor"); } if (f.countdown > 0) --f.countdown; }

static void arm(Mode m, long k) { mm().disarm(); ec().copyCountdown = -1; ec().firedCopy = false; fc().countdown = -1; fc().fired = false;
	if (m == M_ALLOC) mm().refuseAfter = k; else if (m == M_COPY) ec().copyCountdown = k; else fc().countdown = k; }
static bool disarm(Mode m) { bool fired = (m == M_ALLOC) ? mm().firedAfter : (m == M_COPY ? ec().firedCopy : fc().fired);
	mm().disarm(); ec().copyCountdown = -1; ec().firedCopy = false; fc().countdown = -1; fc().fired = false; return fired; }

// One sweep: `make` builds the container in the wanted pre-state, `op` is the operation under test,
// `snap` renders the observable state (contents in order + count).
template<typename C>
static void sweep(Ctx& c, const std::string& name, const std::function<void(C&)>& make, const std::function<void(C&)>& op,
	const std::function<std::string(C&)>& snap, bool functorFaults, int exactBlocks = 0 /* 1: for every fault kind, 2: for functor / parameter-class faults only */)
{
	for (int m = 0; m < (functorFaults ? 3 : 2); ++m) {
		for (long k = 0; k < 400; ++k) {
			bool threw = false, fired = false;
			{
				std::unique_ptr<C> box(new C());
				C& cont = *box;
				make(cont);
				std::string before = snap(cont);
				long liveBefore = ec().live;
				size_t blocksBefore = mm().live.size();
				arm((Mode)m, k);
				try { op(cont); } catch (const std::bad_alloc&) { threw = true; } catch (const std::runtime_error&) { threw = true; } catch (const std::domain_error&) { threw = true; }
				fired = disarm((Mode)m);
				c.stats.evaluations++;
				if (threw) {
					c.stats.count(std::string("sweep.threw.") + modeName[m]);
					c.stats.nontrivial(fmt("%s/%s/%ld", name.c_str(), modeName[m], k));
					std::string after = snap(cont);
					if (after != before) c.fail("C04 strong: %s, %s failure #%ld: state changed: before {%s} after {%s}", name.c_str(), modeName[m], k, before.c_str(), after.c_str());
					if (ec().live != liveBefore) c.fail("C04 leak: %s, %s failure #%ld: %ld element objects alive, %ld before the call", name.c_str(), modeName[m], k, ec().live, liveBefore);
					// containers whose every block is a block of the manager (no pool buffers): nothing may be left allocated by the failed call
					if ((exactBlocks == 1 || (exactBlocks == 2 && m == M_FUNC)) && mm().live.size() != blocksBefore) c.fail("C04 leak: %s, %s failure #%ld: %zu blocks of the memory manager outstanding after the failed call, %zu before it", name.c_str(), modeName[m], k, mm().live.size(), blocksBefore);
					// remains fully usable: the same operation without a fault succeeds
					try { op(cont); } catch (...) { c.fail("C04 usable: %s, %s failure #%ld: the retried operation threw", name.c_str(), modeName[m], k); }
					if (c.stats.samples.size() < 10) c.stats.sample(fmt("%s: %s failure #%ld -> exception, state {%s} unchanged, retry ok", name.c_str(), modeName[m], k, before.size() > 60 ? (before.substr(0, 60) + "…").c_str() : before.c_str()));
				}
			}
			// destruction gave everything back
			if (!mm().live.empty()) { c.fail("C03 leak: %s, %s failure #%ld: %zu blocks outstanding after destruction", name.c_str(), modeName[m], k, mm().live.size()); mm().live.clear(); }
			if (mm().badDealloc) { c.fail("C03 dealloc: %s, %s failure #%ld: %zu bad deallocations", name.c_str(), modeName[m], k, mm().badDealloc); mm().badDealloc = 0; }
			if (ec().live != 0) { c.fail("C03 elements: %s, %s failure #%ld: %ld element objects alive after destruction", name.c_str(), modeName[m], k, ec().live); ec().live = 0; }
			if (!threw && !fired) break;	// k is beyond the last fallible point of this kind
		}
	}
}

// constructors: a failing constructor leaves nothing allocated and nothing constructed
template<typename F>
static void ctorSweep(Ctx& c, const std::string& name, F build)
{
	for (int m = 0; m < 2; ++m) {
		for (long k = 0; k < 400; ++k) {
			long liveBefore = ec().live; size_t blocksBefore = mm().live.size();
			arm((Mode)m, k);
			bool threw = false;
			try { build(); } catch (const std::bad_alloc&) { threw = true; } catch (const std::runtime_error&) { threw = true; }
			bool fired = disarm((Mode)m);
			c.stats.evaluations++;
			if (threw) {
				c.stats.count("sweep.ctor_threw"); c.stats.nontrivial(fmt("%s/ctor/%s/%ld", name.c_str(), modeName[m], k));
				if (ec().live != liveBefore) c.fail("C04 ctor: %s, %s failure #%ld: %ld element objects left constructed", name.c_str(), modeName[m], k, ec().live - liveBefore);
				if (mm().live.size() != blocksBefore) c.fail("C04 ctor: %s, %s failure #%ld: %zu blocks left allocated", name.c_str(), modeName[m], k, mm().live.size() - blocksBefore);
			}
			if (mm().badDealloc) { c.fail("C03 dealloc: %s ctor, %s failure #%ld: %zu bad deallocations (double free)", name.c_str(), modeName[m], k, mm().badDealloc); mm().badDealloc = 0; }
			if (!threw && !fired) break;
		}
	}
}

struct NoExtraS : public momo::HashSetSettings { static const momo::ExtraCheckMode extraCheckMode = momo::ExtraCheckMode::nothing; };
struct NoExtraM : public momo::HashMapSettings { static const momo::ExtraCheckMode extraCheckMode = momo::ExtraCheckMode::nothing; };
struct NoExtraT : public momo::TreeSetSettings { static const momo::ExtraCheckMode extraCheckMode = momo::ExtraCheckMode::nothing; };
struct MMS : public momo::HashMultiMapSettings { static const momo::ExtraCheckMode extraCheckMode = momo::ExtraCheckMode::nothing; };
struct NoExtraTM : public momo::TreeMapSettings { static const momo::ExtraCheckMode extraCheckMode = momo::ExtraCheckMode::nothing; };

template<typename Key, typename HashBucket>
struct ThrowHashTraits : public momo::HashTraits<Key, HashBucket>
{
	static const bool isFastNothrowHashable = false;
	template<typename ItemTraits> using Bucket = typename HashBucket::template Bucket<ItemTraits, true>;
	size_t GetLogStartBucketCount() const noexcept { return 2; }	// >= 2: with 1-item buckets a refused growth can fill a 2-bucket table beyond the next capacity
	size_t GetHashCode(const Key& key) const { funcPoint(); return (size_t)idOf(key) * 7; }
	bool IsEqual(const Key& a, const Key& b) const { funcPoint(); return idOf(a) == idOf(b); }
};

template<typename Key, typename Node, bool multi>
struct ThrowTreeTraits : public momo::TreeTraits<Key, multi, Node, true>
{
	bool IsLess(const Key& a, const Key& b) const { funcPoint(); return idOf(a) < idOf(b); }
};

template<typename E, typename A> static std::string snapSeq(A& a) { std::string r = fmt("n=%zu:", a.GetCount()); for (size_t i = 0; i < a.GetCount(); ++i) r += fmt(" %u", idOf(a[i])); return r; }
template<typename S> static std::string snapSet(S& s) { std::vector<uint32_t> v; for (const auto& x : s) v.push_back(idOf(x)); std::string r = fmt("n=%zu:", s.GetCount()); for (auto x : v) r += fmt(" %u", x); return r; }
template<typename M> static std::string snapMap(M& m) { std::string r = fmt("n=%zu:", m.GetCount()); for (auto ref : m) r += fmt(" %u=%u", idOf(ref.key), idOf(ref.value)); return r; }

template<typename E>
static void arraySweeps(Ctx& c, const char* en)
{
	typedef momo::Array<E, FaultMM> Arr;
	typedef momo::Array<E, FaultMM, momo::ArrayItemTraits<E, FaultMM>, momo::ArraySettings<3>> ArrIC;
	typedef momo::SegmentedArray<E, FaultMM> Seg;
	typedef momo::SegmentedArray<E, FaultMM, momo::SegmentedArrayItemTraits<E, FaultMM>, momo::SegmentedArraySettings<momo::SegmentedArrayItemCountFunc::cnst, 2>> SegC;
	for (unsigned n : { 0u, 3u, 4u, 8u, 17u }) {
		auto mk = [n](auto& a) { for (unsigned i = 0; i < n; ++i) a.AddBack(E(i)); };
		std::string N = fmt("%s n=%u", en, n);
		sweep<Arr>(c, "Array.AddBack(const&) " + N, mk, [](Arr& a) { E x(99); a.AddBack(x); }, snapSeq<E, Arr>, false);
		sweep<Arr>(c, "Array.AddBack(&&) " + N, mk, [](Arr& a) { a.AddBack(E(99)); }, snapSeq<E, Arr>, false);
		if (n > 0) sweep<Arr>(c, "Array.AddBack(alias) " + N, mk, [](Arr& a) { a.AddBack(a[0]); }, snapSeq<E, Arr>, false);
		sweep<Arr>(c, "Array.SetCount(+3,item) " + N, mk, [n](Arr& a) { a.SetCount(n + 3, E(5)); }, snapSeq<E, Arr>, false);
		sweep<Arr>(c, "Array.Reserve " + N, mk, [n](Arr& a) { a.Reserve(n * 2 + 9); }, snapSeq<E, Arr>, false);
		sweep<Arr>(c, "Array.Shrink " + N, [n](Arr& a) { a.Reserve(n + 20); for (unsigned i = 0; i < n; ++i) a.AddBack(E(i)); }, [](Arr& a) { a.Shrink(); }, snapSeq<E, Arr>, false);
		sweep<Arr>(c, "Array.operator=(copy) " + N, mk, [](Arr& a) { Arr b; for (unsigned i = 0; i < 6; ++i) b.AddBack(E(50 + i)); a = b; }, snapSeq<E, Arr>, false);
		sweep<ArrIC>(c, "ArrayIntCap<3>.AddBack " + N, mk, [](ArrIC& a) { E x(99); a.AddBack(x); }, snapSeq<E, ArrIC>, false);
		sweep<ArrIC>(c, "ArrayIntCap<3>.Reserve " + N, mk, [n](ArrIC& a) { a.Reserve(n + 5); }, snapSeq<E, ArrIC>, false);
		sweep<Seg>(c, "SegmentedArray(sqrt).AddBack " + N, mk, [](Seg& a) { E x(99); a.AddBack(x); }, snapSeq<E, Seg>, false);
		sweep<Seg>(c, "SegmentedArray(sqrt).SetCount(+40) " + N, mk, [n](Seg& a) { a.SetCount(n + 40, E(5)); }, snapSeq<E, Seg>, false);
		sweep<SegC>(c, "SegmentedArray(cnst).AddBack " + N, mk, [](SegC& a) { a.AddBack(E(99)); }, snapSeq<E, SegC>, false);
		sweep<SegC>(c, "SegmentedArray(cnst).Reserve " + N, mk, [n](SegC& a) { a.Reserve(n + 13); }, snapSeq<E, SegC>, false);
		ctorSweep(c, "Array(copy) " + N, [n] { Arr s; for (unsigned i = 0; i < n; ++i) s.AddBack(E(i)); mm().disarm(); long k = ec().copyCountdown; (void)k; Arr d(s); });
		ctorSweep(c, "SegmentedArray(count,item) " + N, [n] { Seg d(n + 5, E(3)); });
	}
}

template<typename E, typename HB>
static void hashSweeps(Ctx& c, const char* en, const char* bn)
{
	typedef ThrowHashTraits<E, HB> Tr;
	typedef momo::HashSet<E, Tr, FaultMM, momo::HashSetItemTraits<E, FaultMM>, NoExtraS> Set;
	typedef momo::HashMap<E, E, Tr, FaultMM, momo::HashMapKeyValueTraits<E, E, FaultMM>, NoExtraM> Map;
	for (unsigned n : { 0u, 1u, 3u, 7u, 20u }) {
		auto mkS = [n](Set& s) { for (unsigned i = 0; i < n; ++i) s.Insert(E(i * 3)); };
		auto mkM = [n](Map& m) { for (unsigned i = 0; i < n; ++i) m.Insert(E(i * 3), E(i)); };
		std::string N = fmt("%s %s n=%u", bn, en, n);
		sweep<Set>(c, "HashSet.Insert(new) " + N, mkS, [](Set& s) { E x(1001); s.Insert(x); }, snapSet<Set>, true);
		sweep<Set>(c, "HashSet.Insert(&&) " + N, mkS, [](Set& s) { s.Insert(E(1001)); }, snapSet<Set>, true);
		if (n > 0) sweep<Set>(c, "HashSet.Remove(key) " + N, mkS, [](Set& s) { s.Remove(E(0)); }, snapSet<Set>, true);
		sweep<Set>(c, "HashSet.Reserve " + N, mkS, [n](Set& s) { s.Reserve(n * 4 + 40); }, snapSet<Set>, true);
		sweep<Set>(c, "HashSet.operator=(copy) " + N, mkS, [](Set& s) { Set t; for (unsigned i = 0; i < 9; ++i) t.Insert(E(500 + i)); s = t; }, snapSet<Set>, true);
		sweep<Map>(c, "HashMap.Insert " + N, mkM, [](Map& m) { E k(1001), v(5); m.Insert(k, v); }, snapMap<Map>, true);
		sweep<Map>(c, "HashMap.operator[] insert " + N, mkM, [](Map& m) { E k(1001); m[k] = E(5); }, snapMap<Map>, true);
		ctorSweep(c, "HashSet(copy) " + N, [n] { Set s; for (unsigned i = 0; i < n; ++i) s.Insert(E(i * 3)); Set d(s); });
		ctorSweep(c, "HashMap(copy) " + N, [n] { Map s; for (unsigned i = 0; i < n; ++i) s.Insert(E(i * 3), E(i)); Map d(s); });
	}
	ctorSweep(c, std::string("HashSet(init-list) ") + bn + " " + en, [] { Set d{ E(1), E(2), E(3), E(4), E(5), E(6), E(7) }; });
	// insertion into a bucket that has a spare slot in its existing item storage: a table that was filled and then thinned
	// out by removals (the chained buckets keep their item block, so the next item is created in place; open-addressing buckets
	// have the hole in the middle of their short-hash bytes). Every new key is swept over every failing copy / allocation /
	// functor call; the keys are chosen so that they land in many different buckets.
	for (unsigned n : { 6u, 14u, 40u }) for (unsigned hole : { 2u, 3u }) {
		auto mkS = [n, hole](Set& s) { for (unsigned i = 0; i < n; ++i) s.Insert(E(i)); for (unsigned i = 0; i < n; ++i) if (i % hole == 0) s.Remove(E(i)); };
		auto mkM = [n, hole](Map& m) { for (unsigned i = 0; i < n; ++i) m.Insert(E(i), E(i + 900)); for (unsigned i = 0; i < n; ++i) if (i % hole == 0) m.Remove(E(i)); };
		for (unsigned k = 0; k < 12; ++k) {
			unsigned key = 2000 + k * 5;
			std::string N = fmt("%s %s n=%u thinned by 1/%u, key %u", bn, en, n, hole, key);
			sweep<Set>(c, "HashSet.Insert(after removals) " + N, mkS, [key](Set& s) { E x(key); s.Insert(x); }, snapSet<Set>, true);
			sweep<Map>(c, "HashMap.Insert(after removals) " + N, mkM, [key](Map& m) { E kx(key), v(7); m.Insert(kx, v); }, snapMap<Map>, true);
		}
		// re-insertion of a removed key lands in the very bucket that has the hole
		sweep<Set>(c, fmt("HashSet.Insert(removed key again) %s %s n=%u thinned by 1/%u", bn, en, n, hole), mkS, [](Set& s) { E x(0); s.Insert(x); }, snapSet<Set>, true);
		sweep<Map>(c, fmt("HashMap.operator[](removed key again) %s %s n=%u thinned by 1/%u", bn, en, n, hole), mkM, [](Map& m) { E kx(0); m[kx] = E(3); }, snapMap<Map>, true);
	}
}

template<typename E>
static void multiMapSweeps(Ctx& c, const char* en)
{
	typedef ThrowHashTraits<E, momo::HashBucketLimP4<>> Tr;
	typedef momo::HashMultiMap<E, E, Tr, FaultMM, momo::HashMultiMapKeyValueTraits<E, E, FaultMM>, MMS> MMap;
	auto snap = [](MMap& m) { std::string r = fmt("n=%zu k=%zu:", m.GetCount(), m.GetKeyCount()); for (auto ref : m) r += fmt(" %u=%u", idOf(ref.key), idOf(ref.value)); return r; };
	for (unsigned n : { 0u, 2u, 9u, 40u }) {
		auto mk = [n](MMap& m) { for (unsigned i = 0; i < n; ++i) m.Add(E(i % 4), E(i)); };
		std::string N = fmt("%s n=%u", en, n);
		sweep<MMap>(c, "HashMultiMap.Add(new key) " + N, mk, [](MMap& m) { E k(77), v(5); m.Add(k, v); }, snap, true);
		if (n > 0) sweep<MMap>(c, "HashMultiMap.Add(existing key) " + N, mk, [](MMap& m) { E k(1), v(5); m.Add(k, v); }, snap, true);
		ctorSweep(c, "HashMultiMap(copy) " + N, [n] { MMap s; for (unsigned i = 0; i < n; ++i) s.Add(E(i % 4), E(i)); MMap d(s); });
	}
}

template<typename E, size_t cap>
static void treeSweeps(Ctx& c, const char* en)
{
	typedef momo::TreeNode<cap, 1, momo::MemPoolParams<2, 0>, true> Node;
	typedef ThrowTreeTraits<E, Node, false> Tr;
	typedef momo::TreeSet<E, Tr, FaultMM, momo::TreeSetItemTraits<E, FaultMM>, NoExtraT> Set;
	typedef momo::TreeMap<E, E, Tr, FaultMM, momo::TreeMapKeyValueTraits<E, E, FaultMM>, NoExtraTM> Map;
	for (unsigned n : { 0u, 1u, 4u, 9u, 33u }) {
		auto mkS = [n](Set& s) { for (unsigned i = 0; i < n; ++i) s.Insert(E(i * 4)); };
		auto mkM = [n](Map& m) { for (unsigned i = 0; i < n; ++i) m.Insert(E(i * 4), E(i)); };
		std::string N = fmt("cap=%zu %s n=%u", cap, en, n);
		sweep<Set>(c, "TreeSet.Insert(front) " + N, mkS, [](Set& s) { E x(1); s.Insert(x); }, snapSet<Set>, true);
		sweep<Set>(c, "TreeSet.Insert(middle) " + N, mkS, [n](Set& s) { s.Insert(E(n * 2 + 1)); }, snapSet<Set>, true);
		sweep<Set>(c, "TreeSet.Insert(back) " + N, mkS, [](Set& s) { s.Insert(E(100001)); }, snapSet<Set>, true);
		if (n > 1) sweep<Set>(c, "TreeSet.Remove(key) " + N, mkS, [](Set& s) { s.Remove(E(4)); }, snapSet<Set>, true);
		sweep<Set>(c, "TreeSet.operator=(copy) " + N, mkS, [](Set& s) { Set t; for (unsigned i = 0; i < 11; ++i) t.Insert(E(700 + i)); s = t; }, snapSet<Set>, true);
		sweep<Map>(c, "TreeMap.Insert " + N, mkM, [](Map& m) { E k(6), v(1); m.Insert(k, v); }, snapMap<Map>, true);
		sweep<Map>(c, "TreeMap.operator[] insert " + N, mkM, [](Map& m) { E k(6); m[k] = E(2); }, snapMap<Map>, true);
		ctorSweep(c, "TreeSet(copy) " + N, [n] { Set s; for (unsigned i = 0; i < n; ++i) s.Insert(E(i * 4)); Set d(s); });
		ctorSweep(c, "TreeMap(copy) " + N, [n] { Map s; for (unsigned i = 0; i < n; ++i) s.Insert(E(i * 4), E(i)); Map d(s); });
	}
	ctorSweep(c, fmt("TreeSet(init-list) cap=%zu %s", cap, en), [] { Set d{ E(5), E(1), E(9), E(3), E(7), E(2), E(8) }; });
}

// Deep cascades: nodes of capacity 2 / 3 that are single blocks of the memory manager (MemPoolParams<1, 0>), trees grown key by
// key so that every insertion shape occurs - in particular splits at every level up to a new root, which create five and more
// nodes in one call (the Relocator's bookkeeping arrays then leave their internal capacity). Every insertion is swept over every
// failing allocation / copy / comparison; with single-block nodes a node leaked by a failed insertion is visible at the
// memory manager immediately (block count before = after) and after destruction.
template<typename E, size_t cap>
static void treeDeepSweeps(Ctx& c, const char* en, unsigned maxN)
{
	typedef momo::TreeNode<cap, 1, momo::MemPoolParams<1, 0>, true> Node;
	typedef ThrowTreeTraits<E, Node, false> Tr;
	typedef momo::TreeSet<E, Tr, FaultMM, momo::TreeSetItemTraits<E, FaultMM>, NoExtraT> Set;
	for (int pattern = 0; pattern < 3; ++pattern) {		// 0: ascending keys (right spine), 1: descending (left spine), 2: middle
		for (unsigned n = 0; n <= maxN; n += (n < 40 ? 1 : 3)) {
			auto key = [pattern](unsigned i) { return pattern == 0 ? 1000 + i * 2 : pattern == 1 ? 100000 - i * 2 : (i % 2 ? 50000 + i : 50000 - i); };
			auto mk = [n, key](Set& s) { for (unsigned i = 0; i < n; ++i) s.Insert(E(key(i))); };
			std::string N = fmt("cap=%zu single-block nodes %s pattern=%d n=%u", cap, en, pattern, n);
			size_t blocksMade = 0;
			{ Set probe; mk(probe); size_t b0 = mm().live.size(); probe.Insert(E(key(n))); blocksMade = mm().live.size() - b0; }
			c.stats.count(fmt("tree.deep.nodes_created_by_insert.%zu", std::min<size_t>(blocksMade, 8)));
			sweep<Set>(c, "TreeSet.Insert(deep) " + N, mk, [n, key](Set& s) { s.Insert(E(key(n))); }, snapSet<Set>, true,
				n > 0 /* a failed first insertion keeps the (empty) root node it created: owned by the tree, released by Clear / the destructor */);
		}
	}
}

// ------------------------------------------------------------------ part 2 (-DC04S_PART=2): element / parameter categories that part 1 lacks
// (a) "copy-only with noexcept swap" elements (ElemSW): ObjectManager::pvAssignAnyway / pvShiftNothrow swap variants - hash buckets
//     replace the removed item by the last one through swap, tree nodes are contiguous and shift by swap;
// (b) constructors of the objects that MemManagerProxy::AllocateCreate places in a fresh block can throw: the tree's NodeParams and
//     the hash table's BucketParams construct one memory pool per node / bucket size from the user's MemPoolParams class (its
//     constructor is made to throw on the k-th call), the crew's Data copies the user's traits object (its copy constructor is made
//     to throw): the block must be given back (AllocateCreate's catch), the container unchanged and usable.
struct ThrowPoolParams : public momo::MemPoolParams<2, 0>
{
	explicit ThrowPoolParams(size_t blockSize) : momo::MemPoolParams<2, 0>((funcPoint(), blockSize)) {}
	explicit ThrowPoolParams(size_t blockSize, size_t blockAlignment) : momo::MemPoolParams<2, 0>((funcPoint(), blockSize), blockAlignment) {}
};

template<typename Key, typename HashBucket>
struct CopyThrowHashTraits : public ThrowHashTraits<Key, HashBucket>
{
	CopyThrowHashTraits() {}
	CopyThrowHashTraits(const CopyThrowHashTraits&) : ThrowHashTraits<Key, HashBucket>() { funcPoint(); }
	CopyThrowHashTraits& operator=(const CopyThrowHashTraits&) = default;
};
template<typename Key, typename Node>
struct CopyThrowTreeTraits : public ThrowTreeTraits<Key, Node, false>
{
	CopyThrowTreeTraits() {}
	CopyThrowTreeTraits(const CopyThrowTreeTraits&) : ThrowTreeTraits<Key, Node, false>() { funcPoint(); }
	CopyThrowTreeTraits& operator=(const CopyThrowTreeTraits&) = default;
};

// constructor-like expression `build` under every k-th failure of every kind (incl. functor / parameter-class faults)
template<typename F>
static void ctorSweep3(Ctx& c, const std::string& name, F build)
{
	for (int m = 0; m < 3; ++m) {
		for (long k = 0; k < 400; ++k) {
			long liveBefore = ec().live; size_t blocksBefore = mm().live.size();
			arm((Mode)m, k);
			bool threw = false;
			try { build(); } catch (const std::bad_alloc&) { threw = true; } catch (const std::runtime_error&) { threw = true; } catch (const std::domain_error&) { threw = true; }
			bool fired = disarm((Mode)m);
			c.stats.evaluations++;
			if (threw) {
				c.stats.count(std::string("sweep.ctor3_threw.") + modeName[m]); c.stats.nontrivial(fmt("%s/ctor/%s/%ld", name.c_str(), modeName[m], k));
				if (ec().live != liveBefore) c.fail("C04 ctor: %s, %s failure #%ld: %ld element objects left constructed", name.c_str(), modeName[m], k, ec().live - liveBefore);
				if (mm().live.size() != blocksBefore) c.fail("C04 ctor: %s, %s failure #%ld: %zu blocks left allocated by the failed constructor", name.c_str(), modeName[m], k, mm().live.size() - blocksBefore);
			}
			else {
				if (ec().live != liveBefore) { c.fail("C03 elements: %s, %s failure #%ld: %ld element objects alive after destruction", name.c_str(), modeName[m], k, ec().live - liveBefore); ec().live = liveBefore; }
				if (mm().live.size() != blocksBefore) { c.fail("C03 leak: %s, %s failure #%ld: %zu blocks outstanding after destruction", name.c_str(), modeName[m], k, mm().live.size() - blocksBefore); }
			}
			if (mm().badDealloc) { c.fail("C03 dealloc: %s ctor, %s failure #%ld: %zu bad deallocations (double free)", name.c_str(), modeName[m], k, mm().badDealloc); mm().badDealloc = 0; }
			if (!threw && !fired) break;
		}
	}
}

template<typename E>
static void allocateCreateSweeps(Ctx& c, const char* en)
{
	// tree: NodeParams = one MemPool per leaf capacity, each built from ThrowPoolParams(leafNodeSize)
	typedef momo::TreeNode<4, 1, ThrowPoolParams, true> Node;
	typedef ThrowTreeTraits<E, Node, false> Tr;
	typedef momo::TreeSet<E, Tr, FaultMM, momo::TreeSetItemTraits<E, FaultMM>, NoExtraT> Set;
	typedef momo::TreeMap<E, E, Tr, FaultMM, momo::TreeMapKeyValueTraits<E, E, FaultMM>, NoExtraTM> Map;
	static_assert(Set::Node::leafMemPoolCount >= 3, "several leaf pools, so that a later pool's parameters can fail after earlier pools exist");
	std::string N = fmt("pool-params fault %s", en);
	sweep<Set>(c, "TreeSet.Insert(first: creates NodeParams) " + N, [](Set&) {}, [](Set& s) { s.Insert(E(5)); }, snapSet<Set>, true, 2);
	sweep<Map>(c, "TreeMap.Insert(first: creates NodeParams) " + N, [](Map&) {}, [](Map& m) { m.Insert(E(5), E(6)); }, snapMap<Map>, true, 2);
	sweep<Map>(c, "TreeMap.operator[](first: creates NodeParams) " + N, [](Map&) {}, [](Map& m) { E k(5); m[k] = E(6); }, snapMap<Map>, true, 2);
	sweep<Set>(c, "TreeSet.operator=(copy into empty: creates NodeParams) " + N, [](Set&) {}, [](Set& s) { mm().disarm(); long cc = ec().copyCountdown, fcd = fc().countdown; ec().copyCountdown = -1; fc().countdown = -1; Set t; for (unsigned i = 0; i < 7; ++i) t.Insert(E(700 + i)); ec().copyCountdown = cc; fc().countdown = fcd; s = t; }, snapSet<Set>, true);
	for (unsigned n : { 1u, 6u }) ctorSweep3(c, fmt("TreeSet(copy) n=%u ", n) + N, [n] { long cc = ec().copyCountdown, fcd = fc().countdown; long ra = mm().refuseAfter; ec().copyCountdown = -1; fc().countdown = -1; mm().refuseAfter = -1; Set s; for (unsigned i = 0; i < n; ++i) s.Insert(E(i * 4)); ec().copyCountdown = cc; fc().countdown = fcd; mm().refuseAfter = ra; Set d(s); });
	{	// MergeTo into a set that never had nodes: the destination's NodeParams are created by the merge (TreeSet.h fast path)
		typedef Set SetE;	// ThrowTreeTraits is an empty class: MergeTo takes the splice path
		static_assert(std::is_empty<Tr>::value, "");
		for (long k = 0; k < 40; ++k) {
			bool threw = false, fired = false;
			{
				SetE src, dst; for (unsigned i = 0; i < 9; ++i) src.Insert(E(i));
				long live0 = ec().live; size_t blocks0 = mm().live.size();
				arm(M_FUNC, k);
				try { src.MergeTo(dst); } catch (const std::domain_error&) { threw = true; }
				fired = disarm(M_FUNC);
				c.stats.evaluations++;
				if (threw) {
					c.stats.nontrivial(fmt("TreeSet.MergeTo(empty) %s/%ld", N.c_str(), k));
					if (src.GetCount() + dst.GetCount() != 9 || ec().live != live0) c.fail("C10 conserve: TreeSet.MergeTo(never-used destination) %s, parameter failure #%ld: source %zu + destination %zu elements, %ld objects alive (9 / %ld before)", N.c_str(), k, src.GetCount(), dst.GetCount(), ec().live, live0);
					if (mm().live.size() != blocks0) c.fail("C04 leak: TreeSet.MergeTo(never-used destination) %s, parameter failure #%ld: %zu blocks outstanding, %zu before the failed call", N.c_str(), k, mm().live.size(), blocks0);
					try { src.MergeTo(dst); } catch (...) { c.fail("C10 usable: TreeSet.MergeTo(never-used destination) %s: retry threw", N.c_str()); }
				}
				if (dst.GetCount() + src.GetCount() != 9) c.fail("C10 conserve: TreeSet.MergeTo(never-used destination) %s #%ld: %zu + %zu elements afterwards", N.c_str(), k, src.GetCount(), dst.GetCount());
			}
			if (!mm().live.empty()) { c.fail("C03 leak: TreeSet.MergeTo %s #%ld: %zu blocks outstanding after destruction", N.c_str(), k, mm().live.size()); mm().live.clear(); }
			if (ec().live != 0) { c.fail("C03 elements: TreeSet.MergeTo %s #%ld: %ld element objects alive after destruction", N.c_str(), k, ec().live); ec().live = 0; }
			if (!threw && !fired) break;
		}
	}
	// hash: BucketParams of HashBucketLimP1 / LimP = one MemPool per bucket size, each built from ThrowPoolParams(blockSize, alignment)
	typedef momo::HashBucketLimP1<3, ThrowPoolParams> HB1;
	typedef momo::HashBucketLimP<4, ThrowPoolParams> HBP;
	typedef momo::HashSet<E, ThrowHashTraits<E, HB1>, FaultMM, momo::HashSetItemTraits<E, FaultMM>, NoExtraS> HSet1;
	typedef momo::HashSet<E, ThrowHashTraits<E, HBP>, FaultMM, momo::HashSetItemTraits<E, FaultMM>, NoExtraS> HSetP;
	typedef momo::HashMap<E, E, ThrowHashTraits<E, HB1>, FaultMM, momo::HashMapKeyValueTraits<E, E, FaultMM>, NoExtraM> HMap1;
	sweep<HSet1>(c, "HashSet<LimP1>.Insert(first: creates BucketParams) " + N, [](HSet1&) {}, [](HSet1& s) { s.Insert(E(5)); }, snapSet<HSet1>, true, 2);
	sweep<HSetP>(c, "HashSet<LimP>.Insert(first: creates BucketParams) " + N, [](HSetP&) {}, [](HSetP& s) { s.Insert(E(5)); }, snapSet<HSetP>, true, 2);
	sweep<HSet1>(c, "HashSet<LimP1>.Reserve(first: creates BucketParams) " + N, [](HSet1&) {}, [](HSet1& s) { s.Reserve(10); }, snapSet<HSet1>, true, 2);
	sweep<HMap1>(c, "HashMap<LimP1>.operator[](first: creates BucketParams) " + N, [](HMap1&) {}, [](HMap1& m) { E k(5); m[k] = E(6); }, snapMap<HMap1>, true, 2);
	for (unsigned n : { 1u, 6u }) ctorSweep3(c, fmt("HashSet<LimP1>(copy) n=%u ", n) + N, [n] { long cc = ec().copyCountdown, fcd = fc().countdown; long ra = mm().refuseAfter; ec().copyCountdown = -1; fc().countdown = -1; mm().refuseAfter = -1; HSet1 s; for (unsigned i = 0; i < n; ++i) s.Insert(E(i * 3)); ec().copyCountdown = cc; fc().countdown = fcd; mm().refuseAfter = ra; HSet1 d(s); });
	// crew: Data(containerTraits) copies the traits object
	typedef CopyThrowHashTraits<E, momo::HashBucketLimP4<>> CTH;
	typedef momo::HashSet<E, CTH, FaultMM, momo::HashSetItemTraits<E, FaultMM>, NoExtraS> HSetC;
	typedef momo::TreeNode<4, 1, momo::MemPoolParams<2, 0>, true> Node4;
	typedef CopyThrowTreeTraits<E, Node4> CTT;
	typedef momo::TreeSet<E, CTT, FaultMM, momo::TreeSetItemTraits<E, FaultMM>, NoExtraT> TSetC;
	static_assert(!std::is_nothrow_move_constructible<CTH>::value && !std::is_nothrow_move_constructible<CTT>::value, "the crew keeps such traits behind a pointer (AllocateCreate<Data>)");
	std::string NC = fmt("traits-copy fault %s", en);
	ctorSweep3(c, "HashSet(traits) " + NC, [] { CTH tr; HSetC s(tr); });
	ctorSweep3(c, "TreeSet(traits) " + NC, [] { CTT tr; TSetC s(tr); });
	for (unsigned n : { 0u, 5u }) {
		ctorSweep3(c, fmt("HashSet(copy) n=%u ", n) + NC, [n] { long cc = ec().copyCountdown, fcd = fc().countdown; long ra = mm().refuseAfter; ec().copyCountdown = -1; fc().countdown = -1; mm().refuseAfter = -1; HSetC s; for (unsigned i = 0; i < n; ++i) s.Insert(E(i * 3)); ec().copyCountdown = cc; fc().countdown = fcd; mm().refuseAfter = ra; HSetC d(s); });
		ctorSweep3(c, fmt("TreeSet(copy) n=%u ", n) + NC, [n] { long cc = ec().copyCountdown, fcd = fc().countdown; long ra = mm().refuseAfter; ec().copyCountdown = -1; fc().countdown = -1; mm().refuseAfter = -1; TSetC s; for (unsigned i = 0; i < n; ++i) s.Insert(E(i * 3)); ec().copyCountdown = cc; fc().countdown = fcd; mm().refuseAfter = ra; TSetC d(s); });
	}
	for (unsigned n : { 0u, 5u }) {
		auto mkH = [n](HSetC& s) { for (unsigned i = 0; i < n; ++i) s.Insert(E(i * 3)); };
		sweep<HSetC>(c, fmt("HashSet.operator=(copy) n=%u ", n) + NC, mkH, [](HSetC& s) { long cc = ec().copyCountdown, fcd = fc().countdown; long ra = mm().refuseAfter; ec().copyCountdown = -1; fc().countdown = -1; mm().refuseAfter = -1; HSetC t; for (unsigned i = 0; i < 6; ++i) t.Insert(E(500 + i)); ec().copyCountdown = cc; fc().countdown = fcd; mm().refuseAfter = ra; s = t; }, snapSet<HSetC>, true);
		auto mkT = [n](TSetC& s) { for (unsigned i = 0; i < n; ++i) s.Insert(E(i * 3)); };
		sweep<TSetC>(c, fmt("TreeSet.operator=(copy) n=%u ", n) + NC, mkT, [](TSetC& s) { long cc = ec().copyCountdown, fcd = fc().countdown; long ra = mm().refuseAfter; ec().copyCountdown = -1; fc().countdown = -1; mm().refuseAfter = -1; TSetC t; for (unsigned i = 0; i < 6; ++i) t.Insert(E(500 + i)); ec().copyCountdown = cc; fc().countdown = fcd; mm().refuseAfter = ra; s = t; }, snapSet<TSetC>, true);
	}
}

// HashMultiMap::Remove(iterator) of a value that is not the last of its key: the last value takes its place through
// KeyValueTraits::AssignAnywayValue (for ElemSW: the swap variant of ObjectManager::pvAssignAnyway)
template<typename E>
static void multiMapRemoveValue(Ctx& c, const char* en)
{
	typedef ThrowHashTraits<E, momo::HashBucketLimP4<>> Tr;
	typedef momo::HashMultiMap<E, E, Tr, FaultMM, momo::HashMultiMapKeyValueTraits<E, E, FaultMM>, MMS> MMap;
	for (unsigned n : { 1u, 2u, 7u, 19u }) for (unsigned t = 0; t < n; ++t) {
		{
			MMap m; std::multiset<std::pair<uint32_t, uint32_t>> ref;
			for (unsigned i = 0; i < n; ++i) { m.Add(E(i % 3), E(100 + i)); ref.insert({ i % 3, 100 + i }); }
			long live0 = ec().live;
			typename MMap::ConstIterator target; bool found = false;
			for (typename MMap::ConstIterator it = m.GetBegin(); !!it; ++it) if (idOf(it->value) == 100 + t) { target = it; found = true; }
			if (!found) { c.fail("C08 harness: value %u not found in the traversal", 100 + t); continue; }
			m.Remove(target);
			ref.erase(ref.find({ t % 3, 100 + t }));
			std::multiset<std::pair<uint32_t, uint32_t>> now;
			bool alive = true;
			for (auto r : m) { now.insert({ idOf(r.key), idOf(r.value) }); if (r.key.state != 0xA11CE || r.value.state != 0xA11CE) alive = false; }
			c.stats.evaluations++; c.stats.nontrivial(fmt("mmap.removeValue %s n=%u t=%u", en, n, t));
			if (now != ref || m.GetCount() != ref.size()) c.fail("C08 remove value: HashMultiMap<%s> n=%u: after Remove(iterator of value %u) the pairs are not the reference pairs minus that one (%zu pairs, reference %zu)", en, n, 100 + t, now.size(), ref.size());
			if (!alive) c.fail("C08 remove value: HashMultiMap<%s> n=%u value %u: a key / value object inside the container is not alive", en, n, 100 + t);
			if (ec().live != live0 - 1) c.fail("C03 elements: HashMultiMap<%s> n=%u: %ld objects alive after removing one value, expected %ld", en, n, ec().live, live0 - 1);
		}
		if (!mm().live.empty()) { c.fail("C03 leak: HashMultiMap<%s> remove value: %zu blocks outstanding after destruction", en, mm().live.size()); mm().live.clear(); }
		if (ec().live != 0) { c.fail("C03 elements: HashMultiMap<%s> remove value: %ld objects alive after destruction", en, ec().live); ec().live = 0; }
	}
}

#ifndef C04S_PART
#define C04S_PART 1
#endif

#if C04S_PART == 2
int main(int argc, char** argv)
{
	Ctx c = parseArgs(argc, argv);
	typedef momo::internal::ObjectManager<ElemSW, FaultMM> OSW;
	static_assert(!OSW::isNothrowRelocatable && OSW::isNothrowSwappable && OSW::isNothrowAnywayAssignable && OSW::isNothrowShiftable && !std::is_nothrow_move_assignable<ElemSW>::value, "ElemSW category");
	static_assert(momo::TreeSet<ElemSW, ThrowTreeTraits<ElemSW, momo::TreeNode<4, 1, momo::MemPoolParams<2, 0>, true>, false>, FaultMM>::Node::isContinuous, "ElemSW: contiguous nodes");
	long sw0 = ec().swaps;
	{
		Suite s(c, "obj_sw", "model obj");
		objSuite<ElemSW>(c, s, "copyonly", true);	// RelocateCreate treats it as copy-only
	}
	arraySweeps<ElemSW>(c, "copy-only+swap");
	hashSweeps<ElemSW, momo::HashBucketLimP4<>>(c, "copy-only+swap", "LimP4");
	hashSweeps<ElemSW, momo::HashBucketOpen8>(c, "copy-only+swap", "Open8");
	multiMapSweeps<ElemSW>(c, "copy-only+swap");
	multiMapRemoveValue<ElemSW>(c, "copy-only+swap");
	multiMapRemoveValue<ElemNM>(c, "nothrow-move");
	multiMapRemoveValue<ElemCA>(c, "copy-only nothrow-assign");
	treeSweeps<ElemSW, 4>(c, "copy-only+swap");
	treeSweeps<ElemSW, 2>(c, "copy-only+swap");
	treeDeepSweeps<ElemSW, 3>(c, "copy-only+swap", c.thorough ? 200 : 60);
	if (ec().swaps == sw0) c.fail("C04 harness: the ElemSW sweeps never called swap");
	c.stats.count("elemsw.swap_calls", (uint64_t)(ec().swaps - sw0));
	allocateCreateSweeps<ElemNM>(c, "nothrow-move");
	allocateCreateSweeps<ElemCO>(c, "copy-only");
	return c.finish();
}
#else
int main(int argc, char** argv)
{
	Ctx c = parseArgs(argc, argv);
	{
		Suite s(c, "obj", "model obj");
		objSuite<ElemNM>(c, s, "nmove", false);
		objSuite<ElemCO>(c, s, "copyonly", true);
	}
	arraySweeps<ElemNM>(c, "nothrow-move");
	arraySweeps<ElemCO>(c, "copy-only");
	hashSweeps<ElemNM, momo::HashBucketLimP4<>>(c, "nothrow-move", "LimP4");
	hashSweeps<ElemCO, momo::HashBucketLimP4<>>(c, "copy-only", "LimP4");
	hashSweeps<ElemCO, momo::HashBucketOpen8>(c, "copy-only", "Open8");
	hashSweeps<ElemNM, momo::HashBucketOne<>>(c, "nothrow-move", "One");
	multiMapSweeps<ElemNM>(c, "nothrow-move");
	multiMapSweeps<ElemCO>(c, "copy-only");
	treeSweeps<ElemNM, 1>(c, "nothrow-move");
	treeSweeps<ElemCO, 4>(c, "copy-only");
	treeSweeps<ElemNM, 32>(c, "nothrow-move");
	treeSweeps<ElemCO, 32>(c, "copy-only");
	treeDeepSweeps<ElemNM, 2>(c, "nothrow-move", c.thorough ? 400 : 130);
	treeDeepSweeps<ElemCO, 3>(c, "copy-only", c.thorough ? 400 : 130);
	return c.finish();
}
#endif
