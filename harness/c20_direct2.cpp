// C20 correspondence harness, part 1b: allocator-level histories for 17..32 blocks per buffer (see c20_direct.cpp)
#define C20_DIRECT_SECOND_HALF
#include "c20_direct.cpp"
