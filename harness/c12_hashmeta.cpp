// C12 correspondence harness, function and bucket level: hash-probe bytes of LimP4 / Open2N2, hash state of One.
// REAL bucket objects of /repo/include (BucketLimP4<…, true>, BucketOpen2N2<…, true>, BucketOne) are driven through
// AddCrt / Remove / GetHashCodePart with logBucketCount up to 57 (no table of that size is needed), their metadata
// bytes and decoded codes are compared with the Lean model (suites fn, bkt), and — property level — every code that
// GetHashCodePart reconstructs is checked against the true hash code: same start bucket in the new table, same short
// hash, same metadata written by a real AddCrt in the new table.
#include "momo/HashSet.h"
#include "momo/details/HashBucketLimP4.h"
#include "momo/details/HashBucketOpen2N2.h"
#include "momo/details/HashBucketOne.h"
#include "common/verif_common.h"

#include <sys/mman.h>
#include <algorithm>
#include <map>

using namespace vf;

static const unsigned maxLog = 57;
static const uint64_t FULL = 0xF0F1F2F3F4F5F6F7ull;	// never returned: the full getter sets a flag instead

// ---------- memory managers: the pointer width (global macro, see the note below) decides hashCount of LimP4 (4, 6 or 8 bytes of metadata) ----------

// NOTE (observation O3, see common/verif_ptrbits.h): momo ignores a manager's own ptrUsefulBitCount today (MemManager.h 376-380), so
// without the global macro every driver below - whatever its label says - runs with 8-byte pointer states and hashCount 4. hashCount 6 and 8
// are covered by the registry's builds of this file with -DMOMO_MEM_MANAGER_PTR_USEFUL_BIT_COUNT=48 (every driver: hashCount 6) and =32
// (every driver: hashCount 8, all managers on the arena); the counters cfg.hash_count_of_* record what a build really exercised.
#if !(defined(MOMO_MEM_MANAGER_PTR_USEFUL_BIT_COUNT) && MOMO_MEM_MANAGER_PTR_USEFUL_BIT_COUNT <= 32)
struct MM64 : public momo::MemManagerDefault { };
struct MM48 : public momo::MemManagerDefault { static const size_t ptrUsefulBitCount = 48; };
#endif

// 32-bit pointers: memory comes from an arena mapped below 4 GB
struct Arena32 {
	char* base = nullptr; size_t used = 0, cap = size_t{64} << 20;
	std::map<size_t, std::vector<void*>> freeLists;
	bool ok() {
		if (!base) {
			void* p = mmap(nullptr, cap, PROT_READ | PROT_WRITE, MAP_PRIVATE | MAP_ANONYMOUS | MAP_32BIT, -1, 0);
			if (p == MAP_FAILED || (uintptr_t)p + cap > (uintptr_t{1} << 32)) return false;
			base = (char*)p;
		}
		return true;
	}
	void* alloc(size_t size) {
		auto& fl = freeLists[size];
		if (!fl.empty()) { void* p = fl.back(); fl.pop_back(); return p; }
		size_t sz = (size + 15) & ~size_t{15};
		if (!ok() || used + sz > cap) throw std::bad_alloc();
		void* p = base + used; used += sz; return p;
	}
	void free(void* p, size_t size) { freeLists[size].push_back(p); }
};
static Arena32 g_arena;

class MM32 {
public:
	static const size_t ptrUsefulBitCount = 32;
	explicit MM32() noexcept {}
	MM32(MM32&&) noexcept {}
	MM32(const MM32&) noexcept {}
	~MM32() = default;
	MM32& operator=(const MM32&) = delete;
	void* Allocate(size_t size) { return g_arena.alloc(size); }
	void Deallocate(void* ptr, size_t size) noexcept { g_arena.free(ptr, size); }
};
#if defined(MOMO_MEM_MANAGER_PTR_USEFUL_BIT_COUNT) && MOMO_MEM_MANAGER_PTR_USEFUL_BIT_COUNT <= 32
struct MM64 : public MM32 { };
struct MM48 : public MM32 { };
#endif

// ---------- items: carry their hash code so the harness can check which element sits where ----------

struct Item8 { uint64_t h; };
struct Item16 { uint64_t h; uint64_t pad; };	// sizeof > alignment: minMemPoolIndex = 1

template<typename Item, typename MM>
using BIT = momo::internal::HashSetBucketItemTraits<momo::HashSetItemTraits<Item, MM>>;

struct Ghost { uint64_t h; unsigned L; uint64_t p; };

static std::string u64s(uint64_t v) { return fmt("%llu", (unsigned long long)v); }

// hash patterns: boundaries first, then random
static std::vector<uint64_t> hashPatterns(Rng& rng, unsigned L, unsigned randomCount)
{
	std::vector<uint64_t> v = { 0, ~0ull, 0xAAAAAAAAAAAAAAAAull, 0x5555555555555555ull, 1ull << 63, (1ull << 57) - 1, 1ull << 57 };
	unsigned q = (L + 6) / 8;
	for (int d = -1; d <= 9; ++d) {	// single bits around the table size and around the group boundary 8q+1
		int b1 = (int)L + d, b2 = (int)(8 * q) + d - 4;
		if (b1 >= 0 && b1 < 64) v.push_back(1ull << b1);
		if (b2 >= 0 && b2 < 64) { v.push_back(1ull << b2); v.push_back((b2 >= 63) ? ~0ull : ((1ull << (b2 + 1)) - 1)); }
	}
	for (unsigned i = 0; i < randomCount; ++i) v.push_back(rng.next());
	return v;
}

// ======================================================================================== LimP4

template<typename Item, typename MM, size_t tMaxCount>
struct P4Drv {
	typedef momo::internal::BucketLimP4<BIT<Item, MM>, tMaxCount, momo::MemPoolParams<>, true> Bucket;
	static const size_t hc = Bucket::hashCount;
	static const size_t maxCount = tMaxCount;
	static const size_t minMpi = Bucket::minMemPoolIndex;
	MM mm; typename Bucket::Params params; Bucket b;
	P4Drv() : params(mm) {}
	~P4Drv() { clear(); }
	void clear() { b.Clear(params); }
	size_t count() { return b.GetBounds(params).GetCount(); }
	void add(uint64_t h, unsigned L, uint64_t p) {
		b.AddCrt(params, [h] (Item* it) { ::new(static_cast<void*>(it)) Item(); it->h = h; }, (size_t)h, (size_t)L, (size_t)p);
	}
	void rem(size_t index) {
		Item* items = b.GetBounds(params).GetBegin();
		b.Remove(params, items + index, [] (Item& src, Item& dst) { if (&src != &dst) dst = src; });
	}
	uint64_t itemHash(size_t index) { return b.GetBounds(params).GetBegin()[index].h; }
	// GetHashCodePart on the element at position index; `full` tells whether the full getter was called
	uint64_t part(size_t index, uint64_t bucketIndex, unsigned L, unsigned L2, bool& full) {
		Item* items = b.GetBounds(params).GetBegin();
		bool called = false;
		size_t c = b.GetHashCodePart([&called] () { called = true; return (size_t)FULL; }, items + index, (size_t)bucketIndex, (size_t)L, (size_t)L2);
		full = called;
		return (uint64_t)c;
	}
	unsigned byteAt(size_t j) { return b.mShortHashes[j]; }
	std::string state() {
		std::string s = fmt("c=%zu m=%zu f=%d w=%d n=%d |", b.pvGetCount(), b.pvGetMemPoolIndex(), (int)b.IsFull(), (int)b.WasFull(),
			(int)(b.mPtrState.GetPointer() != nullptr));
		for (size_t j = 0; j < hc; ++j) s += fmt(" %u", (unsigned)b.mShortHashes[j]);
		return s;
	}
};

// property-level check of one reconstructed code against the true hash code, using real AddCrt calls in the "new table"
template<typename Drv>
static void checkCodeP4(Ctx& c, const char* cfgName, const Ghost& g, size_t index, unsigned L2, uint64_t code, Rng& rng, const std::string& history = std::string())
{
	std::string cfgs = history.empty() ? std::string(cfgName) : (std::string(cfgName) + " after history [" + history + "]");
	const char* cfg = cfgs.c_str();
	uint64_t mask = (L2 >= 64) ? ~0ull : ((1ull << L2) - 1);
	if ((code & mask) != (g.h & mask))
		c.fail("C12 reconstruct %s: start bucket differs: h=%llu L=%u p=%llu index=%zu L'=%u code=%llu (code&mask=%llu, h&mask=%llu)", cfg,
			(unsigned long long)g.h, g.L, (unsigned long long)g.p, index, L2, (unsigned long long)code, (unsigned long long)(code & mask), (unsigned long long)(g.h & mask));
	// metadata a real AddCrt writes in the new table, for a few displacements
	unsigned s2 = (unsigned)Drv::Bucket::pvGetProbeShift(L2);
	uint64_t ps[3] = { 0, rng.below(1ull << s2), (1ull << s2) - 1 };
	for (uint64_t p2 : ps) {
		Drv a, b;
		a.add(code, L2, p2); b.add(g.h, L2, p2);
		std::string sa = a.state(), sb = b.state();
		if (sa != sb)
			c.fail("C12 reconstruct %s: AddCrt in the grown table writes different metadata: h=%llu L=%u p=%llu index=%zu L'=%u p'=%llu code=%llu: [%s] vs full rehash [%s]",
				cfg, (unsigned long long)g.h, g.L, (unsigned long long)g.p, index, L2, (unsigned long long)p2, (unsigned long long)code, sa.c_str(), sb.c_str());
	}
	c.stats.count("p4.reconstructed_codes_checked");
}

// fn suite: one element at position `index` (positions below it filled with dummies), every L' in [L, 57]
template<typename Drv>
static void fnP4(Ctx& c, Rng& rng, Suite& s, const char* cfg, unsigned L, uint64_t p, uint64_t h, size_t index)
{
	Drv d;
	uint64_t mask = (1ull << L) - 1;
	uint64_t B = (h + p) & mask;	// linear probing: bucket reached after p steps
	for (size_t i = 0; i < index; ++i) d.add(rng.next(), L, 0);
	d.add(h, L, p);
	// what was stored for the element
	bool hasSlot = Drv::hc - 1 - index > index;
	unsigned byte = d.byteAt(Drv::hc - 1 - index), sh = d.byteAt(index);
	if (hasSlot) { s.op(fmt("p4enc %s %u %s", u64s(h).c_str(), L, u64s(p).c_str())); s.res(fmt("%u %u", byte, sh)); }
	uint64_t fullMask = 0, dec = 0; bool any = false;
	for (unsigned L2 = L; L2 <= maxLog; ++L2) {
		bool full; uint64_t code = d.part(index, B, L, L2, full);
		if (full) fullMask |= 1ull << (L2 - L);
		else {
			if (any && code != dec) c.fail("C12 %s: reconstructed code depends on L': h=%s L=%u p=%s", cfg, u64s(h).c_str(), L, u64s(p).c_str());
			any = true; dec = code;
			checkCodeP4<Drv>(c, cfg, Ghost{ h, L, p }, index, L2, code, rng);
			c.stats.count(p == 0 ? "p4.reconstruct_p0" : "p4.reconstruct_displaced");
		}
		c.stats.evaluations++;
	}
	s.op(fmt("p4part %u %u %s %u %u %u", byte, sh, u64s(B).c_str(), L, L, maxLog));
	s.res(fmt("%s %s", u64s(fullMask).c_str(), any ? u64s(dec).c_str() : "-"));
	if (any) c.stats.nontrivial(fmt("p4 %s L=%u p=%llu idx=%zu", cfg, L, (unsigned long long)p, index));
	if (!hasSlot && any) c.fail("C12 %s: position %zu has no hash-probe slot but the full getter was not called (h=%s L=%u)", cfg, index, u64s(h).c_str(), L);
}

template<typename Drv>
static void sweepP4(Ctx& c, Rng& rng, Suite& s, const char* cfg, unsigned randomHashes)
{
	s.comment(fmt("sweep %s hc=%zu maxCount=%zu", cfg, Drv::hc, Drv::maxCount));
	for (unsigned L = 0; L <= maxLog; ++L) {
		unsigned sft = (unsigned)Drv::Bucket::pvGetProbeShift(L);
		uint64_t plim = std::min<uint64_t>(1ull << sft, 1ull << L);
		std::vector<uint64_t> ps;
		for (uint64_t p = 0; p < plim; ++p) ps.push_back(p);
		if ((1ull << sft) < (1ull << L)) { ps.push_back(1ull << sft); ps.push_back((1ull << sft) + rng.below(1000)); }	// out of range: stored as 255
		std::vector<uint64_t> hs = hashPatterns(rng, L, randomHashes);
		size_t k = 0;
		for (uint64_t p : ps) {
			// every displacement with a few patterns (rotating), every pattern with a few displacements
			for (size_t j = 0; j < hs.size(); ++j) {
				bool take = (p < 2) || (p + 1 == plim) || ((j + p) % 7 == 0) || (j >= hs.size() - randomHashes && (j + p) % 3 == 0);
				if (!take) continue;
				fnP4<Drv>(c, rng, s, cfg, L, p, hs[j], (k++) % Drv::maxCount);
			}
		}
	}
}

// bkt suite: random add/remove histories of one bucket, state compared after every operation
template<typename Drv>
static void historiesP4(Ctx& c, Rng& rng, Suite& s, const char* cfg, unsigned rounds)
{
	for (unsigned r = 0; r < rounds; ++r) {
		Drv d;
		std::vector<Ghost> ghost;
		unsigned L = (unsigned)rng.range(0, maxLog);
		if (rng.chance(1, 3)) L = (unsigned)rng.range(2, 12);
		unsigned sft = (unsigned)Drv::Bucket::pvGetProbeShift(L);
		uint64_t mask = (1ull << L) - 1;
		uint64_t B = rng.next() & mask;
		s.op(fmt("b4 new %zu %zu %zu", Drv::hc, Drv::maxCount, Drv::minMpi)); s.res(d.state());
		std::string hist;
		unsigned steps = (unsigned)rng.range(4, 40);
		for (unsigned st = 0; st < steps; ++st) {
			size_t cnt = ghost.size();
			bool doAdd = cnt == 0 || (cnt < Drv::maxCount && rng.chance(3, 5));
			if (doAdd) {
				uint64_t plim = std::min<uint64_t>(1ull << sft, 1ull << L);
				uint64_t p = rng.chance(1, 8) ? std::min<uint64_t>((1ull << sft) + rng.below(3), mask) : rng.below(plim);
				uint64_t h = (rng.chance(1, 6) ? rng.biased(64) : rng.next());
				h = (h & ~mask) | ((B - p) & mask);	// the element's start bucket is p steps before this bucket
				d.add(h, L, p);
				ghost.push_back(Ghost{ h, L, p });
				s.op(fmt("b4 add %s %u %s", u64s(h).c_str(), L, u64s(p).c_str())); s.res(d.state());
				hist += fmt("add(%s,%u,%s) ", u64s(h).c_str(), L, u64s(p).c_str());
				c.stats.count("p4.hist_add");
			} else {
				size_t index = (size_t)rng.below(cnt);
				d.rem(index);
				ghost[index] = ghost.back(); ghost.pop_back();
				s.op(fmt("b4 rem %zu", index)); s.res(d.state());
				hist += fmt("rem(%zu) ", index);
				c.stats.count("p4.hist_rem");
			}
			c.stats.evaluations++;
			// property level: the bucket holds the elements the ghost says, in the same positions
			if (d.count() != ghost.size()) c.fail("C12 %s: count %zu != %zu after [%s]", cfg, d.count(), ghost.size(), hist.c_str());
			for (size_t i = 0; i < ghost.size() && i < d.count(); ++i)
				if (d.itemHash(i) != ghost[i].h) c.fail("C12 %s: element at position %zu is not the expected one after [%s]", cfg, i, hist.c_str());
			// GetHashCodePart of every element for some new sizes
			for (size_t i = 0; i < ghost.size(); ++i) {
				unsigned q8 = 8 * ((L + 6) / 8) + 1;
				unsigned cand[3] = { (unsigned)rng.range(L, std::min(maxLog, std::max(L, q8))), (unsigned)rng.range(L, maxLog), std::min(maxLog, q8 + 1) };
				for (unsigned L2 : cand) {
					if (L2 < L) continue;
					bool full; uint64_t code = d.part(i, B, L, L2, full);
					s.op(fmt("b4 part %zu %s %u %u", i, u64s(B).c_str(), L, L2));
					s.res(full ? "F" : u64s(code));
					if (!full) {
						checkCodeP4<Drv>(c, cfg, ghost[i], i, L2, code, rng, fmt("bucket=%s ", u64s(B).c_str()) + hist);
						c.stats.count("p4.hist_reconstruct");
						if (st > 0) c.stats.nontrivial(fmt("p4h %s r=%u st=%u i=%zu", cfg, r, st, i));
					} else c.stats.count("p4.hist_full_getter");
					c.stats.evaluations++;
				}
			}
		}
		if (r < 2) c.stats.sample(fmt("%s L=%u bucket=%s: %s", cfg, L, u64s(B).c_str(), hist.substr(0, 300).c_str()));
	}
}

// ======================================================================================== Open2N2

template<size_t tMaxCount>
struct O2Drv {
	typedef momo::internal::BucketOpen2N2<BIT<Item8, MM64>, tMaxCount, true> Bucket;
	static const size_t maxCount = tMaxCount;
	MM64 mm; typename Bucket::Params params; Bucket b;
	O2Drv() : params(mm) {}
	~O2Drv() { b.Clear(params); }
	size_t count() { return b.pvGetCount(); }
	void add(uint64_t h, unsigned L, uint64_t p) {
		b.AddCrt(params, [h] (Item8* it) { ::new(static_cast<void*>(it)) Item8(); it->h = h; }, (size_t)h, (size_t)L, (size_t)p);
	}
	Item8* slotPtr(size_t slot) { return &b.mItems + slot; }
	void rem(size_t slot) {
		typename Bucket::Iterator it(slotPtr(slot) + 1);
		b.Remove(params, it, [] (Item8& src, Item8& dst) { if (&src != &dst) dst = src; });
	}
	uint64_t itemHash(size_t slot) { return slotPtr(slot)->h; }
	uint64_t part(size_t slot, uint64_t bucketIndex, unsigned L, unsigned L2, bool& full) {
		typename Bucket::Iterator it(slotPtr(slot) + 1);
		bool called = false;
		size_t c = b.GetHashCodePart([&called] () { called = true; return (size_t)FULL; }, it, (size_t)bucketIndex, (size_t)L, (size_t)L2);
		full = called;
		return (uint64_t)c;
	}
	unsigned sh(size_t slot) { return b.mHashData.shortHashes[slot]; }
	unsigned hp(size_t slot) { return b.mHashData.hashProbes[slot]; }
	std::string state() {
		std::string s = fmt("c=%zu f=%d |", b.pvGetCount(), (int)b.IsFull());
		for (size_t j = 0; j < maxCount; ++j) s += fmt(" %u", sh(j));
		s += " |";
		for (size_t j = 0; j < maxCount; ++j) s += (j >= maxCount - count()) ? fmt(" %u", hp(j)) : std::string(" -");
		return s;
	}
	// everything AddCrt wrote for the newest element
	std::string newest() { size_t slot = maxCount - count(); return fmt("%u %u", sh(slot), hp(slot)); }
};

static uint64_t tri(uint64_t p) { return p * (p + 1) / 2; }

template<typename Drv>
static void checkCodeO2(Ctx& c, const char* cfgName, const Ghost& g, size_t slot, unsigned L2, uint64_t code, Rng& rng, const std::string& history = std::string())
{
	std::string cfgs = history.empty() ? std::string(cfgName) : (std::string(cfgName) + " after history [" + history + "]");
	const char* cfg = cfgs.c_str();
	uint64_t mask = (1ull << L2) - 1;
	if ((code & mask) != (g.h & mask))
		c.fail("C12 reconstruct %s: start bucket differs: h=%llu L=%u p=%llu slot=%zu L'=%u code=%llu (code&mask=%llu, h&mask=%llu)", cfg,
			(unsigned long long)g.h, g.L, (unsigned long long)g.p, slot, L2, (unsigned long long)code, (unsigned long long)(code & mask), (unsigned long long)(g.h & mask));
	unsigned s2 = (unsigned)Drv::Bucket::pvGetProbeShift(L2);
	uint64_t ps[3] = { 0, rng.below(1ull << s2), (1ull << s2) - 1 };
	for (uint64_t p2 : ps) {
		Drv a, b;
		a.add(code, L2, p2); b.add(g.h, L2, p2);
		bool same = (s2 == 0) ? (a.sh(Drv::maxCount - 1) == b.sh(Drv::maxCount - 1)) : (a.newest() == b.newest());
		// at the first size of a group (probe shift 0) the hash-probe byte is never read by a later growth: only the short hash counts
		if (!same)
			c.fail("C12 reconstruct %s: AddCrt in the grown table writes different metadata: h=%llu L=%u p=%llu slot=%zu L'=%u p'=%llu code=%llu: [%s] vs full rehash [%s]",
				cfg, (unsigned long long)g.h, g.L, (unsigned long long)g.p, slot, L2, (unsigned long long)p2, (unsigned long long)code, a.newest().c_str(), b.newest().c_str());
		if (s2 == 0 && a.newest() != b.newest()) {
			c.stats.count("o2.first_size_byte_differs");
			// that byte must never be consumed: every later size calls the full getter
			for (unsigned L3 = L2 + 1; L3 <= maxLog; ++L3) {
				bool full; a.part(Drv::maxCount - 1, code & mask, L2, L3, full);
				if (!full) c.fail("C12 %s: byte written from a partial code at L=%u (probe shift 0) is consumed at L'=%u (h=%llu code=%llu)", cfg, L2, L3,
					(unsigned long long)g.h, (unsigned long long)code);
			}
		}
	}
	c.stats.count("o2.reconstructed_codes_checked");
}

template<typename Drv>
static void fnO2(Ctx& c, Rng& rng, Suite& s, const char* cfg, unsigned L, uint64_t p, uint64_t h, size_t fill)
{
	Drv d;
	uint64_t mask = (1ull << L) - 1;
	uint64_t B = (h + tri(p)) & mask;	// quadratic probing: bucket reached after p steps
	for (size_t i = 0; i < fill; ++i) d.add(rng.next(), L, 0);
	d.add(h, L, p);
	size_t slot = Drv::maxCount - d.count();
	unsigned byte = d.hp(slot), sh = d.sh(slot);
	s.op(fmt("o2enc %s %u %s", u64s(h).c_str(), L, u64s(p).c_str())); s.res(fmt("%u %u", byte, sh));
	unsigned sft = (unsigned)Drv::Bucket::pvGetProbeShift(L);
	// the source asserts probeShift > 0 when the byte is consumed; growth always enlarges, and L' = L is only legal to ask when probeShift > 0
	unsigned Lmin = (sft == 0) ? L + 1 : L;
	if (Lmin > maxLog) return;
	uint64_t fullMask = 0, dec = 0; bool any = false;
	for (unsigned L2 = Lmin; L2 <= maxLog; ++L2) {
		bool full; uint64_t code = d.part(slot, B, L, L2, full);
		if (full) fullMask |= 1ull << (L2 - Lmin);
		else {
			if (any && code != dec) c.fail("C12 %s: reconstructed code depends on L': h=%s L=%u p=%s", cfg, u64s(h).c_str(), L, u64s(p).c_str());
			any = true; dec = code;
			checkCodeO2<Drv>(c, cfg, Ghost{ h, L, p }, slot, L2, code, rng);
			c.stats.count(p == 0 ? "o2.reconstruct_p0" : "o2.reconstruct_displaced");
		}
		c.stats.evaluations++;
	}
	s.op(fmt("o2part %u %u %s %u %u %u", byte, sh, u64s(B).c_str(), L, Lmin, maxLog));
	s.res(fmt("%s %s", u64s(fullMask).c_str(), any ? u64s(dec).c_str() : "-"));
	if (any) c.stats.nontrivial(fmt("o2 %s L=%u p=%llu fill=%zu", cfg, L, (unsigned long long)p, fill));
}

template<typename Drv>
static void sweepO2(Ctx& c, Rng& rng, Suite& s, const char* cfg, unsigned randomHashes)
{
	s.comment(fmt("sweep %s maxCount=%zu", cfg, Drv::maxCount));
	for (unsigned L = 0; L <= maxLog; ++L) {
		unsigned sft = (unsigned)Drv::Bucket::pvGetProbeShift(L);
		uint64_t plim = std::min<uint64_t>(1ull << sft, 1ull << L);
		std::vector<uint64_t> ps;
		for (uint64_t p = 0; p < plim; ++p) ps.push_back(p);
		if ((1ull << sft) < (1ull << L)) { ps.push_back(1ull << sft); ps.push_back((1ull << sft) + rng.below(1000)); }
		std::vector<uint64_t> hs = hashPatterns(rng, L, randomHashes);
		size_t k = 0;
		for (uint64_t p : ps)
			for (size_t j = 0; j < hs.size(); ++j) {
				bool take = (p < 2) || (p + 1 == plim) || ((j + p) % 7 == 0) || (j >= hs.size() - randomHashes && (j + p) % 3 == 0);
				if (!take) continue;
				fnO2<Drv>(c, rng, s, cfg, L, p, hs[j], (k++) % Drv::maxCount);
			}
	}
}

template<typename Drv>
static void historiesO2(Ctx& c, Rng& rng, Suite& s, const char* cfg, unsigned rounds)
{
	for (unsigned r = 0; r < rounds; ++r) {
		Drv d;
		std::map<size_t, Ghost> ghost;	// by slot
		unsigned L = (unsigned)rng.range(0, maxLog);
		if (rng.chance(1, 3)) L = (unsigned)rng.range(2, 12);
		unsigned sft = (unsigned)Drv::Bucket::pvGetProbeShift(L);
		uint64_t mask = (1ull << L) - 1;
		uint64_t B = rng.next() & mask;
		s.op(fmt("b2 new %zu", Drv::maxCount)); s.res(d.state());
		std::string hist;
		unsigned steps = (unsigned)rng.range(4, 30);
		for (unsigned st = 0; st < steps; ++st) {
			size_t cnt = d.count();
			bool doAdd = cnt == 0 || (cnt < Drv::maxCount && rng.chance(3, 5));
			if (doAdd) {
				uint64_t plim = std::min<uint64_t>(1ull << sft, 1ull << L);
				uint64_t p = rng.chance(1, 8) ? std::min<uint64_t>((1ull << sft) + rng.below(3), mask) : rng.below(plim);
				uint64_t h = (rng.chance(1, 6) ? rng.biased(64) : rng.next());
				h = (h & ~mask) | ((B - tri(p)) & mask);
				d.add(h, L, p);
				ghost[Drv::maxCount - d.count()] = Ghost{ h, L, p };
				s.op(fmt("b2 add %s %u %s", u64s(h).c_str(), L, u64s(p).c_str())); s.res(d.state());
				hist += fmt("add(%s,%u,%s) ", u64s(h).c_str(), L, u64s(p).c_str());
				c.stats.count("o2.hist_add");
			} else {
				size_t newest = Drv::maxCount - cnt;
				size_t slot = newest + (size_t)rng.below(cnt);
				d.rem(slot);
				ghost[slot] = ghost[newest]; ghost.erase(newest);
				s.op(fmt("b2 rem %zu", slot)); s.res(d.state());
				hist += fmt("rem(%zu) ", slot);
				c.stats.count("o2.hist_rem");
			}
			c.stats.evaluations++;
			if (d.count() != ghost.size()) c.fail("C12 %s: count %zu != %zu after [%s]", cfg, d.count(), ghost.size(), hist.c_str());
			for (auto& kv : ghost) {
				size_t slot = kv.first;
				if (slot < Drv::maxCount - d.count()) { c.fail("C12 %s: ghost slot %zu is free after [%s]", cfg, slot, hist.c_str()); continue; }
				if (d.itemHash(slot) != kv.second.h) c.fail("C12 %s: element in slot %zu is not the expected one after [%s]", cfg, slot, hist.c_str());
				unsigned q8 = 8 * ((L + 6) / 8) + 1;
				unsigned lo = (sft == 0) ? L + 1 : L;
				if (lo > maxLog) continue;
				unsigned cand[3] = { (unsigned)rng.range(lo, std::min(maxLog, std::max(lo, q8))), (unsigned)rng.range(lo, maxLog), std::min(maxLog, std::max(lo, q8 + 1)) };
				for (unsigned L2 : cand) {
					bool full; uint64_t code = d.part(slot, B, L, L2, full);
					s.op(fmt("b2 part %zu %s %u %u", slot, u64s(B).c_str(), L, L2));
					s.res(full ? "F" : u64s(code));
					if (!full) {
						checkCodeO2<Drv>(c, cfg, kv.second, slot, L2, code, rng, fmt("bucket=%s ", u64s(B).c_str()) + hist);
						c.stats.count("o2.hist_reconstruct");
						if (st > 0) c.stats.nontrivial(fmt("o2h %s r=%u st=%u slot=%zu", cfg, r, st, slot));
					} else c.stats.count("o2.hist_full_getter");
					c.stats.evaluations++;
				}
			}
		}
		if (r < 2) c.stats.sample(fmt("%s L=%u bucket=%s: %s", cfg, L, u64s(B).c_str(), hist.substr(0, 300).c_str()));
	}
}

// ======================================================================================== One

template<typename Item, size_t minStateSize>
static void oneSuite(Ctx& c, Rng& rng, Suite& s, const char* cfg, unsigned randomHashes)
{
	typedef momo::internal::BucketOne<BIT<Item, MM64>, minStateSize> Bucket;
	const size_t stateSize = sizeof(typename Bucket::HashState);
	s.comment(fmt("one %s stateSize=%zu", cfg, stateSize));
	std::vector<uint64_t> hs = hashPatterns(rng, 30, randomHashes);
	for (unsigned b = 0; b < 64; ++b) hs.push_back(1ull << b);
	for (uint64_t h : hs) {
		MM64 mm; typename Bucket::Params params(mm); Bucket bk;
		unsigned L = (unsigned)rng.range(0, maxLog), p = 0;
		bk.AddCrt(params, [] (Item* it) { ::new(static_cast<void*>(it)) Item(); }, (size_t)h, (size_t)L, (size_t)p);
		uint64_t state = (uint64_t)bk.mHashState;
		s.op(fmt("one state %zu %s", stateSize, u64s(h).c_str())); s.res(u64s(state));
		bool called = false;
		unsigned L2 = (unsigned)rng.range(L, maxLog);
		uint64_t code = (uint64_t)bk.GetHashCodePart([&called] () { called = true; return (size_t)FULL; }, bk.GetBounds(params).GetBegin(), 0, (size_t)L, (size_t)L2);
		s.op(fmt("one part %zu %s", stateSize, u64s(state).c_str())); s.res(called ? "F" : u64s(code));
		if (!called) {
			for (unsigned L3 = 0; L3 <= maxLog; ++L3) {
				uint64_t mask = (1ull << L3) - 1;
				if ((code & mask) != (h & mask)) c.fail("C12 reconstruct One %s: start bucket differs: h=%s L'=%u code=%s", cfg, u64s(h).c_str(), L3, u64s(code).c_str());
			}
			MM64 mm2; typename Bucket::Params params2(mm2); Bucket bk2;
			bk2.AddCrt(params2, [] (Item* it) { ::new(static_cast<void*>(it)) Item(); }, (size_t)code, (size_t)L2, 0);
			if (bk2.mHashState != bk.mHashState) c.fail("C12 reconstruct One %s: hash state differs after re-insertion: h=%s code=%s", cfg, u64s(h).c_str(), u64s(code).c_str());
			bk2.Remove(params2, bk2.GetBounds(params2).GetBegin(), [] (Item&, Item&) {});
			c.stats.count("one.reconstructed");
			c.stats.nontrivial(fmt("one %s %s", cfg, u64s(h).c_str()));
		} else c.stats.count("one.full_getter");
		bk.Remove(params, bk.GetBounds(params).GetBegin(), [] (Item&, Item&) {});
		c.stats.evaluations++;
	}
}

int main(int argc, char** argv)
{
	Ctx c = parseArgs(argc, argv);
	Rng rng(c.seed * 0x1000 + 12);
	unsigned rh = c.thorough ? 24 : 6;
	bool have32 = g_arena.ok();
	c.stats.count("cfg.arena32_available", have32 ? 1 : 0);
	// which metadata widths this build really exercises (labels of the suites say what was intended)
	c.stats.count(fmt("cfg.hash_count_of_MM64_%zu", (size_t)P4Drv<Item8, MM64, 4>::hc));
	c.stats.count(fmt("cfg.hash_count_of_MM48_%zu", (size_t)P4Drv<Item8, MM48, 4>::hc));
	c.stats.count(fmt("cfg.hash_count_of_MM32_%zu", (size_t)P4Drv<Item8, MM32, 4>::hc));
#if defined(MOMO_MEM_MANAGER_PTR_USEFUL_BIT_COUNT) && MOMO_MEM_MANAGER_PTR_USEFUL_BIT_COUNT <= 32
	if (!have32) { c.fail("harness: no MAP_32BIT arena in a 32-bit-pointer build"); return c.finish(); }
#endif
	{
		Suite s(c, "fn", "model hashmeta");
		sweepP4<P4Drv<Item8, MM64, 4>>(c, rng, s, "LimP4<4>/hc4", rh);
		sweepP4<P4Drv<Item8, MM48, 4>>(c, rng, s, "LimP4<4>/hc6", rh);
		if (have32) sweepP4<P4Drv<Item8, MM32, 4>>(c, rng, s, "LimP4<4>/hc8", rh);
		sweepP4<P4Drv<Item16, MM64, 2>>(c, rng, s, "LimP4<2>/hc4/item16", c.thorough ? rh : 1);
		sweepP4<P4Drv<Item8, MM48, 1>>(c, rng, s, "LimP4<1>/hc6", c.thorough ? rh : 1);
		sweepP4<P4Drv<Item16, MM48, 3>>(c, rng, s, "LimP4<3>/hc6/item16", c.thorough ? rh : 1);
		sweepO2<O2Drv<3>>(c, rng, s, "Open2N2<3>", rh);
		sweepO2<O2Drv<2>>(c, rng, s, "Open2N2<2>", c.thorough ? rh : 1);
		sweepO2<O2Drv<1>>(c, rng, s, "Open2N2<1>", c.thorough ? rh : 1);
		unsigned oh = c.thorough ? 4000 : 400;
		oneSuite<uint64_t, 1>(c, rng, s, "One<1>/u64", oh);
		oneSuite<uint8_t, 8>(c, rng, s, "One<8>/u8", oh);
		oneSuite<uint32_t, 1>(c, rng, s, "One<1>/u32", oh);
		oneSuite<uint16_t, 1>(c, rng, s, "One<1>/u16", oh);
		oneSuite<uint8_t, 1>(c, rng, s, "One<1>/u8", oh);
		oneSuite<uint8_t, 4>(c, rng, s, "One<4>/u8", oh);
	}
	{
		Suite s(c, "bkt", "model hashmeta");
		unsigned r = c.thorough ? 4000 : 400;
		historiesP4<P4Drv<Item8, MM64, 4>>(c, rng, s, "LimP4<4>/hc4", r);
		historiesP4<P4Drv<Item8, MM64, 3>>(c, rng, s, "LimP4<3>/hc4", r);
		historiesP4<P4Drv<Item16, MM64, 2>>(c, rng, s, "LimP4<2>/hc4/item16", r);
		historiesP4<P4Drv<Item8, MM64, 1>>(c, rng, s, "LimP4<1>/hc4", r / 3);
		historiesP4<P4Drv<Item8, MM48, 4>>(c, rng, s, "LimP4<4>/hc6", r);
		historiesP4<P4Drv<Item16, MM48, 4>>(c, rng, s, "LimP4<4>/hc6/item16", r);
		historiesP4<P4Drv<Item16, MM48, 3>>(c, rng, s, "LimP4<3>/hc6/item16", r);
		historiesP4<P4Drv<Item8, MM48, 2>>(c, rng, s, "LimP4<2>/hc6", r);
		if (have32) {
			historiesP4<P4Drv<Item8, MM32, 4>>(c, rng, s, "LimP4<4>/hc8", r);
			historiesP4<P4Drv<Item16, MM32, 3>>(c, rng, s, "LimP4<3>/hc8/item16", r);
		}
		historiesO2<O2Drv<3>>(c, rng, s, "Open2N2<3>", r);
		historiesO2<O2Drv<2>>(c, rng, s, "Open2N2<2>", r);
		historiesO2<O2Drv<1>>(c, rng, s, "Open2N2<1>", r / 3);
	}
	return c.finish();
}
