// C04 / C10 correspondence harness for the fault-parametric SegmentedArray model (lean/Momo/Model/ArrSegFault.lean,
// engine `segfault`).  Same scheme as c04_arrfault.cpp: random histories on the real momo::SegmentedArray<Item, MemManager,
// ItemTraits, Settings> (constant and sqrt segment sizing) in which an operation runs with its k-th fallible step failing -
// one counter over the memory manager (segment allocations, Allocate / Reallocate of the segment-pointer array) and the
// element type (copy construction, copy-only "move" construction, assignment).  The model predicts the complete resulting
// state: threw / ok, count, capacity, number of segments, capacity of the pointer array, every cell (`~` = moved-from),
// every memory-manager call incl. the refused one, live element objects, outstanding blocks.
//   property level: C04 - AddBack / AddBackVar / SetCount / Reserve / copy constructor that threw left count and items
//   unchanged, no element object and no block more or less; Shrink never throws; C10 - Insert* / Remove* that threw left
//   count <= capacity, every slot below count a live or moved-from object, live objects == sum of counts, outstanding
//   blocks == segments and pointer-array blocks the containers own.
//   Objects are also created by CreateCap / CreateCrt (model ops newcap / crt), every round starts with a sweep of CreateCrt over
//   all its fault positions.
#include "momo/SegmentedArray.h"
#include "c04_arrfault.h"

#ifndef SF_PART
# define SF_PART 0
#endif

using namespace vf;

namespace af {

template<typename TC>
class SegRunner
{
	typedef TC C;
	typedef typename C::Item T;
	typedef typename C::MemManager MMT;
	typedef typename C::Settings S;
	typedef Kind<T> K;
	typedef momo::internal::MemManagerProxy<MMT> Proxy;
	static const int slotCount = 3;
	static const bool hasInplace = Proxy::canReallocateInplace;

	Ctx& c; Rng& rng; Suite& s; std::string cfgName;
	std::unique_ptr<C> obj[slotCount];
	uint32_t nextId = 1;
	std::deque<std::string> history;
	std::map<std::string, long> maxPoints;
	bool broken = false;
	long ext = 0;

public:
	SegRunner(Ctx& c_, Rng& rng_, Suite& s_, const std::string& name) : c(c_), rng(rng_), s(s_), cfgName(name) {}

	static std::string header() {
		return fmt("model segfault sqrt=%d L=%zu keeps=%d realloc=%d inplace=%d isz=%zu tc=%d tm=%d ta=%d lo=%d",
			(int)(S::itemCountFunc == momo::SegmentedArrayItemCountFunc::sqrt), (size_t)S::logInitialItemCount, (int)K::keeps,
			(int)Proxy::canReallocate, (int)Proxy::canReallocateInplace, sizeof(T), (int)K::tc, (int)K::tm, (int)K::ta, (int)K::lo);
	}

	void run(const Budget& b)
	{
		for (unsigned r = 0; r < b.rounds && !broken; ++r) {
			s.comment(fmt("%s round %u", cfgName.c_str(), r));
			history.clear();
			plain("new 0", [&] { obj[0].reset(new C()); }, 0);
			// CreateCrt with every fault position: growth of the pointer array, each segment, each creator call, none (slot 2 is free
			// at the start of a round)
			for (long k = 0; k <= 40 && !broken; ++k) {
				createCrt(2, k);
				if (!obj[2]) continue;
				destroy(2);
				break;
			}
			unsigned lim = (r % 3 == 2) ? b.maxSize : std::min<unsigned>(b.maxSize, 12);
			for (unsigned k = 0; k < b.opsPerRound && !broken; ++k) oneOp(lim);
			for (int o = 0; o < slotCount; ++o) if (obj[o]) destroy(o);
			if (!mw().live.empty()) fail("C04 leak", fmt("%zu blocks outstanding after destroying every container", mw().live.size()));
			if (K::lo && liveObjs() != 0) fail("C04 leak", fmt("%ld element objects alive after destroying every container", liveObjs()));
			mw().live.clear(); liveObjs() = 0;
		}
	}

private:
	uint32_t fresh() { return nextId++; }
	void note(const std::string& line) { history.push_back(line); if (history.size() > 16) history.pop_front(); }
	void fail(const std::string& what, const std::string& detail) {
		std::string h;
		for (auto& l : history) { h += l; h += "; "; }
		c.fail("%s: %s seed=%llu config=[%s] history(last %zu ops)=[%s]", what.c_str(), detail.c_str(), (unsigned long long)c.seed, cfgName.c_str(), history.size(), h.c_str());
		broken = true;
	}
	std::string cells(const C& a) { std::string r; for (size_t i = 0; i < a.GetCount(); ++i) { if (i) r += ' '; r += show(a[i]); } return r; }
	std::string state(int o) {
		if (!obj[o]) return "-";
		const C& a = *obj[o];
		return fmt("%zu %zu %zu %zu|", a.GetCount(), a.GetCapacity(), a.mSegments.GetCount(), a.mSegments.GetCapacity()) + cells(a);
	}
	std::string blocks() {
		std::vector<size_t> v; for (auto& kv : mw().live) v.push_back(kv.second.first);
		std::sort(v.begin(), v.end());
		std::string r; for (size_t i = 0; i < v.size(); ++i) { if (i) r += ' '; r += std::to_string(v[i]); }
		return r;
	}
	std::string ledger() {
		return (K::lo ? std::to_string(liveObjs() - ext) : std::string("-")) + " " + blocks() + (mw().badDealloc ? " !" : "");
	}
	std::string events() { std::string r; for (size_t i = 0; i < mw().ev.size(); ++i) { if (i) r += ' '; r += mw().ev[i]; } return r; }
	long ownedObjs() { long n = 0; for (int o = 0; o < slotCount; ++o) if (obj[o]) n += (long)obj[o]->GetCount(); return n; }
	std::string ownedBlocks() {
		std::vector<size_t> v;
		for (int o = 0; o < slotCount; ++o) if (obj[o]) {
			const C& a = *obj[o];
			for (size_t i = 0; i < a.mSegments.GetCount(); ++i) v.push_back(S::GetItemCount(i) * sizeof(T));
			if (a.mSegments.GetCapacity() > 0) v.push_back(a.mSegments.GetCapacity() * sizeof(T*));
		}
		std::sort(v.begin(), v.end());
		std::string r; for (size_t i = 0; i < v.size(); ++i) { if (i) r += ' '; r += std::to_string(v[i]); }
		return r;
	}
	void checkValid(const std::string& line, bool threw) {
		const char* prop = threw ? "C10 basic guarantee" : "C04/C10 validity";
		for (int o = 0; o < slotCount; ++o) if (obj[o]) {
			const C& a = *obj[o];
			if (a.GetCount() > a.GetCapacity()) fail(prop, fmt("slot %d: count %zu exceeds capacity %zu after [%s]", o, a.GetCount(), a.GetCapacity(), line.c_str()));
			for (size_t i = 0; i < a.GetCount(); ++i) {
				uint32_t st = a[i].state;
				if (st != LIVE && st != MOVED) fail(prop, fmt("slot %d: item %zu of %zu is not a constructed object (state %x) after [%s]", o, i, a.GetCount(), st, line.c_str()));
			}
		}
		if (K::lo && liveObjs() - ext != ownedObjs()) fail(threw ? "C10 leak / double destroy" : "C04 leak / double destroy",
			fmt("%ld element objects alive, the containers hold %ld, after [%s]%s", liveObjs() - ext, ownedObjs(), line.c_str(), threw ? " (threw)" : ""));
		if (blocks() != ownedBlocks()) fail(threw ? "C10 leak" : "C04 leak",
			fmt("outstanding blocks [%s], the containers own [%s], after [%s]%s", blocks().c_str(), ownedBlocks().c_str(), line.c_str(), threw ? " (threw)" : ""));
		if (mw().badDealloc) { fail("C04 bad deallocation", fmt("%zu after [%s]", mw().badDealloc, line.c_str())); mw().badDealloc = 0; }
	}

	template<typename F> void plain(const std::string& line, F f, int o) {
		mw().ev.clear(); fp().countdown = -1;
		f();
		note(line); s.op(line);
		s.res("ok " + state(o) + "|" + events() + "|" + ledger());
		c.stats.evaluations++;
	}
	void destroy(int o) {
		mw().ev.clear();
		std::string line = fmt("del %d", o);
		obj[o].reset();
		note(line); s.op(line);
		s.res("ok 0 0 0 0||" + events() + "|" + ledger());
		c.stats.evaluations++;
	}
	std::string pickK(const std::string& name, long& k) {
		long m = 2; auto it = maxPoints.find(name); if (it != maxPoints.end()) m = it->second;
		if (rng.chance(1, 4)) { k = -1; return "-"; }
		k = (long)std::min(rng.below((uint64_t)m + 1), rng.below((uint64_t)m + 2));
		return std::to_string(k);
	}

	// mayThrow = false: the operation is noexcept (Shrink): an exception is a violation
	template<typename F> void faulty(const std::string& name, const std::string& lineNoK, int o, bool strong, bool ctor, F f, const std::string& tail = "", long forceK = -2) {
		long k; std::string ks = pickK(name, k);
		if (forceK >= -1) { k = forceK; ks = k < 0 ? std::string("-") : std::to_string(k); }
		std::string line = lineNoK + " " + ks + tail;
		std::string before = ctor ? std::string() : state(o);
		std::string blocksBefore = blocks(); long liveBefore = liveObjs();
		mw().ev.clear();
		FP& p = fp(); p.points = 0; p.fired = false; p.countdown = k;
		bool threw = false;
		try { f(); }
		catch (const std::bad_alloc&) { threw = true; }
		catch (const ElemFault&) { threw = true; }
		p.countdown = -1;
		long pts = p.points;
		long& mp = maxPoints[name]; if (pts > mp) mp = pts;
		note(line + (threw ? " -> threw" : ""));
		s.op(line);
		s.res(std::string(threw ? "threw " : "ok ") + ((threw && ctor) ? std::string("-") : state(o)) + "|" + events() + "|" + ledger());
		c.stats.evaluations++;
		c.stats.count("op." + name);
		if (threw) {
			c.stats.count(std::string("threw.") + (strong ? "strong." : "basic.") + name);
			c.stats.count(mw().ev.size() && (mw().ev.back()[0] == 'A' || mw().ev.back()[0] == 'R') ? "fault.memory_manager" : "fault.element");
			c.stats.nontrivial(cfgName + "|" + name + "|" + ks + "|" + (before.size() > 0 ? before.substr(0, before.find('|')) : ""));
			if (c.stats.samples.size() < 12 && rng.chance(1, 20)) c.stats.sample(cfgName + ": [" + before + "] " + line + " -> threw, [" + (ctor ? "-" : state(o)) + "] calls [" + events() + "]");
			if (name == "shrinkto") fail("C04 noexcept", fmt("[%s]: Shrink threw", line.c_str()));
			if (strong) {
				std::string after = ctor ? std::string() : state(o);
				// count and items (capacity and the pointer array are not part of the observable contents)
				auto strip = [](const std::string& st) { size_t bar = st.find('|'); size_t sp = st.find(' '); return st.substr(0, sp) + st.substr(bar); };
				if (!ctor && strip(after) != strip(before)) fail("C04 strong guarantee", fmt("[%s] threw and changed the container: before {%s} after {%s}", line.c_str(), before.c_str(), after.c_str()));
				if (K::lo && liveObjs() != liveBefore) fail("C04 strong guarantee / leak", fmt("[%s] threw: %ld element objects alive, %ld before", line.c_str(), liveObjs(), liveBefore));
			}
		}
		else if (k >= 0) c.stats.count("fault_position_beyond_last_step");
		checkValid(line, threw);
		(void)blocksBefore;
	}

	struct Arg { bool alias; size_t j; uint32_t id; std::string tok; };
	Arg pickArg(int o, size_t index) {
		size_t n = obj[o]->GetCount();
		Arg a; a.alias = n > 0 && rng.chance(1, 2); a.j = 0; a.id = 0;
		if (a.alias) {
			switch (rng.below(6)) {
			case 0: a.j = index > 0 ? index - 1 : 0; break;
			case 1: a.j = index; break;
			case 2: a.j = index + 1; break;
			case 3: a.j = 0; break;
			case 4: a.j = n - 1; break;
			default: a.j = (size_t)rng.below(n); break;
			}
			if (a.j >= n) a.j = n - 1;
			a.tok = fmt("e%zu", a.j);
		}
		else { a.id = fresh(); a.tok = fmt("v%u", a.id); }
		return a;
	}
	size_t pickIndex(size_t n) {
		switch (rng.below(5)) { case 0: return 0; case 1: return n; case 2: return n > 0 ? n - 1 : 0; default: return (size_t)rng.below(n + 1); }
	}
	void setOracle(int o) {
		if (!hasInplace) return;
		bool b = rng.chance(1, 2);
		mw().oracle = b;
		plain(fmt("oracle %d %d", o, b ? 1 : 0), [] {}, o);
	}

	void oneOp(unsigned lim)
	{
		int o = (int)rng.below(slotCount);
		if (!obj[o]) { if (rng.chance(1, 2) || !obj[0]) { create(o); return; } o = 0; }
		C& a = *obj[o];
		size_t n = a.GetCount();
		bool mayGrow = n < lim;
		setOracle(o);
		unsigned kind = (unsigned)rng.below(mayGrow ? 24 : 34);
		if (!mayGrow && kind < 16) kind = 16 + kind % 8;
		switch (kind) {
		case 0: case 1: case 2: case 3: case 4: {	// AddBack(const Item&) / AddBack(Item&&) = AddBackVar
			Arg x = pickArg(o, n); bool mv = rng.chance(1, 2);
			std::string line = fmt("emplb %d %c %s", o, mv ? 'm' : 'c', x.tok.c_str());
			if (x.alias) {
				if (mv) faulty("emplb_m", line, o, true, false, [&] { a.AddBack(std::move(a[x.j])); });
				else faulty("emplb_c", line, o, true, false, [&] { a.AddBack(static_cast<const C&>(a)[x.j]); });
			}
			else {
				T v = K::make(x.id); ExtGuard eg(ext);
				if (mv) faulty("emplb_m", line, o, true, false, [&] { a.AddBackVar(std::move(v)); });
				else faulty("emplb_c", line, o, true, false, [&] { a.AddBack(static_cast<const T&>(v)); });
			}
			break; }
		case 5: case 6: case 16: {	// SetCount(count, item)
			size_t cnt = (size_t)rng.below(n + 9); if (kind == 16) cnt = (size_t)rng.below(n + 1);
			Arg x = pickArg(o, n);
			std::string line = fmt("setc %d %zu %s", o, cnt, x.tok.c_str());
			if (x.alias) faulty("setc", line, o, true, false, [&] { a.SetCount(cnt, static_cast<const C&>(a)[x.j]); });
			else { T v = K::make(x.id); ExtGuard eg(ext); faulty("setc", line, o, true, false, [&] { a.SetCount(cnt, v); }); }
			break; }
		case 7: case 17: {	// Reserve
			size_t cap = (size_t)rng.below(n + 20);
			faulty("reserve", fmt("reserve %d %zu", o, cap), o, true, false, [&] { a.Reserve(cap); });
			break; }
		case 8: case 18: case 19: {	// Shrink(capacity) / Shrink(): noexcept
			size_t cap = rng.chance(1, 2) ? n : (size_t)rng.below(n + 6);
			faulty("shrinkto", fmt("shrinkto %d %zu", o, cap), o, true, false, [&] { if (cap == n) a.Shrink(); else a.Shrink(cap); });
			break; }
		case 9: case 10: case 11: {	// InsertVar / Insert(index, const Item&) / Insert(index, Item&&)
			size_t idx = pickIndex(n); Arg x = pickArg(o, idx); bool mv = rng.chance(1, 2);
			std::string line = fmt("empl %d %zu %c %s", o, idx, mv ? 'm' : 'c', x.tok.c_str());
			if (x.alias) {
				if (mv) faulty("empl_m", line, o, false, false, [&] { a.Insert(idx, std::move(a[x.j])); });
				else faulty("empl_c", line, o, false, false, [&] { a.InsertVar(idx, static_cast<const C&>(a)[x.j]); });
			}
			else {
				T v = K::make(x.id); ExtGuard eg(ext);
				if (mv) faulty("empl_m", line, o, false, false, [&] { a.InsertVar(idx, std::move(v)); });
				else faulty("empl_c", line, o, false, false, [&] { a.Insert(idx, static_cast<const T&>(v)); });
			}
			break; }
		case 12: case 13: {	// Insert(index, count, const Item&)
			size_t idx = pickIndex(n); Arg x = pickArg(o, idx);
			size_t cnt = (size_t)rng.below(6);
			std::string line = fmt("insn %d %zu %zu %s", o, idx, cnt, x.tok.c_str());
			if (x.alias) faulty("insn", line, o, false, false, [&] { a.Insert(idx, cnt, static_cast<const C&>(a)[x.j]); });
			else { T v = K::make(x.id); ExtGuard eg(ext); faulty("insn", line, o, false, false, [&] { a.Insert(idx, cnt, v); }); }
			break; }
		case 14: case 15: {	// Insert(index, begin, end), forward iterators over external values
			size_t idx = pickIndex(n); size_t cnt = (size_t)rng.below(6);
			std::vector<T> vals; std::string ids;
			vals.reserve(cnt);
			for (size_t i = 0; i < cnt; ++i) { uint32_t id = fresh(); vals.push_back(K::make(id)); ids += fmt(" %u", id); }
			{
				ext = K::lo ? (long)cnt : 0;
				const T* b = vals.data(); const T* e = vals.data() + vals.size();
				faulty("insr", fmt("insr %d %zu", o, idx), o, false, false, [&] { a.Insert(idx, b, e); }, ids);
				ext = 0;
			}
			break; }
		case 20: case 21: case 22: case 24: case 25: case 26: {	// Remove(index, count)
			size_t idx = pickIndex(n); size_t cnt = (size_t)rng.below(std::min<size_t>(n - idx, 5) + 1);
			if (!mayGrow && rng.chance(1, 2)) cnt = (size_t)rng.below(n - idx + 1);
			faulty("rem", fmt("rem %d %zu %zu", o, idx, cnt), o, false, false, [&] { a.Remove(idx, cnt); });
			break; }
		case 23: case 27: case 28: {	// Remove(filter)
			unsigned m = (unsigned)rng.range(1, 4), rr = (unsigned)rng.below(m);
			auto pr = [m, rr](const T& t) { return t.state == LIVE && t.id % m == rr; };
			faulty("remif", fmt("remif %d %u %u", o, m, rr), o, false, false, [&] { a.Remove(pr); });
			break; }
		case 29: case 30: {	// a[j] = fresh value (repairs moved-from items; no fault)
			if (n == 0) break;
			size_t j = (size_t)rng.below(n); uint32_t id = fresh();
			for (size_t i = 0; i < n; ++i) if (a[i].state == MOVED) { j = i; break; }
			T v = K::make(id); ExtGuard eg(ext);
			plain(fmt("set %d %zu %u", o, j, id), [&] { a[j] = static_cast<const T&>(v); }, o);
			break; }
		default: {
			int q = (o + 1 + (int)rng.below(slotCount - 1)) % slotCount;
			if (!obj[q]) create(q); else if (rng.chance(1, 2)) destroy(q);
			break; }
		}
	}

	void create(int o) {
		int src = -1;
		for (int q = 0; q < slotCount; ++q) if (q != o && obj[q] && rng.chance(1, 2)) src = q;
		if (src >= 0) {	// SegmentedArray(const SegmentedArray&, bool shrink)
			bool shr = rng.chance(1, 2);
			if (hasInplace) { mw().oracle = rng.chance(1, 2); plain(fmt("oracle %d %d", src, mw().oracle ? 1 : 0), [] {}, src); }
			faulty("cctor", fmt("cctor %d %d %d", o, src, shr ? 1 : 0), o, true, true, [&] { if (shr) obj[o].reset(new C(*obj[src])); else obj[o].reset(new C(*obj[src], false)); });
		}
		else if (rng.chance(1, 2)) createCrt(o, -2);
		else plain(fmt("new %d", o), [&] { obj[o].reset(new C()); }, o);
	}
	// CreateCap(capacity) / CreateCrt(count, itemMultiCreator) with the k-th fallible step failing (model ops newcap / crt).
	// Property level: a call that threw left no element object and no block (faulty, `ctor`); CreateCap returned an empty object
	// with at least the capacity asked for; CreateCrt made exactly `count` creator calls, the i-th one for element i, and the
	// elements are what the calls made
	void createCrt(int o, long forceK) {
		if (forceK == -2 && rng.chance(1, 3)) {
			size_t n = (size_t)rng.below(30);
			faulty("newcap", fmt("newcap %d %zu", o, n), o, true, true, [&] { obj[o].reset(new C(C::CreateCap(n))); });
			if (obj[o] && (obj[o]->GetCount() != 0 || obj[o]->GetCapacity() < n)) fail("C05 CreateCap", fmt("count %zu capacity %zu for CreateCap(%zu)", obj[o]->GetCount(), obj[o]->GetCapacity(), n));
			return;
		}
		size_t n = (size_t)rng.below(10);
		std::vector<T> vals; std::string ids;
		vals.reserve(n);
		for (size_t i = 0; i < n; ++i) { uint32_t id = fresh(); vals.push_back(K::make(id)); ids += fmt(" %u", id); }
		std::vector<T*> ptrs; size_t calls = 0;
		auto creator = [&vals, &ptrs, &calls](T* p) { ptrs.push_back(p); size_t i = calls++; ::new(static_cast<void*>(p)) T(static_cast<const T&>(vals.at(i))); };
		ext = K::lo ? (long)n : 0;
		faulty("crt", fmt("crt %d", o), o, true, true, [&] { obj[o].reset(new C(C::CreateCrt(n, creator))); }, ids, forceK);
		ext = 0;
		if (obj[o]) {
			const C& a = *obj[o];
			bool ok = calls == n && a.GetCount() == n;
			for (size_t i = 0; ok && i < n; ++i) ok = a[i].id == vals[i].id && ptrs[i] == &a[i];
			if (!ok) fail("C05 CreateCrt", fmt("%zu creator calls for count %zu, contents {%s}, values [%s]", calls, n, state(o).c_str(), ids.c_str()));
		}
		else if (calls > n) fail("C05 CreateCrt", fmt("%zu creator calls for count %zu", calls, n));
		c.stats.count(obj[o] ? "crt.completed" : (calls > 0 ? "crt.creator_threw" : "crt.allocation_failed"));
	}
};

template<momo::SegmentedArrayItemCountFunc F, size_t L, typename T, typename MMT>
using Seg = momo::SegmentedArray<T, MMT, momo::SegmentedArrayItemTraits<T, MMT>, momo::SegmentedArraySettings<F, L>>;

template<typename C>
static void runSeg(Ctx& c, Rng& rng, const char* name, const Budget& b)
{
	Suite s(c, std::string("segfault_") + name, SegRunner<C>::header());
	SegRunner<C> r(c, rng, s, name);
	r.run(b);
	c.stats.count(std::string("config.") + name);
}

} // namespace af

using namespace af;

typedef MM<false, false> MM00;
typedef MM<true, false> MM10;
typedef MM<true, true> MM11;
static const momo::SegmentedArrayItemCountFunc fCnst = momo::SegmentedArrayItemCountFunc::cnst;
static const momo::SegmentedArrayItemCountFunc fSqrt = momo::SegmentedArrayItemCountFunc::sqrt;

int main(int argc, char** argv)
{
	Ctx c = parseArgs(argc, argv);
	Rng rng(c.seed * 0x1000 + 0x5EF + SF_PART);
	Budget b = c.thorough ? Budget{ 260, 120, 70 } : Budget{ 36, 110, 40 };
#if SF_PART == 0 || SF_PART == 1
	runSeg<Seg<fSqrt, 1, ElM<false>, MM00>>(c, rng, "sqrt1_nm", b);
	runSeg<Seg<fCnst, 2, ElM<true>, MM10>>(c, rng, "cnst2_nm_ta_realloc", b);
#endif
#if SF_PART == 0 || SF_PART == 2
	runSeg<Seg<fCnst, 1, ElC<false>, MM00>>(c, rng, "cnst1_co", b);
	runSeg<Seg<fSqrt, 0, ElC<true>, MM11>>(c, rng, "sqrt0_co_ta_both", b);
#endif
#if SF_PART == 0 || SF_PART == 3
	// "not nothrow-movable but nothrow-swappable" items: for SegmentedArray the category copy-only with throwing assignment
	runSeg<Seg<fSqrt, 1, ElS, MM00>>(c, rng, "sqrt1_sw", b);
	runSeg<Seg<fCnst, 2, ElS, MM10>>(c, rng, "cnst2_sw_realloc", b);
#endif
	return c.finish();
}
