// C13 / C01 correspondence harness, byte level: the REAL bucket classes BucketOpenN1<ItemTraits, 1..7, reverse> and
// BucketOpen8<ItemTraits> of /repo/include are driven through random AddCrt / Remove / Find / Clear / UpdateMaxProbe
// histories with adversarial short hashes; after every step the raw bytes mData[0 .. maxCount], the count, IsFull / WasFull,
// the slot returned by Find and the slots on which Find evaluated the item predicate (in order) are compared with the
// Lean model Momo.OpenB (engine `openbytes`). Built twice: with MOMO_USE_SSE2 (the configuration of this sandbox) and with
// -DOB_SWAR, which compiles the 64-bit SWAR variant of BucketOpen8::Find (`#else` branch of HashBucketOpen8.h).
// Property-level oracle (independent of the model): every item of the bucket is found, under its own hash code and a
// consistent key predicate, in the slot that holds it; a key that is absent is not found; Find never evaluates the
// predicate on a slot that holds no item; the items keep the storage order of the C01 model (AddCrt appends, Remove moves the
// last item into the hole).
#include <cstddef>
#include <cstdint>
#include "momo/UserSettings.h"
#ifdef OB_SWAR
# undef MOMO_USE_SSE2
#endif
#include "momo/HashSet.h"
#include "momo/details/HashBucketOpenN1.h"
#include "momo/details/HashBucketOpen8.h"
#include "common/verif_common.h"

#include <algorithm>
#include <vector>

using namespace vf;

#if defined(OB_SWAR) && defined(MOMO_USE_SSE2)
# error "OB_SWAR build still has MOMO_USE_SSE2"
#endif
#ifdef OB_SWAR
static const char* const kind8 = "swar";
#else
static const char* const kind8 = "sse";
#endif

struct Item { uint64_t h; };
typedef momo::MemManagerDefault MM;
typedef momo::internal::HashSetBucketItemTraits<momo::HashSetItemTraits<Item, MM>> BIT;

static std::string u64s(uint64_t v) { return fmt("%llu", (unsigned long long)v); }

// the specification of the short hash (3 lines of arithmetic, written from the header's comment-free formula)
static unsigned specShort(uint64_t h) { return (unsigned)((((uint32_t)(h >> 40)) * 248u) >> 24); }

// a hash code whose short hash is s (0 <= s < 248)
static uint64_t hashWithShort(unsigned s, Rng& rng)
{
	uint64_t t0 = ((uint64_t)s * (1ull << 24) + 247) / 248;	// smallest 24-bit value with short hash s
	uint64_t t = t0 + rng.below(60000);
	if (((t * 248) >> 24) != s) t = t0;
	return (t << 40) | (rng.next() & ((1ull << 40) - 1));
}

template<typename TBucket, size_t tMaxCount, bool tReverse>
struct Drv {
	typedef TBucket Bucket;
	typedef typename Bucket::Iterator Iterator;
	static const size_t mc = tMaxCount;
	static const bool rev = tReverse;
	MM mm; typename Bucket::Params params; Bucket b;
	std::vector<uint64_t> ghost;	// hash codes of the items in logical (GetBounds) order
	std::vector<size_t> visitedSlots;
	Drv() : params(mm) {}
	~Drv() { b.Clear(params); }

	Item* slotPtr(size_t slot) { return &b.mItems[slot]; }
	size_t slotOf(const Item* p) { return (size_t)(reinterpret_cast<const char*>(p) - reinterpret_cast<const char*>(slotPtr(0))) / sizeof(b.mItems[0]); }
	static size_t phys(size_t i) { return rev ? mc - 1 - i : i; }
	size_t count() { return b.GetBounds(params).GetCount(); }

	void add(uint64_t h) {
		b.AddCrt(params, [h] (Item* it) { ::new(static_cast<void*>(it)) Item(); it->h = h; }, (size_t)h, (size_t)0, (size_t)0);
		ghost.push_back(h);
	}
	void rem(size_t index) {
		Iterator it = b.GetBounds(params).GetBegin();
		it += (ptrdiff_t)index;
		b.Remove(params, it, [] (Item& src, Item& dst) { if (&src != &dst) dst = src; });
		ghost[index] = ghost.back(); ghost.pop_back();
	}
	void clear() { b.Clear(params); ghost.clear(); }
	// Find with the predicate given as a bit mask over the physical slots; returns the slot or -1
	long find(uint64_t h, unsigned predMask) {
		visitedSlots.clear();
		auto pred = [this, predMask] (const Item& item) {
			size_t s = slotOf(&item);
			visitedSlots.push_back(s);
			return ((predMask >> s) & 1u) != 0;
		};
		Iterator it = b.template Find<true>(params, pred, (size_t)h);
		if (it == Iterator()) return -1;
		return (long)slotOf(std::addressof(*it));
	}
	std::string state() {
		std::string s = fmt("c=%zu f=%d w=%d |", b.pvGetCount(), (int)b.IsFull(), (int)b.WasFull());
		for (size_t j = 0; j <= mc; ++j) s += fmt(" %u", (unsigned)b.mData[j]);
		return s;
	}
	std::string visitedStr() {
		std::string s;
		for (size_t v : visitedSlots) s += fmt(" %zu", v);
		return s;
	}
};

template<typename D>
static std::string findLine(D& d, const char* kind, uint64_t h, unsigned predMask, long& res)
{
	res = d.find(h, predMask);
	std::string r = (res < 0) ? std::string("-") : fmt("%ld", res);
	return r + " |" + d.visitedStr();
}

// property-level checks on the current state of the real bucket
template<typename D>
static void checkProperty(Ctx& c, D& d, const char* name, const std::string& hist, Rng& rng)
{
	const size_t n = d.ghost.size();
	if (d.count() != n) c.fail("C13 openbytes %s: count %zu != %zu after [%s]", name, d.count(), n, hist.c_str());
	// storage order of the items = the abstract bucket of the C01 model
	auto it = d.b.GetBounds(d.params).GetBegin();
	for (size_t i = 0; i < n; ++i, ++it)
		if ((*it).h != d.ghost[i]) c.fail("C01 openbytes %s: item at logical index %zu is %llu, expected %llu after [%s]", name, i,
			(unsigned long long)(*it).h, (unsigned long long)d.ghost[i], hist.c_str());
	if (d.b.IsFull() != (n == D::mc)) c.fail("C13 openbytes %s: IsFull=%d with %zu items after [%s]", name, (int)d.b.IsFull(), n, hist.c_str());
	// every present item is found in its own slot under a consistent key predicate (key = hash code here)
	for (size_t i = 0; i < n; ++i) {
		uint64_t h = d.ghost[i];
		unsigned pm = 0; size_t first = n;
		for (size_t k = 0; k < n; ++k) if (d.ghost[k] == h) { pm |= 1u << D::phys(k); }
		(void)first;
		long r = d.find(h, pm);
		if (r < 0 || r >= (long)D::mc || D::phys((size_t)r) >= n || d.ghost[D::phys((size_t)r)] != h)
			c.fail("C13 lookup openbytes %s: present item %llu (logical index %zu) not found (Find -> %ld) after [%s]", name,
				(unsigned long long)h, i, r, hist.c_str());
		for (size_t v : d.visitedSlots)
			if (v >= D::mc || D::phys(v) >= n)
				c.fail("C13 openbytes %s: Find(%llu) evaluated the predicate on slot %zu which holds no item (count %zu) after [%s]", name,
					(unsigned long long)h, v, n, hist.c_str());
		c.stats.evaluations++;
	}
	// an absent key (same short hash as a present item, or the neighbouring one) is not found
	for (int t = 0; t < 3; ++t) {
		unsigned s = (n > 0 && t < 2) ? (specShort(d.ghost[rng.below(n)]) ^ (unsigned)t) : (unsigned)rng.below(248);
		if (s >= 248) s = 247;
		uint64_t h = hashWithShort(s, rng);
		if (std::find(d.ghost.begin(), d.ghost.end(), h) != d.ghost.end()) continue;
		long r = d.find(h, 0);
		if (r >= 0) c.fail("C13 openbytes %s: absent key %llu found in slot %ld after [%s]", name, (unsigned long long)h, r, hist.c_str());
		for (size_t v : d.visitedSlots)
			if (v >= D::mc || D::phys(v) >= n)
				c.fail("C13 openbytes %s: Find(absent %llu) evaluated the predicate on slot %zu which holds no item (count %zu) after [%s]", name,
					(unsigned long long)h, v, n, hist.c_str());
		c.stats.evaluations++;
	}
}

// short-hash families of one round
static uint64_t familyHash(unsigned fam, Rng& rng, unsigned base)
{
	switch (fam) {
	case 0: return hashWithShort(base, rng);									// all bytes equal
	case 1: return hashWithShort(base ^ (unsigned)rng.below(2), rng);			// s and s^1 (neighbouring lanes differ in bit 0: SWAR borrow)
	case 2: return hashWithShort(247 - (unsigned)rng.below(2), rng);			// empty marker - 1, - 2
	case 3: return hashWithShort((unsigned)rng.below(2), rng);					// 0 and 1
	case 4: return hashWithShort((unsigned)rng.below(248), rng);				// any
	case 5: return rng.next();													// random code
	default: { static const unsigned sp[8] = { 0, 1, 127, 128, 129, 246, 247, 2 }; return hashWithShort(sp[rng.below(8)], rng); }
	}
}

template<typename D>
static void runHistories(Ctx& c, Rng& rng, Suite& s, const char* name, const char* kind, unsigned rounds, unsigned steps)
{
	for (unsigned round = 0; round < rounds; ++round) {
		D d;
		std::string hist;
		unsigned fam = round % 7;
		unsigned base = (unsigned)rng.below(248);
		if (round % 5 == 0) base = (round % 2) ? 247 : 0;
		s.comment(fmt("%s round=%u fam=%u base=%u", name, round, fam, base));
		s.op(fmt("new %zu %d", D::mc, (int)D::rev)); s.res(d.state());
		for (unsigned step = 0; step < steps; ++step) {
			size_t n = d.ghost.size();
			unsigned r = (unsigned)rng.below(100);
			std::string opLine;
			if ((r < 45 && n < D::mc) || n == 0) {
				uint64_t h = familyHash(fam, rng, base);
				d.add(h); opLine = "add " + u64s(h);
				s.op(opLine); s.res(d.state());
				c.stats.count(fmt("add.count%zu", n));
				if (n + 1 == D::mc) c.stats.count("add.becomes_full");
			}
			else if (r < 80) {
				size_t index = (size_t)rng.below(n);
				if (rng.chance(1, 4)) index = n - 1;
				if (rng.chance(1, 4)) index = 0;
				d.rem(index); opLine = fmt("rem %zu", index);
				s.op(opLine); s.res(d.state());
				c.stats.count(n == D::mc ? "rem.from_full" : "rem.not_full");
				if (index + 1 == n) c.stats.count("rem.last"); else c.stats.count("rem.inner");
			}
			else if (r < 88) {
				uint64_t p = rng.chance(1, 2) ? rng.below(40) : rng.biased(40);
				d.b.UpdateMaxProbe((size_t)p); opLine = "ump " + u64s(p);
				s.op(opLine); s.res(d.state() + fmt(" | %zu", d.b.GetMaxProbe(20)));
			}
			else if (r < 91) {
				d.clear(); opLine = "clear";
				s.op(opLine); s.res(d.state());
			}
			else opLine = "-";
			hist += (hist.empty() ? "" : "; ") + opLine;
			c.stats.evaluations++;
			// model-level lookups: arbitrary predicate masks, hash codes whose short hash equals / neighbours a stored byte
			n = d.ghost.size();
			for (int q = 0; q < 3; ++q) {
				uint64_t h;
				unsigned pick = (unsigned)rng.below(6);
				if (pick < 2 && n > 0) h = d.ghost[rng.below(n)];
				else if (pick == 2 && n > 0) h = hashWithShort(specShort(d.ghost[rng.below(n)]) ^ 1u, rng);
				else if (pick == 3) h = hashWithShort(247 - (unsigned)rng.below(2), rng);
				else h = familyHash(fam, rng, base);
				unsigned pm = (q == 0) ? 0u : (unsigned)rng.below(1u << D::mc);
				if (q == 2 && n > 0) { pm = 0; for (size_t k = 0; k < n; ++k) if (d.ghost[k] == h) pm |= 1u << D::phys(k); }
				long res;
				std::string line = findLine(d, kind, h, pm, res);
				s.op(fmt("find %s %llu %u", kind, (unsigned long long)h, pm)); s.res(line);
				if (d.visitedSlots.size() > 1) c.stats.count("find.visited_gt1");
				if (res >= 0) c.stats.count("find.hit"); else c.stats.count("find.miss");
				c.stats.evaluations++;
			}
			checkProperty(c, d, name, hist, rng);
			c.stats.nontrivial(fmt("%s|%zu|%s", name, n, d.state().c_str()));
		}
		if (round < 2) c.stats.sample(std::string(name) + ": " + hist.substr(0, 300));
	}
}

// raw words: arbitrary bytes are written into mData (not only reachable states), Find is called with predicates that are
// false everywhere (every candidate is visited) - the candidate set and order of the real Find against the model's
template<typename D>
static void runRaw(Ctx& c, Rng& rng, Suite& s, const char* name, const char* kind, unsigned cases)
{
	D d;
	s.comment(fmt("raw %s", name));
	s.op(fmt("new %zu %d", D::mc, (int)D::rev)); s.res(d.state());
	for (unsigned k = 0; k < cases; ++k) {
		unsigned sh = (unsigned)rng.below(248);
		if (k % 4 == 0) { static const unsigned sp[10] = { 0, 1, 2, 127, 128, 129, 245, 246, 247, 254 }; sh = sp[rng.below(10)]; if (sh >= 248) sh = 247; }
		uint64_t h = hashWithShort(sh, rng);
		uint8_t bytes[8];
		unsigned mode = (unsigned)rng.below(6);
		for (size_t j = 0; j <= D::mc; ++j) {
			unsigned v;
			switch (mode) {
			case 0: v = sh; break;															// every lane equal to the short hash
			case 1: v = (rng.chance(1, 2)) ? sh : (sh ^ 1u); break;							// s / s^1 in every lane (borrow chains)
			case 2: { static const int dl[6] = { 0, 1, -1, 0, 0, 2 }; v = (unsigned)((int)sh + dl[rng.below(6)]) & 255u; break; }
			case 3: v = (unsigned)(rng.chance(1, 3) ? sh : (248 + rng.below(8))); break;		// empty markers / state bytes
			case 4: v = (unsigned)(rng.chance(1, 3) ? sh : (rng.chance(1, 2) ? (sh ^ 1u) : (sh ^ 0x80u))); break;
			default: v = (unsigned)rng.below(256); break;
			}
			bytes[j] = (uint8_t)v;
		}
		if (k % 16 == 1) {	// exactly one lane equal, every lane in turn
			for (size_t j = 0; j <= D::mc; ++j) bytes[j] = (uint8_t)(sh ^ 0x55u);
			bytes[(k / 16) % (D::mc + 1)] = (uint8_t)sh;
		}
		std::string opLine = "raw";
		for (size_t j = 0; j <= D::mc; ++j) { d.b.mData[j] = bytes[j]; opLine += fmt(" %u", (unsigned)bytes[j]); }
		s.op(opLine); s.res(d.state());
		long res;
		std::string line = findLine(d, kind, h, 0, res);
		s.op(fmt("find %s %llu 0", kind, (unsigned long long)h)); s.res(line);
		unsigned pm = (unsigned)rng.below(1u << D::mc);
		line = findLine(d, kind, h, pm, res);
		s.op(fmt("find %s %llu %u", kind, (unsigned long long)h, pm)); s.res(line);
		c.stats.evaluations += 2;
		c.stats.count(fmt("raw.mode%u", mode));
		if (d.visitedSlots.size() > 1) c.stats.count("raw.visited_gt1");
	}
	d.b.Clear(d.params);	// restore a consistent empty bucket before the destructor's assertion
}

template<size_t mc, bool rev>
using DN1 = Drv<momo::internal::BucketOpenN1<BIT, mc, rev>, mc, rev>;
typedef Drv<momo::internal::BucketOpen8<BIT>, 7, false> D8;

int main(int argc, char** argv)
{
	Ctx c = parseArgs(argc, argv);
	Rng rng(c.seed * 0x1000 + 1313);
	const unsigned rounds = c.thorough ? 70 : 14, steps = c.thorough ? 120 : 60;
	const unsigned rawCases = c.thorough ? 40000 : 4000;
	// the short hash itself, against its specification and the model
	{
		Suite s(c, "short", "model openbytes");
		for (unsigned k = 0; k < (c.thorough ? 20000u : 3000u); ++k) {
			uint64_t h = (k < 248) ? hashWithShort(k, rng) : (k % 3 == 0 ? rng.biased(64) : rng.next());
			if (k % 7 == 0) h |= 0xFFFFFFull << 40;
			if (k % 11 == 0) h = (h & ~(0xFFFFFFull << 40)) | (rng.below(3) << 40);
			unsigned sh = (unsigned)momo::internal::BucketOpenN1<BIT, 3, true>::ptCalcShortHash((size_t)h);
			unsigned sh8 = (unsigned)momo::internal::BucketOpen8<BIT>::ptCalcShortHash((size_t)h);
			if (sh != specShort(h) || sh8 != sh || sh >= 248)
				c.fail("C13 openbytes short hash: ptCalcShortHash(%llu) = %u / %u, specification %u", (unsigned long long)h, sh, sh8, specShort(h));
			s.op("short " + u64s(h)); s.res(fmt("%u", sh));
			c.stats.evaluations++;
		}
	}
#ifndef OB_SWAR
	{
		Suite s(c, "hist_n1", "model openbytes");
		runHistories<DN1<1, true>>(c, rng, s, "OpenN1<1,rev>", "n1", rounds, steps);
		runHistories<DN1<1, false>>(c, rng, s, "OpenN1<1,fwd>", "n1", rounds, steps);
		runHistories<DN1<2, true>>(c, rng, s, "OpenN1<2,rev>", "n1", rounds, steps);
		runHistories<DN1<2, false>>(c, rng, s, "OpenN1<2,fwd>", "n1", rounds, steps);
		runHistories<DN1<3, true>>(c, rng, s, "OpenN1<3,rev>", "n1", rounds, steps);
		runHistories<DN1<3, false>>(c, rng, s, "OpenN1<3,fwd>", "n1", rounds, steps);
		runHistories<DN1<4, true>>(c, rng, s, "OpenN1<4,rev>", "n1", rounds, steps);
		runHistories<DN1<4, false>>(c, rng, s, "OpenN1<4,fwd>", "n1", rounds, steps);
		runHistories<DN1<5, true>>(c, rng, s, "OpenN1<5,rev>", "n1", rounds, steps);
		runHistories<DN1<5, false>>(c, rng, s, "OpenN1<5,fwd>", "n1", rounds, steps);
		runHistories<DN1<6, true>>(c, rng, s, "OpenN1<6,rev>", "n1", rounds, steps);
		runHistories<DN1<6, false>>(c, rng, s, "OpenN1<6,fwd>", "n1", rounds, steps);
		runHistories<DN1<7, true>>(c, rng, s, "OpenN1<7,rev>", "n1", rounds, steps);
		runHistories<DN1<7, false>>(c, rng, s, "OpenN1<7,fwd>", "n1", rounds, steps);
	}
	{
		Suite s(c, "raw_n1", "model openbytes");
		runRaw<DN1<3, true>>(c, rng, s, "OpenN1<3,rev>", "n1", rawCases / 4);
		runRaw<DN1<7, false>>(c, rng, s, "OpenN1<7,fwd>", "n1", rawCases / 4);
		runRaw<DN1<7, true>>(c, rng, s, "OpenN1<7,rev>", "n1", rawCases / 4);
	}
#endif
	{
		Suite s(c, std::string("hist_open8_") + kind8, "model openbytes");
		runHistories<D8>(c, rng, s, "Open8", kind8, rounds * 4, steps);
	}
	{
		Suite s(c, std::string("raw_open8_") + kind8, "model openbytes");
		runRaw<D8>(c, rng, s, "Open8", kind8, rawCases);
	}
#ifndef OB_SWAR
	{	// pvCountTrailingZeros15 on its whole domain (the compiled variant: MOMO_CTZ32 or the table)
		Suite s(c, "ctz15", "model openbytes");
		for (unsigned m = 1; m < 128; ++m) {
			size_t r = momo::internal::BucketOpen8<BIT>::pvCountTrailingZeros15((uint32_t)m);
			s.op(fmt("ctz15 %u", m)); s.res(fmt("%zu %zu", r, r));
		}
	}
#endif
	return c.finish();
}
