// C06 correspondence harness, unordered part: momo::stdish::unordered_set / unordered_map /
// unordered_multimap (bucketed and _open variants) against (a) the libstdc++ container (property level:
// every return value, contents as multisets after every call) and (b) the Lean model `stdwrap`
// (model level: erase(first,last) decisions on the real traversal layout, equality, flags).
// Iterators handed to erase are built both ways: by traversal from begin() (movable) and as lookup
// results (find / equal_range, not movable). The oracle of a range erase is the set of elements the real
// iterators enumerate from first to last before the call.
// VF_OPEN=1: the open-addressing variants. VF_ALLOC as in c06_ordered.cpp.
#include "momo/stdish/unordered_set.h"
#include "momo/stdish/unordered_map.h"
#include "momo/stdish/unordered_multimap.h"
#include "c06_common.h"

#include <unordered_set>
#include <unordered_map>

#ifndef VF_ALLOC
#define VF_ALLOC 0
#endif
#ifndef VF_OPEN
#define VF_OPEN 0
#endif

using namespace c06;

template<typename T> struct AllocOf {
#if VF_ALLOC == 0
	typedef std::allocator<T> type;
#elif VF_ALLOC == 1
	typedef SA<T, false, false, false> type;
#else
	typedef SA<T, true, true, true> type;
#endif
};

enum Kind { USET, UMAP, UMMAP };

template<Kind kind> struct El {
	template<typename It> static P get(It it) { if constexpr (kind == USET) return P(it->k, it->v); else return P(it->first, it->second); }
	template<typename Node> static P node(const Node& n) { if constexpr (kind == USET) return P(n.value().k, n.value().v); else return P(n.key(), n.mapped()); }
};

template<typename C, Kind kind>
static std::vector<P> layoutOf(const C& c)
{
	std::vector<P> v;
	for (auto it = c.begin(); it != c.end(); ++it) v.push_back(El<kind>::get(it));
	return v;
}
template<typename C, Kind kind>
static std::vector<P> sortedOf(const C& c) { std::vector<P> v = layoutOf<C, kind>(c); std::sort(v.begin(), v.end()); return v; }

template<typename C, Kind kind>
struct Ops {
	typedef El<kind> E;
	static auto K(int k) { if constexpr (kind == USET) return KV(k, -1); else return k; }
	static bool insertRaw(C& c, int k, int v, unsigned how) {
		size_t before = c.size();
		if constexpr (kind == USET) {
			switch (how) {
			case 0: c.insert(KV(k, v)); break;
			case 1: c.emplace(KV(k, v)); break;
			case 2: { KV x(k, v); c.insert(c.end(), x); break; }
			default: c.emplace_hint(c.begin(), k, v); break;
			}
		} else {
			switch (how) {
			case 0: c.insert(std::pair<int, int>(k, v)); break;
			case 1: c.emplace(k, v); break;
			case 2: c.insert(c.end(), std::pair<int, int>(k, v)); break;
			default: c.emplace_hint(c.begin(), k, v); break;
			}
		}
		return c.size() != before;
	}
	// insert / emplace: the flag the call itself returns, checked against the size change
	static std::string ins(C& c, int k, int v, bool emplace) {
		size_t before = c.size();
		bool flag;
		if constexpr (kind == UMMAP) { auto it = emplace ? c.emplace(k, v) : c.insert(std::pair<int, int>(k, v)); flag = true; if (E::get(it) != P(k, v)) return "returned iterator points elsewhere"; }
		else if constexpr (kind == UMAP) { auto r = emplace ? c.emplace(k, v) : c.insert(std::pair<int, int>(k, v)); flag = r.second; if (r.first->first != k) return "returned iterator points elsewhere"; }
		else { auto r = emplace ? c.emplace(KV(k, v)) : c.insert(KV(k, v)); flag = r.second; if (r.first->k != k) return "returned iterator points elsewhere"; }
		if (flag != (c.size() != before)) return "flag contradicts size";
		return fmt("%d", (int)flag);
	}
	static std::string tryEmplace(C& c, int k, int v, bool hint) {
		if constexpr (kind == UMAP) {
			size_t before = c.size();
			if (hint) { auto it = c.try_emplace(c.begin(), k, v); if (it->first != k) return "returned iterator points elsewhere"; return fmt("%d", (int)(c.size() != before)); }
			auto r = c.try_emplace(k, v);
			if (r.first->first != k || r.second != (c.size() != before)) return "flag contradicts size";
			return fmt("%d", (int)r.second);
		} else return "";
	}
	static std::string ioa(C& c, int k, int v, bool hint) {
		if constexpr (kind == UMAP) {
			size_t before = c.size();
			if (hint) { auto it = c.insert_or_assign(c.end(), k, v); if (it->first != k || it->second != v) return "returned iterator points elsewhere"; return fmt("%d", (int)(c.size() != before)); }
			auto r = c.insert_or_assign(k, v);
			if (r.first->first != k || r.first->second != v || r.second != (c.size() != before)) return "flag contradicts size";
			return fmt("%d", (int)r.second);
		} else return "";
	}
	static std::string idxr(C& c, int k) { if constexpr (kind == UMAP) { int x = c[k]; return fmt("%d", x); } else return ""; }
	static std::string idxw(C& c, int k, int v) { if constexpr (kind == UMAP) { c[k] = v; return "ok"; } else return ""; }
	static std::string atKey(C& c, int k) {
		if constexpr (kind == UMAP) {
			try { int x = c.at(k); const C& cc = c; int y = cc.at(k); return x == y ? fmt("%d", x) : std::string("const/non-const at differ"); }
			catch (const std::out_of_range&) { return "E:out_of_range"; }
		} else return "";
	}
	static std::string find(const C& c, int k) {
		auto it = c.find(K(k));
		if (it == c.end()) return "0";
		if constexpr (kind == UMMAP) return E::get(it).first == k ? "1" : "found another key";
		else return fmt("1 %d", E::get(it).second);
	}
	static std::string cnt(const C& c, int k) { return fmt("%zu", (size_t)c.count(K(k))); }
	static std::string has(const C& c, int k) { return fmt("%d", (int)(c.find(K(k)) != c.end())); }
	// equal_range: for the multimap the range is traversed (values of one key), else only its first element is read
	static std::string eqr(const C& c, int k) {
		auto r = c.equal_range(K(k));
		std::vector<P> v;
		if constexpr (kind == UMMAP) { for (auto it = r.first; it != r.second; ++it) v.push_back(E::get(it)); }
		else { if (r.first != c.end()) v.push_back(E::get(r.first)); }
		std::sort(v.begin(), v.end());
		return seqStr(v);
	}
	static std::string erk(C& c, int k) { return fmt("%zu", (size_t)c.erase(K(k))); }
	static std::string cmp(const C& a, const C& b) { return fmt("%d %d", (int)(a == b), (int)(a != b)); }
};

template<typename C, Kind kind>
static size_t eraseIfStd(C& c, int m, int r)
{
	size_t n = 0;
	for (auto it = c.begin(); it != c.end(); ) {
		if (El<kind>::get(it).first % m == r) { it = c.erase(it); ++n; } else ++it;
	}
	return n;
}
template<typename C, Kind kind>
static size_t eraseIfMomo(C& c, int m, int r)
{
	if constexpr (kind == USET) return erase_if(c, [m, r](const KV& x) { return x.k % m == r; });
	else return erase_if(c, [m, r](typename C::const_reference ref) { return ref.first % m == r; });
}

// remove one identified element from the libstdc++ container
template<typename S, Kind kind>
static bool eraseOneStd(S& s, P p)
{
	auto r = s.equal_range(Ops<S, kind>::K(p.first));
	for (auto it = r.first; it != r.second; ++it)
		if (El<kind>::get(it) == p) { s.erase(it); return true; }
	return false;
}

template<typename M, typename S, Kind kind>
struct URun {
	typedef Ops<M, kind> OM;
	typedef Ops<S, kind> OS;
	typedef typename M::const_iterator MIt;
	Ctx& c; Rng& rng; Run& R;
	URun(Ctx& c_, Rng& r_, Run& R_) : c(c_), rng(r_), R(R_) {}

	static std::string layStr(const std::vector<P>& lay) { std::string r; for (auto& p : lay) r += fmt(" %d:%d", p.first, p.second); return r; }
	static size_t posOf(const std::vector<P>& lay, P p) { for (size_t i = 0; i < lay.size(); ++i) if (lay[i] == p) return i; return lay.size(); }
	static size_t groupStart(const std::vector<P>& lay, size_t p) { while (p > 0 && lay[p - 1].first == lay[p].first) --p; return p; }
	static size_t groupEnd(const std::vector<P>& lay, size_t p) { size_t q = p; while (q < lay.size() && lay[q].first == lay[p].first) ++q; return q; }

	// an iterator at flat position p: by traversal (movable) or as a lookup result (not movable)
	static MIt iterAt(const M& m, const std::vector<P>& lay, size_t p, bool movable) {
		if (p >= lay.size()) return m.end();
		if (movable) return std::next(m.begin(), (ptrdiff_t)p);
		if constexpr (kind == UMMAP) {
			auto r = m.equal_range(lay[p].first);
			// the values of a key are traversed in storage order, which is also the order inside the flat layout
			return std::next(r.first, (ptrdiff_t)(p - groupStart(lay, p)));
		} else return m.find(OM::K(lay[p].first));
	}

	// erase(first,last) on momo with the enumeration oracle, then the same elements leave the std container
	void eraseRange(M& m, S& st, const char* cn, size_t fp, bool fm, size_t lp, bool lm, const char* shape, bool mustBeAccepted) {
		std::vector<P> lay = layoutOf<M, kind>(m);
		size_t n = lay.size();
		MIt first = iterAt(m, lay, fp, fm), last = iterAt(m, lay, lp, lm);
		if (first != m.end() && El<kind>::get(first) != lay[fp]) { c.fail("C06 %s/%s: lookup iterator for position %zu points to another element", R.suite.c_str(), R.kind.c_str(), fp); return; }
		// what [first,last) is, as the iterators enumerate it
		std::vector<size_t> visited; bool reaches = false;
		{
			MIt it = first;
			for (size_t i = 0; i <= n; ++i) {
				if (it == last) { reaches = true; break; }
				if (it == m.end()) break;
				visited.push_back(posOf(lay, El<kind>::get(it)));
				++it;
			}
		}
		std::string res; bool threw = false;
		try { m.erase(first, last); }
		catch (const std::invalid_argument&) { threw = true; res = "E:invalid_argument"; }
		std::vector<P> after = layoutOf<M, kind>(m);
		std::vector<size_t> removed;
		{
			std::vector<P> a = after; std::sort(a.begin(), a.end());
			for (size_t i = 0; i < n; ++i) if (!std::binary_search(a.begin(), a.end(), lay[i])) removed.push_back(i);
			if (after.size() + removed.size() != n) c.fail("C06 %s/%s: erase(first,last) created or duplicated elements", R.suite.c_str(), R.kind.c_str());
		}
		if (!threw) { res = "erased"; for (size_t p : removed) res += fmt(" %zu", p); }
		std::string op = fmt("errange %s %zu %d %zu %d |%s", cn, fp, (int)fm, lp, (int)lm, layStr(lay).c_str());
		// property-level oracle
		std::string what;
		if (threw) {
			if (!removed.empty() || after != lay) what = "threw invalid_argument but changed the container";
			else if (mustBeAccepted) what = "refused a documented legal range";
		} else {
			if (!reaches) what = "accepted a range whose last is not reachable from first";
			else if (removed != visited) what = "removed other elements than [first,last) enumerates";
		}
		if (!what.empty()) {
			std::string vis; for (size_t p : visited) vis += fmt(" %zu", p);
			c.fail("C06 %s/%s erase(first,last) %s: shape=%s first=(pos %zu,%s) last=(pos %zu,%s) enumerates [%s ] answered [%s]; layout:%s; last calls: %s",
				R.suite.c_str(), R.kind.c_str(), what.c_str(), shape, fp, fm ? "traversal" : "lookup", lp, lm ? "traversal" : "lookup", vis.c_str(), res.c_str(),
				layStr(lay).c_str(), R.tail().c_str());
			R.diverged = true;
		}
		for (size_t p : removed) if (!eraseOneStd<S, kind>(st, lay[p])) { c.fail("C06 %s/%s: element %d:%d missing in the libstdc++ container", R.suite.c_str(), R.kind.c_str(), lay[p].first, lay[p].second); R.diverged = true; }
		R.stepModelOnly(op, res);
		c.stats.count(std::string("errange.") + shape + (threw ? ".refused" : ".done"));
		c.stats.count(std::string("errange.first_") + (fm ? "traversal" : "lookup"));
	}

	void erasePos(M& m, S& st, const char* cn, size_t p, bool movable) {
		std::vector<P> lay = layoutOf<M, kind>(m);
		MIt it = iterAt(m, lay, p, movable);
		m.erase(it);
		if (!eraseOneStd<S, kind>(st, lay[p])) { c.fail("C06 %s/%s: element %d:%d missing in the libstdc++ container", R.suite.c_str(), R.kind.c_str(), lay[p].first, lay[p].second); R.diverged = true; }
		std::vector<P> after = sortedOf<M, kind>(m);
		std::vector<P> expect = lay; expect.erase(expect.begin() + (ptrdiff_t)p); std::sort(expect.begin(), expect.end());
		if (after != expect) { c.fail("C06 %s/%s erase(iterator) at position %zu (%s) removed something else; layout:%s", R.suite.c_str(), R.kind.c_str(), p, movable ? "traversal" : "lookup", layStr(lay).c_str()); R.diverged = true; }
		R.stepModelOnly(fmt("erpos %s %zu |%s", cn, p, layStr(lay).c_str()), fmt("erased %zu", p));
	}

	void randomRange(M& m, S& st, const char* cn) {
		std::vector<P> lay = layoutOf<M, kind>(m);
		size_t n = lay.size();
		unsigned shape = (unsigned)rng.below(kind == UMMAP ? 16 : 9);
		if (n == 0) { eraseRange(m, st, cn, 0, rng.chance(1, 2), 0, true, "empty", true); return; }
		size_t p = (size_t)rng.below(n);
		switch (shape) {
		case 0: { size_t q = (size_t)rng.below(n + 1); eraseRange(m, st, cn, q, rng.chance(1, 2), q, rng.chance(1, 2), "empty", true); break; }
		case 1: eraseRange(m, st, cn, p, true, p + 1, true, "single", true); break;
		case 2: {	// erase(it, std::next(it)) with it a lookup result: next is end(), or the next value of the same key
			size_t q = n;
			if (kind == UMMAP && p + 1 < groupEnd(lay, p)) q = p + 1;
			eraseRange(m, st, cn, p, false, q, true, "single_lookup", true); break;
		}
		case 3: eraseRange(m, st, cn, 0, true, n, true, "whole", true); break;
		case 4: {	// (find(first element), end()): enumerates one element (one key for the multimap)
			eraseRange(m, st, cn, 0, false, n, true, "lookup_begin_to_end", true); break;
		}
		case 5: { size_t q = p + 2 + (size_t)rng.below(4); if (q > n) q = n; eraseRange(m, st, cn, p, true, q, true, "several", false); break; }
		case 6: { size_t q = (size_t)rng.below(n + 1); eraseRange(m, st, cn, p, rng.chance(1, 2), q, true, "random", false); break; }
		case 7: eraseRange(m, st, cn, p, false, n, true, "lookup_to_end", false); break;
		case 8: { size_t q = (size_t)rng.below(p + 1); eraseRange(m, st, cn, p, true, q, true, "backwards", false); break; }
		case 9: { size_t gs = groupStart(lay, p), ge = groupEnd(lay, p); eraseRange(m, st, cn, gs, true, ge, true, "whole_key_traversal", true); break; }
		case 10: { size_t gs = groupStart(lay, p); eraseRange(m, st, cn, gs, false, n, false, "whole_key_equal_range", true); break; }
		default: {	// a range that starts or ends inside a key group
			size_t gs = groupStart(lay, p), ge = groupEnd(lay, p);
			if (ge - gs < 3) { eraseRange(m, st, cn, gs, true, ge, true, "whole_key_traversal", true); break; }
			unsigned v = (unsigned)rng.below(4);
			if (v == 0) eraseRange(m, st, cn, gs + 1, true, ge, true, "partial_key_tail", false);
			else if (v == 1) eraseRange(m, st, cn, gs + 1, false, n, false, "partial_key_tail_lookup", false);
			else if (v == 2) eraseRange(m, st, cn, gs, true, ge - 1, true, "partial_key_head", false);
			else eraseRange(m, st, cn, gs + 1, true, ge - 1, true, "partial_key_middle", ge - gs == 3);
			break;
		}
		}
	}
};

template<typename M, typename S, Kind kind>
static void runUnordered(Ctx& c, Rng& rng, const char* kindName, unsigned runs, unsigned opsPerRun)
{
	typedef Ops<M, kind> OM;
	typedef Ops<S, kind> OS;
	typedef typename M::allocator_type AM;
	typedef typename S::allocator_type AS;
	std::string suite = fmt("uno_%s%s_a%d", kindName, VF_OPEN ? "_open" : "", VF_ALLOC);
	Suite s(c, suite, fmt("model stdwrap kind=%s", kindName));
	for (unsigned run = 0; run < runs; ++run) {
		Run R(c, s, suite, std::string(kindName) + (VF_OPEN ? "_open" : ""));
		URun<M, S, kind> U(c, rng, R);
		unsigned mode = (unsigned)rng.below(5);
		static const int ranges[] = { 5, 16, 90, 600 };
		int range = ranges[rng.below(4)];
		if (kind == UMMAP && rng.chance(1, 2)) range = 3 + (int)rng.below(6);	// long value arrays: ranges inside a key group
		if (mode == 3 && range < 12) range = 16;
		KeyGen kg(rng, mode, range);
		hc().fam = (unsigned)rng.below(8);	// hash family shared by all four containers of the run
		static const size_t targets[] = { 0, 10, 40, 150 };
		size_t target = targets[rng.below(4)];
		s.comment(fmt("run %u keys=%s range=%d hash=%s target=%zu", run, keyModeName(mode), range, hashFamName(hc().fam), target));
		s.op("reset"); s.res("ok");
		M ma(mkAlloc<AM>(1)), mb(mkAlloc<AM>(1));
		S sa(mkAlloc<AS>(1)), sb(mkAlloc<AS>(1));
		int nextTag = 1;
		size_t maxSize = 0, maxBuckets = 0;
		auto check = [&](bool force) {
			size_t n = std::max(ma.size(), mb.size());
			if (!force && n > 48 && R.steps % 8 != 0) return;
			R.contents("a", seqStr(sortedOf<M, kind>(ma)), seqStr(sortedOf<S, kind>(sa)));
			R.contents("b", seqStr(sortedOf<M, kind>(mb)), seqStr(sortedOf<S, kind>(sb)));
			if (ma.size() != sa.size() || ma.empty() != sa.empty()) { c.fail("C06 %s size()/empty() differ", suite.c_str()); R.diverged = true; }
		};
		std::optional<typename S::node_type> ns;
#define NODE_OPS (kind != UMMAP)
		for (unsigned step = 0; step < opsPerRun && !R.diverged; ++step) {
			bool grow = ma.size() < target && rng.chance(2, 3);
			bool onA = grow || rng.chance(3, 4);
			M& m = onA ? ma : mb; S& st = onA ? sa : sb;
			const char* cn = onA ? "a" : "b";
			size_t n = m.size();
			int k = kg.any();
			int v = nextTag++;
			unsigned op = (unsigned)rng.below(100);
			if (grow) op = (unsigned)rng.below(22);
			if (op < 12) { bool e = rng.chance(1, 2); R.step(fmt("%s %s %d %d", e ? "emp" : "ins", cn, k, v), OM::ins(m, k, v, e), OS::ins(st, k, v, e)); }
			else if (op < 18) { unsigned how = 2 + (unsigned)rng.below(2); R.step(fmt("%s %s %d %d", how == 2 ? "insh" : "emph", cn, k, v), fmt("%d", (int)OM::insertRaw(m, k, v, how)), fmt("%d", (int)OS::insertRaw(st, k, v, how))); }
			else if (op < 30 && kind == UMAP) {
				switch (rng.below(9)) {
				case 0: R.step(fmt("try %s %d %d", cn, k, v), OM::tryEmplace(m, k, v, false), OS::tryEmplace(st, k, v, false)); break;
				case 1: R.step(fmt("tryh %s %d %d", cn, k, v), OM::tryEmplace(m, k, v, true), OS::tryEmplace(st, k, v, true)); break;
				case 2: R.step(fmt("ioa %s %d %d", cn, k, v), OM::ioa(m, k, v, false), OS::ioa(st, k, v, false)); break;
				case 3: R.step(fmt("ioah %s %d %d", cn, k, v), OM::ioa(m, k, v, true), OS::ioa(st, k, v, true)); break;
				case 4: R.step(fmt("idxr %s %d", cn, k), OM::idxr(m, k), OS::idxr(st, k)); break;
				case 5: R.step(fmt("idxw %s %d %d", cn, k, v), OM::idxw(m, k, v), OS::idxw(st, k, v)); break;
				default: { std::string a = OM::atKey(m, k); if (a == "E:out_of_range") c.stats.count("at.out_of_range"); R.step(fmt("at %s %d", cn, k), a, OS::atKey(st, k)); break; }
				}
			}
			else if (op < 36) R.step(fmt("find %s %d", cn, k), OM::find(m, k), OS::find(st, k));
			else if (op < 40) R.step(fmt("cnt %s %d", cn, k), OM::cnt(m, k), OS::cnt(st, k));
			else if (op < 42) R.step(fmt("has %s %d", cn, k), OM::has(m, k), OS::has(st, k));
			else if (op < 46) R.step(fmt("eqr %s %d", cn, k), OM::eqr(m, k), OS::eqr(st, k));
			else if (op < 51) R.step(fmt("erk %s %d", cn, k), OM::erk(m, k), OS::erk(st, k));
			else if (op < 56) { if (n == 0) continue; U.erasePos(m, st, cn, (size_t)rng.below(n), rng.chance(1, 2)); }
			else if (op < 74) U.randomRange(m, st, cn);
			else if (op < 86) {
				if constexpr (NODE_OPS) {
					// node handles: momo's handle has no move assignment, so each use is one scoped sequence
					unsigned w = (unsigned)rng.below(4);
					M& o = onA ? mb : ma; S& os = onA ? sb : sa; const char* on = onA ? "b" : "a";
					std::vector<P> lay = layoutOf<M, kind>(o);
					int xk = (!lay.empty() && rng.chance(3, 4)) ? lay[rng.below(lay.size())].first : k;
					auto nhM = o.extract(OM::K(xk)); auto nhS = os.extract(OS::K(xk));
					auto ndStr = [](auto& nh) { if (nh.empty()) return std::string("empty"); P p = El<kind>::node(nh); return fmt("%d %d", p.first, p.second); };
					R.step(fmt("exk %s %d", on, xk), ndStr(nhM), ndStr(nhS));
					if (w == 0) { R.step("dropnode", "ok", "ok"); }
					else if (w < 3) {
						auto rM = m.insert(std::move(nhM)); auto rS = st.insert(std::move(nhS));
						auto ndStr2 = [](auto& nh) { if (nh.empty()) return std::string("empty"); P p = El<kind>::node(nh); return fmt("%d:%d", p.first, p.second); };
						if (!rM.inserted && !rM.node.empty()) c.stats.count("node.refused_kept");
						R.step(fmt("insn %s", cn), fmt("%d %s", (int)rM.inserted, ndStr2(rM.node).c_str()), fmt("%d %s", (int)rS.inserted, ndStr2(rS.node).c_str()));
						R.step("dropnode", "ok", "ok");
					} else {
						size_t b0 = m.size(), s0 = st.size();
						m.insert(m.begin(), std::move(nhM)); st.insert(st.begin(), std::move(nhS));
						auto ndStr2 = [](auto& nh) { if (nh.empty()) return std::string("empty"); P p = El<kind>::node(nh); return fmt("%d:%d", p.first, p.second); };
						R.step(fmt("insnh %s", cn), fmt("%d %s", (int)(m.size() != b0), ndStr2(nhM).c_str()), fmt("%d %s", (int)(st.size() != s0), ndStr2(nhS).c_str()));
						R.step("dropnode", "ok", "ok");
					}
				} else { R.step(fmt("eqr %s %d", cn, k), OM::eqr(m, k), OS::eqr(st, k)); }
			}
			else if (op < 88) { if constexpr (NODE_OPS) { ma.merge(mb); sa.merge(sb); R.step("merge", fmt("%zu %zu", ma.size(), mb.size()), fmt("%zu %zu", sa.size(), sb.size())); } }
			else if (op < 90) { if (rng.chance(1, 2)) { ma.swap(mb); sa.swap(sb); } else { swap(ma, mb); swap(sa, sb); } R.step("swap", "ok", "ok"); }
			else if (op < 92) { ma = mb; sa = sb; R.step("copy", "ok", "ok"); }
			else if (op < 93) { ma = std::move(mb); sa = std::move(sb); recreate(mb, mkAlloc<AM>(1)); recreate(sb, mkAlloc<AS>(1)); R.step("move", "ok", "ok"); }
			else if (op >= 93 && op < 97 && rng.chance(1, 3)) {
				// equal contents reached on two ways: a = b; erase_if(a, pred) keeps the emptied keys of a multimap,
				// erase(key) on b drops them; then a == b must hold
				int mm = 2 + (int)rng.below(3), rr = (int)rng.below((uint64_t)mm);
				ma = mb; sa = sb; R.step("copy", "ok", "ok");
				R.step(fmt("erif a %d %d", mm, rr), fmt("%zu", eraseIfMomo<M, kind>(ma, mm, rr)), fmt("%zu", eraseIfStd<S, kind>(sa, mm, rr)));
				std::vector<int> keys;
				for (auto& p : sortedOf<S, kind>(sb)) if (p.first % mm == rr && (keys.empty() || keys.back() != p.first)) keys.push_back(p.first);
				for (int kk : keys) R.step(fmt("erk b %d", kk), OM::erk(mb, kk), OS::erk(sb, kk));
				std::string a = OM::cmp(ma, mb); c.stats.count(std::string("cmp_after_two_ways.") + a.substr(0, 1));
				R.step("cmp", a, OS::cmp(sa, sb));
			}
			else if (op < 97) { std::string a = OM::cmp(ma, mb); c.stats.count(std::string("cmp.") + a.substr(0, 1)); R.step("cmp", a, OS::cmp(sa, sb)); }
			else if (op < 98) { int mm = 2 + (int)rng.below(4), rr = (int)rng.below((uint64_t)mm); R.step(fmt("erif %s %d %d", cn, mm, rr), fmt("%zu", eraseIfMomo<M, kind>(m, mm, rr)), fmt("%zu", eraseIfStd<S, kind>(st, mm, rr))); }
			else if (op < 99 && rng.chance(1, 3)) { m.clear(); st.clear(); R.step(fmt("clear %s", cn), "ok", "ok"); }
			else { R.step(fmt("dump %s", cn), seqStr(sortedOf<M, kind>(m)), seqStr(sortedOf<S, kind>(st))); }
			check(false);
			maxSize = std::max(maxSize, std::max(ma.size(), mb.size()));
			if constexpr (kind != UMMAP) maxBuckets = std::max(maxBuckets, (size_t)ma.bucket_count());
			if (step % 24 == 23) { R.step("dump a", seqStr(sortedOf<M, kind>(ma)), seqStr(sortedOf<S, kind>(sa))); R.step("dump b", seqStr(sortedOf<M, kind>(mb)), seqStr(sortedOf<S, kind>(sb))); }
			if (allocId(ma.get_allocator()) != allocId(sa.get_allocator()) || allocId(mb.get_allocator()) != allocId(sb.get_allocator())) c.fail("C06 %s allocator changed", suite.c_str());
		}
		if (R.diverged) { s.comment("run abandoned after a disagreement"); continue; }
		check(true);
		R.step("dump a", seqStr(sortedOf<M, kind>(ma)), seqStr(sortedOf<S, kind>(sa)));
		R.step("dump b", seqStr(sortedOf<M, kind>(mb)), seqStr(sortedOf<S, kind>(sb)));
		c.stats.nontrivial(fmt("%s run=%u keys=%s range=%d hash=%s", suite.c_str(), run, keyModeName(mode), range, hashFamName(hc().fam)));
		c.stats.count(fmt("%s.max_size_ge_%d", R.kind.c_str(), maxSize >= 128 ? 128 : (maxSize >= 32 ? 32 : 0)));
		c.stats.count(std::string("hash.") + hashFamName(hc().fam));
		(void)maxBuckets;
		if (run < 2) c.stats.sample(fmt("%s: %s", suite.c_str(), R.tail().substr(0, 300).c_str()));
	}
}

int main(int argc, char** argv)
{
	Ctx c = parseArgs(argc, argv);
	Rng rng(c.seed * 0x1000 + 0x606 + VF_ALLOC * 0x100 + VF_OPEN * 0x10);
	unsigned runs = c.thorough ? 80 : 24, ops = c.thorough ? 700 : 350;
	if (VF_ALLOC != 0) { runs = c.thorough ? 16 : 4; }
	{
		typedef AllocOf<KV>::type A;
#if VF_OPEN
		typedef momo::stdish::unordered_set_open<KV, HashK, EqK, A> M;
#else
		typedef momo::stdish::unordered_set<KV, HashK, EqK, A> M;
#endif
		typedef std::unordered_set<KV, HashK, EqK, A> S;
		runUnordered<M, S, USET>(c, rng, "uset", runs, ops);
	}
	{
		typedef AllocOf<std::pair<const int, int>>::type A;
#if VF_OPEN
		typedef momo::stdish::unordered_map_open<int, int, HashI, std::equal_to<int>, A> M;
#else
		typedef momo::stdish::unordered_map<int, int, HashI, std::equal_to<int>, A> M;
#endif
		typedef std::unordered_map<int, int, HashI, std::equal_to<int>, A> S;
		runUnordered<M, S, UMAP>(c, rng, "umap", runs, ops);
	}
	{
		typedef AllocOf<std::pair<const int, int>>::type A;
#if VF_OPEN
		typedef momo::stdish::unordered_multimap_open<int, int, HashI, std::equal_to<int>, A> M;
#else
		typedef momo::stdish::unordered_multimap<int, int, HashI, std::equal_to<int>, A> M;
#endif
		typedef std::unordered_multimap<int, int, HashI, std::equal_to<int>, A> S;
		runUnordered<M, S, UMMAP>(c, rng, "ummap", runs, ops);
	}
#if VF_ALLOC != 0
	if (!ledger().live.empty()) c.fail("C06 uno alloc=%d: %zu blocks of the stateful allocator still live at the end", VF_ALLOC, ledger().live.size());
	if (ledger().bad) c.fail("C06 uno alloc=%d: %zu bad deallocations, first: %s", VF_ALLOC, ledger().bad, ledger().firstBad.c_str());
	c.stats.count("alloc.ledger_allocations", ledger().allocs);
#endif
	return c.finish();
}
