// C20 correspondence harness, part 1: allocator-level histories for every pool parameter 1..32 blocks per buffer
// (value types of five sizes / alignments sharing pools by rebinding); the dedicated case of the open finding F13.
// See c20_alloc.h for the machinery and the oracles.
#include "c20_world.h"

using namespace c20;

// ------------------------------------------------------------------------------------------------ allocator level
// Random allocate / deallocate histories through allocator objects of several value types that share pools by
// rebinding.  A single object is only requested for a type the pool is parameterised for or when the pool is idle
// (then it is re-parameterised): this is "one single-object type per busy pool", the hypothesis of
// C20_dealloc_provenance_no_raw_single; arrays of every type are allowed at any time.

template<size_t tSize, size_t tAlign> struct alignas(tAlign) Obj { unsigned char b[tSize]; };

// the five value types: Obj<4,4> Obj<24,8> Obj<40,8> Obj<16,16> Obj<3,1>; every configuration uses three of them
template<typename TCfg, typename T0, typename T1, typename T2>
struct Direct {
	Ctx& c; Rng& rng; std::string name;
	struct Blk { void* p; size_t n; int type; int pool; uint8_t pat; };
	std::vector<Blk> blocks;
	// the allocator objects are kept with value type T0; allocations rebind them
	std::optional<LogA<T0, TCfg>> h[4];
	std::vector<std::string> history;
	bool faults = false;	// c20_fault: the base allocator throws bad_alloc at the next request of about every 3rd call

	Direct(Ctx& c_, Rng& r, const std::string& n) : c(c_), rng(r), name(n) {}
	std::string tail() const { std::string s; size_t from = history.size() > 14 ? history.size() - 14 : 0; for (size_t i = from; i < history.size(); ++i) { s += history[i]; s += "; "; } return s; }
	void note(const std::string& s) { history.push_back(s); tracer().note(s); c.stats.evaluations++; }

	template<typename T> static size_t tsize() { return sizeof(T); }
	template<typename F> void withType(int type, F f) {
		switch (type) { case 0: f((T0*)nullptr); break; case 1: f((T1*)nullptr); break; default: f((T2*)nullptr); break; }
	}
	int pickHandle(bool full) { int t[4], n = 0; for (int i = 0; i < 4; ++i) if ((bool)h[i] == full) t[n++] = i; return n ? t[rng.below(n)] : -1; }

	void run(unsigned steps) {
		arena().restart();
		for (unsigned s = 0; s < steps; ++s) {
			unsigned r = (unsigned)rng.below(100);
			int hf = pickHandle(true), he = pickHandle(false);
			if (hf < 0 || (r < 6 && he >= 0)) {
				if (he < 0) continue;
				if (hf >= 0 && rng.chance(1, 2)) { h[he].emplace(*h[hf]); note(fmt("h%d = copy of h%d", he, hf)); c.stats.count("direct.share"); }
				else if (faults && hf >= 0 && rng.chance(1, 4)) {
					// select_on_container_copy_construction of an existing allocator object: a new pool of its own; every second time the
					// control block request throws: a catchable bad_alloc (it used to be noexcept -> std::terminate), nothing changes
					bool arm = rng.chance(1, 2);
					size_t before = arena().live.size();
					long rcBefore = h[hf]->view().rc;
					if (arm) arena().armFail(0);
					bool threw = false;
					try { h[he].emplace(h[hf]->select_on_container_copy_construction()); } catch (const std::bad_alloc&) { threw = true; }
					arena().disarm();
					if (threw != arm || (threw && (h[he] || arena().live.size() != before)) || h[hf]->view().rc != rcBefore || (!threw && h[he]->pid() == h[hf]->pid()))
						c.fail("C20 fault: %s: h%d = h%d.select_on_container_copy_construction() (%s): threw=%d, ledger %zu -> %zu, use_count of the source %ld -> %ld; history: %s",
							name.c_str(), he, hf, arm ? "base allocator armed" : "no fault", (int)threw, before, arena().live.size(), rcBefore, h[hf]->view().rc, tail().c_str());
					note(fmt("h%d = h%d.select_on_container_copy_construction()%s", he, hf, threw ? ": bad_alloc" : ""));
					c.stats.count(threw ? "direct.select_on_copy_failed" : "direct.select_on_copy");
				}
				else if (faults && rng.chance(1, 5)) {
					// the control block request throws: no allocator object, nothing changes
					size_t before = arena().live.size();
					arena().armFail(0);
					try { h[he].emplace(BaseA(&arena())); c.fail("harness: constructor did not throw"); } catch (const std::bad_alloc&) {}
					arena().disarm();
					if (h[he] || arena().live.size() != before) c.fail("C20 fault: %s: constructor that threw bad_alloc left an object or %zu -> %zu ledger entries; history: %s", name.c_str(), before, arena().live.size(), tail().c_str());
					note(fmt("h%d = new allocator object: bad_alloc", he)); c.stats.count("direct.new_pool_failed");
				}
				else { h[he].emplace(BaseA(&arena())); note(fmt("h%d = new allocator object", he)); c.stats.count("direct.new_pool"); }
			} else if (r < 10) {
				// drop an allocator object unless it is the last one attached to a pool with live blocks
				int pool = h[hf]->pid(); long rc = h[hf]->view().rc;
				bool busy = false; for (auto& b : blocks) if (b.pool == pool) busy = true;
				if (rc == 1 && busy) continue;
				h[hf].reset(); note(fmt("drop h%d", hf)); c.stats.count("direct.drop");
			} else if (r < 60) {
				int type = (int)rng.below(3);
				size_t n = rng.chance(3, 4) ? 1 : (size_t)rng.range(2, 9);
				withType(type, [&](auto* tp) {
					typedef typename std::remove_pointer<decltype(tp)>::type T;
					LogA<T, TCfg> a(*h[hf]);		// rebinding conversion: shares the pool
					if (n == 1) {
						PoolView v = a.view();
						auto par = LogA<T, TCfg>::Inner::pvGetMemPoolParams();
						bool equal = par.GetBlockSize() == v.S && par.GetBlockAlignment() == v.A;
						if (!equal && v.ac != 0) { c.stats.count("direct.single_skipped_pool_busy_with_other_type"); return; }
						if (!equal) c.stats.count("direct.reparameterise");
					}
					T* p = nullptr;
					if (faults && rng.chance(1, 3)) {
						// the next request to the base allocator (a buffer of the pool / the raw block) throws; none is made when the
						// pool still has a free block
						size_t before = arena().live.size(), bytes = arena().liveBytes;
						PoolView v0 = a.view();
						arena().armFail(0);
						bool threw = false;
						try { p = a.allocate(n); } catch (const std::bad_alloc&) { threw = true; }
						arena().disarm();
						if (threw) {
							PoolView v1 = a.view();
							// no block of the base allocator is lost or gained except the buffers of a replaced idle pool going back
							if (arena().live.size() > before || arena().liveBytes > bytes || v1.ac != v0.ac || v1.rc != v0.rc)
								c.fail("C20 fault: %s: allocate(%zu) of a %zu/%zu type threw bad_alloc: ledger %zu/%zu -> %zu/%zu, ac %zu -> %zu, rc %ld -> %ld; history: %s",
									name.c_str(), n, sizeof(T), alignof(T), before, bytes, arena().live.size(), arena().liveBytes, v0.ac, v1.ac, v0.rc, v1.rc, tail().c_str());
							note(fmt("h%d<%zu/%zu>.allocate(%zu): bad_alloc", hf, sizeof(T), alignof(T), n));
							c.stats.count(n == 1 ? "direct.allocate_single_failed" : "direct.allocate_array_failed");
							return;
						}
						c.stats.count("direct.fault_armed_but_no_base_request");
					}
					else p = a.allocate(n);
					uint8_t pat = (uint8_t)rng.below(251);
					memset((void*)p, pat, n * sizeof(T));
					blocks.push_back(Blk{ p, n, type, a.pid(), pat });
					note(fmt("h%d<%zu/%zu>.allocate(%zu)", hf, sizeof(T), alignof(T), n));
					c.stats.count(n == 1 ? "direct.allocate_single" : "direct.allocate_array");
				});
			} else if (!blocks.empty()) {
				size_t bi = (size_t)rng.below(blocks.size());
				Blk b = blocks[bi];
				// an allocator object attached to the pool the block came from
				int via = -1; for (int i = 0; i < 4; ++i) if (h[i] && h[i]->pid() == b.pool) via = i;
				if (via < 0) { c.fail("harness: no allocator object attached to pool %d", b.pool); continue; }
				withType(b.type, [&](auto* tp) {
					typedef typename std::remove_pointer<decltype(tp)>::type T;
					const uint8_t* q = (const uint8_t*)b.p;
					for (size_t i = 0; i < b.n * sizeof(T); ++i) if (q[i] != b.pat) {
						c.fail("C20 overlap: %s: byte %zu of a live block (%zu x %zu) changed from %u to %u; history: %s", name.c_str(), i, b.n, sizeof(T), b.pat, q[i], tail().c_str());
						break;
					}
					LogA<T, TCfg> a(*h[via]);
					a.deallocate((T*)b.p, b.n);
					note(fmt("h%d<%zu/%zu>.deallocate(%zu)", via, sizeof(T), alignof(T), b.n));
					c.stats.count("direct.deallocate");
				});
				blocks[bi] = blocks.back(); blocks.pop_back();
			}
			// GetAllocateCount of every pool = live single blocks of it
			for (int i = 0; i < 4; ++i) if (h[i]) {
				size_t singles = 0; for (auto& b : blocks) if (b.pool == h[i]->pid() && b.n == 1) ++singles;
				if (h[i]->view().ac != singles) c.fail("C20 count: %s: GetAllocateCount() = %zu, live single blocks %zu; history: %s", name.c_str(), h[i]->view().ac, singles, tail().c_str());
			}
		}
		// release everything
		while (!blocks.empty()) {
			Blk b = blocks.back(); blocks.pop_back();
			int via = -1; for (int i = 0; i < 4; ++i) if (h[i] && h[i]->pid() == b.pool) via = i;
			if (via < 0) continue;
			withType(b.type, [&](auto* tp) { typedef typename std::remove_pointer<decltype(tp)>::type T; LogA<T, TCfg> a(*h[via]); a.deallocate((T*)b.p, b.n); });
		}
		for (int i = 0; i < 4; ++i) h[i].reset();
		if (!arena().live.empty())
			c.fail("C20 leak: %s: all blocks deallocated and all allocator objects destroyed but %zu block(s) of the base allocator are outstanding; history: %s", name.c_str(), arena().live.size(), tail().c_str());
		arena().live.clear(); arena().liveBytes = 0;
	}
};

static unsigned g_round = 0;

template<size_t N, size_t C>
static void runDirect(Ctx& c, Rng& rng, unsigned steps) {
	typedef Cfg<N, C> TCfg;
#ifdef C20_DIRECT_FAULTS
	std::string tag = fmt("fdirect%u_N%zu_C%zu", g_round, N, C);
#else
	std::string tag = fmt("direct%u_N%zu_C%zu", g_round, N, C);
#endif
	Suite tr(c, tag + ".trace", TCfg::modelLine("trace"));
	std::string name = fmt("%s N=%zu C=%zu", tag.c_str(), N, C);
	tracer().reset(c, &tr, name);
	typedef Obj<4, 4> A0; typedef Obj<24, 8> A1; typedef Obj<40, 8> A2; typedef Obj<16, 16> A3; typedef Obj<3, 1> A4;
#ifdef C20_DIRECT_FAULTS
	// with over-aligned value types (alignof > UIntConst::maxAlignment = 16): 64/32, 32/32 (same pool parameters as 16/16 for N > 1), 128/64;
	// and 24/4 next to 24/8: equal block sizes, different block alignments (the second half of pvIsEqual)
	typedef Obj<64, 32> O1; typedef Obj<32, 32> O2; typedef Obj<128, 64> O3; typedef Obj<24, 4> B1;
	typedef typename std::conditional<N % 4 == 0, Direct<TCfg, A0, O1, A2>, typename std::conditional<N % 4 == 1, Direct<TCfg, A1, O2, B1>,
		typename std::conditional<N % 4 == 2, Direct<TCfg, O3, A3, O2>, Direct<TCfg, A4, B1, A1>>::type>::type>::type D;
	{ D d(c, rng, name); d.faults = true; d.run(steps); c.stats.nontrivial(name); c.stats.sample(fmt("%s: %s", name.c_str(), d.tail().c_str()), 3); }
#else
	typedef typename std::conditional<N % 3 == 0, Direct<TCfg, A0, A1, A2>, typename std::conditional<N % 3 == 1, Direct<TCfg, A1, A3, A4>, Direct<TCfg, A2, A4, A0>>::type>::type D;
	{ D d(c, rng, name); d.run(steps); c.stats.nontrivial(name); c.stats.sample(fmt("%s: %s", name.c_str(), d.tail().c_str()), 3); }
#endif
	tracer().trace = nullptr;
}

// every number of blocks per buffer 1..32, cached free block counts 0, 1, 2, 16
template<size_t N, size_t tLast> static void directAll(Ctx& c, Rng& rng, unsigned steps) {
	runDirect<N, (N % 4 == 0) ? 16 : (N % 4 == 1) ? 0 : (N % 4 == 2) ? 1 : 2>(c, rng, steps);
	if constexpr (N < tLast) directAll<N + 1, tLast>(c, rng, steps);
}

// ------------------------------------------------------------------------------------------------ finding F13 (dedicated, tagged)
// One allocator object handed to two containers with different node types.  The provenance oracle of the reporting
// shell stops the block from reaching the wrong place (so the process survives) and reports the tagged FAIL line;
// model and implementation agree on every line up to and including the violating deallocate.

template<typename TCfg>
static void runF13(Ctx& c, const char* tag) {
	Suite tr(c, std::string(tag) + ".trace", TCfg::modelLine("trace"));
	Suite co(c, std::string(tag) + ".cont", TCfg::modelLine("cont"));
	std::string name = fmt("%s list<int> + set<int> constructed from one allocator object, N=%zu C=%zu", tag, TCfg::N, TCfg::C);
	tracer().reset(c, &tr, name);
	tracer().f13Case = true;
	{
		typedef LogA<int, TCfg> AI;
		auto beginOp = [&]() { tracer().acts.clear(); tracer().newPools.clear(); };
		auto acts = [&]() {
			std::string s;
			for (auto& a : tracer().acts) {
				std::string b; for (size_t x : a.bufs) { if (!b.empty()) b += ','; b += std::to_string(x); }
				if (b.empty()) b = "-";
				if (a.isAlloc) s += fmt(" +%lld:%zu:%zu:%zu:%s", a.id, a.tsize, a.talign, a.n, b.c_str()); else s += fmt(" -%lld:%s", a.id, b.c_str());
			}
			return s;
		};
		beginOp();
		AI al{ BaseA(&arena()) };
		std::list<int, AI>* l = nullptr; std::set<int, std::less<int>, AI>* s = nullptr;
		auto emit = [&](const std::string& line) {
			tracer().note(line);
			if (tracer().provenanceFired) { co.op(line); co.res(fmt("ERR rawIntoPool %lld", tracer().acts.empty() ? -1ll : tracer().acts.back().id)); return; }
			std::string r = fmt("e0:p0:n0:a0");
			if (l) r += fmt(" e1:p0:n%zu:a0", l->size());
			if (s) r += fmt(" e2:p0:n%zu:a0", s->size());
			r += " | " + Tracer::poolStr(0, al.view()) + fmt(" | L=%zu", arena().live.size());
			co.op(line); co.res(r);
			c.stats.evaluations++;
		};
		emit(fmt("newAlloc 0 %zu %zu %lld", tracer().newPools[0].tsize, tracer().newPools[0].talign, tracer().newPools[0].cb));
		std::list<int, AI> ll(al); l = &ll; emit("newFrom 1 0");
		std::set<int, std::less<int>, AI> ss(al); s = &ss; emit("newFrom 2 0");
		beginOp(); ll.push_back(1); emit("mutate 1" + acts());		// pool parameterised for the list node
		beginOp(); ss.insert(1); emit("mutate 2" + acts());			// raw allocation: parameters differ, pool busy
		beginOp(); ll.clear(); emit("mutate 1" + acts());			// pool idle
		beginOp(); ss.insert(2); emit("mutate 2" + acts());			// pool re-parameterised for the set node
		beginOp(); ss.erase(1);										// the raw block is handed to the pool
		bool fired = tracer().provenanceFired;
		emit("mutate 2" + acts());
		if (!fired) c.stats.count("f13.not_reproduced");
		else c.stats.count("f13.reproduced");
		ss.insert(3); ss.insert(4);
	}
	tracer().f13Case = false;
	tracer().trace = nullptr;
	arena().live.clear(); arena().liveBytes = 0;
	c.stats.nontrivial(name);
}

int main(int argc, char** argv)
{
	Ctx c = parseArgs(argc, argv);
#if defined(C20_DIRECT_FAULTS) && defined(C20_DIRECT_SECOND_HALF)
	Rng rng(c.seed * 0x1000 + 30);
#elif defined(C20_DIRECT_FAULTS)
	Rng rng(c.seed * 0x1000 + 27);
#elif !defined(C20_DIRECT_SECOND_HALF)
	Rng rng(c.seed * 0x1000 + 20);
#else
	Rng rng(c.seed * 0x1000 + 24);
#endif
	arena().init(c); arena().rng = &rng; installCrashReporter();
#if !defined(C20_DIRECT_SECOND_HALF) && !defined(C20_DIRECT_FAULTS)
	runF13<Cfg<32, 16>>(c, "f13a");
	runF13<Cfg<4, 0>>(c, "f13b");
#endif
#ifdef C20_DIRECT_FAULTS
	const unsigned rounds = c.thorough ? 8 : 3;
#else
	const unsigned rounds = c.thorough ? 10 : 3;
#endif
	for (unsigned round = 0; round < rounds; ++round) {
		// suites of later rounds overwrite nothing: the round is part of the suite name
		g_round = round;
#if defined(C20_DIRECT_FAULTS) && defined(C20_DIRECT_SECOND_HALF)
		directAll<17, 32>(c, rng, c.thorough ? 800 : 300);
#elif defined(C20_DIRECT_FAULTS)
		// every number of blocks per buffer (1..16 here, 17..32 in c20_fault1b), a failing base allocator, over-aligned value types
		directAll<1, 16>(c, rng, c.thorough ? 800 : 300);
#elif !defined(C20_DIRECT_SECOND_HALF)
		directAll<1, 16>(c, rng, c.thorough ? 900 : 350);
#else
		directAll<17, 32>(c, rng, c.thorough ? 900 : 350);
#endif
	}
	dumpTracerStats(c);
	return c.finish();
}
