// C14 correspondence harness: containers are regular values (deep copies, emptying moves, exact swaps).
// Every suite drives named objects of ONE container type through random histories of
//   new / copy-construct (with and without a manager) / move-construct / Swap / copy-assign / move-assign /
//   self-assign / self-move-assign / self-swap / Clear / destroy / insert / remove / "special" states
// and prints, after every operation, for every live object: manager identity (or null crew), capacity,
// items of the internal buffer, items of every heap block it owns; plus the element copy / move counts of
// the operation, the manager identities that allocated / freed during it, the identities that still own
// blocks, and whether the target took over the source's first block. The Lean model `val` must print the
// same lines. Property-level oracle (independent of the model): reference contents of every object after
// every operation (a change of any other object = broken independence), ledger (every block is freed
// through a manager with the identity that allocated it, with its size), no copy construction of movable
// elements in moves / swaps, nothing left after all objects died. Compile with -DVF_PART=0..5.
#define MOMO_INCLUDE_OLD_HASH_BUCKETS
#include "momo/Array.h"
#include "momo/SegmentedArray.h"
#include "momo/MemPool.h"
#include "momo/HashSet.h"
#include "momo/HashMap.h"
#include "momo/HashMultiMap.h"
#include "momo/TreeSet.h"
#include "momo/TreeMap.h"
#include "momo/DataTable.h"
#include "momo/stdish/vector.h"
#include "momo/stdish/set.h"
#include "momo/stdish/map.h"
#include "momo/stdish/unordered_set.h"
#include "momo/stdish/unordered_map.h"
#include "momo/stdish/unordered_multimap.h"
#include "c14_value.h"

#ifndef VF_PART
#define VF_PART 0
#endif

using namespace vf;

// ---------------------------------------------------------------- generic box over an adapter
template<typename Ad>
struct Box : IBox {
	typedef typename Ad::C C;
	BoxInfo bi;
	std::optional<C> s[NS];
	Box() { bi = Ad::info(); }
	const BoxInfo& info() const override { return bi; }
	bool alive(int i) const override { return s[i].has_value(); }
	void create(int i, int mgr) override { Ad::create(s[i], mgr); }
	void copyCtor(int j, int i) override { s[j].emplace(*s[i]); }
	void copyCtorM(int j, int i, int mgr) override { Ad::copyM(s[j], *s[i], mgr); }
	void moveCtor(int j, int i) override { s[j].emplace(std::move(*s[i])); }
	void moveCtorA(int j, int i, int mgr) override { Ad::moveA(s[j], std::move(*s[i]), mgr); }
	void swap(int i, int j) override { Ad::swap(*s[i], *s[j]); }
	void copyAssign(int i, int j) override { C& a = *s[i]; const C& b = *s[j]; a = b; }
	void moveAssign(int i, int j) override { C& a = *s[i]; C& b = *s[j]; a = std::move(b); }
	void destroy(int i) override { s[i].reset(); }
	unsigned clear(int i, unsigned mode) override { return Ad::clear(*s[i], mode); }
	void add(int i, uint32_t e) override { Ad::add(*s[i], e); }
	bool del(int i, uint32_t e) override { return Ad::del(*s[i], e); }
	void special(int i, Rng& rng, std::vector<uint32_t>& ref, uint32_t& nextElem) override { Ad::special(*s[i], rng, ref, nextElem); }
	ObjState state(int i) const override { return Ad::state(*s[i]); }
};

template<typename MM> static bool mmStateful() { return !std::is_empty<MM>::value; }

// ---------------------------------------------------------------- Array
template<typename E, typename MM, size_t icap>
struct ArrayAd {
	typedef momo::Array<E, MM, momo::ArrayItemTraits<E, MM>, momo::ArraySettings<icap>> C;
	static BoxInfo info() {
		BoxInfo b; b.kind = "array"; b.icap = icap; b.crew = false; b.trivial = ElemInfo<E>::trivial; b.movable = ElemInfo<E>::movable;
		b.sel = MgrId<MM>::sel; b.ordered = true; b.exactMoves = true; b.reusableNull = true; b.counted = !ElemInfo<E>::trivial;
		b.stateful = mmStateful<MM>(); b.clearKeepModes = 2;
		return b;
	}
	static void create(std::optional<C>& o, int mgr) { o.emplace(MgrId<MM>::make(mgr)); }
	static void copyM(std::optional<C>& o, const C& src, int mgr) { o.emplace(src, MgrId<MM>::make(mgr)); }
	static void moveA(std::optional<C>&, C&&, int) {}
	static void swap(C& a, C& b) { a.Swap(b); }
	static void add(C& c, uint32_t e) { c.AddBack(ElemInfo<E>::make(e)); }
	static bool del(C& c, uint32_t e) { for (size_t i = 0; i < c.GetCount(); ++i) if (idOf(c[i]) == e) { c.Remove(i, 1); return true; } return false; }
	static bool external(const C& c) { return !c.mData.pvIsInternal() && c.mData.mItems != nullptr; }
	static unsigned clear(C& c, unsigned mode) { if (mode == 0) { c.Clear(false); return external(c) ? 1 : 0; } c.Clear(true); return 0; }
	static void special(C& c, Rng& rng, std::vector<uint32_t>& ref, uint32_t&) {
		switch (rng.below(3)) {
		case 0: c.Reserve(c.GetCount() + 1 + rng.below(50)); break;       // capacity far above the count
		case 1: { size_t k = rng.below(c.GetCount() + 1); c.RemoveBack(k); ref.resize(ref.size() - k); break; }   // possibly back under the internal capacity, buffer kept
		default: c.Shrink(); break;                                          // may move the items back into the object
		}
	}
	static ObjState state(const C& c) {
		ObjState st; st.mgr = MgrId<MM>::get(c.GetMemManager()); st.count = c.GetCount();
		std::vector<uint32_t> items; for (size_t i = 0; i < c.GetCount(); ++i) items.push_back(idOf(c[i]));
		if (external(c)) { st.cap = c.GetCapacity(); st.cells.push_back(items); st.root = c.mData.mItems; }
		else st.inl = items;
		return st;
	}
};

// ---------------------------------------------------------------- SegmentedArray
template<typename E, typename MM, momo::SegmentedArrayItemCountFunc func, size_t l0>
struct SegAd {
	typedef momo::SegmentedArraySettings<func, l0> Settings;
	typedef momo::SegmentedArray<E, MM, momo::SegmentedArrayItemTraits<E, MM>, Settings> C;
	static BoxInfo info() {
		BoxInfo b; b.kind = "seg"; b.trivial = ElemInfo<E>::trivial; b.movable = ElemInfo<E>::movable; b.sel = MgrId<MM>::sel;
		b.ordered = true; b.exactMoves = true; b.reusableNull = true; b.counted = !ElemInfo<E>::trivial; b.stateful = mmStateful<MM>();
		b.seg = func == momo::SegmentedArrayItemCountFunc::sqrt ? "sqrt" : "cnst"; b.l0 = (unsigned)l0; b.clearKeepModes = 2;
		b.exactFrees = false;    // the copy constructor regrows its segment-pointer array (frees through the new manager when > 4 segments)
		return b;
	}
	static void create(std::optional<C>& o, int mgr) { o.emplace(MgrId<MM>::make(mgr)); }
	static void copyM(std::optional<C>& o, const C& src, int mgr) { o.emplace(src, MgrId<MM>::make(mgr)); }
	static void moveA(std::optional<C>&, C&&, int) {}
	static void swap(C& a, C& b) { a.Swap(b); }
	static void add(C& c, uint32_t e) { c.AddBack(ElemInfo<E>::make(e)); }
	static bool del(C& c, uint32_t e) { for (size_t i = 0; i < c.GetCount(); ++i) if (idOf(c[i]) == e) { c.Remove(i, 1); return true; } return false; }
	static unsigned blocks(const C& c) { return (c.mSegments.mData.mItems != nullptr ? 1u : 0u) + (unsigned)c.mSegments.GetCount(); }
	static unsigned clear(C& c, unsigned mode) { if (mode == 0) { c.Clear(false); return blocks(c); } c.Clear(true); return 0; }
	static void special(C& c, Rng& rng, std::vector<uint32_t>& ref, uint32_t&) {
		switch (rng.below(3)) {
		case 0: c.Reserve(c.GetCount() + 1 + rng.below(40)); break;
		case 1: { size_t k = rng.below(c.GetCount() + 1); c.RemoveBack(k); ref.resize(ref.size() - k); break; }
		default: c.Shrink(); break;
		}
	}
	static ObjState state(const C& c) {
		ObjState st; st.mgr = MgrId<MM>::get(c.GetMemManager()); st.count = c.GetCount();
		if (c.mSegments.mData.mItems != nullptr) st.cells.push_back({});
		size_t idx = 0;
		for (size_t sgi = 0; sgi < c.mSegments.GetCount(); ++sgi) {
			std::vector<uint32_t> cell; size_t n = Settings::GetItemCount(sgi);
			for (size_t k = 0; k < n && idx < c.GetCount(); ++k, ++idx) cell.push_back(idOf(c[idx]));
			st.cells.push_back(cell);
		}
		st.root = c.mSegments.GetCount() ? (const void*)c.mSegments[0] : (const void*)c.mSegments.mData.mItems;
		return st;
	}
};

// ---------------------------------------------------------------- HashSet / HashMap / HashMultiMap
template<typename Crew, typename = void> struct CrewIsPtr : std::false_type {};
template<typename Crew> struct CrewIsPtr<Crew, decltype((void)std::declval<Crew&>().mData)> : std::true_type {};
template<typename Crew> static typename std::enable_if<CrewIsPtr<Crew>::value, bool>::type crewNull(const Crew& c) { return c.mData == nullptr; }
template<typename Crew> static typename std::enable_if<!CrewIsPtr<Crew>::value, bool>::type crewNull(const Crew&) { return false; }

struct NoVerSet : public momo::HashSetSettings { static const bool checkVersion = false; };
struct NoVerTree : public momo::TreeSetSettings { static const bool checkVersion = false; };

template<typename E, typename Bucket>
struct IdHashTraits : public momo::HashTraits<E, Bucket> {
	size_t GetHashCode(const E& k) const { return IdHash()(k); }
	bool IsEqual(const E& a, const E& b) const { return idOf(a) == idOf(b); }
};

// generations of a HashSet, newest first; `enc` turns an item into the printed numbers
template<typename HS, typename Enc>
static void hashCells(const HS& hs, ObjState& st, Enc enc) {
	for (auto* bk = hs.mBuckets; bk != nullptr; bk = bk->GetNextBuckets()) {
		std::vector<uint32_t> cell;
		auto& params = bk->GetBucketParams();
		for (size_t i = 0; i < bk->GetCount(); ++i) for (auto& item : (*bk)[i].GetBounds(params)) enc(item, cell);
		if (st.root == nullptr) st.root = bk;
		st.cells.push_back(cell);
	}
}

template<typename E, typename MM, typename Bucket, typename Settings>
struct HashSetAd {
	typedef IdHashTraits<E, Bucket> Traits;
	typedef momo::HashSet<E, Traits, MM, momo::HashSetItemTraits<E, MM>, Settings> C;
	static BoxInfo info() {
		BoxInfo b; b.kind = "hash"; b.crew = CrewIsPtr<typename C::Crew>::value; b.trivial = ElemInfo<E>::trivial; b.movable = ElemInfo<E>::movable;
		b.sel = MgrId<MM>::sel; b.ordered = false; b.exactMoves = false; b.reusableNull = !b.crew; b.counted = !ElemInfo<E>::trivial;
		b.stateful = mmStateful<MM>(); b.canFaultGrow = !ElemInfo<E>::movable; b.clearKeepModes = 2;
		b.exactCopies = ElemInfo<E>::movable;   // copy-only items are copied again whenever a bucket grows
		return b;
	}
	static void create(std::optional<C>& o, int mgr) { o.emplace(Traits(), MgrId<MM>::make(mgr)); }
	static void copyM(std::optional<C>& o, const C& src, int mgr) { o.emplace(src, MgrId<MM>::make(mgr)); }
	static void moveA(std::optional<C>&, C&&, int) {}
	static void swap(C& a, C& b) { a.Swap(b); }
	static void add(C& c, uint32_t e) { c.Insert(ElemInfo<E>::make(e)); }
	static bool del(C& c, uint32_t e) { return c.Remove(ElemInfo<E>::make(e)); }
	static unsigned gens(const C& c) { unsigned n = 0; for (auto* bk = c.mBuckets; bk; bk = bk->GetNextBuckets()) ++n; return n; }
	static unsigned clear(C& c, unsigned mode) { if (mode == 0) { c.Clear(true); return 0; } c.Clear(false); return gens(c); }
	static void special(C& c, Rng& rng, std::vector<uint32_t>& ref, uint32_t& nextElem) {
		if (!ElemInfo<E>::movable) {
			// copy-only elements: make the migration to the larger table fail at once, again and again: generations pile up
			unsigned n = 30 + (unsigned)rng.below(60);
			for (unsigned k = 0; k < n; ++k) {
				uint32_t e = nextElem++;
				ec().copyCountdown = 1; ec().firedCopy = false;
				try { c.Insert(ElemInfo<E>::make(e)); } catch (const std::runtime_error&) {}
				ec().copyCountdown = -1;
				if (c.Find(ElemInfo<E>::make(e))) ref.push_back(e);
			}
		} else c.Reserve(c.GetCount() * 3 + 20);
	}
	static ObjState state(const C& c) {
		ObjState st; st.count = c.GetCount();
		st.mgr = crewNull(c.mCrew) ? -1 : MgrId<MM>::get(c.GetMemManager());
		hashCells(c, st, [](const E& item, std::vector<uint32_t>& cell) { cell.push_back(idOf(item)); });
		return st;
	}
};

template<typename V, typename MM, typename Bucket>
struct HashMapAd {
	typedef IdHashTraits<uint32_t, Bucket> Traits;
	typedef momo::HashMap<uint32_t, V, Traits, MM> C;
	typedef typename C::HashSet HS;
	static BoxInfo info() {
		BoxInfo b; b.kind = "hash"; b.crew = CrewIsPtr<typename HS::Crew>::value; b.trivial = ElemInfo<V>::trivial; b.movable = ElemInfo<V>::movable;
		b.sel = MgrId<MM>::sel; b.ordered = false; b.exactMoves = false; b.reusableNull = !b.crew; b.counted = !ElemInfo<V>::trivial;
		b.stateful = mmStateful<MM>(); b.clearKeepModes = 2;
		return b;
	}
	static void create(std::optional<C>& o, int mgr) { o.emplace(Traits(), MgrId<MM>::make(mgr)); }
	static void copyM(std::optional<C>& o, const C& src, int mgr) { o.emplace(src, MgrId<MM>::make(mgr)); }
	static void moveA(std::optional<C>&, C&&, int) {}
	static void swap(C& a, C& b) { a.Swap(b); }
	static void add(C& c, uint32_t e) { c.Insert(e, ElemInfo<V>::make(e)); }
	static bool del(C& c, uint32_t e) { return c.Remove(e); }
	static unsigned gens(const C& c) { unsigned n = 0; for (auto* bk = c.mHashSet.mBuckets; bk; bk = bk->GetNextBuckets()) ++n; return n; }
	static unsigned clear(C& c, unsigned mode) { if (mode == 0) { c.Clear(true); return 0; } c.Clear(false); return gens(c); }
	static void special(C& c, Rng&, std::vector<uint32_t>&, uint32_t&) { c.Reserve(c.GetCount() * 3 + 20); }
	static ObjState state(const C& c) {
		ObjState st; st.count = c.GetCount();
		st.mgr = crewNull(c.mHashSet.mCrew) ? -1 : MgrId<MM>::get(c.GetMemManager());
		hashCells(c.mHashSet, st, [](const typename HS::Item& item, std::vector<uint32_t>& cell) { cell.push_back(idOf(*item.GetValuePtr())); });
		return st;
	}
};

// elements of a multimap: value e lives under key e % 5 + 1; a key without values is printed as 1000000 + key
template<typename V, typename MM>
struct MultiMapAd {
	typedef momo::HashMultiMap<uint32_t, V, momo::HashTraits<uint32_t>, MM> C;
	typedef typename C::HashMap::HashSet HS;
	static uint32_t keyOf(uint32_t e) { return e % 5 + 1; }
	static BoxInfo info() {
		BoxInfo b; b.kind = "hash"; b.crew = CrewIsPtr<typename HS::Crew>::value; b.aux = 1; b.trivial = ElemInfo<V>::trivial; b.movable = ElemInfo<V>::movable;
		b.sel = MgrId<MM>::sel; b.ordered = false; b.exactMoves = false; b.reusableNull = false; b.counted = !ElemInfo<V>::trivial;
		b.stateful = mmStateful<MM>(); b.multimap = true; b.clearKeepModes = 1;
		return b;
	}
	static void create(std::optional<C>& o, int mgr) { o.emplace(momo::HashTraits<uint32_t>(), MgrId<MM>::make(mgr)); }
	static void copyM(std::optional<C>& o, const C& src, int mgr) { o.emplace(src, MgrId<MM>::make(mgr)); }
	static void moveA(std::optional<C>&, C&&, int) {}
	static void swap(C& a, C& b) { a.Swap(b); }
	static void add(C& c, uint32_t e) { c.Add(keyOf(e), ElemInfo<V>::make(e)); }
	static bool del(C& c, uint32_t e) {
		if (e >= 1000000) return c.RemoveKey(e - 1000000) == 0;
		auto ki = c.Find(keyOf(e)); if (!ki) return false;
		for (size_t idx = 0; idx < ki->GetCount(); ++idx) if (idOf((*ki)[idx]) == e) { c.Remove(ki, idx); return true; }
		return false;
	}
	static unsigned clear(C& c, unsigned) { c.Clear(); return 0; }
	static void special(C& c, Rng& rng, std::vector<uint32_t>&, uint32_t&) {
		// keys that keep no values
		uint32_t k = (uint32_t)rng.below(5) + 1;
		auto ki = c.Find(k);
		if (ki) c.RemoveValues(ki); else c.InsertKey(k);
		c.InsertKey(6 + (uint32_t)rng.below(3));
	}
	static ObjState state(const C& c) {
		ObjState st; st.count = c.GetCount();
		const auto& hs = c.mHashMap.mHashSet;
		st.mgr = crewNull(hs.mCrew) ? -1 : MgrId<MM>::get(c.GetMemManager());
		hashCells(hs, st, [](const typename HS::Item& item, std::vector<uint32_t>& cell) {
			const auto& va = *item.GetValuePtr(); auto bounds = va.GetBounds();
			if (bounds.GetCount() == 0) cell.push_back(1000000 + *item.GetKeyPtr());
			for (auto& v : bounds) cell.push_back(idOf(v));
		});
		// `count` reported to the oracle = values + value-less keys (what `contents` lists)
		size_t n = 0; for (auto& cell : st.cells) n += cell.size(); st.count = n;
		return st;
	}
};

// ---------------------------------------------------------------- TreeSet / TreeMap
template<typename Node, typename Enc>
static void treeCells(Node* n, ObjState& st, Enc enc) {
	std::vector<uint32_t> cell;
	for (size_t i = 0; i < n->GetCount(); ++i) enc(*n->GetItemPtr(i), cell);
	st.cells.push_back(cell);
	if (!n->IsLeaf()) for (size_t i = 0; i <= n->GetCount(); ++i) treeCells(n->GetChild(i), st, enc);
}
// in-order items (pre-order blocks print the keys of a node together)
template<typename TS, typename Enc>
static void treeState(const TS& ts, ObjState& st, Enc enc) {
	if (ts.mNodeParams != nullptr) { st.cells.push_back({}); st.root = ts.mNodeParams; }
	if (ts.mRootNode != nullptr) { treeCells(ts.mRootNode, st, enc); st.root = ts.mRootNode; }
}

template<typename E, typename MM, typename TN, typename Settings>
struct TreeSetAd {
	typedef momo::TreeTraits<E, false, TN> Traits;
	typedef momo::TreeSet<E, Traits, MM, momo::TreeSetItemTraits<E, MM>, Settings> C;
	static BoxInfo info() {
		BoxInfo b; b.kind = "tree"; b.crew = CrewIsPtr<typename C::Crew>::value; b.trivial = ElemInfo<E>::trivial; b.movable = ElemInfo<E>::movable;
		b.sel = MgrId<MM>::sel; b.ordered = false; b.exactMoves = false; b.reusableNull = !b.crew; b.counted = !ElemInfo<E>::trivial;
		b.stateful = mmStateful<MM>(); b.clearKeepModes = 1;
		return b;
	}
	static void create(std::optional<C>& o, int mgr) { o.emplace(Traits(), MgrId<MM>::make(mgr)); }
	static void copyM(std::optional<C>& o, const C& src, int mgr) { o.emplace(src, MgrId<MM>::make(mgr)); }
	static void moveA(std::optional<C>&, C&&, int) {}
	static void swap(C& a, C& b) { a.Swap(b); }
	static void add(C& c, uint32_t e) { c.Insert(ElemInfo<E>::make(e)); }
	static bool del(C& c, uint32_t e) { return c.Remove(ElemInfo<E>::make(e)); }
	static unsigned clear(C& c, unsigned) { c.Clear(); return 0; }
	static void special(C& c, Rng& rng, std::vector<uint32_t>& ref, uint32_t&) {
		// thin the tree out: many removals leave a deep tree of sparse nodes
		std::vector<uint32_t> keep;
		for (uint32_t e : ref) { if (rng.chance(2, 3)) c.Remove(ElemInfo<E>::make(e)); else keep.push_back(e); }
		ref = keep;
	}
	static ObjState state(const C& c) {
		ObjState st; st.count = c.GetCount();
		st.mgr = crewNull(c.mCrew) ? -1 : MgrId<MM>::get(c.GetMemManager());
		treeState(c, st, [](const E& item, std::vector<uint32_t>& cell) { cell.push_back(idOf(item)); });
		return st;
	}
};

template<typename V, typename MM, typename TN>
struct TreeMapAd {
	typedef momo::TreeTraits<uint32_t, false, TN> Traits;
	typedef momo::TreeMap<uint32_t, V, Traits, MM> C;
	typedef typename C::TreeSet TS;
	static BoxInfo info() {
		BoxInfo b; b.kind = "tree"; b.crew = CrewIsPtr<typename TS::Crew>::value; b.trivial = ElemInfo<V>::trivial; b.movable = ElemInfo<V>::movable;
		b.sel = MgrId<MM>::sel; b.ordered = false; b.exactMoves = false; b.reusableNull = !b.crew; b.counted = !ElemInfo<V>::trivial;
		b.stateful = mmStateful<MM>(); b.clearKeepModes = 1;
		return b;
	}
	static void create(std::optional<C>& o, int mgr) { o.emplace(Traits(), MgrId<MM>::make(mgr)); }
	static void copyM(std::optional<C>& o, const C& src, int mgr) { o.emplace(src, MgrId<MM>::make(mgr)); }
	static void moveA(std::optional<C>&, C&&, int) {}
	static void swap(C& a, C& b) { a.Swap(b); }
	static void add(C& c, uint32_t e) { c.Insert(e, ElemInfo<V>::make(e)); }
	static bool del(C& c, uint32_t e) { return c.Remove(e); }
	static unsigned clear(C& c, unsigned) { c.Clear(); return 0; }
	static void special(C& c, Rng& rng, std::vector<uint32_t>& ref, uint32_t&) {
		std::vector<uint32_t> keep;
		for (uint32_t e : ref) { if (rng.chance(2, 3)) c.Remove(e); else keep.push_back(e); }
		ref = keep;
	}
	static ObjState state(const C& c) {
		ObjState st; st.count = c.GetCount();
		st.mgr = crewNull(c.mTreeSet.mCrew) ? -1 : MgrId<MM>::get(c.GetMemManager());
		treeState(c.mTreeSet, st, [](const typename TS::Item& item, std::vector<uint32_t>& cell) { cell.push_back(idOf(*item.GetValuePtr())); });
		return st;
	}
};

// ---------------------------------------------------------------- DataTable (one int column)
static constexpr momo::DataColumn<int> vfIntCol("vfIntCol");

template<typename MM>
struct TableAd {
	typedef momo::DataColumnList<momo::DataColumnTraits<>, MM> CL;
	typedef momo::DataTable<CL> C;
	static BoxInfo info() {
		BoxInfo b; b.kind = "one"; b.crew = true; b.trivial = true; b.movable = true; b.sel = MgrId<MM>::sel; b.ordered = true; b.exactMoves = false;
		b.reusableNull = false; b.counted = false; b.stateful = mmStateful<MM>(); b.exactFrees = false; b.clearKeepModes = 1;
		b.hasCopyM = false;
		return b;
	}
	static void create(std::optional<C>& o, int mgr) { CL cl(MgrId<MM>::make(mgr)); cl.Add(vfIntCol); o.emplace(std::move(cl)); }
	static void copyM(std::optional<C>&, const C&, int) {}
	static void moveA(std::optional<C>&, C&&, int) {}
	static void swap(C& a, C& b) { a.Swap(b); }
	static void add(C& c, uint32_t e) { c.AddRow(vfIntCol = (int)e); }
	static bool del(C& c, uint32_t e) { for (size_t i = 0; i < c.GetCount(); ++i) if ((uint32_t)c[i][vfIntCol] == e) { c.Remove(i, true); return true; } return false; }
	static unsigned clear(C& c, unsigned) { bool had = !c.mCrew.IsNull() && c.mRaws.mData.mItems != nullptr; c.Clear(); return had ? 1 : 0; }
	static void special(C& c, Rng&, std::vector<uint32_t>&, uint32_t&) { c.Reserve(c.GetCount() + 40); }
	static ObjState state(const C& c) {
		ObjState st; st.count = c.GetCount();
		st.mgr = c.mCrew.IsNull() ? -1 : MgrId<MM>::get(c.GetMemManager());
		if (c.mRaws.mData.mItems != nullptr) {
			std::vector<uint32_t> cell; for (size_t i = 0; i < c.GetCount(); ++i) cell.push_back((uint32_t)c[i][vfIntCol]);
			st.cells.push_back(cell); st.root = c.mRaws.mData.mItems;
		}
		return st;
	}
};

// ---------------------------------------------------------------- MemManagerStd::operator=(&&) overload selection (16 trait combinations)
static const char* g_path = "";
template<typename T, bool NMA, bool PMA, bool PCA, bool PS>
struct PA {
	typedef T value_type; int id;
	typedef std::integral_constant<bool, PCA> propagate_on_container_copy_assignment;
	typedef std::integral_constant<bool, PMA> propagate_on_container_move_assignment;
	typedef std::integral_constant<bool, PS> propagate_on_container_swap;
	typedef std::false_type is_always_equal;
	explicit PA(int i = 0) noexcept : id(i) {}
	PA(const PA& o) noexcept : id(o.id) {}
	PA(PA&& o) noexcept : id(o.id) { if (!*g_path) g_path = "reconstruct"; }
	template<typename U> PA(const PA<U, NMA, PMA, PCA, PS>& o) noexcept : id(o.id) {}
	PA& operator=(const PA& o) noexcept(false) { id = o.id; g_path = "copy-assign"; return *this; }
	PA& operator=(PA&& o) noexcept(NMA) { id = o.id; g_path = "move-assign"; return *this; }
	friend void swap(PA& a, PA& b) noexcept { std::swap(a.id, b.id); g_path = "swap"; }
	template<typename U> struct rebind { typedef PA<U, NMA, PMA, PCA, PS> other; };
	T* allocate(size_t n) { void* p = ::operator new(n * sizeof(T)); led().onAlloc(p, id, n * sizeof(T)); return static_cast<T*>(p); }
	void deallocate(T* p, size_t n) noexcept { led().onFree(p, id, n * sizeof(T)); ::operator delete(p); }
	template<typename U> bool operator==(const PA<U, NMA, PMA, PCA, PS>& o) const noexcept { return id == o.id; }
	template<typename U> bool operator!=(const PA<U, NMA, PMA, PCA, PS>& o) const noexcept { return id != o.id; }
};

template<bool NMA, bool PMA, bool PCA, bool PS>
static void onePath(Ctx& c, Suite& su) {
	typedef PA<int, NMA, PMA, PCA, PS> A;
	typedef momo::MemManagerStd<A> MM;
	{
		momo::Array<int, MM> a{ MM(A(1)) }, b{ MM(A(2)) };
		for (int i = 0; i < 10; ++i) { a.AddBack(i); b.AddBack(100 + i); }
		g_path = "";
		a = std::move(b);      // Array::Data::operator=(Data&&) -> MemManagerProxy::Assign
		std::string path = g_path;
		su.op(fmt("path %d %d %d %d", NMA, PMA, PCA, PS)); su.res(path);
		c.stats.evaluations++; c.stats.nontrivial(fmt("path%d%d%d%d", NMA, PMA, PCA, PS)); c.stats.count("assign_path." + path);
		int got = a.GetMemManager().GetByteAllocator().id;
		if (got != 2 || a.GetCount() != 10 || a[0] != 100)
			c.fail("C14 manager assign: traits nma=%d pocma=%d pocca=%d pocs=%d: Array move assignment left manager %d (expected 2), count %zu", NMA, PMA, PCA, PS, got, a.GetCount());
		a.AddBack(7); b.AddBack(8);     // both usable, each through its present manager
	}
	if (led().bad || !led().live.empty()) {
		c.fail("C14 ledger: manager assign with traits nma=%d pocma=%d pocca=%d pocs=%d: %s, %zu blocks left", NMA, PMA, PCA, PS, led().badText.c_str(), led().live.size());
		led().bad = 0; led().badText.clear(); led().live.clear();
	}
}
template<int n> static void allPaths(Ctx& c, Suite& su) { onePath<(n & 8) != 0, (n & 4) != 0, (n & 2) != 0, (n & 1) != 0>(c, su); allPaths<n - 1>(c, su); }
template<> void allPaths<-1>(Ctx&, Suite&) {}

// ---------------------------------------------------------------- MemPool: move, move-assign, swap between equal / unequal managers (property level)
template<typename MM>
static void poolCase(Ctx& c, Rng& rng, const char* name) {
	typedef momo::MemPool<momo::MemPoolParams<4, 2>, MM> Pool;
	for (unsigned round = 0; round < 40; ++round) {
		{
			int ida = 1, idb = rng.chance(1, 2) ? 1 : 2;
			Pool a(momo::MemPoolParams<4, 2>(24, 8), MgrId<MM>::make(ida)), b(momo::MemPoolParams<4, 2>(24, 8), MgrId<MM>::make(idb));
			std::vector<void*> pa, pb;
			for (unsigned k = rng.below(12); k > 0; --k) pa.push_back(a.Allocate());
			for (unsigned k = rng.below(12); k > 0; --k) pb.push_back(b.Allocate());
			unsigned what = (unsigned)rng.below(3);
			std::string desc = fmt("%s ids %d/%d blocks %zu/%zu op %u", name, ida, idb, pa.size(), pb.size(), what);
			if (what == 0) { a.Swap(b); std::swap(pa, pb); std::swap(ida, idb); }
			else if (what == 1) { Pool d(std::move(a)); if (a.GetAllocateCount() != 0) c.fail("C14 pool move: %s: source still counts %zu blocks", desc.c_str(), a.GetAllocateCount());
				for (void* p : pa) d.Deallocate(p); pa.clear(); if (MgrId<MM>::get(d.GetMemManager()) != ida) c.fail("C14 pool move: %s: manager %d", desc.c_str(), MgrId<MM>::get(d.GetMemManager())); }
			else { for (void* p : pa) a.Deallocate(p); pa.clear(); a = std::move(b); std::swap(pa, pb); ida = idb;
				if (b.GetAllocateCount() != 0) c.fail("C14 pool move-assign: %s: source still counts %zu blocks", desc.c_str(), b.GetAllocateCount()); }
			if (what != 1 && (MgrId<MM>::get(a.GetMemManager()) != ida || a.GetAllocateCount() != pa.size()))
				c.fail("C14 pool: %s: afterwards pool a has manager %d count %zu, expected %d %zu", desc.c_str(), MgrId<MM>::get(a.GetMemManager()), a.GetAllocateCount(), ida, pa.size());
			// both pools keep working through their present managers
			if (what != 1) { pa.push_back(a.Allocate()); for (void* p : pa) a.Deallocate(p); }
			pb.push_back(b.Allocate()); for (void* p : pb) b.Deallocate(p);
			c.stats.evaluations++; c.stats.count(fmt("pool.op%u", what));
			if (led().bad) { c.fail("C14 ledger: pool %s: %s", desc.c_str(), led().badText.c_str()); led().bad = 0; led().badText.clear(); }
		}
		if (!led().live.empty()) { c.fail("C14 leak: pool %s round %u: %zu blocks left", name, round, led().live.size()); led().live.clear(); }
	}
}

// corpus, repaired finding F26: a moved-from DataTable with a stateful manager, after the object that took its crew died
template<typename MM>
static void probeF26(Ctx& c) {
	typedef TableAd<MM> Ad;
	static const char* names[3] = { "a.Swap(b)", "a = b", "a = std::move(b)" };
	for (int mode = 0; mode < 3; ++mode) {
		bool ok = survivesInChild([mode]() {
			std::optional<typename Ad::C> a, b;
			Ad::create(a, 1); Ad::create(b, 2); Ad::add(*a, 1); Ad::add(*b, 2);
			{ typename Ad::C t(std::move(*a)); }
			if (mode == 0) a->Swap(*b); else if (mode == 1) *a = *b; else *a = std::move(*b);
			Ad::add(*a, 5);
			if (led().bad) _exit(2);
		});
		c.stats.evaluations++; c.stats.count(ok ? "f26.survived" : "f26.crashed");
		if (!ok) c.fail("C14 regression of F26 (moved-from table, dangling manager): DataTable<MemManagerStd<stateful allocator>> a(id 1), b(id 2), one row each; "
			"{ Table t(std::move(a)); } %s; -> child process died (use of the freed manager through the moved-from mRawMemPool)", names[mode]);
	}
}

// corpus, repaired finding F26, second form: two live DataTables with EQUAL stateful managers are swapped, one dies, the other allocates
template<typename MM>
static void probeF26b(Ctx& c) {
	typedef TableAd<MM> Ad;
	static const char* names[3] = { "a.Swap(b)", "a = std::move(b); b = Table(id 1) (b dies)", "b = a (temporary dies)" };
	for (int mode = 0; mode < 2; ++mode) {
		bool ok = survivesInChild([mode]() {
			std::optional<typename Ad::C> a, b;
			Ad::create(a, 1); Ad::create(b, 1); Ad::add(*a, 1); Ad::add(*b, 2);
			if (mode == 0) { a->Swap(*b); a.reset(); for (uint32_t e = 3; e < 200; ++e) Ad::add(*b, e); }
			else { *a = std::move(*b); b.reset(); for (uint32_t e = 3; e < 200; ++e) Ad::add(*a, e); }
			if (led().bad) _exit(2);
		});
		c.stats.evaluations++; c.stats.count(ok ? "f26b.survived" : "f26b.crashed");
		if (!ok) c.fail("C14 regression of F26 (swap of tables with equal managers): DataTable<MemManagerStd<stateful allocator>> a(id 1), b(id 1) (equal managers), one row each; "
			"%s; the other object dies; 197 x AddRow -> child process died (rows allocated through the manager of the dead object)", names[mode]);
	}
}


// ---------------------------------------------------------------- stdish wrappers
template<typename A> struct AllocKind;
template<typename T, bool a, bool b, bool c> struct AllocKind<SA<T, a, b, c>> {
	static const bool stateful = true, pocca = a, pocma = b, pocs = c, empty = false; static const int sel = 100;
	static SA<T, a, b, c> make(int id) { return SA<T, a, b, c>(id); }
	static int id(const SA<T, a, b, c>& x) { return x.id; }
	static std::string tag() { return fmt("sa%d%d%d", a ? 1 : 0, b ? 1 : 0, c ? 1 : 0); }
};
template<typename T> struct AllocKind<SL<T>> {
	static const bool stateful = false, pocca = false, pocma = false, pocs = false, empty = true; static const int sel = 0;
	static SL<T> make(int) { return SL<T>(); }
	static int id(const SL<T>&) { return 0; }
	static std::string tag() { return "sl"; }
};

template<typename W, typename E>
static void wrapInfo(BoxInfo& b) {
	typedef AllocKind<typename W::allocator_type> AK;
	b.wrapper = true; b.pocca = AK::pocca; b.pocma = AK::pocma; b.pocs = AK::pocs; b.empty = AK::empty; b.sel = AK::sel; b.stateful = AK::stateful;
	b.trivial = ElemInfo<E>::trivial; b.movable = ElemInfo<E>::movable; b.counted = !ElemInfo<E>::trivial;
}

// common part of the wrapper adapters: W is the wrapper, Self supplies nested-container access
template<typename W, typename Self>
struct WrapBase {
	typedef W C;
	typedef typename W::allocator_type A;
	typedef AllocKind<A> AK;
	static void create(std::optional<C>& o, int mgr) { o.emplace(AK::make(mgr)); }
	static void copyM(std::optional<C>& o, const C& src, int mgr) { o.emplace(src, AK::make(mgr)); }
	static void moveA(std::optional<C>& o, C&& src, int mgr) { o.emplace(std::move(src), AK::make(mgr)); }
	static void swap(C& a, C& b) { a.swap(b); }
	static unsigned clear(C& c, unsigned) { c.clear(); return (unsigned)Self::state(c).cells.size(); }
};

template<typename E, typename A>
struct VectorAd : WrapBase<momo::stdish::vector<E, A>, VectorAd<E, A>> {
	typedef momo::stdish::vector<E, A> C;
	static BoxInfo info() { BoxInfo b; b.kind = "array"; b.ordered = true; b.exactMoves = true; b.reusableNull = true; b.clearKeepModes = 1; wrapInfo<C, E>(b); return b; }
	static void add(C& c, uint32_t e) { c.push_back(ElemInfo<E>::make(e)); }
	static bool del(C& c, uint32_t e) { for (auto it = c.begin(); it != c.end(); ++it) if (idOf(*it) == e) { c.erase(it); return true; } return false; }
	static void special(C& c, Rng& rng, std::vector<uint32_t>& ref, uint32_t&) {
		if (rng.chance(1, 2)) c.reserve(c.size() + 1 + rng.below(50)); else { size_t k = rng.below(c.size() + 1); c.resize(c.size() - k); ref.resize(ref.size() - k); }
	}
	static ObjState state(const C& c) {
		ObjState st; st.mgr = AllocKind<A>::id(c.get_allocator()); st.count = c.size();
		std::vector<uint32_t> items; for (auto& x : c) items.push_back(idOf(x));
		const auto& arr = c.get_nested_container();
		if (arr.mData.mItems != nullptr) { st.cap = c.capacity(); st.cells.push_back(items); st.root = arr.mData.mItems; } else st.inl = items;
		return st;
	}
};

template<typename E, typename A, bool multi>
struct SetAd : WrapBase<typename std::conditional<multi, momo::stdish::multiset<E, std::less<E>, A>, momo::stdish::set<E, std::less<E>, A>>::type, SetAd<E, A, multi>> {
	typedef typename std::conditional<multi, momo::stdish::multiset<E, std::less<E>, A>, momo::stdish::set<E, std::less<E>, A>>::type C;
	typedef typename C::nested_container_type TS;
	static BoxInfo info() { BoxInfo b; b.kind = "tree"; b.crew = CrewIsPtr<typename TS::Crew>::value; b.ordered = false; b.reusableNull = !b.crew; b.clearKeepModes = 1; wrapInfo<C, E>(b); return b; }
	static void add(C& c, uint32_t e) { c.insert(ElemInfo<E>::make(e)); }
	static bool del(C& c, uint32_t e) { return c.erase(ElemInfo<E>::make(e)) > 0; }
	static void special(C& c, Rng& rng, std::vector<uint32_t>& ref, uint32_t&) {
		std::vector<uint32_t> keep; for (uint32_t e : ref) { if (rng.chance(2, 3)) c.erase(ElemInfo<E>::make(e)); else keep.push_back(e); } ref = keep;
	}
	static ObjState state(const C& c) {
		ObjState st; st.count = c.size(); const TS& ts = c.get_nested_container();
		st.mgr = crewNull(ts.mCrew) ? -1 : AllocKind<A>::id(c.get_allocator());
		treeState(ts, st, [](const E& item, std::vector<uint32_t>& cell) { cell.push_back(idOf(item)); });
		return st;
	}
};

template<typename V, template<typename> class AT>
struct MapAd : WrapBase<momo::stdish::map<uint32_t, V, std::less<uint32_t>, AT<std::pair<const uint32_t, V>>>, MapAd<V, AT>> {
	typedef AT<std::pair<const uint32_t, V>> A;
	typedef momo::stdish::map<uint32_t, V, std::less<uint32_t>, A> C;
	typedef typename C::nested_container_type TM;
	typedef typename TM::TreeSet TS;
	static BoxInfo info() { BoxInfo b; b.kind = "tree"; b.crew = CrewIsPtr<typename TS::Crew>::value; b.ordered = false; b.reusableNull = !b.crew; b.clearKeepModes = 1; wrapInfo<C, V>(b); return b; }
	static void add(C& c, uint32_t e) { c.emplace(e, ElemInfo<V>::make(e)); }
	static bool del(C& c, uint32_t e) { return c.erase(e) > 0; }
	static void special(C& c, Rng& rng, std::vector<uint32_t>& ref, uint32_t&) {
		std::vector<uint32_t> keep; for (uint32_t e : ref) { if (rng.chance(2, 3)) c.erase(e); else keep.push_back(e); } ref = keep;
	}
	static ObjState state(const C& c) {
		ObjState st; st.count = c.size(); const TS& ts = c.get_nested_container().mTreeSet;
		st.mgr = crewNull(ts.mCrew) ? -1 : AllocKind<A>::id(c.get_allocator());
		treeState(ts, st, [](const typename TS::Item& item, std::vector<uint32_t>& cell) { cell.push_back(idOf(*item.GetValuePtr())); });
		return st;
	}
};

template<typename E, typename A>
struct USetAd : WrapBase<momo::stdish::unordered_set<E, IdHash, std::equal_to<E>, A>, USetAd<E, A>> {
	typedef momo::stdish::unordered_set<E, IdHash, std::equal_to<E>, A> C;
	typedef typename C::nested_container_type HS;
	static BoxInfo info() {
		BoxInfo b; b.kind = "hash"; b.crew = CrewIsPtr<typename HS::Crew>::value; b.ordered = false; b.reusableNull = !b.crew; b.clearKeepModes = 1; wrapInfo<C, E>(b);
		b.exactCopies = ElemInfo<E>::movable; return b;
	}
	static void add(C& c, uint32_t e) { c.insert(ElemInfo<E>::make(e)); }
	static bool del(C& c, uint32_t e) { return c.erase(ElemInfo<E>::make(e)) > 0; }
	static void special(C& c, Rng&, std::vector<uint32_t>&, uint32_t&) { c.reserve(c.size() * 3 + 20); }
	static ObjState state(const C& c) {
		ObjState st; st.count = c.size(); const HS& hs = c.get_nested_container();
		st.mgr = crewNull(hs.mCrew) ? -1 : AllocKind<A>::id(c.get_allocator());
		hashCells(hs, st, [](const E& item, std::vector<uint32_t>& cell) { cell.push_back(idOf(item)); });
		return st;
	}
};

template<typename V, template<typename> class AT>
struct UMapAd : WrapBase<momo::stdish::unordered_map<uint32_t, V, IdHash, std::equal_to<uint32_t>, AT<std::pair<const uint32_t, V>>>, UMapAd<V, AT>> {
	typedef AT<std::pair<const uint32_t, V>> A;
	typedef momo::stdish::unordered_map<uint32_t, V, IdHash, std::equal_to<uint32_t>, A> C;
	typedef typename C::nested_container_type HM;
	typedef typename HM::HashSet HS;
	static BoxInfo info() { BoxInfo b; b.kind = "hash"; b.crew = CrewIsPtr<typename HS::Crew>::value; b.ordered = false; b.reusableNull = !b.crew; b.clearKeepModes = 1; wrapInfo<C, V>(b); return b; }
	static void add(C& c, uint32_t e) { c.emplace(e, ElemInfo<V>::make(e)); }
	static bool del(C& c, uint32_t e) { return c.erase(e) > 0; }
	static void special(C& c, Rng&, std::vector<uint32_t>&, uint32_t&) { c.reserve(c.size() * 3 + 20); }
	static ObjState state(const C& c) {
		ObjState st; st.count = c.size(); const HS& hs = c.get_nested_container().mHashSet;
		st.mgr = crewNull(hs.mCrew) ? -1 : AllocKind<A>::id(c.get_allocator());
		hashCells(hs, st, [](const typename HS::Item& item, std::vector<uint32_t>& cell) { cell.push_back(idOf(*item.GetValuePtr())); });
		return st;
	}
};

template<typename V, template<typename> class AT>
struct UMultiMapAd : WrapBase<momo::stdish::unordered_multimap<uint32_t, V, IdHash, std::equal_to<uint32_t>, AT<std::pair<const uint32_t, V>>>, UMultiMapAd<V, AT>> {
	typedef AT<std::pair<const uint32_t, V>> A;
	typedef momo::stdish::unordered_multimap<uint32_t, V, IdHash, std::equal_to<uint32_t>, A> C;
	typedef typename C::nested_container_type HMM;
	typedef typename HMM::HashMap::HashSet HS;
	static uint32_t keyOf(uint32_t e) { return e % 5 + 1; }
	static BoxInfo info() {
		BoxInfo b; b.kind = "hash"; b.crew = CrewIsPtr<typename HS::Crew>::value; b.aux = 1; b.ordered = false; b.reusableNull = false; b.multimap = true; b.clearKeepModes = 1;
		wrapInfo<C, V>(b); return b;
	}
	static void add(C& c, uint32_t e) { c.emplace(keyOf(e), ElemInfo<V>::make(e)); }
	static bool del(C& c, uint32_t e) {
		if (e >= 1000000) return false;
		auto r = c.equal_range(keyOf(e));
		for (auto it = r.first; it != r.second; ++it) if (idOf(it->second) == e) { c.erase(it); return true; }
		return false;
	}
	static void special(C& c, Rng& rng, std::vector<uint32_t>&, uint32_t&) { c.erase((uint32_t)rng.below(5) + 1); }
	static ObjState state(const C& c) {
		ObjState st; const HS& hs = c.get_nested_container().mHashMap.mHashSet;
		st.mgr = crewNull(hs.mCrew) ? -1 : AllocKind<A>::id(c.get_allocator());
		hashCells(hs, st, [](const typename HS::Item& item, std::vector<uint32_t>& cell) {
			const auto& va = *item.GetValuePtr(); auto bounds = va.GetBounds();
			if (bounds.GetCount() == 0) cell.push_back(1000000 + *item.GetKeyPtr());
			for (auto& v : bounds) cell.push_back(idOf(v));
		});
		size_t n = 0; for (auto& cell : st.cells) n += cell.size(); st.count = n;
		return st;
	}
};

template<typename T> using A000 = SA<T, false, false, false>;
template<typename T> using A100 = SA<T, true, false, false>;
template<typename T> using A010 = SA<T, false, true, false>;
template<typename T> using A001 = SA<T, false, false, true>;
template<typename T> using A110 = SA<T, true, true, false>;
template<typename T> using A101 = SA<T, true, false, true>;
template<typename T> using A011 = SA<T, false, true, true>;
template<typename T> using A111 = SA<T, true, true, true>;

template<typename Ad>
static void runW(Ctx& c, Rng& rng, const char* name, unsigned runs, unsigned nOps) {
	Box<Ad> box; box.bi.name = std::string(name) + "_" + AllocKind<typename Ad::C::allocator_type>::tag();
	runBox(c, rng, box, runs, nOps);
}
#define ALL_TRAITS(RUN) RUN(A000) RUN(A100) RUN(A010) RUN(A001) RUN(A110) RUN(A101) RUN(A011) RUN(A111) RUN(SL)

template<typename Ad>
static void runAd(Ctx& c, Rng& rng, const char* name, unsigned runs, unsigned nOps) {
	Box<Ad> box; box.bi.name = name;
	runBox(c, rng, box, runs, nOps);
}

#if VF_PART == 6
// ================================================================ property-level value semantics without model lines
// DataSelection / DataConstSelection (copy, move, both assignments, Swap, self forms, the conversions to ConstSelection),
// hash containers over the string specialisation of HashTraits (default-constructed traits), InsertResult.
#include <string_view>

static std::string ptrList(const std::vector<const void*>& v, const std::vector<const void*>& base) {
	// raws printed as their position in `base` (the rows of both tables in creation order), never as addresses
	std::string r = "[";
	for (size_t i = 0; i < v.size(); ++i) { if (i) r += ' '; auto it = std::find(base.begin(), base.end(), v[i]); r += it == base.end() ? std::string("?") : std::to_string(it - base.begin()); }
	return r + "]";
}

struct XData14 : public momo::DataSettings<true> {
	static const momo::CheckMode checkMode = momo::CheckMode::exception;
	static const momo::ExtraCheckMode extraCheckMode = momo::ExtraCheckMode::nothing;
	static const bool checkVersion = true;
};

template<typename MM>
struct SelCases {
	typedef momo::DataColumnList<momo::DataColumnTraits<>, MM, momo::DataItemTraits<MM>, XData14> CL;
	typedef momo::DataTable<CL> Table;
	typedef typename Table::Selection Sel;
	typedef typename Table::ConstSelection CSel;
	typedef typename Table::ConstRowReference CRef;
	Ctx& c; Rng& rng;
	std::optional<Table> tab[2];
	std::vector<const void*> base;      // every raw of both tables
	static const int NKIND = 4;         // 0 empty, 1 three rows (inside the internal capacity 4), 2 every third row, 3 all rows

	SelCases(Ctx& c_, Rng& r_) : c(c_), rng(r_) {}
	void tables() {
		tab[0].reset(); tab[1].reset(); base.clear();
		for (int t = 0; t < 2; ++t) {
			CL cl(MgrId<MM>::make(t + 1)); cl.Add(vfIntCol); tab[t].emplace(std::move(cl));
			int n = t ? 9 : 14;
			for (int i = 0; i < n; ++i) tab[t]->AddRow(vfIntCol = t * 100 + i);
			for (size_t i = 0; i < tab[t]->GetCount(); ++i) base.push_back(tab[t]->mRaws[i]);
		}
	}
	static bool pick(int kind, int v) { int x = v % 100; return kind == 3 || (kind == 2 && x % 3 == 0) || (kind == 1 && x >= 2 && x < 5); }
	Sel make(int t, int kind, Sel*) { if (kind == 0) return tab[t]->SelectEmpty(); return tab[t]->Select([kind](CRef r) { return pick(kind, r[vfIntCol]); }); }
	CSel make(int t, int kind, CSel*) { const Table& ct = *tab[t]; if (kind == 0) return ct.SelectEmpty(); return ct.Select([kind](CRef r) { return pick(kind, r[vfIntCol]); }); }

	// everything a selection consists of; `block` = its heap block (null while the raws sit in the internal buffer)
	struct St {
		std::vector<const void*> raws; std::vector<int> vals; const void* cl = nullptr; const void* ver = nullptr; size_t verVal = 0;
		const void* block = nullptr; size_t count = 0; int mgr = 0;
		bool same(const St& x) const { return raws == x.raws && vals == x.vals && cl == x.cl && ver == x.ver && verVal == x.verVal && count == x.count; }
	};
	template<typename S> static St get(const S& s) {
		St x; x.count = s.GetCount(); x.cl = &s.GetColumnList(); x.mgr = MgrId<MM>::get(s.GetMemManager());
		size_t off = s.GetColumnList().GetOffset(vfIntCol);
		for (size_t i = 0; i < s.mRaws.GetCount(); ++i) { x.raws.push_back(s.mRaws[i]); x.vals.push_back(CL::template GetByOffset<const int>(s.mRaws[i], off)); }
		const auto& vk = (const typename S::VersionKeeper&)s; /* private base: only a C-style cast reaches it */ x.ver = vk.mContainerVersion; x.verVal = vk.mVersion;
		x.block = (!s.mRaws.mData.pvIsInternal() && s.mRaws.mData.mItems != nullptr) ? (const void*)s.mRaws.mData.mItems : nullptr;
		return x;
	}
	std::string show(const St& x) { return fmt("{rows %s of table %s, keeper %s/%zu, manager %d, %s}", ptrList(x.raws, base).c_str(), which(x.cl), whichVer(x.ver), x.verVal, x.mgr, x.block ? "heap block" : "internal buffer"); }
	const char* which(const void* cl) { return cl == &tab[0]->GetColumnList() ? "0" : cl == &tab[1]->GetColumnList() ? "1" : "?"; }
	const char* whichVer(const void* v) { return v == &tab[0]->mCrew.GetRemoveVersion() ? "table 0" : v == &tab[1]->mCrew.GetRemoveVersion() ? "table 1" : v == nullptr ? "null" : "?"; }

	std::string what;
	void expect(bool ok, const char* claim, const St& got, const St& exp) {
		c.stats.evaluations++;
		if (!ok) c.fail("C14 selection %s: %s: got %s, expected %s", what.c_str(), claim, show(got).c_str(), show(exp).c_str());
	}
	// reads every row through the public interface (operator[] + column access: the version check and, under ASan, the memory)
	template<typename S> bool readable(const S& s, const St& exp) {
		try { for (size_t i = 0; i < s.GetCount(); ++i) if (s[i][vfIntCol] != exp.vals[i]) return false; size_t n = 0; for (auto r : s) { (void)r; ++n; } return n == exp.count; }
		catch (const std::invalid_argument&) { return false; }
	}
	// "empty, destructible, clearable, swappable and assignable"
	template<typename S> void sourceAfterMove(S& src, const S& other, const char* op) {
		c.stats.evaluations++;
		if (src.GetCount() != 0 || !src.IsEmpty() || src.GetBegin() != src.GetEnd()) c.fail("C14 selection %s: source of %s is not empty (count %zu)", what.c_str(), op, src.GetCount());
		src.Clear();
		{ S t(other); t.Swap(src); St a = get(src), b = get(other); expect(a.same(b) && t.GetCount() == 0, "moved-from selection swapped with a copy", a, b); }
		src = other;
		St a = get(src), b = get(other); expect(a.same(b) && readable(src, b), "moved-from selection assigned", a, b);
	}

	template<typename S> void pairCases(const char* sname) {
		S* tag = nullptr;
		for (int ta = 0; ta < 2; ++ta) for (int ka = 0; ka < NKIND; ++ka) {
			std::string an = fmt("%s a = table %d kind %d", sname, ta, ka);
			// ---- copy construction: equal, deep, independent in both directions, either side may die first
			{
				what = an + "; S b(a)";
				S a = make(ta, ka, tag); St sa = get(a);
				{
					S b(a); St sb = get(b);
					expect(sb.same(sa) && sb.mgr == sa.mgr + MgrId<MM>::sel, "copy equals the source", sb, sa);
					expect(get(a).same(sa) && get(a).block == sa.block, "source unchanged by the copy", get(a), sa);
					expect(sb.block == nullptr || sb.block != sa.block, "copy owns its own block", sb, sa);
					expect(readable(b, sa), "copy readable", sb, sa);
					mutate(b, tag); expect(get(a).same(sa) && readable(a, sa), "source unchanged after the copy was mutated", get(a), sa);
				}
				expect(get(a).same(sa) && readable(a, sa), "source intact after the copy died", get(a), sa);
				std::optional<S> o; o.emplace(make(ta, ka, tag)); S b2(*o); St s2 = get(*o);
				mutate(*o, tag); expect(get(b2).same(s2), "copy unchanged after the source was mutated", get(b2), s2);
				o.reset(); expect(get(b2).same(s2) && readable(b2, s2), "copy intact after the source died", get(b2), s2);
				c.stats.count("sel.copy_ctor");
			}
			// ---- move construction: exactly the former object (same block), source empty and reusable
			{
				what = an + "; S m(std::move(a))";
				S a = make(ta, ka, tag); St sa = get(a);
				S m(std::move(a)); St sm = get(m);
				expect(sm.same(sa) && sm.block == sa.block && sm.mgr == sa.mgr, "target of the move is the former source", sm, sa);
				expect(readable(m, sa), "target readable", sm, sa);
				sourceAfterMove(a, m, "move construction");
				c.stats.count("sel.move_ctor");
			}
			// ---- self forms
			{
				what = an + "; self assignment / self swap";
				S a = make(ta, ka, tag); St sa = get(a); S& r = a;
				a = r; expect(get(a).same(sa) && get(a).block == sa.block && get(a).mgr == sa.mgr, "a = a changes nothing", get(a), sa);
				a = std::move(r); expect(get(a).same(sa) && get(a).block == sa.block && get(a).mgr == sa.mgr, "a = std::move(a) changes nothing", get(a), sa);
				a.Swap(r); expect(get(a).same(sa) && get(a).block == sa.block && get(a).mgr == sa.mgr, "a.Swap(a) changes nothing", get(a), sa);
				swap(a, r); expect(get(a).same(sa) && get(a).block == sa.block, "swap(a, a) changes nothing", get(a), sa);
				expect(readable(a, sa), "readable after the self forms", get(a), sa);
				c.stats.count("sel.self_forms");
			}
			for (int tb = 0; tb < 2; ++tb) for (int kb = 0; kb < NKIND; ++kb) {
				std::string bn = fmt("; b = table %d kind %d", tb, kb);
				// ---- copy assignment
				{
					what = an + bn + "; a = b";
					S a = make(ta, ka, tag), b = make(tb, kb, tag); St sb = get(b);
					a = b; St sa = get(a);
					expect(sa.same(sb) && sa.mgr == sb.mgr + MgrId<MM>::sel, "target equals the source", sa, sb);
					expect(get(b).same(sb) && get(b).block == sb.block && get(b).mgr == sb.mgr, "source unchanged", get(b), sb);
					expect(sa.block == nullptr || sa.block != sb.block, "target owns its own block", sa, sb);
					mutate(a, tag); expect(get(b).same(sb) && readable(b, sb), "source unchanged after the target was mutated", get(b), sb);
					c.stats.count("sel.copy_assign");
				}
				// ---- move assignment
				{
					what = an + bn + "; a = std::move(b)";
					S a = make(ta, ka, tag), b = make(tb, kb, tag); St sb = get(b);
					a = std::move(b); St sa = get(a);
					expect(sa.same(sb) && sa.block == sb.block && sa.mgr == sb.mgr, "target is the former source", sa, sb);
					expect(readable(a, sb), "target readable", sa, sb);
					sourceAfterMove(b, a, "move assignment");
					c.stats.count("sel.move_assign");
				}
				// ---- swap: exact exchange, nothing allocated
				{
					what = an + bn + "; a.Swap(b)";
					S a = make(ta, ka, tag), b = make(tb, kb, tag); St sa = get(a), sb = get(b);
					unsigned long allocs = led().allocs;
					if (rng.below(2)) a.Swap(b); else swap(a, b);
					expect(get(a).same(sb) && get(a).block == sb.block && get(a).mgr == sb.mgr, "a holds the former b", get(a), sb);
					expect(get(b).same(sa) && get(b).block == sa.block && get(b).mgr == sa.mgr, "b holds the former a", get(b), sa);
					expect(readable(a, sb) && readable(b, sa), "both readable", get(a), sb);
					if (led().allocs != allocs) c.fail("C14 selection %s: Swap allocated %lu blocks", what.c_str(), led().allocs - allocs);
					a.Swap(b);
					expect(get(a).same(sa) && get(b).same(sb), "second Swap restores both", get(a), sa);
					c.stats.count("sel.swap");
				}
			}
		}
	}
	void mutate(Sel& s, Sel*) {
		switch (rng.below(4)) {
		case 0: s.Clear(); break;
		case 1: if (s.GetCount() > 0) s.Remove(0, 1); else s.Add((*tab[&s.GetColumnList() == &tab[0]->GetColumnList() ? 0 : 1])[0]); break;
		case 2: s.Add((*tab[&s.GetColumnList() == &tab[0]->GetColumnList() ? 0 : 1])[1]); break;
		default: s.Reserve(40); s.Sort([](CRef a, CRef b) { return a[vfIntCol] > b[vfIntCol]; }); if (s.GetCount() < 2) s.Clear(); break;
		}
	}
	void mutate(CSel& s, CSel*) {
		const Table& ct = *tab[&s.GetColumnList() == &tab[0]->GetColumnList() ? 0 : 1];
		switch (rng.below(3)) {
		case 0: s.Clear(); break;
		case 1: if (s.GetCount() > 0) s.Remove(0, 1); else s.Add(ct[0]); break;
		default: s.Add(ct[1]); break;
		}
	}

	// the version keeper travels with the rows: after Swap / assignment a selection is invalidated by a removal in the table its
	// rows now come from, and by nothing else
	template<typename S> void keeperCases(const char* sname) {
		S* tag = nullptr;
		for (int form = 0; form < 4; ++form) for (int victim = 0; victim < 2; ++victim) {
			tables();
			static const char* forms[4] = { "a.Swap(b)", "a = b", "a = std::move(b)", "S a2(b) (a2 replaces a)" };
			what = fmt("%s a = table 0 all rows; b = table 1 all rows; %s; then table %d removes its last row", sname, forms[form], victim);
			S a = make(0, 3, tag), b = make(1, 3, tag); St sa = get(a), sb = get(b);
			std::optional<S> a2;
			switch (form) { case 0: a.Swap(b); break; case 1: a = b; break; case 2: a = std::move(b); break; default: a2.emplace(b); break; }
			S& x = form == 3 ? *a2 : a;             // holds rows of table 1 now
			tab[victim]->Remove(tab[victim]->GetCount() - 1);
			bool rx = readable(x, sb);
			c.stats.evaluations++;
			if (rx != (victim != 1)) c.fail("C14 selection %s: the selection that holds the rows of table 1 is %s", what.c_str(), rx ? "still readable (its version keeper did not travel with the rows)" : "rejected although table 1 was not modified");
			if (form == 0) {                        // b holds rows of table 0
				bool rb = readable(b, sa);
				c.stats.evaluations++;
				if (rb != (victim != 0)) c.fail("C14 selection %s: the selection that holds the rows of table 0 is %s", what.c_str(), rb ? "still readable (its version keeper did not travel with the rows)" : "rejected although table 0 was not modified");
			}
			c.stats.count("sel.keeper_cases");
		}
		tables();
	}

	// conversions Selection -> ConstSelection: `const&` copies, `&&` steals
	void conversions() {
		Sel* tag = nullptr;
		for (int t = 0; t < 2; ++t) for (int k = 0; k < NKIND; ++k) {
			what = fmt("ConstSelection from Selection of table %d kind %d", t, k);
			Sel a = make(t, k, tag); St sa = get(a);
			{ CSel cs = static_cast<const Sel&>(a); St sc = get(cs);
			  expect(sc.same(sa) && (sc.block == nullptr || sc.block != sa.block), "conversion from const& copies", sc, sa);
			  expect(get(a).same(sa) && get(a).block == sa.block, "source unchanged by the conversion", get(a), sa);
			  cs.Clear(); expect(get(a).same(sa) && readable(a, sa), "source unchanged after the converted copy was cleared", get(a), sa); }
			CSel cm = std::move(a); St sm = get(cm);
			expect(sm.same(sa) && sm.block == sa.block, "conversion from && takes the rows over", sm, sa);
			expect(readable(cm, sa), "converted selection readable", sm, sa);
			c.stats.evaluations++;
			if (a.GetCount() != 0) c.fail("C14 selection %s: source of the && conversion still holds %zu rows", what.c_str(), a.GetCount());
			c.stats.count("sel.conversions");
		}
	}
	void run() {
		tables();
		pairCases<Sel>("Selection"); pairCases<CSel>("ConstSelection");
		conversions();
		keeperCases<Sel>("Selection"); keeperCases<CSel>("ConstSelection");
		tab[0].reset(); tab[1].reset();
		if (led().bad) { c.fail("C14 ledger: selections: %s", led().badText.c_str()); led().bad = 0; led().badText.clear(); }
		if (!led().live.empty()) { c.fail("C14 leak: selections: %zu blocks (managers %s) outstanding after tables and selections died", led().live.size(), showSet(led().liveIds()).c_str()); led().live.clear(); }
		c.stats.nontrivial("selections");
	}
};

// ---- hash containers whose HashTraits is the string specialisation (HashTraits.h:175-186), default-constructed
template<typename MM>
static void stringTraitsCases(Ctx& c, Rng& rng) {
	typedef momo::HashTraits<std::string> Traits;
	typedef momo::HashSet<std::string, Traits, MM> Set;
	typedef momo::HashMap<std::string, uint32_t, Traits, MM> Map;
	auto key = [](uint32_t i) { return "key-" + std::to_string(i) + std::string(i % 7, 'x'); };   // some beyond the small-string buffer
	auto setIs = [&](const Set& s, const std::set<std::string>& ref, const char* what) {
		c.stats.evaluations++;
		std::set<std::string> got; for (const std::string& k : s) got.insert(k);
		if (got != ref || s.GetCount() != ref.size()) { c.fail("C14 string-traits HashSet: %s: holds %zu keys, expected %zu", what, s.GetCount(), ref.size()); return; }
		for (const std::string& k : ref) {
			// the specialisation accepts std::string, std::string_view and const char* arguments
			if (!s.ContainsKey(k) || !s.ContainsKey(std::string_view(k)) || !s.ContainsKey(k.c_str())) { c.fail("C14 string-traits HashSet: %s: key %s not found by string / string_view / const char*", what, k.c_str()); return; }
		}
		if (s.ContainsKey(std::string_view("absent")) || s.ContainsKey("absent")) c.fail("C14 string-traits HashSet: %s: absent key found", what);
	};
	for (unsigned n : { 0u, 1u, 5u, 40u, 300u }) {
		std::set<std::string> ref;
		Set a{ Traits(), MgrId<MM>::make(1) };
		for (unsigned i = 0; i < n; ++i) { a.Insert(key(i)); ref.insert(key(i)); }
		setIs(a, ref, "filled");
		{ Set b(a); setIs(b, ref, "copy"); b.Insert("extra"); b.Remove(key(0)); setIs(a, ref, "source after the copy was mutated"); }
		setIs(a, ref, "source after the copy died");
		{ std::optional<Set> o; o.emplace(a); Set b(*o); o->Clear(); setIs(b, ref, "copy after the source was cleared"); o.reset(); setIs(b, ref, "copy after the source died"); }
		{ Set b(a); Set m(std::move(b)); setIs(m, ref, "move-constructed"); c.stats.evaluations++; if (b.GetCount() != 0) c.fail("C14 string-traits HashSet: moved-from source holds %zu keys", b.GetCount()); b.Clear(); b = m; setIs(b, ref, "moved-from source assigned again"); }
		{ Set b{ Traits(), MgrId<MM>::make(2) }; b.Insert("only-b"); std::set<std::string> rb{ "only-b" }; Set a2(a);
		  a2.Swap(b); setIs(a2, rb, "Swap: a holds the former b"); setIs(b, ref, "Swap: b holds the former a");
		  Set& r = b; b = r; setIs(b, ref, "self copy assignment"); b = std::move(r); setIs(b, ref, "self move assignment"); b.Swap(r); setIs(b, ref, "self swap");
		  a2 = b; setIs(a2, ref, "copy assignment"); setIs(b, ref, "source of the copy assignment");
		  Set d{ Traits(), MgrId<MM>::make(3) }; d = std::move(a2); setIs(d, ref, "move assignment"); c.stats.evaluations++; if (a2.GetCount() != 0) c.fail("C14 string-traits HashSet: source of the move assignment holds %zu keys", a2.GetCount()); }
		// map: values must travel with their keys
		Map m1{ Traits(), MgrId<MM>::make(4) }; std::map<std::string, uint32_t> mref;
		for (unsigned i = 0; i < n; ++i) { m1.Insert(key(i), i * 3 + 1); mref[key(i)] = i * 3 + 1; }
		auto mapIs = [&](const Map& m, const std::map<std::string, uint32_t>& r, const char* what) {
			c.stats.evaluations++;
			if (m.GetCount() != r.size()) { c.fail("C14 string-traits HashMap: %s: holds %zu pairs, expected %zu", what, m.GetCount(), r.size()); return; }
			for (auto& kv : r) { auto p = m.Find(std::string_view(kv.first)); if (!p || p->value != kv.second) { c.fail("C14 string-traits HashMap: %s: key %s missing or wrong value", what, kv.first.c_str()); return; } }
		};
		{ Map m2(m1); mapIs(m2, mref, "copy"); m2[std::string("extra")] = 7; m2.Remove(key(0)); mapIs(m1, mref, "source after the copy was mutated");
		  Map m3(std::move(m2)); c.stats.evaluations++; if (m2.GetCount() != 0) c.fail("C14 string-traits HashMap: moved-from source holds %zu pairs", m2.GetCount());
		  m2 = m1; mapIs(m2, mref, "moved-from source assigned again"); m3.Swap(m2); mapIs(m3, mref, "Swap"); }
		mapIs(m1, mref, "source after everything else died");
		c.stats.count("string_traits.sizes"); c.stats.nontrivial(fmt("string_traits#%u", n));
		(void)rng;
	}
	if (led().bad) { c.fail("C14 ledger: string-traits containers: %s", led().badText.c_str()); led().bad = 0; led().badText.clear(); }
	if (!led().live.empty()) { c.fail("C14 leak: string-traits containers: %zu blocks outstanding", led().live.size()); led().live.clear(); }
}

// ---- InsertResult (IteratorUtility.h:131-172): user-written copy constructor / copy assignment / default constructor
template<typename C, typename Ins, typename Deref>
static void insertResultCase(Ctx& c, const char* name, Ins ins, Deref keyAt) {
	typedef typename C::InsertResult IR;
	C cont;
	for (uint32_t k : { 40u, 10u, 30u }) ins(cont, k);
	IR r1 = ins(cont, 20);                   // inserted
	IR r0 = ins(cont, 30);                   // already there
	auto same = [&](const IR& x, const IR& y) { return x.position == y.position && x.inserted == y.inserted; };
	auto chk = [&](bool ok, const char* what) { c.stats.evaluations++; if (!ok) c.fail("C14 InsertResult of %s: %s", name, what); };
	chk(r1.inserted && keyAt(r1.position) == 20 && !r0.inserted && keyAt(r0.position) == 30, "Insert reports (position of the key, inserted)");
	IR d;                                    // default: empty position, not inserted
	chk(!d.inserted && d.position == decltype(d.position)(), "default-constructed result is (empty position, false)");
	IR c1(r1), c0(r0);
	chk(same(c1, r1) && same(c0, r0) && keyAt(c1.position) == 20 && keyAt(c0.position) == 30, "copy construction copies position and flag");
	chk(same(r1, c1) && r1.inserted && !r0.inserted, "copy construction leaves the source unchanged");
	d = r1; chk(same(d, r1) && keyAt(d.position) == 20, "copy assignment copies position and flag (inserted = true)");
	d = r0; chk(same(d, r0) && keyAt(d.position) == 30 && !d.inserted, "copy assignment copies position and flag (inserted = false)");
	chk(same(r0, c0) && same(r1, c1), "copy assignment leaves the source unchanged");
	IR& self = d; d = self; chk(same(d, r0), "self assignment changes nothing");
	c1 = IR(); chk(!c1.inserted && c1.position == decltype(d.position)() && same(r1, IR(r1)), "assignment from a default-constructed result; copies are independent");
	c.stats.count("insert_result.cases"); c.stats.nontrivial(std::string("insert_result#") + name);
}
#endif

int main(int argc, char** argv)
{
	Ctx c = parseArgs(argc, argv);
	Rng rng(c.seed * 0x1000 + 14 + VF_PART * 100);
	unsigned runs = c.thorough ? 40 : 8, nOps = c.thorough ? 60 : 40;
	typedef momo::MemManagerStd<SA<char, false, false, false>> SAMM;
	(void)runs; (void)nOps;
#if VF_PART == 0
	runAd<ArrayAd<ElemNM, SAMM, 0>>(c, rng, "array_nm_sa_i0", runs, nOps);
	runAd<ArrayAd<ElemNM, IdMM, 4>>(c, rng, "array_nm_id_i4", runs, nOps);
	runAd<ArrayAd<uint32_t, SAMM, 3>>(c, rng, "array_u32_sa_i3", runs, nOps);
	runAd<ArrayAd<ElemCO, IdMM, 0>>(c, rng, "array_co_id_i0", runs, nOps);
	runAd<ArrayAd<ElemNM, SlMM, 2>>(c, rng, "array_nm_sl_i2", runs, nOps);
	runAd<SegAd<ElemNM, SAMM, momo::SegmentedArrayItemCountFunc::cnst, 2>>(c, rng, "seg_nm_sa_cnst2", runs, nOps);
	runAd<SegAd<ElemNM, IdMM, momo::SegmentedArrayItemCountFunc::sqrt, 1>>(c, rng, "seg_nm_id_sqrt1", runs, nOps);
	runAd<SegAd<ElemCO, SlMM, momo::SegmentedArrayItemCountFunc::sqrt, 0>>(c, rng, "seg_co_sl_sqrt0", runs, nOps);
	{ Suite su(c, "assign_path", "model val kind=array"); allPaths<15>(c, su); }
	poolCase<IdMM>(c, rng, "MemPool<IdMM>");
	poolCase<SAMM>(c, rng, "MemPool<MemManagerStd<SA>>");
#elif VF_PART == 1
	runAd<HashSetAd<ElemNM, SAMM, momo::HashBucketDefault, momo::HashSetSettings>>(c, rng, "hset_nm_sa_def", runs, nOps);
	runAd<HashSetAd<uint32_t, SlMM, momo::HashBucketDefault, NoVerSet>>(c, rng, "hset_u32_sl_inline", runs, nOps);
	runAd<HashSetAd<ElemCO, IdMM, momo::HashBucketLimP4<2>, momo::HashSetSettings>>(c, rng, "hset_co_id_limp4", runs, nOps);
	runAd<HashSetAd<ElemCO, SAMM, momo::HashBucketOpen8, momo::HashSetSettings>>(c, rng, "hset_co_sa_open8", runs, nOps);
	runAd<HashSetAd<ElemNM, IdMM, momo::HashBucketOpen2N2<>, momo::HashSetSettings>>(c, rng, "hset_nm_id_open2n2", runs, nOps);
	runAd<HashMapAd<ElemNM, SAMM, momo::HashBucketDefault>>(c, rng, "hmap_nm_sa", runs, nOps);
	runAd<MultiMapAd<ElemNM, SAMM>>(c, rng, "hmmap_nm_sa", runs, nOps);
	runAd<MultiMapAd<ElemNM, SlMM>>(c, rng, "hmmap_nm_sl", runs, nOps);
#elif VF_PART == 2
	typedef momo::TreeNode<4, 2, momo::MemPoolParams<2, 1>> TN4;
	typedef momo::TreeNode<2, 1, momo::MemPoolParams<1, 0>> TN2;
	runAd<TreeSetAd<ElemNM, SAMM, TN4, momo::TreeSetSettings>>(c, rng, "tset_nm_sa_n4", runs, nOps);
	runAd<TreeSetAd<uint32_t, SlMM, TN2, NoVerTree>>(c, rng, "tset_u32_sl_inline_n2", runs, nOps);
	runAd<TreeSetAd<ElemCO, IdMM, momo::TreeNodeDefault, momo::TreeSetSettings>>(c, rng, "tset_co_id_def", runs, nOps);
	runAd<TreeMapAd<ElemNM, IdMM, TN4>>(c, rng, "tmap_nm_id_n4", runs, nOps);
	runAd<TableAd<SAMM>>(c, rng, "table_sa", runs, nOps);
	probeF26<SAMM>(c);
	probeF26b<SAMM>(c);
	runAd<TableAd<SlMM>>(c, rng, "table_sl", runs, nOps);
#elif VF_PART == 3
	unsigned wr = c.thorough ? 16 : 3;
#define RUN(AT) runW<VectorAd<ElemNM, AT<ElemNM>>>(c, rng, "vector_nm", wr, nOps);
	ALL_TRAITS(RUN)
#undef RUN
	runW<VectorAd<ElemCO, A010<ElemCO>>>(c, rng, "vector_co", wr, nOps);
	runW<VectorAd<uint32_t, A001<uint32_t>>>(c, rng, "vector_u32", wr, nOps);
#define RUN(AT) runW<SetAd<ElemNM, AT<ElemNM>, false>>(c, rng, "set_nm", wr, nOps);
	ALL_TRAITS(RUN)
#undef RUN
	runW<SetAd<ElemCO, A000<ElemCO>, true>>(c, rng, "multiset_co", wr, nOps);
#elif VF_PART == 4
	unsigned wr = c.thorough ? 16 : 3;
#define RUN(AT) runW<MapAd<ElemNM, AT>>(c, rng, "map_nm", wr, nOps);
	ALL_TRAITS(RUN)
#undef RUN
#define RUN(AT) runW<USetAd<ElemNM, AT<ElemNM>>>(c, rng, "uset_nm", wr, nOps);
	ALL_TRAITS(RUN)
#undef RUN
	runW<USetAd<ElemCO, A010<ElemCO>>>(c, rng, "uset_co", wr, nOps);
#elif VF_PART == 5
	unsigned wr = c.thorough ? 16 : 3;
#define RUN(AT) runW<UMapAd<ElemNM, AT>>(c, rng, "umap_nm", wr, nOps);
	ALL_TRAITS(RUN)
#undef RUN
#define RUN(AT) runW<UMultiMapAd<ElemNM, AT>>(c, rng, "ummap_nm", wr, nOps);
	ALL_TRAITS(RUN)
#undef RUN
#elif VF_PART == 6
	{ SelCases<SAMM> sc(c, rng); sc.run(); }
	{ SelCases<SlMM> sc(c, rng); sc.run(); }
	stringTraitsCases<SAMM>(c, rng);
	{
		typedef momo::HashSet<uint32_t> HS; typedef momo::HashMap<uint32_t, uint32_t> HM;
		typedef momo::TreeSet<uint32_t> TS; typedef momo::TreeMap<uint32_t, uint32_t> TM;
		insertResultCase<HS>(c, "HashSet", [](HS& s, uint32_t k) { return s.Insert(k); }, [](HS::ConstPosition p) { return *p; });
		insertResultCase<HM>(c, "HashMap", [](HM& m, uint32_t k) { return m.Insert(k, k + 1); }, [](HM::ConstPosition p) { return p->key; });
		insertResultCase<TS>(c, "TreeSet", [](TS& s, uint32_t k) { return s.Insert(k); }, [](TS::ConstIterator p) { return *p; });
		insertResultCase<TM>(c, "TreeMap", [](TM& m, uint32_t k) { return m.Insert(k, k + 1); }, [](TM::ConstIterator p) { return p->key; });
	}
#endif
	return c.finish();
}
