// C20 correspondence harness (std::multimap / std::multiset), part 3: std::map / set / multimap / multiset with momo's pool allocator against twins with
// std::allocator and against the Lean model (allocator level and container level).  See c20_alloc.h / c20_world.h.
#include "c20_world.h"

using namespace c20;

int main(int argc, char** argv)
{
	Ctx c = parseArgs(argc, argv);
	Rng rng(c.seed * 0x1000 + 26);
	arena().init(c); arena().rng = &rng; installCrashReporter();
	const unsigned steps = c.thorough ? 1500 : 500;
	const unsigned rounds = c.thorough ? 12 : 4;
	for (unsigned round = 0; round < rounds; ++round) {
		std::string r = fmt("r%u_", round);
		runTraced<KMap<int, int, true>, Cfg<22, 0>>(c, rng, r + "mmap_ii_a", steps);
		runTraced<KMap<int, std::string, true>, Cfg<23, 16>>(c, rng, r + "mmap_is_a", steps);
		runTraced<KSet<int, true>, Cfg<26, 1>>(c, rng, r + "mset_i_a", steps);
		runTraced<KSet<Al16, true>, Cfg<27, 16>>(c, rng, r + "mset_al16", steps);
		// the momo allocator itself, without the reporting shell
		runPlain<KSet<std::string, false>, Cfg<3, 0>>(c, rng, r + "set_s", steps);
		runPlain<KMap<int, int, true>, Cfg<1, 16>>(c, rng, r + "mmap_ii", steps);
	}
	dumpTracerStats(c);
	return c.finish();
}
