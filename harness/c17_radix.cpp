// C17 correspondence harness (2/2): momo::internal::RadixSorter<1..16> on 8/16/32/64-bit unsigned codes
// and on pointers.
//
// Every input is sorted twice by the real code: (a) as a native array (uint8_t/uint16_t/uint32_t/uint64_t or
// const char*) through the default RadixSorterCodeGetter and compared with std::sort (property-level oracle);
// (b) as an array of (code, id) records through a custom code getter, which makes the exact arrangement
// visible: the ids are compared with the model's arrangement cell by cell (model-level) and checked to be
// a sorted permutation (property-level).
#include "momo/RadixSorter.h"
#include "common/verif_common.h"

#include <algorithm>
#include <vector>
#include <string>
#include <type_traits>

#include <csignal>
#include <dlfcn.h>

using namespace vf;

// the case being executed, reported as a FAIL line (= concrete failing input) if a sanitizer or a signal kills the run
static std::string g_current;
static void reportCurrent() { printf("FAIL C17 aborted (sanitizer report / signal) while running: %s\n", g_current.c_str()); fflush(stdout); }
static void onSignal(int sig) { reportCurrent(); _Exit(1); }
static void installCrashReporter() {
	// g++ links libasan and libubsan as two runtimes, each with its own death callback: register with every one loaded
	typedef void (*SetCallback)(void (*)(void));
	for (const char* lib : { "libasan.so.8", "libasan.so.6", "libasan.so.5", "libubsan.so.1", "libtsan.so.2" })
		if (void* h = dlopen(lib, RTLD_NOLOAD | RTLD_NOW))
			if (SetCallback set = (SetCallback)dlsym(h, "__sanitizer_set_death_callback")) set(reportCurrent);
	std::signal(SIGSEGV, onSignal); std::signal(SIGABRT, onSignal); std::signal(SIGFPE, onSignal);
}

static uint64_t lcgNext(uint64_t x) { return x * 6364136223846793005ull + 1442695040888963407ull; }

// log of the iterSwapper calls: number of calls and an order-sensitive checksum of the (index1, index2) pairs
struct SwapLog { uint64_t n = 0, chk = 0; };
template<typename Iterator>
struct TraceSwapper {
	Iterator begin; SwapLog* log;
	void operator()(Iterator a, Iterator b) const {
		log->n++;
		log->chk = log->chk * 1000003ull + (uint64_t)(a - begin) * 65537ull + (uint64_t)(b - begin) + 1;
		std::iter_swap(a, b);
	}
};

template<typename U> struct Rec { U code; uint32_t id; };
template<typename U> struct RecGetter { U operator()(const Rec<U>* it) const noexcept { return it->code; } };

static std::string codesStr(const std::vector<uint64_t>& v, size_t maxn = 48) {
	std::string s = "[";
	for (size_t i = 0; i < v.size() && i < maxn; ++i) s += fmt(i ? " %llu" : "%llu", (unsigned long long)v[i]);
	if (v.size() > maxn) s += fmt(" ... (%zu codes)", v.size());
	return s + "]";
}

// runs the real sorter on `codes` (already masked to W bits); returns the ids in final order
template<size_t R, typename U, bool asPointer>
static std::vector<uint32_t> sortBoth(Ctx& c, const std::vector<uint64_t>& codes, unsigned W, const char* what, SwapLog& log)
{
	typedef momo::internal::RadixSorter<R> Sorter;
	size_t n = codes.size();
	g_current = fmt("RadixSorter<%zu> on %s (%u-bit) %s codes=", R, asPointer ? "pointers" : "integers", W, what) + codesStr(codes);
	// (a) native array
	{
		typedef typename std::conditional<asPointer, const char*, U>::type Native;
		std::vector<Native> v; v.reserve(n);
		for (uint64_t x : codes) {
			if constexpr (asPointer) v.push_back(reinterpret_cast<const char*>((uintptr_t)x));	// never dereferenced
			else v.push_back((U)x);
		}
		std::vector<uint64_t> want(codes); std::sort(want.begin(), want.end());
		Sorter::Sort(v.data(), n);
		bool ok = true;
		for (size_t i = 0; i < n && ok; ++i) {
			uint64_t got;
			if constexpr (asPointer) got = (uint64_t)reinterpret_cast<uintptr_t>(v[i]); else got = (uint64_t)v[i];
			ok = got == want[i];
		}
		if (!ok) c.fail("C17 radix-native: RadixSorter<%zu> on %s (%u-bit) %s codes=%s: result differs from std::sort", R, asPointer ? "pointers" : "integers", W, what, codesStr(codes).c_str());
		c.stats.evaluations++;
	}
	// (b) records with a custom code getter
	std::vector<Rec<U>> recs; recs.reserve(n);
	for (size_t i = 0; i < n; ++i) recs.push_back(Rec<U>{ (U)codes[i], (uint32_t)i });
	Sorter::Sort(recs.data(), n, RecGetter<U>(), TraceSwapper<Rec<U>*>{ recs.data(), &log }, [] (Rec<U>*, size_t) noexcept {});
	std::vector<uint32_t> ids; ids.reserve(n);
	std::vector<bool> seen(n, false);
	bool perm = true, sorted = true;
	for (size_t i = 0; i < n; ++i) {
		uint32_t id = recs[i].id;
		ids.push_back(id);
		if (id >= n || seen[id] || (uint64_t)recs[i].code != codes[id]) perm = false; else seen[id] = true;
		if (i > 0 && recs[i].code < recs[i - 1].code) sorted = false;
	}
	if (!perm) c.fail("C17 radix-permutation: RadixSorter<%zu> %u-bit %s codes=%s: result is not a permutation of the input", R, W, what, codesStr(codes).c_str());
	if (!sorted) c.fail("C17 radix-order: RadixSorter<%zu> %u-bit %s codes=%s: result is not non-decreasing", R, W, what, codesStr(codes).c_str());
	c.stats.evaluations++;
	return ids;
}

static uint64_t chkIds(const std::vector<uint32_t>& v) { uint64_t c = 0; for (auto id : v) c = c * 1000003ull + id + 1; return c; }

static uint64_t maskW(unsigned W) { return W >= 64 ? ~0ull : ((1ull << W) - 1); }

template<size_t R, typename U, bool asPointer>
static void runOne(Ctx& c, Rng& rng, Suite& s)
{
	const unsigned W = 8 * sizeof(U);
	const size_t selMax = size_t{1} << (R / 2 + 1);
	const uint64_t mask = maskW(W);
	const char* tname = asPointer ? "ptr" : (W == 8 ? "u8" : W == 16 ? "u16" : W == 32 ? "u32" : "u64");
	// explicit lists
	std::vector<size_t> sizes = { 0, 1, 2, 3, 4, 5, 7, selMax - 1, selMax, selMax + 1, selMax + 2, 2 * selMax + 3 };
	unsigned reps = c.thorough ? 6 : 2;
	for (unsigned rep = 0; rep < reps; ++rep) sizes.push_back((size_t)rng.range(selMax + 1, 3 * selMax + 40));
	if (c.thorough) sizes.push_back((size_t)rng.range(1000, 2500));
	for (size_t n : sizes) {
		if (n > 2600) n = 2600;
		for (unsigned dist = 0; dist < 7; ++dist) {
			std::vector<uint64_t> codes(n);
			const char* what = "";
			uint64_t base = rng.next() & mask;
			switch (dist) {
			case 0: what = "uniform"; for (auto& x : codes) x = rng.next() & mask; break;
			case 1: what = "few-distinct"; { uint64_t pool[3] = { rng.next() & mask, rng.next() & mask, rng.biased(W) & mask }; for (auto& x : codes) x = pool[rng.below(3)]; } break;
			case 2: what = "all-equal"; for (auto& x : codes) x = base; break;
			case 3: what = "extremes"; for (auto& x : codes) x = rng.chance(1, 2) ? 0 : mask; break;
			case 4: what = "low-bits-only"; for (auto& x : codes) x = ((base & ~0xFull) | rng.below(16)) & mask; break;	// single radix on the upper levels
			case 5: what = "biased"; for (auto& x : codes) x = rng.biased(W) & mask; break;
			default: what = "two-clusters"; for (auto& x : codes) x = (rng.chance(1, 2) ? rng.below(5) : mask - rng.below(5)) & mask; break;
			}
			SwapLog log;
			std::vector<uint32_t> ids = sortBoth<R, U, asPointer>(c, codes, W, what, log);
			std::string line = fmt("rs %zu %u", R, W), res;
			for (uint64_t x : codes) line += fmt(" %llu", (unsigned long long)x);
			for (size_t i = 0; i < ids.size(); ++i) res += fmt(i ? " %u" : "%u", ids[i]);
			res += fmt(" ; %llu %llu", (unsigned long long)log.n, (unsigned long long)log.chk);
			s.op(line); s.res(res);
			c.stats.count("radix.swaps", log.n);
			if (n > selMax) c.stats.count("radix.counting_pass"); else if (n > 2) c.stats.count("radix.selection_sort"); else c.stats.count("radix.tiny");
			if (n >= 3 && dist != 2) c.stats.nontrivial(fmt("%s/R%zu/%s/%zu/%llu", tname, R, what, n, (unsigned long long)base));
			if (R == 8 && W == 64 && n == 5 && dist == 0) c.stats.sample("radix " + line + " -> ids " + res);
		}
	}
	// corpus: inputs that exposed past / seeded defects (nextShift clamp, shift clamp for R > W), run for every R and type
	{
		const std::vector<std::vector<uint64_t>> corpus = {
			{ 1, 2, 3, 251, 255, 1, 2, 255, 251, 4, 4 },
			{ 5, 4, 4, 4, 109, 5, 4, 5, 5, 5 },
			{ 255, 0, 255, 0, 128, 127, 1, 254, 2, 253, 3 },
		};
		for (auto codes : corpus) {
			for (auto& x : codes) x = (W > 8 && rng.chance(1, 2)) ? ((x << (W - 8)) | x) & mask : x & mask;
			// pad with copies so that the counting pass (count > selectionSortMaxCount) is reached as well
			std::vector<uint64_t> big = codes;
			while (big.size() <= selMax + 3 && big.size() < 2600) big.insert(big.end(), codes.begin(), codes.end());
			for (auto* v : { &codes, &big }) {
				SwapLog log;
				std::vector<uint32_t> ids = sortBoth<R, U, asPointer>(c, *v, W, "corpus", log);
				std::string line = fmt("rs %zu %u", R, W), res;
				for (uint64_t x : *v) line += fmt(" %llu", (unsigned long long)x);
				for (size_t i = 0; i < ids.size(); ++i) res += fmt(i ? " %u" : "%u", ids[i]);
				res += fmt(" ; %llu %llu", (unsigned long long)log.n, (unsigned long long)log.chk);
				s.op(line); s.res(res);
				c.stats.count("radix.corpus");
			}
		}
	}
	// generated long sequences (LCG shared with the model driver)
	unsigned gens = c.thorough ? 4 : 1;
	for (unsigned g = 0; g < gens; ++g) {
		size_t n = (size_t)rng.range(c.thorough ? 20000 : 2000, c.thorough ? 120000 : 12000);
		unsigned bits = (g % 2 == 0) ? W : (unsigned)rng.range(1, W);
		uint64_t seed = rng.next() >> 1, x = seed;
		std::vector<uint64_t> codes(n);
		for (auto& v : codes) { x = lcgNext(x); uint64_t hi = x >> 32; x = lcgNext(x); uint64_t lo = x >> 32; v = ((hi << 32) | lo) & maskW(bits); }
		SwapLog log;
		std::vector<uint32_t> ids = sortBoth<R, U, asPointer>(c, codes, W, "generated", log);
		s.op(fmt("rgen %zu %u %zu %llu %u", R, W, n, (unsigned long long)seed, bits));
		s.res(fmt("%zu %llu ; %llu %llu", n, (unsigned long long)chkIds(ids), (unsigned long long)log.n, (unsigned long long)log.chk));
		c.stats.count("radix.swaps", log.n);
		c.stats.count("radix.generated");
		c.stats.nontrivial(fmt("%s/R%zu/gen/%zu/%llu/%u", tname, R, n, (unsigned long long)seed, bits));
	}
	c.stats.count(fmt("radix.R%zu.%s", R, tname));
}

template<size_t R>
static void runR(Ctx& c, Rng& rng, Suite& s)
{
	runOne<R, uint8_t, false>(c, rng, s);
	runOne<R, uint16_t, false>(c, rng, s);
	runOne<R, uint32_t, false>(c, rng, s);
	runOne<R, uint64_t, false>(c, rng, s);
	runOne<R, uint64_t, true>(c, rng, s);	// const char* : code = PtrCaster::ToUInt
}

// The 16 radix sizes are split over four executables (registry flags -DC17_RGROUP=0..3) to keep the
// ASan compile of each below ~20 s; without the macro one executable covers all 16.
#ifndef C17_RGROUP
#define C17_RGROUP -1
#endif

int main(int argc, char** argv)
{
	Ctx c = parseArgs(argc, argv);
	installCrashReporter();
	Rng rng(c.seed * 0x1000 + 0x117 + 0x100 * (C17_RGROUP + 1));
	Suite s(c, "radix", "model sort");
#if C17_RGROUP == -1 || C17_RGROUP == 0
	runR<1>(c, rng, s); runR<2>(c, rng, s); runR<3>(c, rng, s); runR<4>(c, rng, s);
#endif
#if C17_RGROUP == -1 || C17_RGROUP == 1
	runR<5>(c, rng, s); runR<6>(c, rng, s); runR<7>(c, rng, s); runR<8>(c, rng, s);
#endif
#if C17_RGROUP == -1 || C17_RGROUP == 2
	runR<9>(c, rng, s); runR<10>(c, rng, s); runR<11>(c, rng, s); runR<12>(c, rng, s);
#endif
#if C17_RGROUP == -1 || C17_RGROUP == 3
	runR<13>(c, rng, s); runR<14>(c, rng, s); runR<15>(c, rng, s); runR<16>(c, rng, s);
#endif
	return c.finish();
}
