// C05 correspondence harness, shared part: item types, logging memory managers, container adapters, the random
// operation generator and the two comparators
//   * property level: the same operation on a std::vector<T> (the "reference sequence"); every position is
//     compared after every operation; reserve clause: no memory-manager call while the size grows up to a
//     reserved capacity
//   * model level: op line -> momo_model (engine `arr`), answer = count, capacity, every cell (`~` = moved-from),
//     every memory-manager call of the operation
//   * creation: default / (count, item) / forward range / input range / (count) / (initializer_list, memManager) / CreateCap /
//     CreateCrt, all with a model op line; every round ends with an access scenario (IsEmpty, GetBackItem() const, non-const
//     GetBegin..GetEnd with conversion to the const iterator and writes through the iterator, Contains / IsEqual with counting
//     functors against std::any_of / std::equal on the reference sequences; the model then answers `get`) and, for momo::Array,
//     a capacity-overflow scenario (std::bad_array_new_length, nothing changed, no memory-manager call)
#pragma once
#include "momo/Array.h"
#include "momo/SegmentedArray.h"
#include "momo/stdish/vector.h"
#include "common/verif_common.h"

#include <string>
#include <vector>
#include <memory>
#include <deque>
#include <algorithm>
#include <type_traits>
#include <new>

#if defined(__SANITIZE_ADDRESS__)
# include <sanitizer/asan_interface.h>
# define C05_POISON(p, n) __asan_poison_memory_region((p), (n))
# define C05_UNPOISON(p, n) __asan_unpoison_memory_region((p), (n))
#else
# define C05_POISON(p, n) ((void)0)
# define C05_UNPOISON(p, n) ((void)0)
#endif

namespace c05 {
using namespace vf;

// ------------------------------------------------------------------ memory-manager log

struct MemLog {
	std::vector<std::string> ev;
	bool oracle = false;		// answer of the next ReallocateInplace
	long long liveBlocks = 0;
	void clear() { ev.clear(); }
	std::string str(const char* pre = "") const {
		std::string r;
		for (size_t i = 0; i < ev.size(); ++i) { if (i) r += ' '; r += ev[i]; }
		return r;
	}
};
inline MemLog& memLog() { static MemLog l; return l; }

static const size_t inplaceSlack = 1 << 16;

// momo memory manager that logs every call; `ptr = true` is never used: the pointer array of a SegmentedArray
// is recognised by the harness through the item size (see SegAdapter)
template<bool tRealloc, bool tInplace>
class LogMMBase
{
public:
	explicit LogMMBase() noexcept {}
	LogMMBase(LogMMBase&&) noexcept {}
	LogMMBase(const LogMMBase&) noexcept {}
	~LogMMBase() = default;
	LogMMBase& operator=(const LogMMBase&) = delete;

	void* Allocate(size_t size)
	{
		memLog().ev.push_back(fmt("a%zu", size));
		++memLog().liveBlocks;
		char* p = static_cast<char*>(std::malloc(size + (tInplace ? inplaceSlack : 0)));
		if (p == nullptr) throw std::bad_alloc();
		if (tInplace) C05_POISON(p + size, inplaceSlack);
		return p;
	}
	void Deallocate(void* ptr, size_t size) noexcept
	{
		memLog().ev.push_back(fmt("d%zu", size));
		--memLog().liveBlocks;
		if (tInplace) C05_UNPOISON(static_cast<char*>(ptr), size + inplaceSlack);
		std::free(ptr);
	}
};

template<bool tRealloc, bool tInplace> class LogMM;
template<> class LogMM<false, false> : public LogMMBase<false, false> {};
template<> class LogMM<true, false> : public LogMMBase<true, false>
{
public:
	void* Reallocate(void* ptr, size_t size, size_t newSize)
	{
		memLog().ev.push_back(fmt("r%zu:%zu", size, newSize));
		void* p = std::realloc(ptr, newSize);
		if (p == nullptr) throw std::bad_alloc();
		return p;
	}
};
template<> class LogMM<false, true> : public LogMMBase<false, true>
{
public:
	bool ReallocateInplace(void* ptr, size_t size, size_t newSize) noexcept
	{
		bool ok = memLog().oracle && newSize <= size + inplaceSlack / 2;
		memLog().ev.push_back(fmt("i%zu:%zu:%d", size, newSize, ok ? 1 : 0));
		if (ok) {
			C05_UNPOISON(static_cast<char*>(ptr), newSize);
			C05_POISON(static_cast<char*>(ptr) + newSize, size + inplaceSlack - newSize);
		}
		return ok;
	}
};
template<> class LogMM<true, true> : public LogMMBase<true, true>
{
public:
	void* Reallocate(void* ptr, size_t size, size_t newSize)
	{
		memLog().ev.push_back(fmt("r%zu:%zu", size, newSize));
		C05_UNPOISON(static_cast<char*>(ptr), size + inplaceSlack);
		char* p = static_cast<char*>(std::realloc(ptr, newSize + inplaceSlack));
		if (p == nullptr) throw std::bad_alloc();
		C05_POISON(p + newSize, inplaceSlack);
		return p;
	}
	bool ReallocateInplace(void* ptr, size_t size, size_t newSize) noexcept
	{
		bool ok = memLog().oracle && newSize <= size + inplaceSlack / 2;
		memLog().ev.push_back(fmt("i%zu:%zu:%d", size, newSize, ok ? 1 : 0));
		if (ok) {
			C05_UNPOISON(static_cast<char*>(ptr), newSize);
			C05_POISON(static_cast<char*>(ptr) + newSize, size + inplaceSlack - newSize);
		}
		return ok;
	}
};

// std allocator that logs (for stdish::vector); stateless, all instances equal
template<typename T>
struct LogAlloc
{
	typedef T value_type;
	LogAlloc() noexcept {}
	template<typename U> LogAlloc(const LogAlloc<U>&) noexcept {}
	T* allocate(size_t n)
	{
		memLog().ev.push_back(fmt("a%zu", n * sizeof(T)));
		++memLog().liveBlocks;
		return static_cast<T*>(::operator new(n * sizeof(T)));
	}
	void deallocate(T* p, size_t n) noexcept
	{
		memLog().ev.push_back(fmt("d%zu", n * sizeof(T)));
		--memLog().liveBlocks;
		::operator delete(p);
	}
	template<typename U> bool operator==(const LogAlloc<U>&) const noexcept { return true; }
	template<typename U> bool operator!=(const LogAlloc<U>&) const noexcept { return false; }
};

// ------------------------------------------------------------------ item types

// trivially relocatable (trivially copyable): relocation by memcpy / Reallocate
struct Triv { uint32_t id; uint32_t pad[7]; };

// nothrow-move, self-move-hostile, owns memory (ASan sees a double destroy / a leak / a use of a dead item)
struct NM
{
	int* p;
	NM() : p(new int(0)) {}
	explicit NM(int id) : p(new int(id)) {}
	NM(const NM& o) : p(o.p ? new int(*o.p) : nullptr) {}
	NM(NM&& o) noexcept : p(o.p) { o.p = nullptr; }
	~NM() { delete p; }
	NM& operator=(const NM& o) { if (this != &o) { int* q = o.p ? new int(*o.p) : nullptr; delete p; p = q; } return *this; }
	NM& operator=(NM&& o) noexcept
	{
		if (this == &o) { delete p; p = nullptr; }		// destructive self-move, like std::string
		else { delete p; p = o.p; o.p = nullptr; }
		return *this;
	}
};

// like NM but the move constructor may throw (never does): isNothrowMoveConstructible = false,
// isNothrowRelocatable = true (MOMO_IS_NOTHROW_RELOCATABLE_APPENDIX)
struct TM
{
	int* p;
	TM() : p(new int(0)) {}
	explicit TM(int id) : p(new int(id)) {}
	TM(const TM& o) : p(o.p ? new int(*o.p) : nullptr) {}
	TM(TM&& o) : p(o.p) { o.p = nullptr; }
	~TM() { delete p; }
	TM& operator=(const TM& o) { if (this != &o) { int* q = o.p ? new int(*o.p) : nullptr; delete p; p = q; } return *this; }
	TM& operator=(TM&& o)
	{
		if (this == &o) { delete p; p = nullptr; }
		else { delete p; p = o.p; o.p = nullptr; }
		return *this;
	}
};

// copy-only: no move operations, the copy constructor may throw (never does): not nothrow relocatable
struct CO
{
	int* p;
	CO() : p(new int(0)) {}
	explicit CO(int id) : p(new int(id)) {}
	CO(const CO& o) : p(new int(*o.p)) {}
	~CO() { delete p; }
	CO& operator=(const CO& o) { if (this != &o) { int* q = new int(*o.p); delete p; p = q; } return *this; }
};

// "not nothrow-movable but nothrow-swappable" (copy-and-swap idiom): no move constructor (gcc / clang: momo treats every type
// that DECLARES a move constructor as nothrow relocatable, MOMO_IS_NOTHROW_RELOCATABLE_APPENDIX), the copy constructor may throw
// (never does), assignment takes its argument by value, ADL swap is noexcept.  ObjectManager: isNothrowSwappable, hence
// isNothrowShiftable / isNothrowAnywayAssignable; ArrayItemTraits: not nothrow relocatable, not nothrow move constructible -
// the arrays assign with a plain `item = ...` (ItemTraits::Assign), so for them the category equals copy-only
struct SW
{
	int* p;
	SW() : p(new int(0)) {}
	explicit SW(int id) : p(new int(id)) {}
	SW(const SW& o) : p(new int(*o.p)) {}
	~SW() { delete p; }
	SW& operator=(SW o) { swap(*this, o); return *this; }
	friend void swap(SW& a, SW& b) noexcept { int* t = a.p; a.p = b.p; b.p = t; }
};

template<typename T> struct Codec;
template<> struct Codec<std::string> {
	static const bool keeps = false; static const bool zeroIsMoved = true; static const char* name() { return "string"; }
	// id 0 = empty string (what a default-constructed and a moved-from std::string look like); odd ids are long
	// (heap) strings, even ids fit the small-string buffer
	static std::string make(uint32_t id) { if (id == 0) return std::string(); std::string s = std::to_string(id); if (id & 1) s += std::string(40, '#'); return s; }
	static std::string show(const std::string& s) { if (s.empty()) return "~"; size_t k = 0; while (k < s.size() && s[k] >= '0' && s[k] <= '9') ++k; return s.substr(0, k); }
};
template<> struct Codec<Triv> {
	static const bool keeps = true; static const bool zeroIsMoved = false; static const char* name() { return "triv"; }
	static Triv make(uint32_t id) { Triv t; t.id = id; for (int i = 0; i < 7; ++i) t.pad[i] = id * 31 + i; return t; }
	static std::string show(const Triv& t) { return std::to_string(t.id); }
};
template<> struct Codec<NM> {
	static const bool keeps = false; static const bool zeroIsMoved = false; static const char* name() { return "nothrowmove"; }
	static NM make(uint32_t id) { return NM((int)id); }
	static std::string show(const NM& t) { return t.p ? std::to_string(*t.p) : std::string("~"); }
};
template<> struct Codec<TM> {
	static const bool keeps = false; static const bool zeroIsMoved = false; static const char* name() { return "throwmove"; }
	static TM make(uint32_t id) { return TM((int)id); }
	static std::string show(const TM& t) { return t.p ? std::to_string(*t.p) : std::string("~"); }
};
template<> struct Codec<CO> {
	static const bool keeps = true; static const bool zeroIsMoved = false; static const char* name() { return "copyonly"; }
	static CO make(uint32_t id) { return CO((int)id); }
	static std::string show(const CO& t) { return std::to_string(*t.p); }
};
template<> struct Codec<SW> {
	static const bool keeps = true; static const bool zeroIsMoved = false; static const char* name() { return "copyswap"; }
	static SW make(uint32_t id) { return SW((int)id); }
	static std::string show(const SW& t) { return std::to_string(*t.p); }
};

// single-pass iterator over a vector (iterator_category = input_iterator_tag)
template<typename T>
struct InIt
{
	typedef std::input_iterator_tag iterator_category;
	typedef T value_type; typedef ptrdiff_t difference_type; typedef const T* pointer; typedef const T& reference;
	const T* p;
	reference operator*() const { return *p; }
	pointer operator->() const { return p; }
	InIt& operator++() { ++p; return *this; }
	InIt operator++(int) { InIt t = *this; ++p; return t; }
	bool operator==(InIt o) const { return p == o.p; }
	bool operator!=(InIt o) const { return p != o.p; }
};

// ------------------------------------------------------------------ adapters: one interface over the three families

template<typename TC>
struct NativeBase
{
	typedef TC C;
	typedef typename C::Item T;
	static size_t size(const C& c) { return c.GetCount(); }
	static size_t cap(const C& c) { return c.GetCapacity(); }
	static const T& at(const C& c, size_t i) { return c[i]; }
	static T& at(C& c, size_t i) { return c[i]; }
	static void pushc(C& c, const T& x) { c.AddBack(x); }
	static void pushm(C& c, T&& x) { c.AddBack(std::move(x)); }
	static void emplbc(C& c, const T& x) { c.AddBackVar(x); }
	static void emplbm(C& c, T&& x) { c.AddBackVar(std::move(x)); }
	static void emplc(C& c, size_t i, const T& x) { c.InsertVar(i, x); }
	static void emplm(C& c, size_t i, T&& x) { c.InsertVar(i, std::move(x)); }
	static void ins1m(C& c, size_t i, T&& x) { c.Insert(i, std::move(x)); }
	static void ins1c(C& c, size_t i, const T& x) { c.Insert(i, x); }
	static void insn(C& c, size_t i, size_t n, const T& x) { c.Insert(i, n, x); }
	template<typename It> static void insr(C& c, size_t i, It b, It e) { c.Insert(i, b, e); }
	static void insl(C& c, size_t i, std::initializer_list<T> l) { c.Insert(i, l); }
	static void pop(C& c, size_t n) { c.RemoveBack(n); }
	static void rem(C& c, size_t i, size_t n, bool) { c.Remove(i, n); }
	template<typename P> static size_t remif(C& c, const P& p) { return c.Remove(p); }
	static void setc(C& c, size_t n, const T& x) { c.SetCount(n, x); }
	static void setd(C& c, size_t n) { c.SetCount(n); }
	static void reserve(C& c, size_t n) { c.Reserve(n); }
	static void shrink(C& c) { c.Shrink(); }
	static void shrinkto(C& c, size_t n) { c.Shrink(n); }
	static void clear(C& c, bool s) { c.Clear(s); }
	static C* cctor(const C& s, bool shr) { return shr ? new C(s) : new C(s, false); }
	static void asgn(C& c, size_t n, const T& x) { C tmp(n, x); c = std::move(tmp); }
	template<typename It> static void asgr(C& c, It b, It e) { C tmp(b, e); c = std::move(tmp); }
	static void asgl(C& c, std::initializer_list<T> l) { C tmp(l); c = std::move(tmp); }
	static C* newfill(size_t n, const T& x) { return new C(n, x); }
	template<typename It> static C* newrange(It b, It e) { return new C(b, e); }
	static C* newcount(size_t n) { return new C(n); }	// explicit Array / SegmentedArray(size_t count, MemManager = MemManager())
	static C* newlist(std::initializer_list<T> l) { return new C(l, typename C::MemManager()); }	// (initializer_list, memManager)
	static C* newcap(size_t n) { return new C(C::CreateCap(n)); }
	template<typename F> static C* newcrt(size_t n, const F& f) { return new C(C::CreateCrt(n, f)); }
	static bool empty(const C& c) { return c.IsEmpty(); }
	static const T& back(const C& c) { return c.GetBackItem(); }	// GetBackItem() const
	static auto begin(C& c) -> decltype(c.GetBegin()) { return c.GetBegin(); }	// non-const GetBegin / GetEnd
	static auto end(C& c) -> decltype(c.GetEnd()) { return c.GetEnd(); }
	static auto cbegin(const C& c) -> decltype(c.GetBegin()) { return c.GetBegin(); }
	static const bool hasShrinkTo = true, hasClearShrink = true, hasCopyNoShrink = true, isNative = true;
};

template<typename TC>
struct ArrayAdapter : public NativeBase<TC>
{
	typedef TC C;
	typedef typename C::Item T;
	typedef typename C::MemManager MM;
	typedef typename C::ItemTraits IT;
	static const bool isSeg = false;
	static std::string family() { return fmt("Array<intcap=%zu>", (size_t)C::internalCapacity); }
	static std::string header() {
		typedef momo::internal::MemManagerProxy<MM> Proxy;
		return fmt("model arr kind=arr intcap=%zu keeps=%d nr=%d nm=%d realloc=%d inplace=%d isz=%zu z=%d", (size_t)C::internalCapacity,
			(int)Codec<T>::keeps, (int)IT::isNothrowRelocatable, (int)IT::isNothrowMoveConstructible,
			(int)(Proxy::canReallocate && IT::isTriviallyRelocatable), (int)Proxy::canReallocateInplace, sizeof(T), (int)Codec<T>::zeroIsMoved);
	}
	static std::string extra(const C&) { return ""; }
	static const size_t intCap = C::internalCapacity;
	static const bool canMove = (C::internalCapacity == 0) || IT::isNothrowRelocatable;	// Data(Data&&) static_asserts it
	static const bool hasInplace = momo::internal::MemManagerProxy<MM>::canReallocateInplace;
};

template<typename TC>
struct SegAdapter : public NativeBase<TC>
{
	typedef TC C;
	typedef typename C::Item T;
	typedef typename C::MemManager MM;
	typedef typename C::Settings S;
	static const bool isSeg = true;
	static std::string family() { return fmt("SegmentedArray<%s,%zu>", S::itemCountFunc == momo::SegmentedArrayItemCountFunc::sqrt ? "sqrt" : "cnst", (size_t)S::logInitialItemCount); }
	static std::string header() {
		typedef momo::internal::MemManagerProxy<MM> Proxy;
		return fmt("model arr kind=seg sqrt=%d L=%zu keeps=%d realloc=%d inplace=%d isz=%zu z=%d",
			(int)(S::itemCountFunc == momo::SegmentedArrayItemCountFunc::sqrt), (size_t)S::logInitialItemCount, (int)Codec<T>::keeps,
			(int)Proxy::canReallocate, (int)Proxy::canReallocateInplace, sizeof(T), (int)Codec<T>::zeroIsMoved);
	}
	static std::string extra(const C& c) { return fmt(" %zu %zu", c.mSegments.GetCount(), c.mSegments.GetCapacity()); }
	static const size_t intCap = 0;
	static const bool canMove = true;
	static const bool hasInplace = momo::internal::MemManagerProxy<MM>::canReallocateInplace;
};

template<typename TC>
struct VecAdapter
{
	typedef TC C;
	typedef typename C::value_type T;
	typedef typename C::nested_container_type A;
	typedef typename A::ItemTraits IT;
	static const bool isSeg = false;
	static std::string family() { return fmt("stdish::vector<intcap=%zu>", (size_t)A::internalCapacity); }
	static std::string header() {
		return fmt("model arr kind=arr intcap=%zu keeps=%d nr=%d nm=%d realloc=0 inplace=0 isz=%zu z=%d", (size_t)A::internalCapacity,
			(int)Codec<T>::keeps, (int)IT::isNothrowRelocatable, (int)IT::isNothrowMoveConstructible, sizeof(T), (int)Codec<T>::zeroIsMoved);
	}
	static std::string extra(const C&) { return ""; }
	static const size_t intCap = A::internalCapacity;
	static const bool canMove = (A::internalCapacity == 0) || IT::isNothrowRelocatable;
	static const bool hasInplace = false;
	static size_t size(const C& c) { return c.size(); }
	static size_t cap(const C& c) { return c.capacity(); }
	static const T& at(const C& c, size_t i) { return c[i]; }
	static T& at(C& c, size_t i) { return c[i]; }
	static void pushc(C& c, const T& x) { c.push_back(x); }
	static void pushm(C& c, T&& x) { c.push_back(std::move(x)); }
	static void emplbc(C& c, const T& x) { c.emplace_back(x); }
	static void emplbm(C& c, T&& x) { c.emplace_back(std::move(x)); }
	static void emplc(C& c, size_t i, const T& x) { auto it = c.emplace(c.cbegin() + (ptrdiff_t)i, x); check(c, it, i); }
	static void emplm(C& c, size_t i, T&& x) { auto it = c.emplace(c.cbegin() + (ptrdiff_t)i, std::move(x)); check(c, it, i); }
	static void ins1m(C& c, size_t i, T&& x) { auto it = c.insert(c.cbegin() + (ptrdiff_t)i, std::move(x)); check(c, it, i); }
	static void ins1c(C& c, size_t i, const T& x) { auto it = c.insert(c.cbegin() + (ptrdiff_t)i, x); check(c, it, i); }
	static void insn(C& c, size_t i, size_t n, const T& x) { auto it = c.insert(c.cbegin() + (ptrdiff_t)i, n, x); check(c, it, i); }
	template<typename It> static void insr(C& c, size_t i, It b, It e) { auto it = c.insert(c.cbegin() + (ptrdiff_t)i, b, e); check(c, it, i); }
	static void insl(C& c, size_t i, std::initializer_list<T> l) { auto it = c.insert(c.cbegin() + (ptrdiff_t)i, l); check(c, it, i); }
	static void pop(C& c, size_t n) { for (size_t k = 0; k < n; ++k) c.pop_back(); }
	static void rem(C& c, size_t i, size_t n, bool single) {
		auto it = (single && n == 1) ? c.erase(c.cbegin() + (ptrdiff_t)i) : c.erase(c.cbegin() + (ptrdiff_t)i, c.cbegin() + (ptrdiff_t)(i + n));
		check(c, it, i);
	}
	template<typename P> static size_t remif(C& c, const P& p) { return erase_if(c, p); }
	static void setc(C& c, size_t n, const T& x) { c.resize(n, x); }
	static void setd(C& c, size_t n) { c.resize(n); }
	static void reserve(C& c, size_t n) { c.reserve(n); }
	static void shrink(C& c) { c.shrink_to_fit(); }
	static void shrinkto(C& c, size_t n) { c.get_nested_container().Shrink(n); }
	static void clear(C& c, bool) { c.clear(); }
	static C* cctor(const C& s, bool) { return new C(s); }
	static void asgn(C& c, size_t n, const T& x) { c.assign(n, x); }
	template<typename It> static void asgr(C& c, It b, It e) { c.assign(b, e); }
	static void asgl(C& c, std::initializer_list<T> l) { c = l; }
	static C* newfill(size_t n, const T& x) { return new C(n, x); }
	template<typename It> static C* newrange(It b, It e) { return new C(b, e); }
	static C* newcount(size_t n) { return new C(n); }	// vector(size_type count, alloc = allocator_type())
	static C* newlist(std::initializer_list<T> l) { return new C(l, typename C::allocator_type()); }
	static bool empty(const C& c) { return c.empty(); }
	static const T& back(const C& c) { return c.back(); }	// back() const -> Array::GetBackItem() const
	static auto begin(C& c) -> decltype(c.begin()) { return c.begin(); }
	static auto end(C& c) -> decltype(c.end()) { return c.end(); }
	static auto cbegin(const C& c) -> decltype(c.begin()) { return c.begin(); }
	static const bool hasShrinkTo = false, hasClearShrink = false, hasCopyNoShrink = false, isNative = false;
	template<typename It> static void check(C&, It, size_t) {}
};

// ------------------------------------------------------------------ the runner

struct Budget { unsigned rounds; unsigned opsPerRound; unsigned maxSize; };

template<typename Ad>
class Runner
{
	typedef typename Ad::C C;
	typedef typename Ad::T T;
	typedef Codec<T> Cd;
	static const int slotCount = 3;
	static const unsigned createKinds = 8;
	// CreateCap / CreateCrt return by value through Array(Data&&): with an internal buffer that needs nothrow-relocatable items
	static const bool hasCreate = Ad::isNative && Ad::canMove;
	typedef std::integral_constant<bool, hasCreate> HasCreate;
	typedef std::integral_constant<bool, Ad::isNative> IsNative;
	typedef std::integral_constant<bool, Ad::isNative && !Ad::isSeg> IsNativeArray;

	Ctx& c; Rng& rng; Suite& s; std::string cfgName;
	std::unique_ptr<C> obj[slotCount];
	std::vector<T> ref[slotCount];
	bool has[slotCount] = { false, false, false };
	long long reserved[slotCount] = { -1, -1, -1 };	// capacity promised by the last reserve (reserve clause), -1 = none
	uint32_t nextId = 1;
	std::deque<std::string> history;
	unsigned maxSize;
	uint64_t opCount = 0;
	bool broken = false;	// a property-level failure was reported: the rest of this configuration would only repeat it

public:
	Runner(Ctx& c_, Rng& rng_, Suite& s_, const std::string& name) : c(c_), rng(rng_), s(s_), cfgName(name) {}

	void run(const Budget& b)
	{
		maxSize = b.maxSize;
		for (unsigned r = 0; r < b.rounds && !broken; ++r) {
			s.comment(fmt("%s round %u", cfgName.c_str(), r));
			history.clear();
			for (int o = 0; o < slotCount; ++o) has[o] = false;
			create(0, (unsigned)rng.below(createKinds));
			unsigned big = (r % 4 == 3) ? 1 : 0;	// every 4th round lets the array grow past the growth thresholds (2, 64, 150)
			if (big) bulk();
			for (unsigned k = 0; k < b.opsPerRound && !broken; ++k) oneOp(big);
			if (!broken) reserveScenario();
			if (!broken) accessScenario(0);
			if (!broken) { int o2 = 1 + (int)rng.below(slotCount - 1); if (has[o2]) accessScenario(o2); }
			if (!broken) overflowScenario(IsNativeArray());
			for (int o = 0; o < slotCount; ++o) if (has[o]) destroy(o);
			if (memLog().liveBlocks != 0) fail("C05 memory: live blocks after destroying everything", fmt("%lld", memLog().liveBlocks));
		}
	}

private:
	uint32_t fresh() { return nextId++; }
	std::string state(int o) {
		C& a = *obj[o];
		std::string r = fmt("%zu %zu%s|", Ad::size(a), Ad::cap(a), Ad::extra(a).c_str());
		for (size_t i = 0; i < Ad::size(a); ++i) { if (i) r += ' '; r += Cd::show(Ad::at(static_cast<const C&>(a), i)); }
		return r;
	}
	void fail(const std::string& what, const std::string& detail) {
		std::string h;
		for (auto& l : history) { h += l; h += "; "; }
		c.fail("%s: %s seed=%llu config=[%s] history(last %zu ops)=[%s]", what.c_str(), detail.c_str(), (unsigned long long)c.seed, cfgName.c_str(), history.size(), h.c_str());
		broken = true;
	}
	void note(const std::string& line) { history.push_back(line); if (history.size() > 14) history.pop_front(); }

	// compare object o with its reference; `dontCare` = position whose value is unspecified (moved-from by the caller)
	void compare(int o, long long dontCare = -1) {
		C& a = *obj[o]; std::vector<T>& r = ref[o];
		if (Ad::size(a) != r.size()) { fail("C05 sequence: size differs", fmt("slot %d size %zu expected %zu", o, Ad::size(a), r.size())); return; }
		if (Ad::size(a) > Ad::cap(a)) fail("C05 capacity: size exceeds capacity", fmt("slot %d size %zu capacity %zu", o, Ad::size(a), Ad::cap(a)));
		for (size_t i = 0; i < r.size(); ++i) {
			if ((long long)i == dontCare) continue;
			std::string x = Cd::show(Ad::at(static_cast<const C&>(a), i)), y = Cd::show(r[i]);
			if (x != y) { fail("C05 sequence: element differs", fmt("slot %d index %zu got %s expected %s (size %zu)", o, i, x.c_str(), y.c_str(), r.size())); return; }
		}
	}
	// emit the op line and the implementation's answer (one or two objects) with the memory-manager calls
	void emit(const std::string& line, int o, int o2 = -1, const std::string& tail = "") {
		s.op(line);
		std::string r = state(o);
		if (o2 >= 0) r += " ; " + state(o2);
		s.res(r + "|" + memLog().str() + tail);
		c.stats.evaluations++; ++opCount;
	}
	bool allocated() const { for (auto& e : memLog().ev) if (e[0] == 'a' || e[0] == 'r' || e[0] == 'i') return true; return false; }
	// reserve clause: while the size stays within a reserved capacity nothing is allocated
	void reserveClause(int o, const std::string& line) {
		if (reserved[o] >= 0 && (long long)Ad::size(*obj[o]) <= reserved[o]) {
			c.stats.count("reserve_clause.checked_ops");
			if (allocated()) fail("C05 reserve: allocation although size <= reserved capacity", fmt("slot %d reserved %lld size %zu calls [%s] op [%s]", o, reserved[o], Ad::size(*obj[o]), memLog().str().c_str(), line.c_str()));
		}
		else reserved[o] = -1;
	}

	C* makeList(const std::vector<T>& v) {
		switch (v.size()) {
		case 0: return Ad::newlist({});
		case 1: return Ad::newlist({ v[0] });
		case 2: return Ad::newlist({ v[0], v[1] });
		case 3: return Ad::newlist({ v[0], v[1], v[2] });
		case 4: return Ad::newlist({ v[0], v[1], v[2], v[3] });
		case 5: return Ad::newlist({ v[0], v[1], v[2], v[3], v[4] });
		default: return Ad::newlist({ v[0], v[1], v[2], v[3], v[4], v[5] });
		}
	}
	C* makeCap(size_t n, std::true_type) { return Ad::newcap(n); }
	C* makeCap(size_t, std::false_type) { return nullptr; }
	// CreateCrt(count, itemMultiCreator): the creator must be called exactly `count` times, the i-th call with the address of
	// element i, and element i must be what that call made
	C* makeCrt(int o, const std::vector<T>& vals, std::true_type) {
		std::vector<T*> ptrs; size_t calls = 0;
		auto creator = [&ptrs, &calls, &vals](T* p) { ptrs.push_back(p); size_t i = calls++; ::new(static_cast<void*>(p)) T(vals.at(i)); };
		C* a = Ad::newcrt(vals.size(), creator);
		if (calls != vals.size()) fail("C05 CreateCrt: creator call count", fmt("slot %d: %zu calls for count %zu", o, calls, vals.size()));
		else for (size_t i = 0; i < vals.size(); ++i)
			if (ptrs[i] != &Ad::at(*a, i)) { fail("C05 CreateCrt: call order", fmt("slot %d: call %zu of %zu did not construct element %zu", o, i, vals.size(), i)); break; }
		return a;
	}
	C* makeCrt(int, const std::vector<T>&, std::false_type) { return nullptr; }

	void create(int o, unsigned how) {
		memLog().clear(); memLog().oracle = false;
		std::string line;
		std::vector<T> vals; std::string ids;
		size_t n = (size_t)rng.below(7);
		if (how >= 6 && !hasCreate) how -= 2;
		long long promised = -1;
		switch (how) {
		case 0: obj[o].reset(new C()); ref[o].clear(); line = fmt("new %d", o); break;
		case 1: { uint32_t id = fresh(); T x = Cd::make(id); obj[o].reset(Ad::newfill(n, x)); ref[o].assign(n, x); line = fmt("newfill %d %zu v%u", o, n, id); break; }
		case 2: { for (size_t i = 0; i < n; ++i) { uint32_t id = fresh(); vals.push_back(Cd::make(id)); ids += fmt(" %u", id); }
			obj[o].reset(Ad::newrange(vals.begin(), vals.end())); ref[o] = vals; line = fmt("newrange %d%s", o, ids.c_str()); break; }
		case 3: { for (size_t i = 0; i < n; ++i) { uint32_t id = fresh(); vals.push_back(Cd::make(id)); ids += fmt(" %u", id); }
			InIt<T> b{ vals.data() }, e{ vals.data() + vals.size() };
			obj[o].reset(Ad::newrange(b, e)); ref[o] = vals; line = fmt("newinput %d%s", o, ids.c_str()); break; }
		case 4: {	// Array(count) / SegmentedArray(count) / vector(count): `count` value-initialised items = (count, Item()) in the model
			if (rng.chance(1, 5)) n = (size_t)rng.range(7, 70);
			obj[o].reset(Ad::newcount(n)); ref[o] = std::vector<T>(n); line = fmt("newfill %d %zu v0", o, n);
			c.stats.count("op.create_count"); break; }
		case 5: {	// (initializer_list, memManager / allocator) = the forward-range constructor
			for (size_t i = 0; i < n; ++i) { uint32_t id = fresh(); vals.push_back(Cd::make(id)); ids += fmt(" %u", id); }
			obj[o].reset(makeList(vals)); ref[o] = vals; line = fmt("newrange %d%s", o, ids.c_str());
			c.stats.count("op.create_list"); break; }
		case 6: {	// CreateCap(capacity): empty, capacity >= the request, and (reserve clause) no allocation while the size stays below it
			n = (size_t)rng.below(40); if (rng.chance(1, 5)) n = (size_t)rng.range(40, 200);
			obj[o].reset(makeCap(n, HasCreate())); ref[o].clear(); line = fmt("newcap %d %zu", o, n);
			if (Ad::cap(*obj[o]) < n) fail("C05 CreateCap: capacity below the request", fmt("requested %zu capacity %zu", n, Ad::cap(*obj[o])));
			promised = (long long)n;
			c.stats.count("op.create_cap"); break; }
		default: {	// CreateCrt(count, itemMultiCreator)
			if (rng.chance(1, 5)) n = (size_t)rng.range(7, 70);
			for (size_t i = 0; i < n; ++i) { uint32_t id = fresh(); vals.push_back(Cd::make(id)); ids += fmt(" %u", id); }
			obj[o].reset(makeCrt(o, vals, HasCreate())); ref[o] = vals; line = fmt("newcrt %d%s", o, ids.c_str());
			c.stats.count("op.create_crt"); break; }
		}
		has[o] = true; reserved[o] = promised;
		note(line); emit(line, o); compare(o);
		c.stats.count("op.create");
	}
	// start of a "big" round: jump to a size between the growth thresholds
	void bulk() {
		int o = 0;
		C& a = *obj[o]; std::vector<T>& r = ref[o];
		size_t cnt = (size_t)rng.range(50, maxSize - 20);
		setOracle(o);
		memLog().clear();
		uint32_t id = fresh(); T v = Cd::make(id);
		std::string line;
		if (cnt >= r.size() && rng.chance(1, 2)) { line = fmt("setc %d %zu v%u", o, cnt, id); Ad::setc(a, cnt, v); r.resize(cnt, v); }
		else { size_t idx = pickIndex(r.size()); line = fmt("insn %d %zu %zu v%u", o, idx, cnt, id); Ad::insn(a, idx, cnt, v); r.insert(r.begin() + (ptrdiff_t)idx, cnt, v); }
		note(line); emit(line, o); compare(o);
		branchStats(0, r.size());
		c.stats.count("op.bulk");
	}
	void destroy(int o) {
		memLog().clear();
		obj[o].reset(); has[o] = false; ref[o].clear(); reserved[o] = -1;
		std::string line = fmt("del %d", o);
		note(line);
		s.op(line); s.res("|" + memLog().str());
		c.stats.evaluations++;
		c.stats.count("op.destroy");
	}

	// a value argument: fresh external value or alias of element j
	struct Arg { bool alias; size_t j; uint32_t id; std::string tok; };
	Arg pickArg(int o, size_t index, bool preferAlias) {
		size_t n = ref[o].size();
		Arg a; a.alias = n > 0 && rng.chance(preferAlias ? 3 : 1, 4); a.j = 0; a.id = 0;
		if (a.alias) {
			// aliasing every index: biased to the interesting ones (index-1, index, index+1, first, last)
			switch (rng.below(6)) {
			case 0: a.j = index > 0 ? index - 1 : 0; break;
			case 1: a.j = index; break;
			case 2: a.j = index + 1; break;
			case 3: a.j = 0; break;
			case 4: a.j = n - 1; break;
			default: a.j = (size_t)rng.below(n); break;
			}
			if (a.j >= n) a.j = n - 1;
			a.tok = fmt("e%zu", a.j);
			const char* cls = a.j + 1 == index ? "before" : a.j == index ? "at" : a.j == index + 1 ? "after" : a.j < index ? "below" : "above";
			c.stats.count(std::string("alias.") + cls);
		}
		else { a.id = fresh(); a.tok = fmt("v%u", a.id); }
		return a;
	}

	void oneOp(unsigned big)
	{
		// choose a slot; create / destroy secondary objects now and then
		int o = (int)rng.below(slotCount);
		if (!has[o]) {
			if (rng.chance(1, 2) || !has[0]) { create(o, (unsigned)rng.below(createKinds)); return; }
			o = 0;
		}
		C& a = *obj[o]; std::vector<T>& r = ref[o];
		size_t n = r.size();
		unsigned lim = big ? maxSize : std::min<unsigned>(maxSize, 24);
		bool mayGrow = n < lim;
		setOracle(o);
		memLog().clear();
		std::string line; long long dontCare = -1;
		unsigned kind = (unsigned)rng.below(mayGrow ? 34 : 44);
		if (!mayGrow && kind < 20) kind = 20 + kind % 6;	// only shrinking operations
		bool sizeChanging = true;
		switch (kind) {
		case 0: case 1: {	// AddBack(const Item&) / push_back(const&)
			Arg x = pickArg(o, n, true);
			line = fmt("pushc %d %s", o, x.tok.c_str());
			if (x.alias) { Ad::pushc(a, Ad::at(static_cast<const C&>(a), x.j)); r.push_back(T(r[x.j])); }
			else { T v = Cd::make(x.id); Ad::pushc(a, v); r.push_back(v); }
			break; }
		case 2: case 3: {	// AddBack(Item&&)
			Arg x = pickArg(o, n, true);
			line = fmt("pushm %d %s", o, x.tok.c_str());
			if (x.alias) { T copy(r[x.j]); Ad::pushm(a, std::move(Ad::at(a, x.j))); r.push_back(copy); if (!Cd::keeps) dontCare = (long long)x.j; }
			else { T v = Cd::make(x.id); r.push_back(v); Ad::pushm(a, std::move(v)); }
			break; }
		case 4: case 5: {	// AddBackVar / emplace_back
			Arg x = pickArg(o, n, true); bool mv = rng.chance(1, 2);
			line = fmt("emplb %d %c %s", o, mv ? 'm' : 'c', x.tok.c_str());
			if (x.alias) {
				T copy(r[x.j]);
				if (mv) { Ad::emplbm(a, std::move(Ad::at(a, x.j))); if (!Cd::keeps) dontCare = (long long)x.j; }
				else Ad::emplbc(a, Ad::at(static_cast<const C&>(a), x.j));
				r.push_back(copy);
			}
			else { T v = Cd::make(x.id); r.push_back(v); if (mv) Ad::emplbm(a, std::move(v)); else Ad::emplbc(a, v); }
			break; }
		case 6: case 7: {	// InsertVar / emplace
			size_t idx = pickIndex(n); Arg x = pickArg(o, idx, true); bool mv = rng.chance(1, 2);
			line = fmt("empl %d %zu %c %s", o, idx, mv ? 'm' : 'c', x.tok.c_str());
			if (x.alias) {
				T copy(r[x.j]);
				if (mv) { Ad::emplm(a, idx, std::move(Ad::at(a, x.j))); if (!Cd::keeps) dontCare = (long long)(x.j >= idx ? x.j + 1 : x.j); }
				else Ad::emplc(a, idx, Ad::at(static_cast<const C&>(a), x.j));
				r.insert(r.begin() + (ptrdiff_t)idx, copy);
			}
			else { T v = Cd::make(x.id); r.insert(r.begin() + (ptrdiff_t)idx, v); if (mv) Ad::emplm(a, idx, std::move(v)); else Ad::emplc(a, idx, v); }
			break; }
		case 8: case 9: {	// Insert(index, Item&&)
			size_t idx = pickIndex(n); Arg x = pickArg(o, idx, true);
			line = fmt("ins1m %d %zu %s", o, idx, x.tok.c_str());
			if (x.alias) { T copy(r[x.j]); Ad::ins1m(a, idx, std::move(Ad::at(a, x.j))); r.insert(r.begin() + (ptrdiff_t)idx, copy); if (!Cd::keeps) dontCare = (long long)(x.j >= idx ? x.j + 1 : x.j); }
			else { T v = Cd::make(x.id); r.insert(r.begin() + (ptrdiff_t)idx, v); Ad::ins1m(a, idx, std::move(v)); }
			break; }
		case 10: case 11: case 12: case 13: {	// Insert(index, count, const Item&), Insert(index, const Item&)
			size_t idx = pickIndex(n); Arg x = pickArg(o, idx, true);
			size_t cnt = (size_t)rng.below(6); if (big && rng.chance(1, 6)) cnt = (size_t)rng.range(6, 70);
			bool single = cnt == 1 && rng.chance(1, 2);
			line = fmt("insn %d %zu %zu %s", o, idx, cnt, x.tok.c_str());
			if (cnt == 0) c.stats.count("zero_length.insert_n");
			if (x.alias) {
				T copy(r[x.j]);
				if (single) Ad::ins1c(a, idx, Ad::at(static_cast<const C&>(a), x.j)); else Ad::insn(a, idx, cnt, Ad::at(static_cast<const C&>(a), x.j));
				r.insert(r.begin() + (ptrdiff_t)idx, cnt, copy);
			}
			else { T v = Cd::make(x.id); if (single) Ad::ins1c(a, idx, v); else Ad::insn(a, idx, cnt, v); r.insert(r.begin() + (ptrdiff_t)idx, cnt, v); }
			break; }
		case 14: case 15: case 16: {	// Insert(index, begin, end) forward / initializer list
			size_t idx = pickIndex(n); size_t cnt = (size_t)rng.below(6);
			std::vector<T> vals; std::string ids;
			for (size_t i = 0; i < cnt; ++i) { uint32_t id = fresh(); vals.push_back(Cd::make(id)); ids += fmt(" %u", id); }
			line = fmt("insr %d %zu%s", o, idx, ids.c_str());
			if (cnt == 0) c.stats.count("zero_length.insert_range");
			if (rng.chance(1, 2)) { Ad::insr(a, idx, vals.begin(), vals.end()); c.stats.count("range.forward"); }
			else { insertList(a, idx, vals); c.stats.count("range.initializer_list"); }
			r.insert(r.begin() + (ptrdiff_t)idx, vals.begin(), vals.end());
			break; }
		case 17: {	// Insert(index, begin, end) input iterators
			size_t idx = pickIndex(n); size_t cnt = (size_t)rng.below(6);
			std::vector<T> vals; std::string ids;
			for (size_t i = 0; i < cnt; ++i) { uint32_t id = fresh(); vals.push_back(Cd::make(id)); ids += fmt(" %u", id); }
			line = fmt("insi %d %zu%s", o, idx, ids.c_str());
			if (cnt == 0) c.stats.count("zero_length.insert_input");
			InIt<T> b{ vals.data() }, e{ vals.data() + vals.size() };
			Ad::insr(a, idx, b, e); c.stats.count("range.input");
			r.insert(r.begin() + (ptrdiff_t)idx, vals.begin(), vals.end());
			break; }
		case 18: case 19: {	// SetCount(count, item) / SetCount(count) growing or shrinking
			size_t cnt = (size_t)rng.below(n + 7); if (big && rng.chance(1, 5)) cnt = n + (size_t)rng.below(80);
			if (rng.chance(1, 3)) { line = fmt("setd %d %zu", o, cnt); Ad::setd(a, cnt); r.resize(cnt, Cd::make(0)); }
			else {
				Arg x = pickArg(o, n, true);
				line = fmt("setc %d %zu %s", o, cnt, x.tok.c_str());
				if (x.alias) { T copy(r[x.j]); Ad::setc(a, cnt, Ad::at(static_cast<const C&>(a), x.j)); r.resize(cnt, copy); }
				else { T v = Cd::make(x.id); Ad::setc(a, cnt, v); r.resize(cnt, v); }
			}
			break; }
		case 20: {	// RemoveBack(count)
			size_t cnt = (size_t)rng.below(std::min<size_t>(n, 5) + 1);
			line = fmt("pop %d %zu", o, cnt);
			Ad::pop(a, cnt); r.resize(n - cnt, Cd::make(0));
			break; }
		case 21: case 22: case 23: {	// Remove(index, count)
			size_t idx = pickIndex(n); size_t cnt = (size_t)rng.below(std::min<size_t>(n - idx, 5) + 1);
			if (!mayGrow && rng.chance(1, 2)) cnt = (size_t)rng.below(n - idx + 1);
			line = fmt("rem %d %zu %zu", o, idx, cnt);
			if (cnt == 0) c.stats.count("zero_length.remove");
			Ad::rem(a, idx, cnt, rng.chance(1, 2)); r.erase(r.begin() + (ptrdiff_t)idx, r.begin() + (ptrdiff_t)(idx + cnt));
			break; }
		case 24: case 25: {	// Remove(predicate)
			unsigned m = (unsigned)rng.range(1, 4), rr = (unsigned)rng.below(m);
			auto pr = [m, rr](const T& t) { std::string sh = Cd::show(t); if (sh == "~") return Cd::zeroIsMoved && rr == 0; return (unsigned)(std::stoul(sh) % m) == rr; };
			line = fmt("remif %d %u %u", o, m, rr);
			size_t got = Ad::remif(a, pr);
			size_t before = r.size(); r.erase(std::remove_if(r.begin(), r.end(), pr), r.end());
			if (got != before - r.size()) fail("C05 remove(pred): returned count differs", fmt("got %zu expected %zu", got, before - r.size()));
			if (before == r.size()) c.stats.count("zero_length.remove_pred");
			note(line); emit(line, o, -1, fmt("|%zu", got)); compare(o); reserveClause(o, line);
			c.stats.count("op.remif"); nontrivial(line, n);
			return; }
		case 26: {	// Reserve
			size_t cap = (size_t)rng.below(n + 12); if (big && rng.chance(1, 4)) cap = n + (size_t)rng.below(200);
			line = fmt("reserve %d %zu", o, cap);
			Ad::reserve(a, cap); sizeChanging = false;
			note(line); emit(line, o); compare(o);
			if (Ad::cap(a) < cap) fail("C05 reserve: capacity below the request", fmt("requested %zu capacity %zu", cap, Ad::cap(a)));
			reserved[o] = std::max<long long>(reserved[o], (long long)cap);
			c.stats.count("op.reserve");
			return; }
		case 27: {	// Shrink
			reserved[o] = -1;
			if (Ad::hasShrinkTo && rng.chance(1, 3)) { size_t cap = (size_t)rng.below(n + 8); line = fmt("shrinkto %d %zu", o, cap); Ad::shrinkto(a, cap); }
			else { line = fmt("shrink %d", o); Ad::shrink(a); }
			sizeChanging = false;
			break; }
		case 28: {	// Clear
			bool sh = Ad::hasClearShrink && rng.chance(1, 2);
			if (!rng.chance(1, 4)) { kind = 21; size_t idx = pickIndex(n); size_t cnt = (size_t)rng.below(n - idx + 1) / 2; line = fmt("rem %d %zu %zu", o, idx, cnt); Ad::rem(a, idx, cnt, false); r.erase(r.begin() + (ptrdiff_t)idx, r.begin() + (ptrdiff_t)(idx + cnt)); break; }
			if (sh) reserved[o] = -1;
			line = fmt("clear %d %d", o, sh ? 1 : 0);
			Ad::clear(a, sh); r.clear();
			break; }
		case 29: {	// assign(count, value) with a possibly aliased value
			reserved[o] = -1;
			size_t cnt = (size_t)rng.below(8); Arg x = pickArg(o, 0, true);
			line = fmt("asgn %d %zu %s", o, cnt, x.tok.c_str());
			if (x.alias) { T copy(r[x.j]); Ad::asgn(a, cnt, Ad::at(static_cast<const C&>(a), x.j)); r.assign(cnt, copy); }
			else { T v = Cd::make(x.id); Ad::asgn(a, cnt, v); r.assign(cnt, v); }
			break; }
		case 30: {	// assign(range) / operator=(initializer_list)
			reserved[o] = -1;
			size_t cnt = (size_t)rng.below(6);
			std::vector<T> vals; std::string ids;
			for (size_t i = 0; i < cnt; ++i) { uint32_t id = fresh(); vals.push_back(Cd::make(id)); ids += fmt(" %u", id); }
			line = fmt("asgr %d%s", o, ids.c_str());
			if (rng.chance(1, 2)) Ad::asgr(a, vals.begin(), vals.end()); else assignList(a, vals);
			r = vals;
			break; }
		case 31: {	// a[j] = x
			if (n == 0) { oneOp(big); return; }
			size_t j = (size_t)rng.below(n); uint32_t id = fresh();
			line = fmt("set %d %zu %u", o, j, id);
			Ad::at(a, j) = Cd::make(id); r[j] = Cd::make(id); sizeChanging = false;
			break; }
		case 32: case 33: default: {	// two-object operations: copy / move construction and assignment, swap
			twoObjects(o); return; }
		}
		note(line); emit(line, o); compare(o, dontCare);
		if (sizeChanging) reserveClause(o, line);
		c.stats.count("op." + line.substr(0, line.find(' ')));
		nontrivial(line, n);
		if (dontCare >= 0) {
			// the caller moved element dontCare away: give it a value again
			c.stats.count("moved_from_cells");
			memLog().clear();
			uint32_t id = fresh();
			Ad::at(a, (size_t)dontCare) = Cd::make(id); r[(size_t)dontCare] = Cd::make(id);
			std::string l2 = fmt("set %d %lld %u", o, dontCare, id);
			note(l2); emit(l2, o); compare(o);
		}
		branchStats(n, Ad::size(a));
	}

	// the answer the memory manager will give to ReallocateInplace during the next operation (external behaviour,
	// told to the model before the operation)
	void setOracle(int o, int o2 = -1) {
		if (!Ad::hasInplace) return;
		bool b = rng.chance(1, 2);
		memLog().oracle = b;
		for (int k : { o, o2 }) if (k >= 0 && has[k]) { memLog().clear(); std::string l = fmt("oracle %d %d", k, b ? 1 : 0); note(l); emit(l, k); }
		memLog().clear();
	}

	void nontrivial(const std::string& line, size_t sizeBefore) {
		if (sizeBefore == 0) return;
		// distinct non-trivial case: (configuration, operation with its arguments' shape, grew or not) on a non-empty container
		std::string shape;
		for (char ch : line) shape += (ch >= '0' && ch <= '9') ? '#' : ch;
		shape.erase(std::unique(shape.begin(), shape.end(), [](char x, char y) { return x == '#' && y == '#'; }), shape.end());
		c.stats.nontrivial(cfgName + "|" + shape + "|" + (allocated() ? "alloc" : "noalloc") + fmt("|%zu", std::min<size_t>(sizeBefore, 8)));
		if (c.stats.samples.size() < 12 && rng.chance(1, 50)) c.stats.sample(cfgName + ": " + line + " -> " + memLog().str());
	}
	void branchStats(size_t before, size_t after) {
		bool grew = false;
		for (auto& e : memLog().ev) {
			if (e[0] == 'a') { c.stats.count("mem.alloc"); grew = true; }
			else if (e[0] == 'r') c.stats.count("mem.realloc");
			else if (e[0] == 'i') c.stats.count(e.back() == '1' ? "mem.inplace_ok" : "mem.inplace_refused");
			else if (e[0] == 'p') c.stats.count("mem.segment_pointer_array");
		}
		if (after > before) c.stats.count(grew ? "grow.with_allocation" : "grow.in_place");
		if (Ad::intCap > 0 && !Ad::isSeg) c.stats.count(after <= Ad::intCap ? "intcap.size_within" : "intcap.size_beyond");
		if (after > 150) c.stats.count("size.gt150"); else if (after > 64) c.stats.count("size.gt64");
	}

	size_t pickIndex(size_t n) {
		switch (rng.below(5)) { case 0: return 0; case 1: return n; case 2: return n > 0 ? n - 1 : 0; default: return (size_t)rng.below(n + 1); }
	}
	void insertList(C& a, size_t idx, const std::vector<T>& v) {
		switch (v.size()) {
		case 0: Ad::insl(a, idx, {}); break;
		case 1: Ad::insl(a, idx, { v[0] }); break;
		case 2: Ad::insl(a, idx, { v[0], v[1] }); break;
		case 3: Ad::insl(a, idx, { v[0], v[1], v[2] }); break;
		case 4: Ad::insl(a, idx, { v[0], v[1], v[2], v[3] }); break;
		default: Ad::insl(a, idx, { v[0], v[1], v[2], v[3], v[4] }); break;
		}
	}
	void assignList(C& a, const std::vector<T>& v) {
		switch (v.size()) {
		case 0: Ad::asgl(a, {}); break;
		case 1: Ad::asgl(a, { v[0] }); break;
		case 2: Ad::asgl(a, { v[0], v[1] }); break;
		case 3: Ad::asgl(a, { v[0], v[1], v[2] }); break;
		case 4: Ad::asgl(a, { v[0], v[1], v[2], v[3] }); break;
		default: Ad::asgl(a, { v[0], v[1], v[2], v[3], v[4] }); break;
		}
	}

	void twoObjects(int o)
	{
		int d = (o + 1 + (int)rng.below(slotCount - 1)) % slotCount;
		setOracle(o, d);
		memLog().clear();
		std::string line;
		if (!has[d]) {
			// construct d from o
			if (Ad::canMove && rng.chance(1, 2)) {
				line = fmt("mctor %d %d", d, o);
				obj[d].reset(new C(std::move(*obj[o]))); ref[d] = ref[o]; ref[o].clear(); reserved[d] = -1; reserved[o] = -1;
			}
			else {
				bool shr = !Ad::hasCopyNoShrink || rng.chance(1, 2);
				line = fmt("cctor %d %d %d", d, o, shr ? 1 : 0);
				obj[d].reset(Ad::cctor(*obj[o], shr)); ref[d] = ref[o]; reserved[d] = -1;
			}
			has[d] = true;
		}
		else {
			unsigned k = (unsigned)rng.below(Ad::canMove ? 4 : 1);
			if (k == 3 && rng.chance(1, 2)) { destroy(d); return; }
			switch (k) {
			case 0: line = fmt("casg %d %d", d, o); *obj[d] = static_cast<const C&>(*obj[o]); ref[d] = ref[o]; reserved[d] = -1; break;
			case 1: line = fmt("masg %d %d", d, o); *obj[d] = std::move(*obj[o]); ref[d] = ref[o]; ref[o].clear(); reserved[d] = -1; reserved[o] = -1; break;
			default: line = fmt("swap %d %d", d, o); swap(*obj[d], *obj[o]); ref[d].swap(ref[o]); std::swap(reserved[d], reserved[o]); break;
			}
		}
		note(line); emit(line, d, o); compare(d); compare(o);
		c.stats.count("op." + line.substr(0, line.find(' ')));
		nontrivial(line, ref[d].size() + ref[o].size());
	}

	// reserve clause, directed: reserve n, then grow the size up to exactly n with every kind of growing operation
	void reserveScenario()
	{
		int o = 0;
		// every third scenario starts from CreateCap(n) instead of Reserve(n) on an existing object
		bool viaCap = hasCreate && rng.chance(1, 3);
		if (viaCap) { if (has[o]) destroy(o); }
		else if (!has[o]) create(o, 0);
		size_t n0 = viaCap ? 0 : ref[o].size();
		size_t n = n0 + (size_t)rng.range(1, 40);
		std::string line;
		if (viaCap) {
			memLog().clear(); memLog().oracle = false;
			line = fmt("newcap %d %zu", o, n);
			obj[o].reset(makeCap(n, HasCreate())); ref[o].clear(); has[o] = true;
			note(line); emit(line, o); compare(o);
			c.stats.count("op.create_cap"); c.stats.count("reserve_clause.scenarios_from_CreateCap");
		}
		else {
			setOracle(o);
			memLog().clear();
			line = fmt("reserve %d %zu", o, n);
			Ad::reserve(*obj[o], n);
			note(line); emit(line, o); compare(o);
		}
		C& a = *obj[o]; std::vector<T>& r = ref[o];
		if (Ad::cap(a) < n) fail("C05 reserve: capacity below the request", fmt("requested %zu capacity %zu", n, Ad::cap(a)));
		reserved[o] = (long long)n;
		unsigned guard = 0;
		while (r.size() < n && guard++ < 400 && !broken) {
			size_t sz = r.size(), room = n - sz;
			setOracle(o);
			memLog().clear();
			long long dontCare = -1;
			switch (rng.below(6)) {
			case 0: { Arg x = pickArg(o, sz, true); line = fmt("pushc %d %s", o, x.tok.c_str());
				if (x.alias) { Ad::pushc(a, Ad::at(static_cast<const C&>(a), x.j)); r.push_back(T(r[x.j])); } else { T v = Cd::make(x.id); Ad::pushc(a, v); r.push_back(v); } break; }
			case 1: { uint32_t id = fresh(); T v = Cd::make(id); line = fmt("pushm %d v%u", o, id); r.push_back(v); Ad::pushm(a, std::move(v)); break; }
			case 2: { size_t idx = pickIndex(sz); Arg x = pickArg(o, idx, true); size_t cnt = (size_t)rng.below(std::min<size_t>(room, 5) + 1);
				line = fmt("insn %d %zu %zu %s", o, idx, cnt, x.tok.c_str());
				if (x.alias) { T copy(r[x.j]); Ad::insn(a, idx, cnt, Ad::at(static_cast<const C&>(a), x.j)); r.insert(r.begin() + (ptrdiff_t)idx, cnt, copy); }
				else { T v = Cd::make(x.id); Ad::insn(a, idx, cnt, v); r.insert(r.begin() + (ptrdiff_t)idx, cnt, v); } break; }
			case 3: { size_t idx = pickIndex(sz); size_t cnt = (size_t)rng.below(std::min<size_t>(room, 5) + 1);
				std::vector<T> vals; std::string ids;
				for (size_t i = 0; i < cnt; ++i) { uint32_t id = fresh(); vals.push_back(Cd::make(id)); ids += fmt(" %u", id); }
				line = fmt("insr %d %zu%s", o, idx, ids.c_str());
				Ad::insr(a, idx, vals.begin(), vals.end()); r.insert(r.begin() + (ptrdiff_t)idx, vals.begin(), vals.end()); break; }
			case 4: { size_t idx = pickIndex(sz); Arg x = pickArg(o, idx, true); line = fmt("empl %d %zu c %s", o, idx, x.tok.c_str());
				if (x.alias) { T copy(r[x.j]); Ad::emplc(a, idx, Ad::at(static_cast<const C&>(a), x.j)); r.insert(r.begin() + (ptrdiff_t)idx, copy); }
				else { T v = Cd::make(x.id); Ad::emplc(a, idx, v); r.insert(r.begin() + (ptrdiff_t)idx, v); } break; }
			default: { size_t cnt = sz + (size_t)rng.below(std::min<size_t>(room, 6) + 1); uint32_t id = fresh(); T v = Cd::make(id);
				line = fmt("setc %d %zu v%u", o, cnt, id); Ad::setc(a, cnt, v); r.resize(cnt, v); break; }
			}
			note(line); emit(line, o); compare(o, dontCare);
			c.stats.count("reserve_clause.checked_ops");
			if (allocated()) fail("C05 reserve: allocation although size <= reserved capacity", fmt("reserved %zu size %zu calls [%s] op [%s]", n, r.size(), memLog().str().c_str(), line.c_str()));
		}
		c.stats.count("reserve_clause.scenarios");
		reserved[o] = -1;
	}

	// ---- read access, iterators, Contains / IsEqual (none of them may change the container: the model answers `get`)

	// equality of the ids modulo `mod` (0 = exact); counts its calls, so that "the functor that was passed is the one that is used"
	// is observable
	struct EqMod {
		unsigned mod; size_t* calls;
		static std::string key(const T& t, unsigned mod) { std::string sh = Cd::show(t); if (mod == 0 || sh == "~") return sh; return std::to_string(std::stoul(sh) % mod); }
		bool operator()(const T& x, const T& y) const { ++*calls; return key(x, mod) == key(y, mod); }
	};

	void accessScenario(int o)
	{
		C& a = *obj[o]; const C& ca = a; std::vector<T>& r = ref[o];
		memLog().clear();
		c.stats.count("scenario.access");
		// IsEmpty / empty, GetBackItem() const / back() const
		if (Ad::empty(ca) != r.empty()) fail("C05 IsEmpty", fmt("slot %d: answered %d, the size is %zu", o, (int)Ad::empty(ca), r.size()));
		if (!r.empty()) {
			const T& b = Ad::back(ca);
			if (&b != &Ad::at(ca, r.size() - 1) || Cd::show(b) != Cd::show(r.back()))
				fail("C05 GetBackItem const", fmt("slot %d: got %s expected %s (size %zu)", o, Cd::show(b).c_str(), Cd::show(r.back()).c_str(), r.size()));
		}
		// non-const GetBegin / GetEnd: visit every element once in order, convert to the const iterator, write through the iterator
		{
			auto it = Ad::begin(a); auto e = Ad::end(a);
			typedef decltype(Ad::cbegin(ca)) CIt;
			size_t i = 0;
			for (; it != e && !broken; ++it, ++i) {
				if (i >= r.size()) { fail("C05 iteration", fmt("slot %d: GetBegin..GetEnd runs past the size %zu", o, r.size())); break; }
				CIt cit = it;	// ArrayIndexIterator::operator ConstIterator (Item* -> const Item* when iterators are pointers)
				CIt want = Ad::cbegin(ca) + (ptrdiff_t)i;
				if (!(cit == want) || &*cit != &Ad::at(ca, i) || &*it != &Ad::at(a, i) || Cd::show(*cit) != Cd::show(r[i])) {
					fail("C05 iteration", fmt("slot %d: iterator %zu of %zu does not designate element %zu (value %s expected %s)", o, i, r.size(), i, Cd::show(*cit).c_str(), Cd::show(r[i]).c_str()));
					break;
				}
				if (rng.chance(1, 3) && i < 40) {
					uint32_t id = fresh();
					memLog().clear();
					*it = Cd::make(id); r[i] = Cd::make(id);
					std::string l2 = fmt("set %d %zu %u", o, i, id);
					note(l2); emit(l2, o); compare(o);
					c.stats.count("iterator.writes");
				}
			}
			if (!broken && i != r.size()) fail("C05 iteration", fmt("slot %d: GetBegin..GetEnd visited %zu of %zu elements", o, i, r.size()));
			if (!broken && (size_t)(e - Ad::begin(a)) != r.size()) fail("C05 iteration", fmt("slot %d: GetEnd - GetBegin = %lld, size %zu", o, (long long)(e - Ad::begin(a)), r.size()));
		}
		if (!broken) searchScenario(o, IsNative());
		if (broken) return;
		memLog().clear();
		std::string line = fmt("get %d", o);
		note(line); emit(line, o); compare(o);
	}

	void searchScenario(int, std::false_type) {}
	void searchScenario(int o, std::true_type)
	{
		C& a = *obj[o]; const C& ca = a; std::vector<T>& r = ref[o];
		size_t n = r.size();
		// Contains(item, equalFunc) against std::any_of on the reference sequence: an element, a value that is not there, a value
		// that is there only for the functor
		for (unsigned t = 0; t < 4; ++t) {
			unsigned mod = (t & 1) ? (unsigned)rng.range(2, 5) : 0;
			uint32_t id = fresh();
			T probe = (t < 2 && n > 0) ? T(r[(size_t)rng.below(n)]) : Cd::make(id);
			size_t calls = 0, refCalls = 0;
			EqMod eq{ mod, &calls }, refEq{ mod, &refCalls };
			bool got = ca.Contains(probe, eq);
			bool want = std::any_of(r.begin(), r.end(), [&](const T& x) { return refEq(x, probe); });
			if (got != want) fail("C05 Contains", fmt("slot %d: Contains(%s, equal mod %u) = %d, std::any_of on the reference = %d (size %zu)", o, Cd::show(probe).c_str(), mod, (int)got, (int)want, n));
			if (calls != refCalls) fail("C05 Contains", fmt("slot %d: the equality functor was called %zu times, a linear search needs %zu (size %zu)", o, calls, refCalls, n));
			c.stats.count(want ? "contains.true" : "contains.false");
			c.stats.evaluations++;
		}
		containsDefault(o, std::is_same<T, std::string>());
		// IsEqual(array, equalFunc) against std::equal (4 iterators) on the references: a copy; the copy with one element changed
		// (really different / different only for the exact functor); longer and shorter copies
		for (unsigned t = 0; t < 5 && !broken; ++t) {
			std::unique_ptr<C> b(Ad::cctor(ca, true)); std::vector<T> rb(r);
			unsigned mod = 0;
			const char* what = "copy";
			if (t == 1 || t == 2) {
				if (n == 0) continue;
				size_t j = (size_t)rng.below(n); uint32_t id = fresh();
				mod = (t == 2) ? 2 : 0;
				if (t == 2) {	// a different id with the same parity: equal for the functor, unequal exactly
					std::string sh = Cd::show(r[j]);
					if (sh != "~" && (std::stoul(sh) & 1) != (id & 1)) id = fresh();
				}
				Ad::at(*b, j) = Cd::make(id); rb[j] = Cd::make(id);
				what = (t == 2) ? "one element replaced by one of the same parity" : "one element replaced";
			}
			else if (t == 3) { uint32_t id = fresh(); T v = Cd::make(id); Ad::pushc(*b, v); rb.push_back(v); what = "one element more"; }
			else if (t == 4) { if (n == 0) continue; Ad::pop(*b, 1); rb.pop_back(); what = "one element less"; }
			const C& cb = *b;
			for (unsigned dir = 0; dir < 2; ++dir) {
				size_t calls = 0, refCalls = 0;
				EqMod eq{ mod, &calls }, refEq{ mod, &refCalls };
				bool got = dir ? cb.IsEqual(ca, eq) : ca.IsEqual(cb, eq);
				bool want = dir ? std::equal(rb.begin(), rb.end(), r.begin(), r.end(), refEq) : std::equal(r.begin(), r.end(), rb.begin(), rb.end(), refEq);
				if (got != want) fail("C05 IsEqual", fmt("slot %d: IsEqual(%s, equal mod %u)%s = %d, std::equal on the references = %d (sizes %zu, %zu)", o, what, mod, dir ? " reversed" : "", (int)got, (int)want, r.size(), rb.size()));
				if (calls != refCalls) fail("C05 IsEqual", fmt("slot %d: IsEqual(%s): the equality functor was called %zu times, std::equal needs %zu", o, what, calls, refCalls));
				c.stats.count(want ? "isequal.true" : "isequal.false");
				c.stats.evaluations++;
			}
			if (t == 0) equalDefault(o, *b, std::is_same<T, std::string>());
		}
		memLog().clear();
	}
	// the default EqualFunc (std::equal_to<Item>) needs operator==: std::string only
	void containsDefault(int, std::false_type) {}
	void containsDefault(int o, std::true_type) {
		const C& ca = *obj[o]; std::vector<T>& r = ref[o];
		uint32_t id = fresh();
		T probe = (!r.empty() && rng.chance(1, 2)) ? T(r[(size_t)rng.below(r.size())]) : Cd::make(id);
		bool got = ca.Contains(probe), want = std::find(r.begin(), r.end(), probe) != r.end();
		if (got != want) fail("C05 Contains", fmt("slot %d: Contains(%s) = %d, std::find on the reference = %d (size %zu)", o, Cd::show(probe).c_str(), (int)got, (int)want, r.size()));
	}
	void equalDefault(int, C&, std::false_type) {}
	void equalDefault(int o, C& b, std::true_type) {
		const C& ca = *obj[o];
		if (!ca.IsEqual(b) || !static_cast<const C&>(b).IsEqual(ca)) fail("C05 IsEqual", fmt("slot %d: a copy is not equal to its source (size %zu)", o, ref[o].size()));
		if (!ref[o].empty()) {
			size_t j = (size_t)rng.below(ref[o].size());
			T saved(Ad::at(b, j));
			Ad::at(b, j) = Cd::make(fresh());
			if (ca.IsEqual(b)) fail("C05 IsEqual", fmt("slot %d: equal although element %zu of %zu differs", o, j, ref[o].size()));
			Ad::at(b, j) = saved;
		}
	}

	// ---- Array::Data::pvCheckCapacity: a capacity whose byte size does not fit size_t is refused with std::bad_array_new_length
	// (a std::bad_alloc) before any memory-manager call; contents, count AND capacity stay as they were (C04 `reserve`)
	void overflowScenario(std::false_type) {}
	void overflowScenario(std::true_type)
	{
		// an empty object in slot 1 and whatever slot 0 holds (not empty after the reserve scenario)
		if (has[1]) destroy(1);
		create(1, 0);
		for (int o = 1; o >= 0 && !broken; --o) {
			if (!has[o]) continue;
			C& a = *obj[o];
			const size_t big = SIZE_MAX / sizeof(T) + 1;
			for (unsigned v = 0; v < 6 && !broken; ++v) {
				size_t arg = (v & 1) ? (rng.chance(1, 2) ? SIZE_MAX : big + (size_t)rng.below(SIZE_MAX - big)) : big;
				std::string before = state(o);
				long long blocksBefore = memLog().liveBlocks;
				memLog().clear();
				const char* what = v < 2 ? "Reserve" : v < 4 ? "SetCount(count)" : "SetCount(count, item)";
				int outcome = 0;	// 1 = bad_array_new_length, 2 = another bad_alloc, 3 = something else
				try {
					if (v < 2) a.Reserve(arg);
					else if (v < 4) a.SetCount(arg);
					else if (ref[o].empty()) { T x = Cd::make(fresh()); a.SetCount(arg, x); }
					else a.SetCount(arg, static_cast<const C&>(a)[(size_t)rng.below(ref[o].size())]);
				}
				catch (const std::bad_array_new_length&) { outcome = 1; }
				catch (const std::bad_alloc&) { outcome = 2; }
				catch (...) { outcome = 3; }
				c.stats.evaluations++; c.stats.count(std::string("overflow.") + what + (ref[o].empty() ? ".empty" : ".nonempty"));
				std::string tag = fmt("slot %d: %s(%zu) with sizeof(Item) = %zu", o, what, arg, sizeof(T));
				if (outcome != 1) fail("C05/C04 capacity overflow: no std::bad_array_new_length", tag + (outcome == 0 ? " returned" : outcome == 2 ? " threw another std::bad_alloc" : " threw something else"));
				else if (state(o) != before) fail("C05/C04 capacity overflow: the failed call changed the array", tag + fmt(" before {%s} after {%s}", before.c_str(), state(o).c_str()));
				else if (!memLog().ev.empty() || memLog().liveBlocks != blocksBefore) fail("C05/C04 capacity overflow: memory-manager call", tag + " calls [" + memLog().str() + "]");
				if (broken) return;
				std::string line = fmt("get %d", o);
				note(fmt("%s(%zu) -> threw; ", what, arg) + line); emit(line, o); compare(o);
			}
		}
		overflowCreate(HasCreate());
		// constructors: nothing may have been allocated
		for (unsigned v = 0; v < 2 && !broken; ++v) {
			const size_t big = SIZE_MAX / sizeof(T) + 1;
			long long blocksBefore = memLog().liveBlocks;
			memLog().clear();
			int outcome = 0;
			try { if (v == 0) { std::unique_ptr<C> t(Ad::newcount(big)); } else { T x = Cd::make(fresh()); std::unique_ptr<C> t(Ad::newfill(big, x)); } }
			catch (const std::bad_array_new_length&) { outcome = 1; }
			catch (...) { outcome = 3; }
			c.stats.evaluations++; c.stats.count("overflow.constructor");
			if (outcome != 1 || !memLog().ev.empty() || memLog().liveBlocks != blocksBefore)
				fail("C05/C04 capacity overflow: constructor", fmt("Array(%zu%s) with sizeof(Item) = %zu: outcome %d calls [%s]", big, v ? ", item" : "", sizeof(T), outcome, memLog().str().c_str()));
		}
		c.stats.count("scenario.overflow");
	}
	void overflowCreate(std::false_type) {}
	void overflowCreate(std::true_type) {
		const size_t big = SIZE_MAX / sizeof(T) + 1;
		for (unsigned v = 0; v < 2 && !broken; ++v) {
			long long blocksBefore = memLog().liveBlocks;
			memLog().clear();
			int outcome = 0; size_t calls = 0;
			try {
				if (v == 0) { std::unique_ptr<C> t(Ad::newcap(big)); }
				else { auto creator = [&calls](T* p) { ++calls; ::new(static_cast<void*>(p)) T(); }; std::unique_ptr<C> t(Ad::newcrt(big, creator)); }
			}
			catch (const std::bad_array_new_length&) { outcome = 1; }
			catch (...) { outcome = 3; }
			c.stats.evaluations++; c.stats.count("overflow.CreateCap");
			if (outcome != 1 || calls != 0 || !memLog().ev.empty() || memLog().liveBlocks != blocksBefore)
				fail("C05/C04 capacity overflow: CreateCap / CreateCrt", fmt("%s(%zu) with sizeof(Item) = %zu: outcome %d, %zu creator calls, calls [%s]", v ? "CreateCrt" : "CreateCap", big, sizeof(T), outcome, calls, memLog().str().c_str()));
		}
	}
};

// one configuration = one correspondence suite (its own `model arr …` header)
template<typename Ad>
inline void runConfig(Ctx& c, Rng& rng, const std::string& suiteName, const std::string& mmName, const Budget& b)
{
	std::string name = Ad::family() + " of " + Codec<typename Ad::T>::name() + (mmName.empty() ? "" : ", " + mmName);
	Suite s(c, suiteName, Ad::header());
	c.stats.count("config." + name);
	memLog() = MemLog();
	Runner<Ad> r(c, rng, s, name);
	r.run(b);
}

} // namespace c05
