// C04 / C10 correspondence harness for the B-tree family under faults: momo::TreeSet / momo::TreeMap against the Lean model
// `btreefault` (lean/Momo/Model/BTreeFault.lean).
//
// Random histories on four containers and one node handle. Every operation runs under a named fault: the k-th call of the
// comparison functor (`cmp`), the k-th MemManager::Allocate (`alloc`, only for node pools with one block per buffer, where
// every Node::Create is one Allocate), the k-th element copy construction (`ctor`), the k-th element assignment (`repl`), the
// k-th call of the user's filter (`filt`) - counted from the start of that operation. Operations with the strong guarantee are
// also swept: k = 0, 1, 2, ... until the operation succeeds. The model must predict for every line: whether the call threw, its
// result, and afterwards the complete contents, the complete node shape (pre-order (isLeaf, count, capacity)), whether the
// node-params block exists, and the ledger (live leaf / internal nodes from the pools' own counters, live element objects,
// live memory-manager blocks).
// Property-level oracle (C04 / C10) next to it: after an exception of a strong operation contents, order, count, node
// counters and element-object count are those before the call; after an exception of a bulk operation the container is
// sorted, without duplicate keys when unique, a sub-multiset of old + inserted, merges conserve src + dst + handle.
// Functor faults need ExtraCheckMode::nothing (DESIGN.md O1): all containers use such settings classes.
// One source, several executables: -DTF_PART=<k> selects a group of configurations.
#include "momo/TreeSet.h"
#include "momo/TreeMap.h"
#include "common/verif_common.h"

#include <algorithm>
#include <functional>
#include <map>
#include <stdexcept>
#include <string>
#include <vector>

#ifndef TF_PART
#define TF_PART 0
#endif

using namespace vf;

// ------------------------------------------------------------------ fault controls

struct Ctl {
	long cmp = -1, ctor = -1, repl = -1, filt = -1, alloc = -1;
	bool fired = false;
	long live = 0;	// element objects of the instrumented types alive
	long swaps = 0;	// calls of the noexcept ADL swap of the swap-only types (KS / KSU / VS)
	std::map<void*, size_t> blocks;
	size_t badDealloc = 0;
	void disarm() { cmp = ctor = repl = filt = alloc = -1; fired = false; }
};
static Ctl g;

struct CmpThrow : std::domain_error { CmpThrow() : std::domain_error("cmp") {} };
struct CtorThrow : std::runtime_error { CtorThrow() : std::runtime_error("ctor") {} };
struct ReplThrow : std::runtime_error { ReplThrow() : std::runtime_error("repl") {} };
struct FiltThrow : std::runtime_error { FiltThrow() : std::runtime_error("filt") {} };

static inline void cmpPoint() { if (g.cmp == 0) { g.cmp = -1; g.fired = true; throw CmpThrow(); } if (g.cmp > 0) --g.cmp; }
static inline void ctorPoint() { if (g.ctor == 0) { g.ctor = -1; g.fired = true; throw CtorThrow(); } if (g.ctor > 0) --g.ctor; }
static inline void replPoint() { if (g.repl == 0) { g.repl = -1; g.fired = true; throw ReplThrow(); } if (g.repl > 0) --g.repl; }
static inline void filtPoint() { if (g.filt == 0) { g.filt = -1; g.fired = true; throw FiltThrow(); } if (g.filt > 0) --g.filt; }

// stateless manager (all instances equal), every Allocate is a fault point, block ledger with sizes
class TFMM {
public:
	explicit TFMM() noexcept {}
	TFMM(TFMM&&) = default;
	TFMM(const TFMM&) = default;
	~TFMM() = default;
	TFMM& operator=(const TFMM&) = delete;
	void* Allocate(size_t size) {
		if (g.alloc == 0) { g.alloc = -1; g.fired = true; throw std::bad_alloc(); }
		if (g.alloc > 0) --g.alloc;
		void* p = std::malloc(size);
		if (!p) throw std::bad_alloc();
		g.blocks[p] = size;
		return p;
	}
	void Deallocate(void* p, size_t size) noexcept {
		auto it = g.blocks.find(p);
		if (it == g.blocks.end() || it->second != size) { ++g.badDealloc; return; }
		g.blocks.erase(it);
		std::free(p);
	}
};

// ------------------------------------------------------------------ element types

// trivially relocatable
struct KT { int k; int id; KT(int k_ = 0, int id_ = 0) : k(k_), id(id_) {} };
inline bool operator<(const KT& a, const KT& b) { cmpPoint(); return a.k < b.k; }

// nothrow-movable, the copy constructor may throw: nothrow relocatable, nothrow assignable
struct KM {
	int k; int id; unsigned st;
	KM(int k_ = 0, int id_ = 0) : k(k_), id(id_), st(0xA11CE) { ++g.live; }
	KM(const KM& o) : k((ctorPoint(), o.k)), id(o.id), st(0xA11CE) { ++g.live; }
	KM(KM&& o) noexcept : k(o.k), id(o.id), st(0xA11CE) { ++g.live; }
	KM& operator=(const KM& o) { k = o.k; id = o.id; return *this; }
	KM& operator=(KM&& o) noexcept { k = o.k; id = o.id; return *this; }
	~KM() { if (st != 0xA11CE) abort(); st = 0xDEAD; --g.live; }
};
inline bool operator<(const KM& a, const KM& b) { cmpPoint(); return a.k < b.k; }

// copy-only, copy construction and copy assignment may throw: not nothrow relocatable, not nothrow-anyway-assignable
struct KC {
	int k; int id; unsigned st;
	KC(int k_ = 0, int id_ = 0) : k(k_), id(id_), st(0xA11CE) { ++g.live; }
	KC(const KC& o) : k((ctorPoint(), o.k)), id(o.id), st(0xA11CE) { ++g.live; }
	KC& operator=(const KC& o) { replPoint(); k = o.k; id = o.id; return *this; }
	~KC() { if (st != 0xA11CE) abort(); st = 0xDEAD; --g.live; }
};
inline bool operator<(const KC& a, const KC& b) { cmpPoint(); return a.k < b.k; }

// copy-only with a nothrow copy assignment: not nothrow relocatable, nothrow-anyway-assignable
struct KA {
	int k; int id; unsigned st;
	KA(int k_ = 0, int id_ = 0) : k(k_), id(id_), st(0xA11CE) { ++g.live; }
	KA(const KA& o) : k((ctorPoint(), o.k)), id(o.id), st(0xA11CE) { ++g.live; }
	KA& operator=(const KA& o) noexcept { k = o.k; id = o.id; return *this; }
	~KA() { if (st != 0xA11CE) abort(); st = 0xDEAD; --g.live; }
};
inline bool operator<(const KA& a, const KA& b) { cmpPoint(); return a.k < b.k; }

// copy-and-swap type: no move constructor (moving = the copy constructor, which may throw), assignment takes its argument by value,
// noexcept ADL swap. Not nothrow relocatable, not nothrow move assignable, nothrow swappable: nothrow-anyway-assignable through
// ObjectManager::pvAssignAnyway(swap variant) and nothrow shiftable, so TreeNode<..., continuous = true> really is contiguous and
// shifts the items with ObjectManager::pvShiftNothrow(swap variant); an extraction whose relocation throws must shift the items
// back (Node::pvRemove(..., isContinuous = true) catch). (gcc: a type that declares a move constructor counts as nothrow relocatable
// for momo whether or not it is noexcept - MOMO_IS_NOTHROW_RELOCATABLE_APPENDIX - hence "no move constructor".)
struct KS {
	int k; int id; unsigned st;
	KS(int k_ = 0, int id_ = 0) : k(k_), id(id_), st(0xA11CE) { ++g.live; }
	KS(const KS& o) : k((ctorPoint(), o.k)), id(o.id), st(0xA11CE) { ++g.live; }
	KS& operator=(KS o) { swap(*this, o); return *this; }
	friend void swap(KS& a, KS& b) noexcept { int t = a.k; a.k = b.k; b.k = t; t = a.id; a.id = b.id; b.id = t; ++g.swaps; }
	~KS() { if (st != 0xA11CE) abort(); st = 0xDEAD; --g.live; }
};
inline bool operator<(const KS& a, const KS& b) { cmpPoint(); return a.k < b.k; }

// the same as a map key; not counted in g.live (the ledger of a map counts one object per pair: the value)
struct KSU {
	int k; unsigned st;
	KSU(int k_ = 0) : k(k_), st(0xA11CE) {}
	KSU(const KSU& o) : k((ctorPoint(), o.k)), st(0xA11CE) {}
	KSU& operator=(KSU o) { swap(*this, o); return *this; }
	friend void swap(KSU& a, KSU& b) noexcept { int t = a.k; a.k = b.k; b.k = t; ++g.swaps; }
	~KSU() { if (st != 0xA11CE) abort(); st = 0xDEAD; }
};
inline bool operator<(const KSU& a, const KSU& b) { cmpPoint(); return a.k < b.k; }

// map key: trivially relocatable int wrapper with the throwing comparison
struct IK { int k; IK(int k_ = 0) : k(k_) {} };
inline bool operator<(const IK& a, const IK& b) { cmpPoint(); return a.k < b.k; }

// map key that is copy-only with throwing assignment (for the documented exception 5: pvReplaceUnsafe); not counted in g.live
struct KU {
	int k;
	KU(int k_ = 0) : k(k_) {}
	KU(const KU& o) : k((ctorPoint(), o.k)) {}
	KU& operator=(const KU& o) { replPoint(); k = o.k; return *this; }
	~KU() {}
};
inline bool operator<(const KU& a, const KU& b) { cmpPoint(); return a.k < b.k; }

// mapped values
struct VM {
	int id; unsigned st;
	VM(int id_ = 0) : id(id_), st(0xA11CE) { ++g.live; }
	VM(const VM& o) : id((ctorPoint(), o.id)), st(0xA11CE) { ++g.live; }
	VM(VM&& o) noexcept : id(o.id), st(0xA11CE) { ++g.live; }
	VM& operator=(const VM& o) { id = o.id; return *this; }
	VM& operator=(VM&& o) noexcept { id = o.id; return *this; }
	~VM() { if (st != 0xA11CE) abort(); st = 0xDEAD; --g.live; }
};
struct VC {
	int id; unsigned st;
	VC(int id_ = 0) : id(id_), st(0xA11CE) { ++g.live; }
	VC(const VC& o) : id((ctorPoint(), o.id)), st(0xA11CE) { ++g.live; }
	VC& operator=(const VC& o) { replPoint(); id = o.id; return *this; }
	~VC() { if (st != 0xA11CE) abort(); st = 0xDEAD; --g.live; }
};

// mapped value of the copy-and-swap category
struct VS {
	int id; unsigned st;
	VS(int id_ = 0) : id(id_), st(0xA11CE) { ++g.live; }
	VS(const VS& o) : id((ctorPoint(), o.id)), st(0xA11CE) { ++g.live; }
	VS& operator=(VS o) { swap(*this, o); return *this; }
	friend void swap(VS& a, VS& b) noexcept { int t = a.id; a.id = b.id; b.id = t; ++g.swaps; }
	~VS() { if (st != 0xA11CE) abort(); st = 0xDEAD; --g.live; }
};

// maps whose KEY copy is the fallible step of a pair's creation pass the mapped value as an rvalue (nothrow move), so that the creation
// of a pair stays ONE `ctor` step as in the model
template<class K> struct MoveVal { static const bool value = false; };
template<> struct MoveVal<KSU> { static const bool value = true; };
template<bool mv, class V> static typename std::conditional<mv, V&&, const V&>::type passVal(V& v) { return static_cast<typename std::conditional<mv, V&&, const V&>::type>(v); }

template<class T> struct Counted { static const bool value = true; };
template<> struct Counted<KT> { static const bool value = false; };

typedef std::pair<int, int> KI;	// (key, id)

// ------------------------------------------------------------------ configurations

struct SetNX : public momo::TreeSetSettings { static const momo::ExtraCheckMode extraCheckMode = momo::ExtraCheckMode::nothing; };
struct MapNX : public momo::TreeMapSettings { static const momo::ExtraCheckMode extraCheckMode = momo::ExtraCheckMode::nothing; };

template<class TItem, class TN, bool tLin, bool tMulti, bool tReloc, bool tAssign>
struct SetCf {
	typedef TItem Item;
	typedef momo::TreeTraits<Item, tMulti, TN, tLin> Traits;
	typedef momo::TreeSet<Item, Traits, TFMM, momo::TreeSetItemTraits<Item, TFMM>, SetNX> Cont;
	typedef Cont Set;
	static const bool isMap = false, multi = tMulti, reloc = tReloc, assign = tAssign, unsafeRepl = false, counted = Counted<TItem>::value;
	static const bool hasCtor = Counted<TItem>::value, keyCtor = false;
	static Set& set(Cont& c) { return c; }
};

template<class TItem, class TN, bool tMulti, bool tReloc, bool tAssign>
struct SetCfStd {	// non-empty traits class (holds the comparison object): MergeTo(TreeSet&) always takes pvMergeTo
	typedef TItem Item;
	typedef momo::TreeTraitsStd<Item, std::less<Item>, tMulti, TN> Traits;
	typedef momo::TreeSet<Item, Traits, TFMM, momo::TreeSetItemTraits<Item, TFMM>, SetNX> Cont;
	typedef Cont Set;
	static const bool isMap = false, multi = tMulti, reloc = tReloc, assign = tAssign, unsafeRepl = false, counted = Counted<TItem>::value;
	static const bool hasCtor = Counted<TItem>::value, keyCtor = false;
	static Set& set(Cont& c) { return c; }
};

template<class TKey, class TVal, class TN, bool tLin, bool tMulti, bool tReloc, bool tAssign, bool tUnsafe>
struct MapCf {
	typedef TKey Key; typedef TVal Val;
	typedef momo::TreeTraits<Key, tMulti, TN, tLin> Traits;
	typedef momo::TreeMap<Key, Val, Traits, TFMM, momo::TreeMapKeyValueTraits<Key, Val, TFMM>, MapNX> Cont;
	typedef typename Cont::TreeSet Set;
	static const bool isMap = true, multi = tMulti, reloc = tReloc, assign = tAssign, unsafeRepl = tUnsafe, counted = true;
	static const bool hasCtor = true, keyCtor = MoveVal<TKey>::value;	// keyCtor: the key's copy is a `ctor` step too (a copy of a pair = two steps: not in the model)
	static Set& set(Cont& c) { return c.mTreeSet; }
};

template<class Cf, bool isMap = Cf::isMap> struct Api;

template<class Cf> struct Api<Cf, false> {
	typedef typename Cf::Cont Cont; typedef typename Cf::Item Item;
	typedef typename Cont::ConstIterator It; typedef typename Cont::ExtractedItem Ext;
	static int key(It it) { return it->k; }
	static int id(It it) { return it->id; }
	static std::pair<It, bool> insert(Cont& c, int k, int id) { Item x(k, id); auto r = c.Insert(x); return { r.position, r.inserted }; }
	static It add(Cont& c, It hint, int k, int id) { Item x(k, id); return c.Add(hint, x); }
	static size_t insertRange(Cont& c, const std::vector<KI>& v) {
		std::vector<Item> items; items.reserve(v.size());
		for (auto& x : v) items.emplace_back(x.first, x.second);
		return c.Insert(items.begin(), items.end());
	}
	static size_t removeKey(Cont& c, int k) { Item x(k, 0); return c.Remove(x); }
	static size_t removePred(Cont& c, int m, int r) { return c.Remove([m, r] (const Item& x) { filtPoint(); return x.k % m == r; }); }
	static KI extItem(const Ext& e) { return KI(e.GetItem().k, e.GetItem().id); }
};

template<class Cf> struct Api<Cf, true> {
	typedef typename Cf::Cont Cont; typedef typename Cf::Key Key; typedef typename Cf::Val Val;
	typedef typename Cont::ConstIterator It; typedef typename Cont::ExtractedPair Ext;
	static int key(It it) { return it->key.k; }
	static int id(It it) { return it->value.id; }
	static const bool mv = MoveVal<Key>::value;
	static std::pair<It, bool> insert(Cont& c, int k, int id) { Key key(k); Val v(id); auto r = c.Insert(key, passVal<mv>(v)); return { It(r.position), r.inserted }; }
	static It add(Cont& c, It hint, int k, int id) { Key key(k); Val v(id); return It(c.Add(hint, key, passVal<mv>(v))); }
	static size_t insertRange(Cont& c, const std::vector<KI>& v) {
		std::vector<std::pair<Key, Val>> items; items.reserve(v.size());
		for (auto& x : v) items.emplace_back(std::piecewise_construct, std::forward_as_tuple(x.first), std::forward_as_tuple(x.second));
		return insertRange(c, items, std::integral_constant<bool, mv>());
	}
	static size_t insertRange(Cont& c, std::vector<std::pair<Key, Val>>& items, std::false_type) { return c.Insert(items.begin(), items.end()); }
	static size_t insertRange(Cont& c, std::vector<std::pair<Key, Val>>& items, std::true_type) { return c.Insert(std::make_move_iterator(items.begin()), std::make_move_iterator(items.end())); }
	static size_t removeKey(Cont& c, int k) { Key key(k); return c.Remove(key); }
	static size_t removePred(Cont& c, int m, int r) { return c.Remove([m, r] (const Key& key, const Val&) { filtPoint(); return key.k % m == r; }); }
	static KI extItem(const Ext& e) { return KI(e.GetKey().k, e.GetValue().id); }
};

// ------------------------------------------------------------------ one configuration

template<class Node>
static void shapeRec(Node* n, std::string& text, size_t& nodes, size_t depth, size_t& height)
{
	if (!text.empty()) text += ' ';
	text += fmt("%c%zu/%zu", n->IsLeaf() ? 'L' : 'I', n->GetCount(), n->GetCapacity());
	++nodes; height = std::max(height, depth);
	if (!n->IsLeaf()) for (size_t i = 0; i <= n->GetCount(); ++i) shapeRec(n->GetChild(i), text, nodes, depth + 1, height);
}

enum Kind { K_NONE = 0, K_CMP, K_ALLOC, K_CTOR, K_REPL, K_FILT };
static const char* kindName[] = { "-", "cmp", "alloc", "ctor", "repl", "filt" };

template<class Cf>
struct Run {
	typedef typename Cf::Cont Cont; typedef typename Cf::Set Set; typedef typename Set::Node Node;
	typedef Api<Cf> A; typedef typename A::It It; typedef typename A::Ext Ext;

	Ctx& c; Rng rng; std::string name; Suite s;
	Cont slots[4]; Ext holder; bool holderFull = false; KI holderItem;
	std::vector<KI> ref[4];	// contents in order (the property's reference), kept from the implementation's own answers only where the property allows a choice
	bool bc1, crew; int nextId = 1; size_t maxN;
	uint64_t opNo = 0;

	static std::string cfgText(bool bc1, bool crew) {
		typedef typename Cf::Traits::TreeNode TN;
		bool dflt = std::is_same<TN, momo::TreeNode<>>::value;
		std::string node = dflt ? std::string("cap=default") : fmt("cap=%zu step=%zu bg1=%d", (size_t)Node::maxCapacity, (size_t)Node::capacityStep, TN::MemPoolParams::blockCount > 1 ? 1 : 0);
		return fmt("%s lin=%d multi=%d reloc=%d assign=%d unsafe=%d crew=%d stateful=%d bc1=%d", node.c_str(), Cf::Traits::useLinearSearch ? 1 : 0, Cf::multi ? 1 : 0,
			Cf::reloc ? 1 : 0, Cf::assign ? 1 : 0, Cf::unsafeRepl ? 1 : 0, crew ? 1 : 0, std::is_empty<typename Cf::Traits>::value ? 0 : 1, bc1 ? 1 : 0);
	}

	Run(Ctx& c_, const std::string& name_, uint64_t salt, bool bc1_, bool crew_, size_t maxN_)
		: c(c_), rng(c_.seed * 0x1000 + 0x4F0 + salt), name(name_), s(c_, name_, "model btreefault " + cfgText(bc1_, crew_)), bc1(bc1_), crew(crew_), maxN(maxN_) {}

	// ---- observation
	It iterAt(int sl, size_t i) { return std::next(It(slots[sl].GetBegin()), (ptrdiff_t)i); }
	size_t indexOf(int sl, It it) { return (size_t)std::distance(It(slots[sl].GetBegin()), it); }
	std::vector<KI> contents(int sl) {
		std::vector<KI> v; Cont& t = slots[sl];
		for (It it = t.GetBegin(); !(it == It(t.GetEnd())); ++it) { v.push_back(KI(A::key(it), A::id(it))); if (v.size() > 100000) break; }
		return v;
	}
	static std::string show(const std::vector<KI>& v) { if (v.empty()) return "-"; std::string r; for (auto& x : v) { if (!r.empty()) r += ' '; r += fmt("%d:%d", x.first, x.second); } return r; }
	void nodeCounts(int sl, size_t& leaves, size_t& inners, bool& params) {
		Set& t = Cf::set(slots[sl]); leaves = inners = 0; params = t.mNodeParams != nullptr;
		if (!params) return;
		inners = t.mNodeParams->GetInternalMemPool().GetAllocateCount();
		for (size_t i = 0; i < Node::leafMemPoolCount; ++i) leaves += t.mNodeParams->GetLeafMemPool(i).GetAllocateCount();
	}
	std::string shapeText(int sl) {
		Set& t = Cf::set(slots[sl]); std::string text; size_t nodes = 0, height = 0;
		if (!t.mRootNode) text = "null"; else shapeRec(t.mRootNode, text, nodes, 1, height);
		c.stats.count(fmt("height.%zu", height));
		return text + (t.mNodeParams != nullptr ? " p=1" : " p=0");
	}
	std::string ledText() {
		size_t L = 0, I = 0, P = 0;
		for (int sl = 0; sl < 4; ++sl) { size_t l, i; bool p; nodeCounts(sl, l, i, p); L += l; I += i; P += p ? 1 : 0; }
		long items;
		if (Cf::counted) items = g.live;
		else { items = holderFull ? 1 : 0; for (int sl = 0; sl < 4; ++sl) items += (long)slots[sl].GetCount(); }
		size_t crews = crew ? 4 : 0;
		std::string r;
		if (bc1) {
			long aux = (long)g.blocks.size() - (long)(L + I + P + crews);
			r = fmt("L=%zu I=%zu items=%ld aux=%ld params=%zu crews=%zu blocks=%zu", L, I, items, aux, P, crews, g.blocks.size());
		}
		else r = fmt("L=%zu I=%zu items=%ld aux=0 params=%zu crews=%zu", L, I, items, P, crews);
		return r;
	}
	void dump(int sl) {
		s.op(fmt("shape %d", sl)); s.res(shapeText(sl));
		s.op(fmt("fwd %d", sl)); s.res(show(contents(sl)));
	}
	void dumpLed() { s.op("led"); s.res(ledText()); }
	void dumpExt() { s.op("ext?"); s.res(holderFull ? fmt("%d:%d", holderItem.first, holderItem.second) : std::string("-")); }

	// ---- faults
	void arm(Kind kind, long k) {
		g.disarm();
		switch (kind) { case K_CMP: g.cmp = k; break; case K_ALLOC: g.alloc = k; break; case K_CTOR: g.ctor = k; break; case K_REPL: g.repl = k; break; case K_FILT: g.filt = k; break; default: break; }
	}
	static std::string fstr(Kind kind, long k) { return kind == K_NONE ? std::string("-") : fmt("%s:%ld", kindName[kind], k); }
	// kinds this configuration can inject for an operation class: 0 = add-like, 1 = remove-like, 2 = filter
	std::vector<Kind> kinds(int cls) {
		std::vector<Kind> v; v.push_back(K_CMP);
		if (Cf::unsafeRepl) { v.clear(); if (cls == 1) v.push_back(K_REPL); return v; }
		if (bc1 && cls != 1) v.push_back(K_ALLOC);
		if (Cf::hasCtor) v.push_back(K_CTOR);
		if (!Cf::assign && cls != 0) v.push_back(K_REPL);
		if (cls == 2) v.push_back(K_FILT);
		return v;
	}
	// runs `body` under the fault; true = it threw
	template<class F> bool guarded(Kind kind, long k, F&& body) {
		bool threw = false;
		arm(kind, k);
		try { body(); }
		catch (const std::bad_alloc&) { threw = true; }
		catch (const CmpThrow&) { threw = true; }
		catch (const CtorThrow&) { threw = true; }
		catch (const ReplThrow&) { threw = true; }
		catch (const FiltThrow&) { threw = true; }
		bool fired = g.fired; g.disarm();
		// pvRebalance's `catch (...)` swallows a failed node merge (items that are not nothrow relocatable are copied there): the call
		// succeeds with fewer merges - the model predicts the shape. Any other swallowed or invented exception is an error.
		if (fired && !threw && kind == K_CTOR && !Cf::reloc) c.stats.count("swallowed.ctor_in_pvRebalance");
		else if (threw != fired) c.fail("C04 harness: %s op %llu: fault %s fired=%d but threw=%d (an exception was swallowed or invented)", name.c_str(), (unsigned long long)opNo, fstr(kind, k).c_str(), fired, threw);
		c.stats.evaluations++;
		if (threw) { c.stats.count(std::string("threw.") + kindName[kind]); }
		return threw;
	}

	// ---- property-level oracles
	struct Snap { std::vector<KI> v[4]; std::string led; bool held; };
	Snap snap() { Snap sn; for (int i = 0; i < 4; ++i) sn.v[i] = contents(i); sn.led = ledText(); sn.held = holderFull; return sn; }
	void checkStrong(const char* what, const std::string& line, const Snap& before, bool allowParams, bool allowValueChange = false) {
		for (int i = 0; i < 4; ++i) {
			std::vector<KI> now = contents(i);
			bool same = now == before.v[i];
			if (!same && allowValueChange && now.size() == before.v[i].size()) {
				same = true; for (size_t j = 0; j < now.size(); ++j) if (now[j].first != before.v[i][j].first) same = false;
			}
			if (!same) c.fail("C04 strong %s: %s `%s`: contents of container %d changed by the failed call: before {%s} after {%s}", what, name.c_str(), line.c_str(), i, show(before.v[i]).c_str(), show(now).c_str());
			if (slots[i].GetCount() != before.v[i].size()) c.fail("C04 strong %s: %s `%s`: count of container %d is %zu after the failed call, %zu elements before", what, name.c_str(), line.c_str(), i, slots[i].GetCount(), before.v[i].size());
		}
		std::string led = ledText();
		if (led != before.led) {
			bool ok = false;
			if (allowParams) {	// the node-params block may have been created by the failed first insertion; it is owned and holds nothing
				auto strip = [] (std::string x) { size_t a = x.find(" params="); size_t b = x.find(" crews="); if (a != std::string::npos && b != std::string::npos) x.erase(a, b - a); size_t e = x.find(" blocks="); if (e != std::string::npos) x.erase(e); return x; };
				ok = strip(led) == strip(before.led);
			}
			if (!ok) c.fail("C04 leak %s: %s `%s`: ledger after the failed call {%s}, before {%s}", what, name.c_str(), line.c_str(), led.c_str(), before.led.c_str());
		}
	}
	bool sortedOk(const std::vector<KI>& v) {
		for (size_t j = 1; j < v.size(); ++j) if (Cf::multi ? v[j].first < v[j - 1].first : v[j].first <= v[j - 1].first) return false;
		return true;
	}
	static bool subMultiset(std::vector<KI> a, std::vector<KI> b) {	// a within b
		std::sort(a.begin(), a.end()); std::sort(b.begin(), b.end());
		return std::includes(b.begin(), b.end(), a.begin(), a.end());
	}
	void checkBasic(const char* what, const std::string& line, int sl, const std::vector<KI>& pool) {
		std::vector<KI> now = contents(sl);
		if (!sortedOk(now)) c.fail("C10 basic %s: %s `%s`: container %d not sorted / duplicate keys: {%s}", what, name.c_str(), line.c_str(), sl, show(now).c_str());
		if (!subMultiset(now, pool)) c.fail("C10 basic %s: %s `%s`: container %d {%s} is not within old + inserted {%s}", what, name.c_str(), line.c_str(), sl, show(now).c_str(), show(pool).c_str());
		if (slots[sl].GetCount() != now.size()) c.fail("C10 basic %s: %s `%s`: count %zu, %zu elements traversed", what, name.c_str(), line.c_str(), slots[sl].GetCount(), now.size());
	}
	void checkLedgerOwned(const char* what, const std::string& line) {
		size_t n = holderFull ? 1 : 0; for (int i = 0; i < 4; ++i) n += slots[i].GetCount();
		if (Cf::counted && !Cf::unsafeRepl && g.live != (long)n) c.fail("C10 leak %s: %s `%s`: %ld element objects alive, containers + handle hold %zu", what, name.c_str(), line.c_str(), g.live, n);
		if (Cf::unsafeRepl && g.live != (long)n) c.fail("C10 leak %s: %s `%s`: %ld value objects alive, containers + handle hold %zu", what, name.c_str(), line.c_str(), g.live, n);
		if (g.badDealloc) { c.fail("C03 dealloc %s: %s `%s`: %zu bad deallocations", what, name.c_str(), line.c_str(), g.badDealloc); g.badDealloc = 0; }
	}

	// ---- fault choice: sweep (k = 0,1,2,... until success) or one random k
	struct Plan { Kind kind; long k; bool sweep; };
	Plan choose(int cls, bool strong) {
		Plan p{ K_NONE, 0, false };
		std::vector<Kind> ks = kinds(cls);
		if (ks.empty() || rng.chance(2, 5)) return p;
		p.kind = ks[rng.below(ks.size())];
		p.sweep = strong && rng.chance(1, 2);
		long lim = p.kind == K_CMP ? 14 : p.kind == K_ALLOC ? 9 : p.kind == K_CTOR ? 8 : p.kind == K_FILT ? 12 : 3;
		p.k = p.sweep ? 0 : (long)rng.below((uint64_t)lim);
		return p;
	}

	// ---- operations
	int freshId() { return nextId++; }
	size_t upperIdx(int sl, int k) { size_t i = 0; while (i < ref[sl].size() && ref[sl][i].first <= k) ++i; return i; }
	bool hasKey(int sl, int k) { for (auto& x : ref[sl]) if (x.first == k) return true; return false; }

	// a strong operation: `line(k)` is the op text without the fault token; body returns the result text on success
	void strongOp(const char* what, int cls, int sl, const std::function<std::string(Kind, long)>& mkLine, const std::function<std::string()>& body,
		const std::function<void()>& onSuccess, bool valueMayChange = false)
	{
		Plan p = choose(cls, true);
		for (long k = p.k; ; ++k) {
			++opNo;
			std::string line = mkLine(p.kind, k);
			Snap before = snap();
			std::string res;
			bool threw = guarded(p.kind, k, [&] { res = body(); });
			s.op(line);
			if (threw) {
				s.res(fmt("t=1 n=%zu%s", slots[sl].GetCount(), (std::string(what) == "reins" || std::string(what) == "addext") ? " held=1" : ""));
				c.stats.nontrivial(fmt("%s/%s/%s/%ld", name.c_str(), what, kindName[p.kind], k));
				checkStrong(what, line, before, true, valueMayChange && p.kind == K_REPL);
				if (c.stats.samples.size() < 12) c.stats.sample(fmt("%s: `%s` -> exception, contents {%s} and ledger {%s} unchanged", name.c_str(), line.c_str(), show(before.v[sl]).size() > 50 ? "..." : show(before.v[sl]).c_str(), before.led.c_str()));
				if (valueMayChange) ref[sl] = contents(sl);
			}
			else { s.res("t=0 " + res); onSuccess(); }
			checkLedgerOwned(what, line);
			dumpLed(); dump(sl);
			if (!threw || !p.sweep) break;
			if (k > 400) { c.fail("C04 harness: %s `%s`: sweep does not terminate", name.c_str(), line.c_str()); break; }
		}
	}

	void opInsert(int sl) {
		int k = (int)rng.below(keyRange()), id = freshId();
		bool present = hasKey(sl, k);
		std::pair<It, bool> r;
		strongOp("ins", 0, sl,
			[&] (Kind kind, long kk) { return fmt("ins %d %d %d %s", sl, k, id, fstr(kind, kk).c_str()); },
			[&] { r = A::insert(slots[sl], k, id); return fmt("pos=%zu ins=%d n=%zu", indexOf(sl, r.first), r.second ? 1 : 0, slots[sl].GetCount()); },
			[&] {
				bool expIns = Cf::multi || !present;
				if (r.second != expIns) c.fail("C02 insert: %s key %d inserted=%d, reference says %d", name.c_str(), k, r.second, expIns);
				if (r.second) ref[sl].insert(ref[sl].begin() + (ptrdiff_t)upperIdx(sl, k), KI(k, id));
			});
	}
	void opAdd(int sl) {
		int k = (int)rng.below(keyRange()), id = freshId();
		if (!Cf::multi && hasKey(sl, k)) return;
		size_t h = upperIdx(sl, k);
		It res;
		strongOp("add", 0, sl,
			[&] (Kind kind, long kk) { return fmt("add %d %zu %d %d %s", sl, h, k, id, fstr(kind, kk).c_str()); },
			[&] { res = A::add(slots[sl], iterAt(sl, h), k, id); return fmt("pos=%zu n=%zu", indexOf(sl, res), slots[sl].GetCount()); },
			[&] { ref[sl].insert(ref[sl].begin() + (ptrdiff_t)h, KI(k, id)); });
	}
	void opRemoveIdx(int sl) {
		if (ref[sl].empty()) return;
		size_t i = rng.below(ref[sl].size());
		It res;
		strongOp("remi", 1, sl,
			[&] (Kind kind, long kk) { return fmt("remi %d %zu %s", sl, i, fstr(kind, kk).c_str()); },
			[&] { res = It(slots[sl].Remove(iterAt(sl, i))); return fmt("pos=%zu n=%zu", indexOf(sl, res), slots[sl].GetCount()); },
			[&] { ref[sl].erase(ref[sl].begin() + (ptrdiff_t)i); }, Cf::unsafeRepl);
	}
	void opRemoveKey(int sl) {
		if (Cf::multi || Cf::unsafeRepl) return;
		int k = (int)rng.below(keyRange());
		size_t n = 0;
		strongOp("remk", 1, sl,
			[&] (Kind kind, long kk) { return fmt("remk %d %d %s", sl, k, fstr(kind, kk).c_str()); },
			[&] { n = A::removeKey(slots[sl], k); return fmt("removed=%zu n=%zu", n, slots[sl].GetCount()); },
			[&] { for (size_t j = 0; j < ref[sl].size(); ++j) if (ref[sl][j].first == k) { ref[sl].erase(ref[sl].begin() + (ptrdiff_t)j); break; } });
	}
	void opExtract(int sl) {
		if (ref[sl].empty() || holderFull || Cf::unsafeRepl) return;
		size_t i = rng.below(ref[sl].size());
		It res;
		strongOp("ext", 1, sl,
			[&] (Kind kind, long kk) { return fmt("ext %d %zu %s", sl, i, fstr(kind, kk).c_str()); },
			[&] { res = It(slots[sl].Remove(iterAt(sl, i), holder)); KI x = A::extItem(holder);
			      return fmt("pos=%zu item=%d:%d n=%zu", indexOf(sl, res), x.first, x.second, slots[sl].GetCount()); },
			[&] { holderItem = ref[sl][i]; holderFull = true; ref[sl].erase(ref[sl].begin() + (ptrdiff_t)i); });
		if (!holderFull && !holder.IsEmpty()) c.fail("C10 extract: %s: a failed extraction left an element in the handle", name.c_str());
		dumpExt();
	}
	void opReinsert(int sl) {
		if (!holderFull) return;
		bool present = hasKey(sl, holderItem.first);
		std::pair<It, bool> r; bool inserted = false;
		strongOp("reins", 0, sl,
			[&] (Kind kind, long kk) { return fmt("reins %d %s", sl, fstr(kind, kk).c_str()); },
			[&] { auto rr = slots[sl].Insert(std::move(holder)); r = { It(rr.position), rr.inserted };
			      return fmt("pos=%zu ins=%d n=%zu held=%d", indexOf(sl, r.first), r.second ? 1 : 0, slots[sl].GetCount(), holder.IsEmpty() ? 0 : 1); },
			[&] {
				bool expIns = Cf::multi || !present; inserted = r.second;
				if (r.second != expIns) c.fail("C10 re-insert: %s %d:%d inserted=%d, reference says %d", name.c_str(), holderItem.first, holderItem.second, r.second, expIns);
				if (r.second) { ref[sl].insert(ref[sl].begin() + (ptrdiff_t)upperIdx(sl, holderItem.first), holderItem); holderFull = false; }
			});
		// C10: an element refused by the destination (or whose insertion failed) stays in the handle
		if (holderFull == holder.IsEmpty()) c.fail("C10 re-insert: %s %d:%d: handle empty=%d but the element was %s", name.c_str(), holderItem.first, holderItem.second, holder.IsEmpty(), holderFull ? "not inserted" : "inserted");
		if (holderFull) { KI x = A::extItem(holder); if (x != holderItem) c.fail("C10 re-insert: %s: the handle holds %d:%d instead of %d:%d", name.c_str(), x.first, x.second, holderItem.first, holderItem.second); }
		(void)inserted;
		dumpExt();
	}
	void opAddExt(int sl) {
		if (!holderFull) return;
		if (!Cf::multi && hasKey(sl, holderItem.first)) return;
		size_t h = upperIdx(sl, holderItem.first);
		It res;
		strongOp("addext", 0, sl,
			[&] (Kind kind, long kk) { return fmt("addext %d %zu %s", sl, h, fstr(kind, kk).c_str()); },
			[&] { res = It(slots[sl].Add(iterAt(sl, h), std::move(holder))); return fmt("pos=%zu n=%zu held=%d", indexOf(sl, res), slots[sl].GetCount(), holder.IsEmpty() ? 0 : 1); },
			[&] { ref[sl].insert(ref[sl].begin() + (ptrdiff_t)h, holderItem); holderFull = false; });
		if (holderFull == holder.IsEmpty()) c.fail("C10 hinted re-insert: %s: handle empty=%d, element %s", name.c_str(), holder.IsEmpty(), holderFull ? "not inserted" : "inserted");
		dumpExt();
	}
	void opDropExt() {
		if (!holderFull) return;
		holder.Clear(); holderFull = false;
		s.op("dropext"); s.res("ok"); dumpLed();
	}
	void opCopy(int a, int b) {
		if (a == b || Cf::unsafeRepl || Cf::keyCtor) return;
		strongOp("copy", 0, b,
			[&] (Kind kind, long kk) { return fmt("copy %d %d %s", a, b, fstr(kind, kk).c_str()); },
			[&] { slots[b] = slots[a]; return fmt("n=%zu", slots[b].GetCount()); },
			[&] { ref[b] = ref[a]; });
	}
	void opClear(int sl) {
		slots[sl].Clear(); ref[sl].clear();
		s.op(fmt("clear %d", sl)); s.res("ok"); dumpLed(); dump(sl);
	}

	// bulk operations: one fault, no sweep (a failure changes the state)
	void opInsertRange(int sl) {
		if (Cf::unsafeRepl) return;
		size_t n = 1 + rng.below(8);
		std::vector<KI> v;
		int base = (int)rng.below(keyRange());
		unsigned style = (unsigned)rng.below(3);
		for (size_t j = 0; j < n; ++j) {
			int k = style == 0 ? (int)rng.below(keyRange()) : style == 1 ? base + (int)j : base + (int)(j / 2);
			v.push_back(KI(k, freshId()));
		}
		Plan p = choose(0, false);
		std::string line = fmt("insr %d %s %s", sl, fstr(p.kind, p.k).c_str(), show(v).c_str());
		++opNo;
		std::vector<KI> pool = ref[sl]; pool.insert(pool.end(), v.begin(), v.end());
		Snap before = snap();
		size_t added = 0, n0 = slots[sl].GetCount();
		bool threw = guarded(p.kind, p.k, [&] { added = A::insertRange(slots[sl], v); });
		s.op(line);
		s.res(fmt("t=%d added=%zu n=%zu", threw ? 1 : 0, slots[sl].GetCount() - n0, slots[sl].GetCount()));
		if (!threw && added != slots[sl].GetCount() - n0) c.fail("C02 insert range: %s `%s` returned %zu, count grew by %zu", name.c_str(), line.c_str(), added, slots[sl].GetCount() - n0);
		checkBasic("insert range", line, sl, pool);
		if (!subMultiset(ref[sl], contents(sl))) c.fail("C10 basic insert range: %s `%s`: an element present before the call is gone", name.c_str(), line.c_str());
		if (threw) { c.stats.nontrivial(fmt("%s/insr/%s/%ld", name.c_str(), kindName[p.kind], p.k)); for (int i = 0; i < 4; ++i) if (i != sl && contents(i) != before.v[i]) c.fail("C10 insert range: %s `%s`: another container changed", name.c_str(), line.c_str()); }
		ref[sl] = contents(sl);
		checkLedgerOwned("insert range", line);
		dumpLed(); dump(sl);
	}
	void opRemovePred(int sl) {
		if (Cf::unsafeRepl) return;
		int m = 2 + (int)rng.below(3), r = (int)rng.below((uint64_t)m);
		Plan p = choose(2, false);
		std::string line = fmt("remp %d %d %d %s", sl, m, r, fstr(p.kind, p.k).c_str());
		++opNo;
		size_t n0 = slots[sl].GetCount();
		bool threw = guarded(p.kind, p.k, [&] { A::removePred(slots[sl], m, r); });
		s.op(line);
		s.res(fmt("t=%d removed=%zu n=%zu", threw ? 1 : 0, n0 - slots[sl].GetCount(), slots[sl].GetCount()));
		checkBasic("remove-if", line, sl, ref[sl]);
		std::vector<KI> now = contents(sl);
		// every element that is gone satisfied the predicate; without an exception none that satisfies it is left
		for (auto& x : ref[sl]) if (x.first % m != r && std::find(now.begin(), now.end(), x) == now.end()) c.fail("C10 remove-if: %s `%s`: %d:%d does not satisfy the predicate but is gone", name.c_str(), line.c_str(), x.first, x.second);
		if (!threw) for (auto& x : now) if (x.first % m == r) c.fail("C10 remove-if: %s `%s`: %d:%d satisfies the predicate and is still there", name.c_str(), line.c_str(), x.first, x.second);
		if (threw) c.stats.nontrivial(fmt("%s/remp/%s/%ld", name.c_str(), kindName[p.kind], p.k));
		ref[sl] = now;
		checkLedgerOwned("remove-if", line);
		dumpLed(); dump(sl);
	}
	void opMerge(int a, int b) {
		if (a == b || Cf::unsafeRepl) return;
		Plan p = choose(0, false);
		if (p.kind == K_NONE && !Cf::assign && rng.chance(1, 4)) { p.kind = K_REPL; p.k = (long)rng.below(3); }
		std::string line = fmt("merge %d %d %s", a, b, fstr(p.kind, p.k).c_str());
		++opNo;
		std::vector<KI> all = ref[a]; all.insert(all.end(), ref[b].begin(), ref[b].end());
		{	// which path MergeTo(TreeSet&) will take (coverage only)
			const char* path = ref[a].empty() ? "srcEmpty" : ref[b].empty() ? "dstEmpty"
				: (Cf::multi ? ref[a].back().first <= ref[b].front().first : ref[a].back().first < ref[b].front().first) ? "fastBefore"
				: (Cf::multi ? ref[b].back().first <= ref[a].front().first : ref[b].back().first < ref[a].front().first) ? "fastAfter" : "interleaved";
			c.stats.count(std::string("merge.") + (std::is_empty<typename Cf::Traits>::value ? path : "statefulTraits"));
			if (p.kind != K_NONE) c.stats.count(std::string("merge.faulted.") + (std::is_empty<typename Cf::Traits>::value ? path : "statefulTraits"));
		}
		bool threw = guarded(p.kind, p.k, [&] { mergeTo(slots[a], slots[b]); });
		s.op(line);
		s.res(fmt("t=%d n=%zu %zu", threw ? 1 : 0, slots[a].GetCount(), slots[b].GetCount()));
		std::vector<KI> na = contents(a), nb = contents(b);
		std::vector<KI> both = na; both.insert(both.end(), nb.begin(), nb.end());
		{	// conservation: every element in exactly one place
			std::vector<KI> x = both, y = all; std::sort(x.begin(), x.end()); std::sort(y.begin(), y.end());
			if (x != y) c.fail("C10 merge conservation: %s `%s`: source {%s} + destination {%s} afterwards is not what both held before {%s}", name.c_str(), line.c_str(), show(na).c_str(), show(nb).c_str(), show(all).c_str());
		}
		if (!sortedOk(na) || !sortedOk(nb)) c.fail("C10 merge: %s `%s`: a container is not sorted / has duplicate keys afterwards: {%s} {%s}", name.c_str(), line.c_str(), show(na).c_str(), show(nb).c_str());
		if (!subMultiset(ref[b], nb)) c.fail("C10 merge: %s `%s`: the destination lost an element", name.c_str(), line.c_str());
		if (!subMultiset(na, ref[a])) c.fail("C10 merge: %s `%s`: the source gained an element", name.c_str(), line.c_str());
		if (!threw && !Cf::multi) for (auto& x : na) { bool inDst = false; for (auto& y : ref[b]) if (y.first == x.first) inDst = true; if (!inDst) c.fail("C10 merge: %s `%s`: %d:%d stayed in the source although the destination had no such key", name.c_str(), line.c_str(), x.first, x.second); }
		if (!threw && Cf::multi && !na.empty()) c.fail("C10 merge: %s `%s`: multi-key merge left %zu elements in the source", name.c_str(), line.c_str(), na.size());
		if (threw) c.stats.nontrivial(fmt("%s/merge/%s/%ld", name.c_str(), kindName[p.kind], p.k));
		ref[a] = na; ref[b] = nb;
		checkLedgerOwned("merge", line);
		dumpLed(); dump(a); dump(b);
	}
	template<class C2 = Cont> static void mergeTo(C2& src, C2& dst) { doMerge(src, dst, std::integral_constant<bool, Cf::isMap>()); }
	static void doMerge(Cont& src, Cont& dst, std::false_type) { src.MergeTo(dst); }
	static void doMerge(Cont& src, Cont& dst, std::true_type) { dst.MergeFrom(src); }

	int keyRange() { return (int)(maxN * 3 / 2 + 4); }

	void fillAbove(int sl, int lo, size_t n) {	// fault-free inserts of keys >= lo (to reach the fast merge paths)
		for (size_t j = 0; j < n; ++j) {
			int k = lo + (int)rng.below(n * 2 + 2), id = freshId();
			if (!Cf::multi && hasKey(sl, k)) continue;
			++opNo;
			auto r = A::insert(slots[sl], k, id);
			s.op(fmt("ins %d %d %d -", sl, k, id)); s.res(fmt("t=0 pos=%zu ins=1 n=%zu", indexOf(sl, r.first), slots[sl].GetCount()));
			ref[sl].insert(ref[sl].begin() + (ptrdiff_t)upperIdx(sl, k), KI(k, id));
		}
		dumpLed(); dump(sl);
	}

	void run(size_t ops) {
		dumpLed();
		for (size_t n = 0; n < ops; ++n) {
			int sl = (int)rng.below(3);
			bool small = ref[sl].size() < maxN / 2, big = ref[sl].size() > maxN;
			unsigned r = (unsigned)rng.below(100);
			if (Cf::unsafeRepl) { sl = 0; if (r < (big ? 25u : small ? 75u : 50u)) opInsert(sl); else opRemoveIdx(sl); continue; }
			if (r < (big ? 10u : small ? 40u : 24u)) opInsert(sl);
			else if (r < (big ? 14u : small ? 50u : 32u)) opAdd(sl);
			else if (r < (big ? 40u : small ? 56u : 46u)) opRemoveIdx(sl);
			else if (r < (big ? 46u : small ? 58u : 50u)) opRemoveKey(sl);
			else if (r < (big ? 54u : small ? 62u : 56u)) opExtract(sl);
			else if (r < 64u) { if (rng.chance(1, 2)) opReinsert((int)rng.below(3)); else opAddExt((int)rng.below(3)); }
			else if (r < 66u) opDropExt();
			else if (r < (big ? 68u : 76u)) opInsertRange(sl);
			else if (r < (big ? 80u : 82u)) opRemovePred(sl);
			else if (r < 90u) {
				int a = (int)rng.below(3), b = (int)rng.below(3);
				unsigned style = (unsigned)rng.below(4);
				if (style == 0) { opClear(3); fillAbove(3, 1000, 1 + rng.below(maxN)); if (rng.chance(1, 2)) opMerge(3, a); else opMerge(a, 3); }	// ordered: fast path (or into / from empty)
				else opMerge(a, b);
			}
			else if (r < 96u) opCopy((int)rng.below(4), (int)rng.below(3));
			else if (r < 98u) opClear(sl);
			else { opClear(3); }
		}
		for (int i = 0; i < 4; ++i) { slots[i].Clear(); ref[i].clear(); s.op(fmt("clear %d", i)); s.res("ok"); }
		holder.Clear(); if (holderFull) { holderFull = false; s.op("dropext"); s.res("ok"); }
		dumpLed();
	}
};

template<class Cf>
static void runCfg(Ctx& c, const char* name, uint64_t salt, bool bc1, size_t maxN, size_t opsQuick)
{
	size_t blocks0 = g.blocks.size(); long live0 = g.live;
	bool crew;
	{	// does the crew allocate? (SetCrew with a pointer)
		typename Cf::Cont probe; crew = g.blocks.size() > blocks0;
	}
	{
		Run<Cf> r(c, name, salt, bc1, crew, maxN);
		r.run(c.thorough ? opsQuick * 6 : opsQuick);
	}
	if (g.blocks.size() != blocks0) { c.fail("C03 leak: %s: %zu memory-manager blocks outstanding after destruction", name, g.blocks.size() - blocks0); }
	if (g.live != live0) { c.fail("C03 leak: %s: %ld element objects alive after destruction", name, g.live - live0); g.live = live0; }
	if (g.badDealloc) { c.fail("C03 dealloc: %s: %zu bad deallocations", name, g.badDealloc); g.badDealloc = 0; }
}

typedef momo::MemPoolParams<1, 0> P1;	// one block per buffer, no cached free blocks: every Node::Create is one Allocate

int main(int argc, char** argv)
{
	setvbuf(stdout, nullptr, _IOLBF, 0);	// FAIL lines must survive a sanitizer abort
	Ctx c = parseArgs(argc, argv);
#if TF_PART == 0 || TF_PART == 1
	runCfg<SetCf<KT, momo::TreeNode<1, 1, P1, true>, true, false, true, true>>(c, "tf_set_triv_c1", 1, true, 10, 780);
	runCfg<SetCf<KM, momo::TreeNode<2, 1, P1, true>, false, false, true, true>>(c, "tf_set_nm_c2", 2, true, 16, 900);
	runCfg<SetCf<KM, momo::TreeNode<4, 1, P1, true>, true, true, true, true>>(c, "tf_multiset_nm_c4", 3, true, 30, 780);
#endif
#if TF_PART == 0 || TF_PART == 2
	runCfg<SetCf<KC, momo::TreeNode<2, 1, P1, true>, true, false, false, false>>(c, "tf_set_co_c2", 4, true, 16, 900);
	runCfg<SetCf<KC, momo::TreeNode<1, 1, P1, true>, true, false, false, false>>(c, "tf_set_co_c1", 5, true, 12, 780);
	runCfg<SetCf<KC, momo::TreeNode<3, 1, P1, true>, false, true, false, false>>(c, "tf_multiset_co_c3", 6, true, 24, 780);
#endif
#if TF_PART == 0 || TF_PART == 3
	runCfg<SetCf<KA, momo::TreeNode<4, 2, P1, true>, true, false, false, true>>(c, "tf_set_ca_c4", 7, true, 30, 780);
	runCfg<SetCf<KM, momo::TreeNode<32, 4, P1, true>, false, false, true, true>>(c, "tf_set_nm_c32", 8, true, 120, 600);
	runCfg<SetCf<KM, momo::TreeNode<>, true, false, true, true>>(c, "tf_set_nm_default", 9, false, 110, 600);
	runCfg<SetCf<KC, momo::TreeNode<>, false, true, false, false>>(c, "tf_multiset_co_default", 10, false, 110, 600);
#endif
#if TF_PART == 0 || TF_PART == 4
	runCfg<MapCf<IK, VM, momo::TreeNode<3, 1, P1, true>, true, false, true, true, false>>(c, "tf_map_nm_c3", 11, true, 24, 780);
	runCfg<MapCf<IK, VC, momo::TreeNode<2, 1, P1, true>, false, false, false, false, false>>(c, "tf_map_co_c2", 12, true, 16, 900);
	runCfg<MapCf<IK, VC, momo::TreeNode<4, 1, P1, true>, true, true, false, false, false>>(c, "tf_multimap_co_c4", 13, true, 30, 780);
#endif
#if TF_PART == 0 || TF_PART == 5
	runCfg<MapCf<KU, VC, momo::TreeNode<2, 1, P1, true>, true, false, false, false, true>>(c, "tf_map_unsafe_c2", 14, true, 16, 900);
	runCfg<SetCfStd<KM, momo::TreeNode<3, 1, P1, true>, false, true, true>>(c, "tf_set_nm_c3_stdtraits", 15, true, 24, 780);
	runCfg<SetCfStd<KC, momo::TreeNode<2, 2, P1, true>, true, false, false>>(c, "tf_multiset_co_c2_stdtraits", 16, true, 16, 780);
#endif
#if TF_PART == 0 || TF_PART == 6
	{	// copy-and-swap items: contiguous nodes (pvShiftNothrow / pvAssignAnyway swap variants, Node::pvRemove rollback). For the model
		// this is the category reloc=0 assign=1: one `ctor` step per relocation, replacement cannot throw.
		typedef momo::internal::ObjectManager<KS, TFMM> OS; typedef momo::internal::ObjectManager<VS, TFMM> OV; typedef momo::internal::ObjectManager<KSU, TFMM> OU;
		static_assert(!OS::isNothrowRelocatable && OS::isNothrowSwappable && OS::isNothrowAnywayAssignable && OS::isNothrowShiftable && !std::is_nothrow_move_assignable<KS>::value, "KS category");
		static_assert(!OV::isNothrowRelocatable && OV::isNothrowSwappable && !std::is_nothrow_move_assignable<VS>::value, "VS category");
		static_assert(!OU::isNothrowRelocatable && OU::isNothrowSwappable && !std::is_nothrow_move_assignable<KSU>::value, "KSU category");
		typedef SetCf<KS, momo::TreeNode<4, 1, P1, true>, true, false, false, true> CfS4;
		typedef SetCf<KS, momo::TreeNode<2, 1, P1, true>, false, true, false, true> CfS2;
		typedef MapCf<IK, VS, momo::TreeNode<3, 1, P1, true>, true, false, false, true, false> CfMV;
		typedef MapCf<KSU, VM, momo::TreeNode<2, 1, P1, true>, false, false, false, true, false> CfMK;
		static_assert(CfS4::Set::Node::isContinuous && CfS2::Set::Node::isContinuous && CfMV::Set::Node::isContinuous && CfMK::Set::Node::isContinuous, "contiguous nodes expected");
		static_assert(!SetCf<KA, momo::TreeNode<4, 2, P1, true>, true, false, false, true>::Set::Node::isContinuous, "copy-only items use indexed nodes");
		long sw0 = g.swaps;
		runCfg<CfS4>(c, "tf_set_sw_c4", 17, true, 30, 780);
		runCfg<CfS2>(c, "tf_multiset_sw_c2", 18, true, 16, 780);
		runCfg<CfMV>(c, "tf_map_swval_c3", 19, true, 24, 780);
		runCfg<CfMK>(c, "tf_map_swkey_c2", 20, true, 16, 780);
		c.stats.count("swap_calls", (uint64_t)(g.swaps - sw0));
		if (g.swaps == sw0) c.fail("C04 harness: the copy-and-swap configurations never called swap (the contiguous-node paths were not reached)");
	}
#endif
	return c.finish();
}
