// C12 correspondence harness, table level: real HashSets whose key type is not "fast nothrow hashable"
// (momo::IsFastNothrowHashable<SlowKey> is false, so the buckets keep hash parts and growth reuses them) are grown
// through many sizes. Checked on every growth:
//   * property level: every key stays findable; a twin set that always recomputes the hash (same hash codes, same
//     operations, isFastNothrowHashable = true) has exactly the same elements in the same order in every bucket;
//   * model level: the number of hash evaluations during the relocation equals the number of elements whose stored
//     byte makes the Lean model's useFull true (suite tbl, ops `grow`/`growacc` carry the real metadata bytes).
// Runs with a throwing hash function leave several table generations alive, so later relocations jump by several
// doublings at once (growth by 1..7 doublings) and elements are reconstructed from codes that were themselves reconstructed.
#define MOMO_INCLUDE_OLD_HASH_BUCKETS
#include "momo/HashSet.h"
#include "momo/details/HashBucketLimP4.h"
#include "momo/details/HashBucketOpen2N2.h"
#include "momo/details/HashBucketOpen8.h"
#include "momo/details/HashBucketOne.h"
#include "common/verif_common.h"
#include "common/verif_ptrbits.h"

#include <algorithm>
#include <unordered_set>
#include <stdexcept>

using namespace vf;

#ifndef C12_PART
#define C12_PART 1
#endif
// C12_PART 3 / 4: LimP4 over a memory manager with 48 / 32 useful pointer bits (built with -DMOMO_MEM_MANAGER_PTR_USEFUL_BIT_COUNT=48 / 32,
// see common/verif_ptrbits.h, observation O3): 6 / 8 metadata bytes per bucket, so hash-probe bytes exist for the first three / all four items
#if C12_PART == 3
typedef FaultMMBits<48> TableMM;
#elif C12_PART == 4
typedef FaultMMBits<32> TableMM;
#else
typedef momo::MemManagerDefault TableMM;
#endif

struct SlowKey {
	uint64_t v;
	bool operator==(const SlowKey& o) const { return v == o.v; }
};
static_assert(!momo::IsFastNothrowHashable<SlowKey>::value, "SlowKey must not be fast-hashable");

static uint64_t g_hashEvals = 0;
static long g_throwAfter = -1;	// >= 0: the (g_throwAfter+1)-th evaluation from now throws
struct HashFault : public std::runtime_error { HashFault() : std::runtime_error("hash fault") {} };

// HB: bucket type; HBpolicy: whose CalcCapacity / GetBucketCountShift decide when and how far the table grows
// start size and growth shift are run-time members (fewer template instantiations = shorter compile)
template<typename HB, typename HBpolicy, bool overrideFast>
struct TraitsT : public momo::HashTraits<SlowKey, HB>
{
	unsigned startLog = 4, shift = 0;
	TraitsT(unsigned startLog_, unsigned shift_) : startLog(startLog_), shift(shift_) {}
	// A: the default (false for SlowKey) is left alone; B: overridden to true = the hash is recomputed on every growth
	static const bool isFastNothrowHashable = overrideFast ? true : momo::HashTraits<SlowKey, HB>::isFastNothrowHashable;
	template<typename ItemTraits>
	using Bucket = typename HB::template Bucket<ItemTraits, !isFastNothrowHashable>;
	size_t GetHashCode(const SlowKey& key) const
	{
		if (g_throwAfter >= 0 && g_throwAfter-- == 0) throw HashFault();
		++g_hashEvals;
		return (size_t)key.v;	// the key is its hash code: the harness chooses hash codes directly
	}
	bool IsEqual(const SlowKey& a, const SlowKey& b) const { return a.v == b.v; }
	size_t GetLogStartBucketCount() const noexcept { return startLog; }
	size_t GetBucketCountShift(size_t bucketCount, size_t bucketMaxItemCount) const noexcept
	{
		return shift ? shift : HBpolicy::GetBucketCountShift(bucketCount, bucketMaxItemCount);
	}
	size_t CalcCapacity(size_t bucketCount, size_t bucketMaxItemCount) const noexcept
	{
		return HBpolicy::CalcCapacity(bucketCount, bucketMaxItemCount);
	}
};

struct SetNoCheck : public momo::HashSetSettings { static const momo::ExtraCheckMode extraCheckMode = momo::ExtraCheckMode::nothing; };

template<typename Traits>
using SetT = momo::HashSet<SlowKey, Traits, TableMM, momo::HashSetItemTraits<SlowKey, TableMM>, SetNoCheck>;

// ---------- reading the stored bytes of the real buckets ----------

template<typename IT, size_t n, typename MP>
static void collect(momo::internal::BucketLimP4<IT, n, MP, true>& b, typename momo::internal::BucketLimP4<IT, n, MP, true>::Params& params,
	unsigned L, std::string& out, Stats& st)
{
	typedef momo::internal::BucketLimP4<IT, n, MP, true> B;
	size_t cnt = b.GetBounds(params).GetCount();
	unsigned s = (unsigned)B::pvGetProbeShift(L);
	for (size_t i = 0; i < cnt; ++i) {
		unsigned byte = b.mShortHashes[B::hashCount - 1 - i];
		out += fmt(" %u", byte);
		if (byte >= 128 && byte != 255) { st.count("tbl.p4_usable_bytes"); if (byte & ((1u << s) - 1)) st.count("tbl.p4_usable_displaced"); }
		else if (byte == 255) st.count("tbl.p4_empty_bytes");
		else st.count("tbl.p4_slot_taken_by_short_hash");
	}
}
template<typename IT, size_t n>
static void collect(momo::internal::BucketOpen2N2<IT, n, true>& b, typename momo::internal::BucketOpen2N2<IT, n, true>::Params&,
	unsigned L, std::string& out, Stats& st)
{
	typedef momo::internal::BucketOpen2N2<IT, n, true> B;
	size_t cnt = b.pvGetCount();
	unsigned s = (unsigned)B::pvGetProbeShift(L);
	for (size_t slot = n - cnt; slot < n; ++slot) {
		unsigned byte = b.mHashData.hashProbes[slot];
		out += fmt(" %u", byte);
		if (byte != 255) { st.count("tbl.o2_usable_bytes"); if (s > 0 && (byte & ((1u << s) - 1))) st.count("tbl.o2_usable_displaced"); }
		else st.count("tbl.o2_empty_bytes");
	}
}
template<typename IT, size_t m>
static void collect(momo::internal::BucketOne<IT, m>&, typename momo::internal::BucketOne<IT, m>::Params&, unsigned, std::string&, Stats&) {}

template<typename Set>
static size_t generations(Set& a) { size_t g = 0; for (auto* b = a.mBuckets; b != nullptr; b = b->GetNextBuckets()) ++g; return g; }

template<typename SetA, typename SetB>
static bool sameLayout(Ctx& c, const char* name, SetA& a, SetB& b, const std::string& what)
{
	if (a.GetBucketCount() != b.GetBucketCount()) {
		c.fail("C12 table %s: bucket count %zu vs %zu of the full-rehash twin after %s", name, a.GetBucketCount(), b.GetBucketCount(), what.c_str());
		return false;
	}
	size_t n = a.GetBucketCount();
	for (size_t i = 0; i < n; ++i) {
		auto ba = a.GetBucketBounds(i); auto bb = b.GetBucketBounds(i);
		bool same = ba.GetCount() == bb.GetCount();
		if (same) { auto ia = ba.GetBegin(); auto ib = bb.GetBegin(); for (size_t k = 0; k < ba.GetCount(); ++k, ++ia, ++ib) if (!(ia->v == ib->v)) same = false; }
		if (!same) {
			std::string ka, kb;
			for (const SlowKey& k : ba) ka += fmt(" %llu", (unsigned long long)k.v);
			for (const SlowKey& k : bb) kb += fmt(" %llu", (unsigned long long)k.v);
			c.fail("C12 table %s: after %s bucket %zu of %zu holds [%s ] but a full rehash places [%s ]", name, what.c_str(), i, n, ka.c_str(), kb.c_str());
			return false;
		}
	}
	return true;
}

struct KeyGen {
	Rng& rng; unsigned family; std::vector<uint64_t> clusters; uint64_t serial = 1;
	KeyGen(Rng& r, unsigned fam) : rng(r), family(fam) { for (int i = 0; i < 6; ++i) clusters.push_back(rng.next() & 0xFFFFF); }
	uint64_t next(size_t have) {
		switch (family) {
		case 0: return rng.next();
		case 1: // a third of the keys (of the first 3000, then 1 in 64: probing stays affordable) share their low 20 bits with one
			// of six clusters: long displacements
			return rng.chance(1, have < 3000 ? 3 : 64) ? ((rng.next() & ~0xFFFFFull) | clusters[rng.below(clusters.size())]) : rng.next();
		case 2: return serial++ * 7;	// small numbers: top bits zero
		case 3: return (rng.next() << 44) | rng.below(1 << 12);	// top bits vary, few low bits
		default: return rng.chance(1, 2) ? rng.biased(64) : (~0ull - rng.below(5000));	// boundary patterns, all-ones neighbourhood
		}
	}
};

// one run: insert (and sometimes remove / Reserve) until the table has 2^maxL buckets
template<typename HB, typename HBtwin>
static void tableRun(Ctx& c, Rng& rng, Suite& s, const char* name, const char* kind, unsigned startLog, unsigned shift,
	unsigned maxL, unsigned family, bool faults)
{
	typedef SetT<TraitsT<HB, HB, false>> SetA;
	typedef SetT<TraitsT<HBtwin, HB, true>> SetB;
	static_assert(!SetA::HashTraits::isFastNothrowHashable && SetB::HashTraits::isFastNothrowHashable, "twin configuration");
	if (SetA::bucketMaxItemCount == 1 && startLog == 0) startLog = 1;	// one bucket of one element has capacity 0: not a legal start size
#if C12_PART == 3 || C12_PART == 4
	{
		static const size_t bits = TableMM::ptrUsefulBitCount;
		if (SetA::Bucket::PtrState::bitCount != bits || SetB::Bucket::PtrState::bitCount != bits || SetA::Bucket::hashCount != 4 + (8 - bits / 8) || SetB::Bucket::hashCount != 4)
			c.fail("harness: C12 table %s: pointer state of %zu / %zu bits and %zu / %zu metadata bytes in a build for %zu-bit pointers", name,
				(size_t)SetA::Bucket::PtrState::bitCount, (size_t)SetB::Bucket::PtrState::bitCount, (size_t)SetA::Bucket::hashCount, (size_t)SetB::Bucket::hashCount, bits);
		c.stats.count(fmt("tbl.p4_hash_count_%zu", (size_t)SetA::Bucket::hashCount));
	}
#endif
	SetA a(TraitsT<HB, HB, false>(startLog, shift)); SetB b(TraitsT<HBtwin, HB, true>(startLog, shift));
	std::vector<uint64_t> keys; std::unordered_set<uint64_t> present;
	KeyGen gen(rng, family);
	s.comment(fmt("table %s start=%u shift=%u family=%u faults=%d", name, startLog, shift, family, (int)faults));
	std::string cfg = fmt("%s/s%u/sh%u/f%u%s", name, startLog, shift, family, faults ? "/faults" : "");
	size_t stepLimit = (size_t{1} << maxL) * 6 + 200;
	unsigned growths = 0, faultPhase = 0;
	for (size_t step = 0; step < stepLimit; ++step) {
		unsigned curL = a.mBuckets ? (unsigned)a.mBuckets->GetLogCount() : 0;
		if (a.mBuckets && curL >= maxL && a.GetCount() + 1 >= a.GetCapacity()) break;
		unsigned r = (unsigned)rng.below(100);
		if (r < 6 && !keys.empty()) {	// remove
			size_t i = (size_t)rng.below(keys.size());
			uint64_t k = keys[i];
			bool ra = a.Remove(SlowKey{ k });
			bool rb = faults ? true : b.Remove(SlowKey{ k });
			if (!ra || !rb) c.fail("C12 table %s: key %llu not found for removal (set A %d, twin %d)", cfg.c_str(), (unsigned long long)k, (int)ra, (int)rb);
			keys[i] = keys.back(); keys.pop_back(); present.erase(k);
			c.stats.count("tbl.remove");
			continue;
		}
		// about one Reserve per three doublings of the element count
		bool doReserve = (r < 56) && rng.below(a.GetCount() + 8) == 0 && a.mBuckets != nullptr && curL + 1 < maxL;
		uint64_t key = 0;
		if (!doReserve) {
			key = gen.next(keys.size());
			if (present.count(key)) continue;
		}
		bool hasNext = a.mBuckets != nullptr && a.mBuckets->GetNextBuckets() != nullptr;
		bool willGrow = doReserve || (a.mBuckets != nullptr && a.GetCount() >= a.GetCapacity());
		// fault phases: for the next one to three growths every relocation attempt hits a throwing hash function, so old
		// generations survive several growths and are finally relocated by several doublings at once
		if (faults && willGrow) {
			if (faultPhase > 0) --faultPhase;
			else if (rng.chance(1, 2)) faultPhase = (unsigned)rng.range(1, 2);
		}
		bool arm = faults && (willGrow || hasNext) && faultPhase > 0;
		// which size the relocation targets
		unsigned L2 = curL;
		size_t newCap = 0;
		if (doReserve) {
			unsigned jump = (unsigned)rng.range(1, 7);
			unsigned tgt = std::min(maxL, curL + jump);
			// smallest capacity request that needs 2^tgt buckets: one more than the capacity of 2^(tgt-1) buckets... ask for the capacity of 2^tgt
			newCap = a.GetHashTraits().CalcCapacity(size_t{1} << tgt, SetA::bucketMaxItemCount);
			if (newCap <= a.GetCapacity()) continue;
		}
		else if (willGrow) L2 = (unsigned)a.pvGetNewLogBucketCount();
		// the real metadata before the operation (only when the evaluations can be attributed: no fault armed)
		bool relocates = willGrow || hasNext;
		uint64_t e0 = g_hashEvals;
		// Insert: pvFind passes, then the first full-getter call of the relocation throws (so the element that needs it blocks
		// its generation for the whole phase); now and then a few more elements get through first
		if (arm) g_throwAfter = (long)((doReserve ? 0 : 1) + (rng.chance(1, 10) ? rng.below(4) : 0));
		std::string what;
		// snapshot must be taken before the operation; for Reserve the target size is known only afterwards, so predict it
		if (doReserve) {
			unsigned t = (unsigned)a.pvGetNewLogBucketCount();
			while (a.GetHashTraits().CalcCapacity(size_t{1} << t, SetA::bucketMaxItemCount) < newCap) ++t;
			L2 = t;
		}
		// the op lines are built now (the bytes are read before the operation) and written with the measured result afterwards
		std::vector<typename SetA::Buckets*> gens;
		std::vector<std::string> growOps;
		if (relocates && !arm) {
			for (auto* bk = a.mBuckets; bk != nullptr; bk = bk->GetNextBuckets()) gens.push_back(bk);
			size_t first = willGrow ? 0 : 1;
			for (size_t g = gens.size(); g-- > first; ) {
				auto* bk = gens[g];
				unsigned L = (unsigned)bk->GetLogCount();
				std::string bytes;
				for (size_t i = 0; i < bk->GetCount(); ++i) collect((*bk)[i], bk->GetBucketParams(), L, bytes, c.stats);
				growOps.push_back(fmt("%s %s %u %u", (g == first) ? "grow" : "growacc", kind, L, L2) + bytes);
				c.stats.count(fmt("tbl.doublings_%u", std::min(L2 - L, 8u)));
			}
		}
		bool threw = false;
		try {
			if (doReserve) { a.Reserve(newCap); what = fmt("Reserve(%zu) to 2^%u buckets", newCap, L2); }
			else { a.Insert(SlowKey{ key }); what = fmt("Insert(%llu) growing to 2^%u buckets", (unsigned long long)key, L2); }
		}
		catch (const HashFault&) { threw = true; }	// only pvFind of Insert can let it escape; relocation swallows it
		g_throwAfter = -1;
		uint64_t evalsA = g_hashEvals - e0;
		if (threw) { c.stats.count("tbl.fault_in_find"); continue; }
		if (!doReserve) { keys.push_back(key); present.insert(key); }
		if (!faults) {
			if (doReserve) b.Reserve(newCap); else b.Insert(SlowKey{ key });
		}
		if (relocates && !arm) {
			uint64_t fullCalls = evalsA - (doReserve ? 0 : 1);	// Insert evaluates the hash once in pvFind
			for (size_t i = 0; i < growOps.size(); ++i) {
				s.op(growOps[i]);
				s.res(i + 1 == growOps.size() ? fmt("%llu", (unsigned long long)fullCalls) : std::string("-"));
			}
			unsigned nowL = (unsigned)a.mBuckets->GetLogCount();
			if (nowL != L2) c.fail("C12 table %s: predicted new size 2^%u, got 2^%u", cfg.c_str(), L2, nowL);
			if (generations(a) != 1) c.fail("C12 table %s: %zu generations alive after a fault-free relocation", cfg.c_str(), generations(a));
			++growths;
			c.stats.count("tbl.relocations_counted");
			c.stats.count("tbl.full_getter_calls", fullCalls);
			c.stats.count("tbl.elements_relocated", a.GetCount() - (doReserve ? 0 : 1));
			if (growOps.size() > 1) c.stats.count("tbl.multi_generation_relocations");
			if (hasNext) c.stats.count("tbl.relocations_from_older_generation");
			c.stats.nontrivial(fmt("%s reloc#%u", cfg.c_str(), growths));
			if (growths <= 1) c.stats.sample(fmt("%s: %s, %llu of %zu elements re-hashed", cfg.c_str(), what.c_str(), (unsigned long long)fullCalls, a.GetCount()));
		}
		else if (relocates) c.stats.count("tbl.relocations_with_fault");
		c.stats.evaluations++;
		// property level: every key stays findable (after every relocation attempt; otherwise sampled)
		bool fullSweep = (relocates && (!faults || willGrow || step % 64 == 0)) || step % 97 == 0;
		if (fullSweep || relocates) {
			// in fault runs every insertion retries the relocation: most of those are checked on a sample of the keys
			size_t n = keys.size(), lim = fullSweep ? n : std::min<size_t>(n, 24);
			for (size_t q = 0; q < lim; ++q) {
				uint64_t k = fullSweep ? keys[q] : keys[(size_t)rng.below(n)];
				if (!a.ContainsKey(SlowKey{ k })) {
					c.fail("C12 table %s: key/hash %llu not found after %s (table 2^%u buckets, %zu generations, %zu elements)", cfg.c_str(),
						(unsigned long long)k, what.c_str(), (unsigned)a.mBuckets->GetLogCount(), generations(a), a.GetCount());
					break;
				}
			}
			if (a.GetCount() != keys.size()) c.fail("C12 table %s: count %zu != %zu after %s", cfg.c_str(), a.GetCount(), keys.size(), what.c_str());
			c.stats.count(fullSweep ? "tbl.findability_sweeps" : "tbl.findability_samples");
		}
		// property level: the twin that recomputes every hash has the same layout
		if (!faults && relocates) {
			if (!sameLayout(c, cfg.c_str(), a, b, what)) break;
			c.stats.count("tbl.layout_compared_with_full_rehash");
		}
	}
	// final: a fault-free relocation of everything that is still in old generations, then compare
	if (a.mBuckets) c.stats.count(fmt("tbl.final_log_%u", (unsigned)a.mBuckets->GetLogCount()));
	for (uint64_t k : keys)
		if (!a.ContainsKey(SlowKey{ k })) { c.fail("C12 table %s: key/hash %llu not found at the end", cfg.c_str(), (unsigned long long)k); break; }
	if (!faults) sameLayout(c, cfg.c_str(), a, b, "the whole run");
}

template<typename HB, typename HBtwin>
static void family(Ctx& c, Rng& rng, Suite& s, const char* name, const char* kind, unsigned maxL)
{
	unsigned small = std::min(maxL, 9u);
	tableRun<HB, HBtwin>(c, rng, s, name, kind, 4, 0, maxL, 0, false);
	tableRun<HB, HBtwin>(c, rng, s, name, kind, 0, 1, maxL - 2, 1, false);
	tableRun<HB, HBtwin>(c, rng, s, name, kind, 1, 2, maxL - 1, 4, false);
	tableRun<HB, HBtwin>(c, rng, s, name, kind, 3, 3, maxL, 2, false);
	tableRun<HB, HBtwin>(c, rng, s, name, kind, 2, 1, small, 3, false);
	tableRun<HB, HBtwin>(c, rng, s, name, kind, 5, 1, maxL - 1, 1, false);
	// several generations alive: the hash function throws during some relocations
	unsigned fl = std::min(maxL - 3, 11u);
	unsigned reps = c.thorough ? 20 : 8;
	for (unsigned rep = 0; rep < reps; ++rep)
		tableRun<HB, HBtwin>(c, rng, s, name, kind, rep % 4, 1 + rep % 2, (rep % 3 == 2) ? small : fl, rep % 5, true);
}

int main(int argc, char** argv)
{
	Ctx c = parseArgs(argc, argv);
	Rng rng(c.seed * 0x1000 + 0x12b + C12_PART);
	Suite s(c, "tbl", "model hashmeta");
	unsigned maxL = c.thorough ? 17 : 13;
	// the bucket families are split over two executables (C12_PART) so that they compile in parallel
#if C12_PART == 1
	// observation O3 (no property is violated: such a manager simply gets the 64-bit layout): a memory manager's own
	// `static const size_t ptrUsefulBitCount` is ignored - MemManager.h 376-380 `PtrUsefulBitCount<MemManager, decltype(MemManager::ptrUsefulBitCount)>`
	// never matches (decltype is `const size_t`, the default argument of the primary template is `size_t`) - so only the global macro
	// MOMO_MEM_MANAGER_PTR_USEFUL_BIT_COUNT selects the 48- / 32-bit BucketLimP4PtrState (parts 3 / 4 are built with it). Recorded as a counter.
	c.stats.count(ptrBitsDeclaredHonoured<FaultMMBits<48>>() && ptrBitsDeclaredHonoured<FaultMMBits<32>>()
		? "note.O3_per_manager_ptrUsefulBitCount_honoured" : "note.O3_per_manager_ptrUsefulBitCount_ignored");
	family<momo::HashBucketLimP4<4>, momo::HashBucketLimP4<4>>(c, rng, s, "LimP4<4>", "p4", maxL);
	family<momo::HashBucketLimP4<3>, momo::HashBucketLimP4<3>>(c, rng, s, "LimP4<3>", "p4", maxL - 1);
	family<momo::HashBucketLimP4<2>, momo::HashBucketLimP4<2>>(c, rng, s, "LimP4<2>", "p4", maxL - 1);
	family<momo::HashBucketLimP4<1>, momo::HashBucketLimP4<1>>(c, rng, s, "LimP4<1>", "p4", maxL - 1);
	family<momo::HashBucketOne<1>, momo::HashBucketOne<1>>(c, rng, s, "One<1>", "one", maxL - 1);
#elif C12_PART == 3 || C12_PART == 4
	const unsigned pL = c.thorough ? 15 : maxL - 1;	// (the ledger manager makes these runs slower than parts 1 / 2)
	family<momo::HashBucketLimP4<4>, momo::HashBucketLimP4<4>>(c, rng, s, "LimP4<4>", "p4", pL);
	family<momo::HashBucketLimP4<3>, momo::HashBucketLimP4<3>>(c, rng, s, "LimP4<3>", "p4", pL - 1);
	family<momo::HashBucketLimP4<2>, momo::HashBucketLimP4<2>>(c, rng, s, "LimP4<2>", "p4", pL - 1);
	family<momo::HashBucketLimP4<1>, momo::HashBucketLimP4<1>>(c, rng, s, "LimP4<1>", "p4", pL - 1);
	// ledger of the manager: everything given back (C03 piggyback)
	if (!mm().live.empty() || mm().badDealloc) c.fail("C03 leak: C12 table part %d: %zu blocks outstanding, %zu bad deallocations", (int)C12_PART, mm().live.size(), mm().badDealloc);
#else
	family<momo::HashBucketOpen2N2<3>, momo::HashBucketOpen2N2<3>>(c, rng, s, "Open2N2<3>", "o2", maxL);
	family<momo::HashBucketOpen2N2<2>, momo::HashBucketOpen2N2<2>>(c, rng, s, "Open2N2<2>", "o2", maxL - 1);
	family<momo::HashBucketOpen2N2<1>, momo::HashBucketOpen2N2<1>>(c, rng, s, "Open2N2<1>", "o2", maxL - 1);
	// HashBucketOpen8 falls back to Open2N2<3> for slow-hash keys; its twin must use the same bucket geometry
	family<momo::HashBucketOpen8, momo::HashBucketOpen2N2<3>>(c, rng, s, "Open8(slow->Open2N2<3>)", "o2", maxL - 1);
#endif
	return c.finish();
}
