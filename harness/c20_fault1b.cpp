// C20 correspondence harness, part 5b: failing base allocator and over-aligned value types at allocator level, 17..32 blocks per
// buffer (see c20_fault.cpp)
#define C20_DIRECT_FAULTS
#define C20_DIRECT_SECOND_HALF
#include "c20_direct.cpp"
