// C13 correspondence harness: open-addressing max-probe encoders, probe sequences, fill-to-the-brim.
// Function level: the real bucket classes of /repo/include are driven directly (-fno-access-control),
// table level: real HashSets that are not allowed to grow are filled until "Hash table is full".
#define MOMO_INCLUDE_OLD_HASH_BUCKETS
#include "momo/HashSet.h"
#include "momo/details/HashBucketOpen2N2.h"
#include "momo/details/HashBucketOpenN1.h"
#include "momo/details/HashBucketOpen8.h"
#include "common/verif_common.h"

#include <algorithm>
#include <stdexcept>

using namespace vf;

typedef momo::HashSet<uint32_t> HS0;
typedef HS0::BucketItemTraits BIT;

// ---------- encoders on real bucket objects ----------

struct Enc2Out { unsigned m, e; uint64_t dec; bool operator==(const Enc2Out& o) const { return m == o.m && e == o.e && dec == o.dec; } };

template<size_t n, bool part>
struct Enc2 {
	momo::internal::BucketOpen2N2<BIT, n, part> b;
	Enc2Out upd(uint64_t p) {
		b.UpdateMaxProbe((size_t)p);
		return Enc2Out{ b.mState[0], (unsigned)(b.mState[1] >> 2), (uint64_t)b.GetMaxProbe(0) };
	}
};

struct AllEnc2 {
	Enc2<1, false> a1; Enc2<2, false> a2; Enc2<3, false> a3; Enc2<1, true> b1; Enc2<2, true> b2; Enc2<3, true> b3;
	bool upd(uint64_t p, Enc2Out& out) {
		Enc2Out r[6] = { a1.upd(p), a2.upd(p), a3.upd(p), b1.upd(p), b2.upd(p), b3.upd(p) };
		out = r[0];
		for (int i = 1; i < 6; ++i) if (!(r[i] == r[0])) return false;
		return true;
	}
};

struct Enc3Out { unsigned b; uint64_t mx; bool operator==(const Enc3Out& o) const { return b == o.b && mx == o.mx; } };

template<typename Bucket>
struct Enc3 {
	Bucket b;
	Enc3Out upd(uint64_t p, unsigned L) {
		b.UpdateMaxProbe((size_t)p);
		return Enc3Out{ b.pvGetMaxProbeExp(), (uint64_t)b.GetMaxProbe(L) };
	}
};

struct AllEnc3 {
	Enc3<momo::internal::BucketOpenN1<BIT, 1, true>> a1; Enc3<momo::internal::BucketOpenN1<BIT, 2, true>> a2;
	Enc3<momo::internal::BucketOpenN1<BIT, 3, true>> a3; Enc3<momo::internal::BucketOpenN1<BIT, 4, false>> a4;
	Enc3<momo::internal::BucketOpenN1<BIT, 5, true>> a5; Enc3<momo::internal::BucketOpenN1<BIT, 6, false>> a6;
	Enc3<momo::internal::BucketOpenN1<BIT, 7, true>> a7; Enc3<momo::internal::BucketOpen8<BIT>> a8;
	bool upd(uint64_t p, unsigned L, Enc3Out& out) {
		Enc3Out r[8] = { a1.upd(p, L), a2.upd(p, L), a3.upd(p, L), a4.upd(p, L), a5.upd(p, L), a6.upd(p, L), a7.upd(p, L), a8.upd(p, L) };
		out = r[0];
		for (int i = 1; i < 8; ++i) if (!(r[i] == r[0])) return false;
		return true;
	}
};

static void runEncoders(Ctx& c, Rng& rng)
{
	Suite s(c, "enc", "model probe");
	// (1) every probe value from a fresh state, exhaustively up to 2^16 (thorough 2^20)
	uint64_t lim = c.thorough ? (1ull << 20) : (1ull << 16);
	for (uint64_t p = 0; p <= lim; ++p) {
		AllEnc2 e2; Enc2Out o2;
		if (!e2.upd(p, o2)) c.fail("enc: Open2N2 variants disagree at p=%llu", (unsigned long long)p);
		s.op("mp2 new"); s.res("ok");
		s.op(fmt("mp2 upd %llu", (unsigned long long)p));
		s.res(fmt("%u %u %llu", o2.m, o2.e, (unsigned long long)o2.dec));
		// property-level: bound covers p
		if (o2.dec < p) c.fail("C13 bound Open2N2: fresh upd p=%llu bound=%llu", (unsigned long long)p, (unsigned long long)o2.dec);
		AllEnc3 e3; Enc3Out o3; unsigned L = 24;
		if (!e3.upd(p, L, o3)) c.fail("enc: OpenN1 variants disagree at p=%llu", (unsigned long long)p);
		s.op("mp3 new"); s.res("ok");
		s.op(fmt("mp3 upd %llu %u", (unsigned long long)p, L));
		s.res(fmt("%u %llu", o3.b, (unsigned long long)o3.mx));
		if (o3.mx < p) c.fail("C13 bound OpenN1: fresh upd p=%llu bound=%llu", (unsigned long long)p, (unsigned long long)o3.mx);
		c.stats.evaluations += 2;
	}
	c.stats.count("enc.fresh_exhaustive_upto", lim);
	// (2) random update sequences (boundary-biased up to 2^62), all 6 orders of 3-element sets
	unsigned seqs = c.thorough ? 60000 : 6000;
	for (unsigned it = 0; it < seqs; ++it) {
		unsigned L = (unsigned)rng.range(1, 62);
		std::vector<uint64_t> ps;
		unsigned len = (unsigned)rng.range(1, 6);
		for (unsigned i = 0; i < len; ++i) {
			uint64_t p = rng.biased(L);
			if (L < 64 && p >= (1ull << L)) p = (1ull << L) - 1;
			ps.push_back(p);
		}
		std::vector<std::vector<uint64_t>> orders;
		if (len == 3) { std::sort(ps.begin(), ps.end()); do orders.push_back(ps); while (std::next_permutation(ps.begin(), ps.end())); }
		else orders.push_back(ps);
		for (auto& ord : orders) {
			AllEnc2 e2; AllEnc3 e3;
			s.op("mp2 new"); s.res("ok"); s.op("mp3 new"); s.res("ok");
			uint64_t mxp = 0; Enc2Out o2{0,0,0}; Enc3Out o3{0,0};
			std::string desc;
			for (uint64_t p : ord) {
				if (!e2.upd(p, o2)) c.fail("enc: Open2N2 variants disagree in sequence at p=%llu", (unsigned long long)p);
				if (!e3.upd(p, L, o3)) c.fail("enc: OpenN1 variants disagree in sequence at p=%llu", (unsigned long long)p);
				s.op(fmt("mp2 upd %llu", (unsigned long long)p));
				s.res(fmt("%u %u %llu", o2.m, o2.e, (unsigned long long)o2.dec));
				s.op(fmt("mp3 upd %llu %u", (unsigned long long)p, L));
				s.res(fmt("%u %llu", o3.b, (unsigned long long)o3.mx));
				mxp = std::max(mxp, p);
				desc += fmt("%llu ", (unsigned long long)p);
				// property-level oracle: the bound covers every probe recorded so far
				if (o2.dec < mxp) c.fail("C13 bound Open2N2: seq [%s] bound=%llu < %llu", desc.c_str(), (unsigned long long)o2.dec, (unsigned long long)mxp);
				if (o3.mx < mxp) c.fail("C13 bound OpenN1: L=%u seq [%s] bound=%llu < %llu", L, desc.c_str(), (unsigned long long)o3.mx, (unsigned long long)mxp);
				c.stats.evaluations += 2;
			}
			if (o2.e > 0) c.stats.count("enc.open2n2_rounded");
			if (o3.b == 255) c.stats.count("enc.openN1_unbounded");
			else if ((o3.b >> 3) > 0) c.stats.count("enc.openN1_rounded");
			c.stats.nontrivial(fmt("seq L=%u %s", L, desc.c_str()));
			c.stats.sample(fmt("L=%u upd %s-> open2n2 (m=%u,e=%u) openN1 byte=%u", L, desc.c_str(), o2.m, o2.e, o3.b));
		}
	}
	c.stats.count("enc.sequences", seqs);
}

// ---------- probe sequences through the real static functions ----------

template<typename Bucket>
static void seqSuite(Ctx& c, Rng& rng, Suite& s, const char* kind)
{
	// full listing for tiny tables, every home
	for (unsigned L = 0; L <= 5; ++L) {
		size_t n = size_t{1} << L;
		for (size_t home = 0; home < n; ++home) {
			std::string line; std::vector<bool> seen(n, false); size_t distinct = 0;
			size_t idx = Bucket::GetStartBucketIndex(home + n * 37, n);
			if (idx != home) c.fail("start index: L=%u home=%zu got %zu", L, home, idx);
			for (size_t p = 0; p < n; ++p) {
				if (p > 0) idx = Bucket::GetNextBucketIndex(idx, 0, n, p);
				line += fmt(p ? " %zu" : "%zu", idx);
				if (idx < n && !seen[idx]) { seen[idx] = true; ++distinct; }
			}
			s.op(fmt("seq %s %u %zu %zu", kind, L, home, n)); s.res(line);
			if (distinct != n) c.fail("C13 sequence: %s L=%u home=%zu visits only %zu of %zu buckets", kind, L, home, distinct, n);
			c.stats.evaluations++;
		}
	}
	unsigned maxL = c.thorough ? 24 : 20;
	for (unsigned L = 6; L <= maxL; ++L) {
		size_t n = size_t{1} << L;
		unsigned homes = (L <= 16) ? 3 : 1;
		for (unsigned h = 0; h < homes; ++h) {
			size_t home = (size_t)rng.below(n);
			std::vector<bool> seen(n, false); size_t distinct = 0; uint64_t chk = 0;
			size_t idx = home;
			for (size_t p = 0; p < n; ++p) {
				if (p > 0) idx = Bucket::GetNextBucketIndex(idx, 0, n, p);
				chk = chk * 1000003ull + idx;
				if (idx < n && !seen[idx]) { seen[idx] = true; ++distinct; }
			}
			s.op(fmt("seqall %s %u %zu", kind, L, home));
			s.res(fmt("chk=%llu distinct=%zu", (unsigned long long)chk, distinct));
			if (distinct != n) c.fail("C13 sequence: %s L=%u home=%zu visits only %zu of %zu buckets", kind, L, home, distinct, n);
			c.stats.evaluations++;
			c.stats.nontrivial(fmt("seqall %s %u %zu", kind, L, home));
		}
	}
	// start index: masks of random hash codes
	for (unsigned i = 0; i < 2000; ++i) {
		unsigned L = (unsigned)rng.range(0, 57);
		uint64_t h = rng.biased(64);
		s.op(fmt("start %u %llu", L, (unsigned long long)h));
		s.res(fmt("%zu", Bucket::GetStartBucketIndex((size_t)h, size_t{1} << L)));
		c.stats.evaluations++;
	}
	c.stats.count(std::string("seq.maxL.") + kind, maxL);
}

// ---------- table level: fill a table that cannot grow ----------

template<typename HashBucket, unsigned tLog>
struct NoGrowTraits : public momo::HashTraits<uint64_t, HashBucket>
{
	size_t CalcCapacity(size_t bucketCount, size_t bucketMaxItemCount) const noexcept { return bucketCount * bucketMaxItemCount + 1; }
	size_t GetLogStartBucketCount() const noexcept { return tLog; }
	size_t GetHashCode(const uint64_t& key) const { return (size_t)key; }	// identity: the key chooses its home bucket
};

struct SetNoCheck : public momo::HashSetSettings { static const momo::ExtraCheckMode extraCheckMode = momo::ExtraCheckMode::nothing; };

template<typename HashBucket, unsigned L>
static void fillSuite(Ctx& c, Rng& rng, Suite& s, const char* name, bool quad, unsigned rounds)
{
	typedef NoGrowTraits<HashBucket, L> Traits;
	typedef momo::HashSet<uint64_t, Traits, momo::MemManagerDefault, momo::HashSetItemTraits<uint64_t, momo::MemManagerDefault>, SetNoCheck> Set;
	typedef typename Set::Bucket Bucket;
	const size_t n = size_t{1} << L;
	for (unsigned round = 0; round < rounds; ++round) {
		Set set;
		std::vector<uint64_t> keys;
		uint64_t serial = 1;
		// home distribution: all keys to one home / two homes / uniform
		unsigned mode = (unsigned)rng.below(3);
		size_t h0 = (size_t)rng.below(n), h1 = (size_t)rng.below(n);
		bool sawFull = false;
		s.comment(fmt("fill %s L=%u round=%u mode=%u", name, L, round, mode));
		for (size_t step = 0; step < n * Bucket::maxCount + 3; ++step) {
			size_t home = (mode == 0) ? h0 : (mode == 1 ? (rng.chance(1, 2) ? h0 : h1) : (size_t)rng.below(n));
			uint64_t key = (serial++ << 32) | home;	// distinct keys, chosen home; high bits vary the short hash
			// which buckets are full now (read through the public bucket API)
			std::string fullList; size_t fullCount = 0;
			if (set.GetBucketCount() == n) {
				for (size_t i = 0; i < n; ++i)
					if (set.GetBucketBounds(i).GetCount() == Bucket::maxCount) { fullList += fmt(" %zu", i); ++fullCount; }
			}
			std::string res;
			try {
				auto ir = set.Insert(key);
				if (!ir.inserted) c.fail("fill %s: key reported present", name);
				size_t idx = set.GetBucketIndex(key);
				// displacement: walk the real probe sequence from home to idx
				size_t p = 0, cur = home;
				while (cur != idx && p < n) { ++p; cur = Bucket::GetNextBucketIndex(cur, key, n, p); }
				if (cur != idx) c.fail("fill %s: landing bucket %zu not on the probe path of home %zu", name, idx, home);
				res = fmt("%zu %zu", p, idx);
				keys.push_back(key);
				// property: the recorded bound of the home bucket covers the displacement
				size_t bound = (*set.mBuckets)[home].GetMaxProbe(L);
				if (bound < p) c.fail("C13 bound: %s L=%u home=%zu displacement %zu > recorded bound %zu", name, L, home, p, bound);
				if (p > 255) c.stats.count("fill.displacement_gt_255");
				if (p > 7) c.stats.count("fill.displacement_gt_7");
			}
			catch (const std::runtime_error&) {
				res = "full"; sawFull = true;
				// property: insertion fails only when no bucket has room
				if (fullCount != n) c.fail("C13 full: %s L=%u insertion refused with %zu of %zu buckets full", name, L, fullCount, n);
			}
			if (set.GetBucketCount() == n || res == "full") {
				s.op(fmt("add %s %u %zu%s", quad ? "quad" : "lin", L, home, fullList.c_str())); s.res(res);
			}
			c.stats.evaluations++;
			// property: every present key is found
			if (step % 7 == 0 || res == "full")
				for (uint64_t k : keys) if (!set.ContainsKey(k)) { c.fail("C13 lookup: %s L=%u key %llu (home %llu) not found", name, L, (unsigned long long)k, (unsigned long long)(k & 0xffffffff)); break; }
			if (res == "full") break;
		}
		if (sawFull) c.stats.count("fill.reached_full");
		if (set.GetCount() != keys.size()) c.fail("fill %s: count %zu != %zu", name, set.GetCount(), keys.size());
		c.stats.nontrivial(fmt("fill %s L=%u round=%u", name, L, round));
	}
}

// The recorded bound must stay above the displacement of every element that is STILL in the table when other elements are
// removed: all keys share one home bucket (displacements far beyond 255 for the one-item buckets, i.e. a non-zero exponent in
// the Open2N2 encoder), then keys are removed in random order - among them the ones resident in the home bucket itself,
// whose metadata holds the bound - and after every removal each remaining key must be found and be covered by the bound.
template<typename HashBucket, unsigned L>
static void churnSuite(Ctx& c, Rng& rng, const char* name, unsigned rounds)
{
	typedef NoGrowTraits<HashBucket, L> Traits;
	typedef momo::HashSet<uint64_t, Traits, momo::MemManagerDefault, momo::HashSetItemTraits<uint64_t, momo::MemManagerDefault>, SetNoCheck> Set;
	typedef typename Set::Bucket Bucket;
	const size_t n = size_t{1} << L;
	for (unsigned round = 0; round < rounds; ++round) {
		Set set;
		std::vector<uint64_t> keys;
		size_t home = (size_t)rng.below(n);
		size_t total = std::min<size_t>(n * Bucket::maxCount, 420 * Bucket::maxCount);
		for (size_t i = 0; i < total; ++i) { uint64_t key = ((uint64_t)(i + 1) << 32) | home; set.Insert(key); keys.push_back(key); }
		size_t maxDisp = 0;
		auto dispOf = [&](uint64_t key) { size_t idx = set.GetBucketIndex(key); size_t p = 0, cur = home; while (cur != idx && p < n) { ++p; cur = Bucket::GetNextBucketIndex(cur, key, n, p); } return p; };
		for (uint64_t k : keys) maxDisp = std::max(maxDisp, dispOf(k));
		if (maxDisp > 255) c.stats.count("churn.runs_with_displacement_gt_255");
		size_t removals = keys.size() / 2;
		for (size_t r = 0; r < removals; ++r) {
			// every fourth removal takes a key that lives in the home bucket itself (if one is left)
			size_t pick = (size_t)rng.below(keys.size());
			if (r % 4 == 0) for (size_t j = 0; j < keys.size(); ++j) if (set.GetBucketIndex(keys[j]) == home) { pick = j; c.stats.count("churn.removed_from_home_bucket"); break; }
			uint64_t victim = keys[pick];
			keys.erase(keys.begin() + (ptrdiff_t)pick);
			if (!set.Remove(victim)) c.fail("C13 churn: %s L=%u key to remove not found", name, L);
			c.stats.evaluations++;
			size_t bound = (*set.mBuckets)[home].GetMaxProbe(L);
			bool every = (r % 16 == 0) || r < 8;
			for (size_t j = 0; j < keys.size(); j += (every ? 1 : 7)) {
				uint64_t k = keys[j];
				if (!set.ContainsKey(k)) { c.fail("C13 lookup: %s L=%u after removing %zu keys (last: key %llu): present key %llu with home %zu is not found, recorded bound %zu", name, L, r + 1, (unsigned long long)victim, (unsigned long long)k, home, bound); r = removals; break; }
				size_t d = dispOf(k);
				if (d > bound) { c.fail("C13 bound: %s L=%u after removing %zu keys: displacement %zu of a present key exceeds the recorded bound %zu of home %zu", name, L, r + 1, d, bound, home); r = removals; break; }
			}
		}
		c.stats.nontrivial(fmt("churn %s L=%u round=%u", name, L, round));
	}
}

int main(int argc, char** argv)
{
	Ctx c = parseArgs(argc, argv);
	Rng rng(c.seed * 0x1000 + 13);
	runEncoders(c, rng);
	{
		Suite s(c, "seq", "model probe");
		seqSuite<momo::internal::BucketOpen2N2<BIT, 3, false>>(c, rng, s, "quad");
		seqSuite<momo::internal::BucketOpen8<BIT>>(c, rng, s, "quad");
		seqSuite<momo::internal::BucketOpenN1<BIT, 3, true>>(c, rng, s, "lin");
	}
	{
		Suite s(c, "fill", "model probe");
		unsigned r = c.thorough ? 12 : 3;
		fillSuite<momo::HashBucketOpen2N2<1>, 3>(c, rng, s, "Open2N2<1>", true, r);
		fillSuite<momo::HashBucketOpen2N2<2>, 5>(c, rng, s, "Open2N2<2>", true, r);
		fillSuite<momo::HashBucketOpen2N2<3>, 9>(c, rng, s, "Open2N2<3>", true, r);
		fillSuite<momo::HashBucketOpenN1<1, true>, 4>(c, rng, s, "OpenN1<1>", false, r);
		fillSuite<momo::HashBucketOpenN1<3, true>, 6>(c, rng, s, "OpenN1<3>", false, r);
		fillSuite<momo::HashBucketOpenN1<7, false>, 3>(c, rng, s, "OpenN1<7>", false, r);
		fillSuite<momo::HashBucketOpenN1<2, false>, 10>(c, rng, s, "OpenN1<2>", false, r);
		fillSuite<momo::HashBucketOpen8, 5>(c, rng, s, "Open8", true, r);
		fillSuite<momo::HashBucketOpen8, 0>(c, rng, s, "Open8", true, 1);
		fillSuite<momo::HashBucketOpen2N2<3>, 1>(c, rng, s, "Open2N2<3>", true, r);
	}
	{
		unsigned r = c.thorough ? 6 : 2;
		churnSuite<momo::HashBucketOpen2N2<1>, 9>(c, rng, "Open2N2<1>", r);
		churnSuite<momo::HashBucketOpen2N2<2>, 9>(c, rng, "Open2N2<2>", r);
		churnSuite<momo::HashBucketOpen2N2<3>, 9>(c, rng, "Open2N2<3>", r);
		churnSuite<momo::HashBucketOpenN1<1, true>, 9>(c, rng, "OpenN1<1>", r);
		churnSuite<momo::HashBucketOpenN1<3, false>, 8>(c, rng, "OpenN1<3>", r);
		churnSuite<momo::HashBucketOpen8, 7>(c, rng, "Open8", r);
	}
	return c.finish();
}
