// C20 correspondence harness (std::unordered_map / std::unordered_set), part 4: std::unordered_map / set / multimap / multiset (node allocations and bucket arrays) with momo's pool allocator against twins with
// std::allocator and against the Lean model (allocator level and container level).  See c20_alloc.h / c20_world.h.
#include "c20_world.h"

using namespace c20;

int main(int argc, char** argv)
{
	Ctx c = parseArgs(argc, argv);
	Rng rng(c.seed * 0x1000 + 23);
	arena().init(c); arena().rng = &rng; installCrashReporter();
	const unsigned steps = c.thorough ? 1500 : 500;
	const unsigned rounds = c.thorough ? 12 : 4;
	for (unsigned round = 0; round < rounds; ++round) {
		std::string r = fmt("r%u_", round);
		runTraced<KUMap<int, int, false>, Cfg<32, 16>>(c, rng, r + "umap_ii_a", steps);
		runTraced<KUMap<int, int, false>, Cfg<1, 0>>(c, rng, r + "umap_ii_b", steps);
		runTraced<KUMap<int, std::string, false>, Cfg<28, 1>>(c, rng, r + "umap_is_a", steps);
		runTraced<KUMap<Big, int, false>, Cfg<29, 16>>(c, rng, r + "umap_bi_a", steps);
		runTraced<KUSet<int, false>, Cfg<30, 0>>(c, rng, r + "uset_i_a", steps);
		runTraced<KUSet<int, false>, Cfg<2, 16>>(c, rng, r + "uset_i_b", steps);
		runTraced<KUSet<std::string, false>, Cfg<31, 2>>(c, rng, r + "uset_s_a", steps);
		runTraced<KUSet<Big, false>, Cfg<4, 16>>(c, rng, r + "uset_b_a", steps);
		// the momo allocator itself, without the reporting shell
		runPlain<KUMap<int, int, false>, Cfg<momo::MemPoolConst::defaultBlockCount, momo::MemPoolConst::defaultCachedFreeBlockCount>>(c, rng, r + "umap_ii", steps);
	}
	dumpTracerStats(c);
	return c.finish();
}
