// C20 correspondence harness: element types, container kinds and the random histories (`World`).
#pragma once
#include "c20_alloc.h"

#include <forward_list>
#include <list>
#include <map>
#include <set>
#include <unordered_map>
#include <unordered_set>

namespace c20 {

// ------------------------------------------------------------------------------------------------ element types

struct Big {	// 40 bytes, alignment 8
	uint64_t a[5];
	bool operator<(const Big& o) const { return a[0] < o.a[0]; }
	bool operator==(const Big& o) const { return a[0] == o.a[0]; }
};
struct Al16 {	// 16 bytes, alignment 16 (= UIntConst::maxAlignment)
	long double x;
	bool operator<(const Al16& o) const { return x < o.x; }
	bool operator==(const Al16& o) const { return x == o.x; }
};
struct BigHash { size_t operator()(const Big& b) const { return (size_t)(b.a[0] * 0x9E3779B97F4A7C15ull); } };

template<typename V> struct Gen;
template<> struct Gen<int> { static int make(uint32_t k, uint32_t) { return (int)k; } static uint64_t dig(int v) { return (uint64_t)(uint32_t)v; } };
template<> struct Gen<Big> {
	static Big make(uint32_t k, uint32_t s) { Big b; b.a[0] = k; for (int i = 1; i < 5; ++i) b.a[i] = k * 1000003ull + i + ((uint64_t)s << 32); return b; }
	static uint64_t dig(const Big& b) { uint64_t h = 0; for (int i = 0; i < 5; ++i) h = h * 1099511628211ull + b.a[i]; return h; }
};
template<> struct Gen<Al16> { static Al16 make(uint32_t k, uint32_t) { return Al16{ (long double)k }; } static uint64_t dig(const Al16& v) { return (uint64_t)v.x; } };
template<> struct Gen<std::string> {
	static std::string make(uint32_t k, uint32_t) { return std::string(20 + k % 30, (char)('a' + k % 26)) + std::to_string(k); }
	static uint64_t dig(const std::string& v) { uint64_t h = 1469598103934665603ull; for (char ch : v) h = (h ^ (uint8_t)ch) * 1099511628211ull; return h; }
};
template<typename X, typename Y> struct Gen<std::pair<const X, Y>> {
	static uint64_t dig(const std::pair<const X, Y>& p) { return Gen<X>::dig(p.first) * 0x9E3779B97F4A7C15ull + Gen<Y>::dig(p.second); }
};

// ------------------------------------------------------------------------------------------------ container kinds

enum Cat { catList, catFwd, catTree, catHash };

template<typename V> struct KList {
	typedef V Value; typedef V Key; typedef V Mapped;
	template<class Al> using Cont = std::list<V, Al>;
	static const Cat cat = catList; static const bool multi = true, isMap = false;
	static std::string name() { return std::string("list<") + tn() + ">"; }
	static const char* tn();
	template<class C> static const auto& alloc(const C& c) { return c._M_get_Node_allocator(); }
};
template<typename V> struct KFwd {
	typedef V Value; typedef V Key; typedef V Mapped;
	template<class Al> using Cont = std::forward_list<V, Al>;
	static const Cat cat = catFwd; static const bool multi = true, isMap = false;
	static std::string name() { return std::string("forward_list<") + KList<V>::tn() + ">"; }
	// forward_list derives privately from _Fwd_list_base: a C-style cast reaches the base
	template<class Al> static const auto& alloc(const std::forward_list<V, Al>& c) { return ((const std::_Fwd_list_base<V, Al>&)c)._M_get_Node_allocator(); }
};
template<> inline const char* KList<int>::tn() { return "int"; }
template<> inline const char* KList<Big>::tn() { return "Big40"; }
template<> inline const char* KList<Al16>::tn() { return "Al16"; }
template<> inline const char* KList<std::string>::tn() { return "string"; }

template<typename X, typename Y, bool tMulti> struct KMap {
	typedef std::pair<const X, Y> Value; typedef X Key; typedef Y Mapped;
	template<class Al> using Cont = typename std::conditional<tMulti, std::multimap<X, Y, std::less<X>, Al>, std::map<X, Y, std::less<X>, Al>>::type;
	static const Cat cat = catTree; static const bool multi = tMulti, isMap = true;
	static std::string name() { return std::string(tMulti ? "multimap<" : "map<") + KList<X>::tn() + "," + KList<Y>::tn() + ">"; }
	template<class C> static const auto& alloc(const C& c) { return c._M_t._M_get_Node_allocator(); }
};
template<typename X, bool tMulti> struct KSet {
	typedef X Value; typedef X Key; typedef X Mapped;
	template<class Al> using Cont = typename std::conditional<tMulti, std::multiset<X, std::less<X>, Al>, std::set<X, std::less<X>, Al>>::type;
	static const Cat cat = catTree; static const bool multi = tMulti, isMap = false;
	static std::string name() { return std::string(tMulti ? "multiset<" : "set<") + KList<X>::tn() + ">"; }
	template<class C> static const auto& alloc(const C& c) { return c._M_t._M_get_Node_allocator(); }
};
template<typename X> struct HashOf { typedef std::hash<X> type; };
template<> struct HashOf<Big> { typedef BigHash type; };
template<typename X, typename Y, bool tMulti> struct KUMap {
	typedef std::pair<const X, Y> Value; typedef X Key; typedef Y Mapped;
	template<class Al> using Cont = typename std::conditional<tMulti,
		std::unordered_multimap<X, Y, typename HashOf<X>::type, std::equal_to<X>, Al>, std::unordered_map<X, Y, typename HashOf<X>::type, std::equal_to<X>, Al>>::type;
	static const Cat cat = catHash; static const bool multi = tMulti, isMap = true;
	static std::string name() { return std::string(tMulti ? "unordered_multimap<" : "unordered_map<") + KList<X>::tn() + "," + KList<Y>::tn() + ">"; }
	// _Hashtable derives privately from _Hashtable_alloc: a C-style cast reaches the base
	template<class C> static const auto& alloc(const C& c) {
		typedef typename std::remove_cv<typename std::remove_reference<decltype(c._M_h)>::type>::type HT;
		return ((const typename HT::__hashtable_alloc&)c._M_h)._M_node_allocator();
	}
};
template<typename X, bool tMulti> struct KUSet {
	typedef X Value; typedef X Key; typedef X Mapped;
	template<class Al> using Cont = typename std::conditional<tMulti,
		std::unordered_multiset<X, typename HashOf<X>::type, std::equal_to<X>, Al>, std::unordered_set<X, typename HashOf<X>::type, std::equal_to<X>, Al>>::type;
	static const Cat cat = catHash; static const bool multi = tMulti, isMap = false;
	static std::string name() { return std::string(tMulti ? "unordered_multiset<" : "unordered_set<") + KList<X>::tn() + ">"; }
	// _Hashtable derives privately from _Hashtable_alloc: a C-style cast reaches the base
	template<class C> static const auto& alloc(const C& c) {
		typedef typename std::remove_cv<typename std::remove_reference<decltype(c._M_h)>::type>::type HT;
		return ((const typename HT::__hashtable_alloc&)c._M_h)._M_node_allocator();
	}
};

// ------------------------------------------------------------------------------------------------ the twin's allocator in the fault suites

// std::allocator that throws bad_alloc at the `failAt`-th allocate call after arm() (counted over all rebound copies): the twin is
// made to fail at the same logical request (the same allocate call of the same container call) at which the pool allocator threw
struct TwinCtl {
	static inline long failAt = -1, calls = 0;
	static void arm(long k) { failAt = k; calls = 0; }
	static void disarm() { failAt = -1; }
};
template<typename T> struct TwinAlloc {
	typedef T value_type;
	typedef std::false_type propagate_on_container_copy_assignment;
	typedef std::true_type propagate_on_container_move_assignment;
	typedef std::true_type propagate_on_container_swap;
	typedef std::true_type is_always_equal;
	TwinAlloc() noexcept {}
	template<typename U> TwinAlloc(const TwinAlloc<U>&) noexcept {}
	T* allocate(size_t n) { if (TwinCtl::failAt >= 0 && TwinCtl::calls++ == TwinCtl::failAt) throw std::bad_alloc(); return std::allocator<T>().allocate(n); }
	void deallocate(T* p, size_t n) noexcept { std::allocator<T>().deallocate(p, n); }
	template<typename U> bool operator==(const TwinAlloc<U>&) const noexcept { return true; }
	template<typename U> bool operator!=(const TwinAlloc<U>&) const noexcept { return false; }
};

// ------------------------------------------------------------------------------------------------ the random histories

// `faulty`: element calls, copy construction, copy assignment and the construction of allocator objects are also run with the base
// allocator armed to throw bad_alloc at one of its next requests (c20_fault2 / c20_fault3); the twins then use TwinAlloc
template<typename K, typename TCfg, bool traced, bool faulty = false>
struct World {
	static_assert(traced || !faulty, "the fault histories need the reporting shell");
	template<typename T> using A = typename std::conditional<traced, LogA<T, TCfg>, typename TCfg::template Inner<T>>::type;
	typedef typename K::Value Value;
	typedef typename K::Key Key;
	typedef typename K::template Cont<A<Value>> PC;						// the container under test
	typedef typename K::template Cont<typename std::conditional<faulty, TwinAlloc<Value>, std::allocator<Value>>::type> TC;		// its twin
	typedef A<int> Handle;
	static const int E = 4, H = 2;

	Ctx& c; Rng& rng; Suite* cont;
	std::string name;
	std::optional<PC> pc[E]; std::optional<TC> tc[E]; std::optional<Handle> hd[H];
	std::set<long long> owned[E];		// blocks held by container i (nodes and arrays), from the tracer
	uint32_t serial = 1;
	unsigned stepNo = 0;
	std::vector<std::string> history;	// container-level lines of this history (for FAIL lines)
	bool dead = false;					// a provenance violation was reported: stop comparing

	World(Ctx& c_, Rng& r, Suite* cs, const std::string& n) : c(c_), rng(r), cont(cs), name(n) {}

	// ---- helpers
	static const void* poolOfInner(const typename TCfg::template Inner<int>& a) { return a.mMemPool.get(); }
	template<typename Al> static const void* poolPtr(const Al& a) {
		if constexpr (traced) return a.pool(); else return a.mMemPool.get();
	}
	template<typename Al> static PoolView viewOf(const Al& a) {
		if constexpr (traced) return a.view();
		else { auto& mp = *a.mMemPool; return PoolView{ mp.GetBlockSize(), mp.GetBlockAlignment(), mp.GetAllocateCount(), a.mMemPool.use_count() }; }
	}
	const void* poolOfCont(int i) const { return poolPtr(K::alloc(*pc[i])); }
	std::string tail() const {
		std::string s; size_t from = history.size() > 12 ? history.size() - 12 : 0;
		for (size_t i = from; i < history.size(); ++i) { s += history[i]; s += "; "; }
		return s;
	}
	template<typename C> static size_t sizeOf(const C& x) { if constexpr (K::cat == catFwd) return (size_t)std::distance(x.begin(), x.end()); else return x.size(); }
	template<typename C> static std::vector<uint64_t> digest(const C& x) {
		std::vector<uint64_t> d; for (auto& v : x) d.push_back(Gen<Value>::dig(v));
		if (K::cat == catHash) std::sort(d.begin(), d.end());
		return d;
	}
	Value mk(uint32_t k) {
		if constexpr (K::isMap) return Value(Gen<Key>::make(k, 0), Gen<typename K::Mapped>::make(serial++, 0));
		else return Gen<Value>::make(k, 0);
	}
	Key mkKey(uint32_t k) { return Gen<Key>::make(k, 0); }
	std::string actsStr() {
		std::string s;
		if constexpr (traced) {
			for (auto& a : tracer().acts) {
				std::string b; for (size_t x : a.bufs) { if (!b.empty()) b += ','; b += std::to_string(x); }
				if (b.empty()) b = "-";
				if (a.failed) s += fmt(" !%zu:%zu:%zu", a.tsize, a.talign, a.n);
				else if (a.isAlloc) s += fmt(" +%lld:%zu:%zu:%zu:%s", a.id, a.tsize, a.talign, a.n, b.c_str());
				else s += fmt(" -%lld:%s", a.id, b.c_str());
			}
		}
		return s;
	}
	bool anyFailedAct() const { if constexpr (traced) { for (auto& a : tracer().acts) if (a.failed) return true; } return false; }
	void beginOp(int owner) { if constexpr (traced) { tracer().acts.clear(); tracer().newPools.clear(); tracer().curOwner = owner; tracer().allocCalls = 0; tracer().failedCall = -1; } }
	// book-keeping of who holds which block, from the acts of the call just made by container `i`
	void applyActs(int i) {
		if constexpr (traced) {
			for (auto& a : tracer().acts) {
				if (a.failed) continue;
				if (a.isAlloc) { if (i >= 0 && i < E) owned[i].insert(a.id); }
				else {
					bool found = false;
					for (int k = 0; k < E; ++k) if (owned[k].erase(a.id)) { found = true; if (k != i && !dead) c.fail("C20 ownership: %s container %d freed block arena+%lld held by container %d; history: %s", name.c_str(), i, a.id, k, tail().c_str()); }
					if (!found && !dead) c.fail("C20 ownership: %s container %d freed block arena+%lld nobody holds; history: %s", name.c_str(), i, a.id, tail().c_str());
				}
			}
		}
	}
	// a line whose answer is not compared (the next line of the same call carries the answer)
	void emitQuiet(const std::string& line) {
		history.push_back(line);
		if constexpr (traced) tracer().note(line);
		if (cont && !dead) { cont->op("quiet " + line); cont->res("*"); }
	}
	void emit(const std::string& line) {
		history.push_back(line);
		if constexpr (traced) tracer().note(line);
		if (cont && !dead) { cont->op(line); cont->res(summary()); }
		c.stats.evaluations++;
	}
	// ---- what the implementation says after a call (container-level answer line)
	std::string summary() {
		std::string s;
		std::map<int, PoolView> pools;
		auto addEnt = [&](int eid, const auto& al, size_t nodes, size_t arrs) {
			int pid = tracer().pidOf(poolPtr(al));
			if (!s.empty()) s += ' ';
			s += fmt("e%d:p%d:n%zu:a%zu", eid, pid, nodes, arrs);
			pools[pid] = viewOf(al);
		};
		for (int i = 0; i < E; ++i) if (pc[i]) {
			size_t arrs = 0;
			if constexpr (K::cat == catHash) arrs = pc[i]->bucket_count() != 1 ? 1 : 0;
			addEnt(i, K::alloc(*pc[i]), sizeOf(*pc[i]), arrs);
		}
		for (int h = 0; h < H; ++h) if (hd[h]) addEnt(100 + h, *hd[h], 0, 0);
		s += " | ";
		for (int p = 0; p < tracer().nextPid; ++p) {
			if (p) s += " ; ";
			auto it = pools.find(p);
			if (it == pools.end()) s += fmt("p%d dead", p); else s += Tracer::poolStr(p, it->second);
		}
		s += fmt(" | L=%zu", arena().live.size());
		return s;
	}

	// ---- property-level checks after every call
	void check(const char* opName) {
		if (dead) return;
		// (P1) contents equal to the twin
		for (int i = 0; i < E; ++i) {
			if ((bool)pc[i] != (bool)tc[i]) { c.fail("harness: slot mismatch"); continue; }
			if (!pc[i]) continue;
			auto a = digest(*pc[i]), b = digest(*tc[i]);
			if (a != b) {
				size_t k = 0; while (k < a.size() && k < b.size() && a[k] == b[k]) ++k;
				c.fail("C20 twin: %s after %s: container %d differs from its std::allocator twin (sizes %zu / %zu, first difference at position %zu); history: %s",
					name.c_str(), opName, i, a.size(), b.size(), k, tail().c_str());
			}
		}
		// pools: owners and allocate count
		std::map<const void*, std::pair<long, size_t>> per;	// pool -> (entities attached, nodes of attached containers)
		std::map<const void*, PoolView> views;
		for (int i = 0; i < E; ++i) if (pc[i]) { const void* p = poolOfCont(i); per[p].first++; per[p].second += sizeOf(*pc[i]); views[p] = viewOf(K::alloc(*pc[i])); }
		for (int h = 0; h < H; ++h) if (hd[h]) { const void* p = poolPtr(*hd[h]); per[p].first++; views[p] = viewOf(*hd[h]); }
		for (auto& kv : per) {
			const PoolView& v = views[kv.first];
			// (P4) use_count = containers and allocator objects attached
			if (v.rc != kv.second.first)
				c.fail("C20 owners: %s after %s: a pool has use_count %ld but %ld containers / allocator objects attached; history: %s", name.c_str(), opName, v.rc, kv.second.first, tail().c_str());
			// (P3) GetAllocateCount = nodes of the containers attached (every node came from the pool and went back to it)
			if (v.ac != kv.second.second)
				c.fail("C20 count: %s after %s: GetAllocateCount() = %zu but the containers attached hold %zu nodes; history: %s", name.c_str(), opName, v.ac, kv.second.second, tail().c_str());
		}
		if constexpr (traced) {
			// (P2) every element sits in a node block held by its container, allocated through the pool its allocator points to now
			for (int i = 0; i < E; ++i) if (pc[i]) {
				int pid = tracer().pidOf(poolOfCont(i));
				size_t nodes = 0;
				for (auto& v : *pc[i]) {
					auto it = tracer().blockContaining(&v);
					if (it == tracer().blocks.end()) { c.fail("C20 node: %s after %s: an element of container %d lies in no live block; history: %s", name.c_str(), opName, i, tail().c_str()); break; }
					++nodes;
					if (!owned[i].count(it->first)) { c.fail("C20 node: %s after %s: container %d has an element in block arena+%lld which it does not hold; history: %s", name.c_str(), opName, i, it->first, tail().c_str()); break; }
					if (it->second.pid != pid || !it->second.viaPool) {
						c.fail("C20 pool-carry: %s after %s: container %d points to pool %d but its node arena+%lld came from pool %d (%s); history: %s",
							name.c_str(), opName, i, pid, it->first, it->second.pid, it->second.viaPool ? "pool block" : "raw block", tail().c_str());
						break;
					}
				}
				size_t singles = 0; for (long long id : owned[i]) { auto b = tracer().blocks.find(id); if (b != tracer().blocks.end() && b->second.n == 1) ++singles; }
				if (singles != nodes) c.fail("C20 node: %s after %s: container %d holds %zu single blocks but has %zu elements; history: %s", name.c_str(), opName, i, singles, nodes, tail().c_str());
			}
		}
	}

	// ---- the operations
	int pickFull() { int t[E], n = 0; for (int i = 0; i < E; ++i) if (pc[i]) t[n++] = i; return n ? t[rng.below(n)] : -1; }
	int pickEmpty() { int t[E], n = 0; for (int i = 0; i < E; ++i) if (!pc[i]) t[n++] = i; return n ? t[rng.below(n)] : -1; }
	int pickOther(int i) { int t[E], n = 0; for (int k = 0; k < E; ++k) if (pc[k] && k != i) t[n++] = k; return n ? t[rng.below(n)] : -1; }
	int pickHandle(bool full) { int t[H], n = 0; for (int h = 0; h < H; ++h) if ((bool)hd[h] == full) t[n++] = h; return n ? t[rng.below(n)] : -1; }

	void afterConstruct(int i, const std::string& line) {
		applyActs(i);
		emit(line);
	}

	void construct() {
		int i = pickEmpty(); if (i < 0) return;
		unsigned how = (unsigned)rng.below(7);
		int j = pickFull(); int h = pickHandle(true);
		beginOp(i);
		if (how <= 1 || (how <= 4 && j < 0) || (how >= 5 && h < 0 && j < 0)) {
			// default construction: an allocator object (for the node type) with a pool of its own
			if constexpr (faulty) if (rng.chance(1, 3)) {
				// first an attempt in which allocate_shared (pool_allocator.h:77) throws: no container, nothing changes; the twin's
				// default construction makes no request at all, so there is nothing to fail there
				size_t before = arena().live.size();
				arena().armFail(0);
				try { pc[i].emplace(); c.fail("harness: default construction did not throw"); } catch (const std::bad_alloc&) {}
				arena().disarm();
				if (pc[i] || arena().live.size() != before) c.fail("C20 fault: %s: default construction that threw bad_alloc left a container or %zu -> %zu ledger entries; history: %s", name.c_str(), before, arena().live.size(), tail().c_str());
				pc[i].reset();
				c.stats.count("op.construct_default_failed");
				emit(fmt("newAllocFail %d %zu %zu", i, tracer().failedNewSize, tracer().failedNewAlign));
				check("failed default construction");
				beginOp(i);
			}
			pc[i].emplace(); tc[i].emplace();
			c.stats.count("op.construct_default");
			if constexpr (traced) {
				auto& np = tracer().newPools;
				if (np.size() != 1) c.fail("C20 construct: %s default construction created %zu pools", name.c_str(), np.size());
				else afterConstruct(i, fmt("newAlloc %d %zu %zu %lld", i, np[0].tsize, np[0].talign, np[0].cb));
			} else emit("construct-default");
			check("default construction");
		} else if (how == 2 && j >= 0) {
			// copy construction
			const void* srcPool = poolOfCont(j);
			if constexpr (faulty) {
				// the base allocator throws at one of its next requests: request 0 is the control block of the new allocator object inside
				// select_on_container_copy_construction (must be a catchable bad_alloc: regression test of the repaired noexcept), the next
				// ones are buffers of the new pool; the twin fails at the same allocate call
				size_t before = arena().live.size();
				bool armed = rng.chance(3, 5);
				if (armed) arena().armFail((long)rng.below(3));
				bool threwP = false, threwT = false;
				try { pc[i].emplace(*pc[j]); } catch (const std::bad_alloc&) { threwP = true; }
				arena().disarm();
				if (threwP && tracer().newPools.empty()) {
					// thrown inside select_on_container_copy_construction: no pool, no container, nothing changed; the std::allocator twin makes
					// no request there, so there is nothing for it to fail at: it is not constructed either
					pc[i].reset();
					std::string a = actsStr();
					if (!a.empty() || arena().live.size() != before || poolOfCont(j) != srcPool)
						c.fail("C20 fault: %s: copy construction %d(copy of %d) that threw inside select_on_container_copy_construction allocated / freed (%s) or changed the ledger (%zu -> %zu) or the pool of its source; history: %s",
							name.c_str(), i, j, a.c_str(), before, arena().live.size(), tail().c_str());
					c.stats.count("op.construct_copy_failed_inside_select_on_copy");
					emit(fmt("copyConstructNewFail %d %d %zu %zu", i, j, tracer().failedNewSize, tracer().failedNewAlign));
					check("copy construction that threw inside select_on_container_copy_construction");
					return;
				}
				TwinCtl::arm(tracer().failedCall);
				try { tc[i].emplace(*tc[j]); } catch (const std::bad_alloc&) { threwT = true; }
				TwinCtl::disarm();
				if (threwP != threwT) c.fail("C20 twin: %s: copy construction %d(copy of %d): pool container %s, twin %s (allocate call #%d failed); history: %s", name.c_str(), i, j,
					threwP ? "threw bad_alloc" : "did not throw", threwT ? "threw bad_alloc" : "did not throw", tracer().failedCall, tail().c_str());
				if (threwP) {
					pc[i].reset(); tc[i].reset();
					auto& np = tracer().newPools;
					std::string a = actsStr(); applyActs(i);
					if (!owned[i].empty()) { c.fail("C20 leak: %s: copy construction that threw bad_alloc left %zu blocks; history: %s", name.c_str(), owned[i].size(), tail().c_str()); owned[i].clear(); }
					if (arena().live.size() != before) c.fail("C20 leak: %s: copy construction that threw bad_alloc changed the ledger from %zu to %zu entries; history: %s", name.c_str(), before, arena().live.size(), tail().c_str());
					if (poolOfCont(j) != srcPool) c.fail("C20 copy-independent: %s: failed copy construction changed the pool of its source", name.c_str());
					c.stats.count("op.construct_copy_failed");
					if (np.size() != 1) c.fail("C20 construct: %s failed copy construction created %zu pools", name.c_str(), np.size());
					else emit(fmt("copyConstructF %d %d %zu %zu %lld%s", i, j, np[0].tsize, np[0].talign, np[0].cb, a.c_str()));
					check("failed copy construction");
					return;
				}
			} else {
			pc[i].emplace(*pc[j]); tc[i].emplace(*tc[j]);
			}
			c.stats.count("op.construct_copy");
			if (poolOfCont(i) == srcPool || poolOfCont(j) != srcPool)
				c.fail("C20 copy-independent: %s: Container %d(copy of %d) %s; history: %s", name.c_str(), i, j,
					poolOfCont(i) == srcPool ? "shares the pool of its source" : "changed the pool of its source", tail().c_str());
			for (int k = 0; k < E; ++k) if (k != i && pc[k] && poolOfCont(k) == poolOfCont(i))
				c.fail("C20 copy-independent: %s: the copy %d shares its pool with container %d; history: %s", name.c_str(), i, k, tail().c_str());
			if constexpr (traced) {
				auto& np = tracer().newPools;
				if (np.size() != 1) c.fail("C20 construct: %s copy construction created %zu pools", name.c_str(), np.size());
				else { std::string a = actsStr(); afterConstruct(i, fmt("copyConstruct %d %d %zu %zu %lld%s", i, j, np[0].tsize, np[0].talign, np[0].cb, a.c_str())); }
			} else emit("construct-copy");
			check("copy construction");
		} else if (how == 3 && j >= 0) {
			// move construction
			const void* srcPool = poolOfCont(j);
			pc[i].emplace(std::move(*pc[j])); tc[i].emplace(std::move(*tc[j]));
			c.stats.count("op.construct_move");
			if (poolOfCont(i) != srcPool || poolOfCont(j) != srcPool)
				c.fail("C20 pool-carry: %s: Container %d(std::move(%d)) does not point to the pool of its source; history: %s", name.c_str(), i, j, tail().c_str());
			if constexpr (traced) {
				std::string a = actsStr();
				owned[i].swap(owned[j]);
				for (long long id : owned[i]) tracer().blocks[id].owner = i;
				if (!a.empty()) c.fail("C20 construct: %s move construction allocated or freed:%s", name.c_str(), a.c_str());
				emit(fmt("moveConstruct %d %d", i, j));
			} else emit("construct-move");
			check("move construction");
		} else if (how == 4 && j >= 0) {
			// from the allocator of another container: Container(c.get_allocator())
			pc[i].emplace(pc[j]->get_allocator()); tc[i].emplace();
			c.stats.count("op.construct_from_container_allocator");
			if (poolOfCont(i) != poolOfCont(j)) c.fail("C20 share: %s: Container %d(get_allocator() of %d) does not share the pool; history: %s", name.c_str(), i, j, tail().c_str());
			afterConstruct(i, fmt("newFrom %d %d", i, j));
			check("construction from a container's allocator");
		} else if (h >= 0) {
			// from an allocator object of the program (value type int): rebinding conversion
			pc[i].emplace(*hd[h]); tc[i].emplace();
			c.stats.count("op.construct_from_allocator_object");
			if (poolOfCont(i) != poolPtr(*hd[h])) c.fail("C20 share: %s: Container %d(allocator object %d) does not share the pool; history: %s", name.c_str(), i, h, tail().c_str());
			afterConstruct(i, fmt("newFrom %d %d", i, 100 + h));
			check("construction from an allocator object");
		} else {
			pc[i].emplace(); tc[i].emplace();
			c.stats.count("op.construct_default");
			if constexpr (traced) { auto& np = tracer().newPools; if (np.size() == 1) afterConstruct(i, fmt("newAlloc %d %zu %zu %lld", i, np[0].tsize, np[0].talign, np[0].cb)); }
			else emit("construct-default");
			check("default construction");
		}
	}

	void destroy(int i) {
		beginOp(i);
		pc[i].reset(); tc[i].reset();
		std::string a = actsStr();
		applyActs(i);
		if (!owned[i].empty() && !dead) { c.fail("C20 leak: %s: destroyed container %d left %zu blocks; history: %s", name.c_str(), i, owned[i].size(), tail().c_str()); owned[i].clear(); }
		c.stats.count("op.destroy");
		emit(fmt("destroy %d%s", i, a.c_str()));
		check("destruction");
	}

	void handleOp() {
		int hFull = pickHandle(true), hEmpty = pickHandle(false);
		unsigned how = (unsigned)rng.below(4);
		beginOp(-1);
		if (hEmpty >= 0 && how <= 1) {
			int j = pickFull();
			if (how == 0 || (j < 0 && hFull < 0)) {
				if constexpr (faulty) if (rng.chance(1, 3)) {
					size_t before = arena().live.size();
					arena().armFail(0);
					try { hd[hEmpty].emplace(BaseA(&arena())); c.fail("harness: constructor did not throw"); } catch (const std::bad_alloc&) {}
					arena().disarm();
					if (hd[hEmpty] || arena().live.size() != before) c.fail("C20 fault: %s: constructor that threw bad_alloc left an allocator object or changed the ledger; history: %s", name.c_str(), tail().c_str());
					hd[hEmpty].reset();
					c.stats.count("op.allocator_object_new_failed");
					emit(fmt("newAllocFail %d %zu %zu", 100 + hEmpty, tracer().failedNewSize, tracer().failedNewAlign));
					check("failed allocator object construction");
					beginOp(-1);
				}
				hd[hEmpty].emplace(BaseA(&arena()));
				c.stats.count("op.allocator_object_new");
				if constexpr (traced) { auto& np = tracer().newPools; if (np.size() == 1) emit(fmt("newAlloc %d %zu %zu %lld", 100 + hEmpty, np[0].tsize, np[0].talign, np[0].cb)); }
				else emit("handle-new");
			} else if (j >= 0 && rng.chance(1, 2)) {
				hd[hEmpty].emplace(pc[j]->get_allocator());
				c.stats.count("op.allocator_object_from_container");
				emit(fmt("newFrom %d %d", 100 + hEmpty, j));
			} else if (hFull >= 0) {
				hd[hEmpty].emplace(*hd[hFull]);
				c.stats.count("op.allocator_object_copy");
				emit(fmt("newFrom %d %d", 100 + hEmpty, 100 + hFull));
			} else return;
			check("allocator object construction");
		} else if (hFull >= 0 && how == 2) {
			hd[hFull].reset();
			c.stats.count("op.allocator_object_destroy");
			emit(fmt("destroy %d", 100 + hFull));
			check("allocator object destruction");
		} else if (hFull >= 0 && hEmpty < 0 && how == 3) {
			// assignment between the two allocator objects: the target drops its pool and shares the source's
			int other = 1 - hFull;
			if (poolPtr(*hd[hFull]) == poolPtr(*hd[other])) return;
			*hd[hFull] = *hd[other];
			c.stats.count("op.allocator_object_assign");
			if (poolPtr(*hd[hFull]) != poolPtr(*hd[other])) c.fail("C20 share: %s: allocator object assignment does not share the pool", name.c_str());
			// container level: the target object dies and is re-made from the source
			emitQuiet(fmt("destroy %d", 100 + hFull));
			emit(fmt("newFrom %d %d", 100 + hFull, 100 + other));
			check("allocator object assignment");
		}
	}

	// both containers get the same call; `f` is generic
	// the call with the base allocator armed: it throws bad_alloc at one of its next three requests (if the call makes that many);
	// the twin's allocator then throws at the same allocate call of the same container call.  Only what the property states is
	// compared: both throw or neither, equal answers, equal contents afterwards (check), and the pool's own bookkeeping.
	template<typename F> void bothFault(int i, const char* opName, F f) {
		uint32_t s0 = serial;
		beginOp(i);
		arena().armFail((long)rng.below(3));
		bool threwP = false, threwT = false; uint64_t ra = 0, rb = 0;
		try { ra = f(*pc[i]); } catch (const std::bad_alloc&) { threwP = true; }
		arena().disarm();
		std::string a = actsStr();
		bool failedAct = anyFailedAct();
		int failedCall = tracer().failedCall;
		applyActs(i);
		uint32_t s1 = serial; serial = s0;
		TwinCtl::arm(failedCall);
		try { rb = f(*tc[i]); } catch (const std::bad_alloc&) { threwT = true; }
		TwinCtl::disarm();
		if (serial < s1) serial = s1;
		if (threwP != threwT) c.fail("C20 twin: %s: %s on container %d: pool container %s, twin %s (allocate call #%d of the call failed); history: %s", name.c_str(), opName, i,
			threwP ? "threw bad_alloc" : "did not throw", threwT ? "threw bad_alloc" : "did not throw", failedCall, tail().c_str());
		else if (!threwP && ra != rb) c.fail("C20 twin: %s: %s on container %d answered %llu, the twin %llu; history: %s", name.c_str(), opName, i,
			(unsigned long long)ra, (unsigned long long)rb, tail().c_str());
		emit(fmt("%s %d%s", failedAct ? "mutateF" : "mutate", i, a.c_str()));
		c.stats.count(std::string(failedAct ? "opfail." : "op.") + opName);
		if (failedAct && !threwP) c.stats.count("fault.bad_alloc_handled_inside_the_container_call");
		check(opName);
	}

	template<typename F> void both(int i, const char* opName, F f) {
		if constexpr (faulty) if (rng.chance(2, 5)) { bothFault(i, opName, f); return; }
		uint32_t s0 = serial;
		beginOp(i);
		uint64_t ra = f(*pc[i]);
		std::string a = actsStr();
		applyActs(i);
		uint32_t s1 = serial; serial = s0;
		uint64_t rb = f(*tc[i]);
		if (serial != s1) c.fail("harness: %s consumed different serials", opName);
		if (ra != rb) c.fail("C20 twin: %s: %s on container %d answered %llu, the std::allocator twin %llu; history: %s", name.c_str(), opName, i,
			(unsigned long long)ra, (unsigned long long)rb, tail().c_str());
		emit(fmt("mutate %d%s", i, a.c_str()));
		c.stats.count(std::string("op.") + opName);
		check(opName);
	}

	template<typename C> static auto iterAt(C& x, size_t idx) { auto it = x.begin(); std::advance(it, (long)idx); return it; }

	void elementOp() {
		int i = pickFull(); if (i < 0) return;
		uint32_t k = (uint32_t)rng.below(40);
		size_t sz = sizeOf(*pc[i]);
		unsigned r = (unsigned)rng.below(100);
		if constexpr (K::cat == catList) {
			if (r < 30) { Value v = mk(k); both(i, "push_back", [&](auto& x) { x.push_back(v); return (uint64_t)x.size(); }); }
			else if (r < 40) { Value v = mk(k); both(i, "push_front", [&](auto& x) { x.push_front(v); return (uint64_t)x.size(); }); }
			else if (r < 50) { Value v = mk(k); size_t at = (size_t)rng.below(sz + 1); both(i, "insert", [&](auto& x) { x.insert(iterAt(x, at), v); return (uint64_t)x.size(); }); }
			else if (r < 55) { Value v = mk(k); size_t at = (size_t)rng.below(sz + 1); size_t cnt = (size_t)rng.below(5); both(i, "insert_n", [&](auto& x) { x.insert(iterAt(x, at), cnt, v); return (uint64_t)x.size(); }); }
			else if (r < 68 && sz) { size_t at = (size_t)rng.below(sz); both(i, "erase", [&](auto& x) { x.erase(iterAt(x, at)); return (uint64_t)x.size(); }); }
			else if (r < 72 && sz) { size_t a = (size_t)rng.below(sz), b = a + (size_t)rng.below(sz - a + 1); both(i, "erase_range", [&](auto& x) { x.erase(iterAt(x, a), iterAt(x, b)); return (uint64_t)x.size(); }); }
			else if (r < 76 && sz) { both(i, "pop_front", [&](auto& x) { x.pop_front(); return (uint64_t)x.size(); }); }
			else if (r < 80 && sz) { both(i, "pop_back", [&](auto& x) { x.pop_back(); return (uint64_t)x.size(); }); }
			else if (r < 83) { both(i, "clear", [&](auto& x) { x.clear(); return (uint64_t)0; }); }
			else if (r < 87) { size_t n = (size_t)rng.below(12); Value v = mk(k); both(i, "resize", [&](auto& x) { x.resize(n, v); return (uint64_t)x.size(); }); }
			else if (r < 90 && sz) { Value v = *iterAt(*pc[i], (size_t)rng.below(sz)); both(i, "remove", [&](auto& x) { x.remove(v); return (uint64_t)x.size(); }); }
			else if (r < 93) { both(i, "sort_unique", [&](auto& x) { x.sort(); x.unique(); return (uint64_t)x.size(); }); }
			else if (r < 96) { both(i, "reverse", [&](auto& x) { x.reverse(); return (uint64_t)x.size(); }); }
			else { size_t n = (size_t)rng.below(8); Value v = mk(k); both(i, "assign_n", [&](auto& x) { x.assign(n, v); return (uint64_t)x.size(); }); }
		} else if constexpr (K::cat == catFwd) {
			if (r < 40) { Value v = mk(k); both(i, "push_front", [&](auto& x) { x.push_front(v); return (uint64_t)0; }); }
			else if (r < 55) { Value v = mk(k); size_t at = (size_t)rng.below(sz + 1); both(i, "insert_after", [&](auto& x) { auto it = x.before_begin(); std::advance(it, (long)at); x.insert_after(it, v); return (uint64_t)0; }); }
			else if (r < 70 && sz) { size_t at = (size_t)rng.below(sz); both(i, "erase_after", [&](auto& x) { auto it = x.before_begin(); std::advance(it, (long)at); x.erase_after(it); return (uint64_t)0; }); }
			else if (r < 76 && sz) { both(i, "pop_front", [&](auto& x) { x.pop_front(); return (uint64_t)0; }); }
			else if (r < 80) { both(i, "clear", [&](auto& x) { x.clear(); return (uint64_t)0; }); }
			else if (r < 85) { size_t n = (size_t)rng.below(12); Value v = mk(k); both(i, "resize", [&](auto& x) { x.resize(n, v); return (uint64_t)0; }); }
			else if (r < 89 && sz) { Value v = *iterAt(*pc[i], (size_t)rng.below(sz)); both(i, "remove", [&](auto& x) { x.remove(v); return (uint64_t)0; }); }
			else if (r < 93) { both(i, "sort_unique", [&](auto& x) { x.sort(); x.unique(); return (uint64_t)0; }); }
			else if (r < 96) { both(i, "reverse", [&](auto& x) { x.reverse(); return (uint64_t)0; }); }
			else { size_t n = (size_t)rng.below(8); Value v = mk(k); both(i, "assign_n", [&](auto& x) { x.assign(n, v); return (uint64_t)0; }); }
		} else {
			// associative and unordered containers
			if (r < 40) { Value v = mk(k); both(i, "insert", [&](auto& x) { x.insert(v); return (uint64_t)x.size(); }); }
			else if (r < 48) { Value v = mk(k); both(i, "emplace", [&](auto& x) { x.emplace(v); return (uint64_t)x.size(); }); }
			else if (r < 54) { Value v = mk(k); both(i, "emplace_hint", [&](auto& x) { x.emplace_hint(x.begin(), v); return (uint64_t)x.size(); }); }
			else if (r < 72) { Key key = mkKey(k); both(i, "erase_key", [&](auto& x) { return (uint64_t)x.erase(key); }); }
			else if (r < 78 && sz) {
				if constexpr (K::cat == catTree) { size_t at = (size_t)rng.below(sz); both(i, "erase_iterator", [&](auto& x) { x.erase(iterAt(x, at)); return (uint64_t)x.size(); }); }
				else { Key key = mkKey(k); both(i, "erase_found", [&](auto& x) { auto it = x.find(key); if (it != x.end()) x.erase(it); return (uint64_t)x.size(); }); }
			}
			else if (r < 81) { both(i, "clear", [&](auto& x) { x.clear(); return (uint64_t)0; }); }
			else if (r < 87) {
				std::vector<Value> vs; size_t n = (size_t)rng.below(10); for (size_t t = 0; t < n; ++t) vs.push_back(mk((uint32_t)rng.below(40)));
				both(i, "insert_range", [&](auto& x) { x.insert(vs.begin(), vs.end()); return (uint64_t)x.size(); });
			}
			else if (r < 91) { Key key = mkKey(k); both(i, "find_count", [&](auto& x) { return (uint64_t)x.count(key); }); }
			else if (r < 96) {
				if constexpr (K::isMap && !K::multi) { Key key = mkKey(k); auto m = Gen<typename K::Mapped>::make(serial++, 0); both(i, "subscript", [&](auto& x) { x[key] = m; return (uint64_t)x.size(); }); }
				else if constexpr (K::cat == catTree) { if (sz) { size_t a = (size_t)rng.below(sz), b = a + (size_t)rng.below(sz - a + 1); both(i, "erase_range", [&](auto& x) { x.erase(iterAt(x, a), iterAt(x, b)); return (uint64_t)x.size(); }); } }
				else { Value v = mk(k); both(i, "insert", [&](auto& x) { x.insert(v); return (uint64_t)x.size(); }); }
			}
			else {
				if constexpr (K::cat == catHash) {
					size_t n = (size_t)rng.below(64);
					if (rng.chance(1, 2)) both(i, "rehash", [&](auto& x) { x.rehash(n); return (uint64_t)x.size(); });
					else both(i, "reserve", [&](auto& x) { x.reserve(n); return (uint64_t)x.size(); });
				} else { Value v = mk(k); both(i, "insert", [&](auto& x) { x.insert(v); return (uint64_t)x.size(); }); }
			}
		}
	}

	void assignOp() {
		int i = pickFull(); if (i < 0) return;
		int j = pickOther(i);
		unsigned r = (unsigned)rng.below(10);
		if (j < 0 || r == 0) {
			// self copy assignment
			beginOp(i);
			auto& self = *pc[i]; *pc[i] = self; auto& selfT = *tc[i]; *tc[i] = selfT;
			std::string a = actsStr(); applyActs(i);
			c.stats.count("op.copy_assign_self");
			emit(fmt("copyAssign %d %d%s", i, i, a.c_str()));
			check("self copy assignment");
			return;
		}
		const void* pi = poolOfCont(i); const void* pj = poolOfCont(j);
		if (r < 5) {
			// copy assignment: POCCA is false, the target keeps its pool
			beginOp(i);
			bool failedAct = false;
			if constexpr (faulty) {
				bool armed = rng.chance(1, 2);
				if (armed) arena().armFail((long)rng.below(3));
				bool threwP = false, threwT = false;
				try { *pc[i] = *pc[j]; } catch (const std::bad_alloc&) { threwP = true; }
				arena().disarm();
				failedAct = anyFailedAct();
				TwinCtl::arm(tracer().failedCall);
				try { *tc[i] = *tc[j]; } catch (const std::bad_alloc&) { threwT = true; }
				TwinCtl::disarm();
				if (threwP != threwT) c.fail("C20 twin: %s: %d = %d: pool container %s, twin %s (allocate call #%d failed); history: %s", name.c_str(), i, j,
					threwP ? "threw bad_alloc" : "did not throw", threwT ? "threw bad_alloc" : "did not throw", tracer().failedCall, tail().c_str());
			} else {
			*pc[i] = *pc[j]; *tc[i] = *tc[j];
			}
			std::string a = actsStr(); applyActs(i);
			c.stats.count(failedAct ? "opfail.copy_assign" : "op.copy_assign");
			if (poolOfCont(i) != pi || poolOfCont(j) != pj) c.fail("C20 copy-independent: %s: %d = %d changed a pool; history: %s", name.c_str(), i, j, tail().c_str());
			emit(fmt("%s %d %d%s", failedAct ? "copyAssignF" : "copyAssign", i, j, a.c_str()));
			check("copy assignment");
		} else {
			// move assignment: POCMA is true, the target takes the source's pool and nodes
			beginOp(i);
			*pc[i] = std::move(*pc[j]); *tc[i] = std::move(*tc[j]);
			std::string a = actsStr(); applyActs(i);
			c.stats.count(pi == pj ? "op.move_assign_same_pool" : "op.move_assign_other_pool");
			if (poolOfCont(i) != pj || poolOfCont(j) != pj) c.fail("C20 pool-carry: %s: %d = std::move(%d): the target does not point to the pool of the source; history: %s", name.c_str(), i, j, tail().c_str());
			if constexpr (traced) {
				if (!owned[i].empty() && !dead) c.fail("C20 leak: %s: %d = std::move(%d): the target kept %zu of its old blocks; history: %s", name.c_str(), i, j, owned[i].size(), tail().c_str());
				owned[i].swap(owned[j]); owned[j].clear();
				for (long long id : owned[i]) tracer().blocks[id].owner = i;
			}
			emit(fmt("moveAssign %d %d%s", i, j, a.c_str()));
			check("move assignment");
		}
	}

	void swapOp() {
		int i = pickFull(); if (i < 0) return;
		int j = pickOther(i); if (j < 0) return;
		const void* pi = poolOfCont(i); const void* pj = poolOfCont(j);
		beginOp(i);
		if (rng.chance(1, 2)) { pc[i]->swap(*pc[j]); tc[i]->swap(*tc[j]); }
		else { using std::swap; swap(*pc[i], *pc[j]); swap(*tc[i], *tc[j]); }
		std::string a = actsStr();
		c.stats.count(pi == pj ? "op.swap_same_pool" : "op.swap_other_pool");
		if (poolOfCont(i) != pj || poolOfCont(j) != pi) c.fail("C20 pool-carry: %s: swap(%d, %d) did not exchange the pools; history: %s", name.c_str(), i, j, tail().c_str());
		if constexpr (traced) {
			if (!a.empty()) c.fail("C20 swap: %s swap allocated or freed:%s", name.c_str(), a.c_str());
			owned[i].swap(owned[j]);
			for (long long id : owned[i]) tracer().blocks[id].owner = i;
			for (long long id : owned[j]) tracer().blocks[id].owner = j;
		}
		emit(fmt("swap %d %d", i, j));
		check("swap");
	}

	// nodes move between two containers with equal allocators
	void spliceOp() {
		int i = pickFull(); if (i < 0) return;
		// a partner that shares the pool
		int cand[E], n = 0;
		for (int k = 0; k < E; ++k) if (k != i && pc[k] && poolOfCont(k) == poolOfCont(i)) cand[n++] = k;
		if (n == 0) return;
		int j = cand[rng.below(n)];
		size_t si = sizeOf(*pc[i]), sj = sizeOf(*pc[j]);
		const char* what = "splice";
		beginOp(i);
		unsigned r = (unsigned)rng.below(3);
		auto two = [&](auto f) { f(*pc[i], *pc[j]); f(*tc[i], *tc[j]); };
		if constexpr (K::cat == catList) {
			if (r == 0 || sj == 0) { size_t at = (size_t)rng.below(si + 1); two([&](auto& x, auto& y) { x.splice(iterAt(x, at), y); }); what = "splice_all"; }
			else if (r == 1) { size_t at = (size_t)rng.below(si + 1), from = (size_t)rng.below(sj); two([&](auto& x, auto& y) { x.splice(iterAt(x, at), y, iterAt(y, from)); }); what = "splice_one"; }
			else { two([&](auto& x, auto& y) { x.sort(); y.sort(); x.merge(y); }); what = "merge"; }
		} else if constexpr (K::cat == catFwd) {
			if (r == 0 || sj == 0) { two([&](auto& x, auto& y) { x.splice_after(x.before_begin(), y); }); what = "splice_after_all"; }
			else if (r == 1) { size_t from = (size_t)rng.below(sj); two([&](auto& x, auto& y) { auto it = y.before_begin(); std::advance(it, (long)from); x.splice_after(x.before_begin(), y, it); }); what = "splice_after_one"; }
			else { two([&](auto& x, auto& y) { x.sort(); y.sort(); x.merge(y); }); what = "merge"; }
		} else {
			// libstdc++ 12.2: re-inserting a node handle (`insert(node_type&&)`, and `merge` of the unordered containers, which
			// goes through node handles) sets `__nh._M_ptr = nullptr` without releasing the handle's allocator copy, so that copy
			// is never destroyed.  With a stateful allocator this leaks one owner of the pool per node - a defect of the
			// environment, not of momo - so those calls are not generated; extraction, dropped handles and rejected handles are.
			uint32_t k = (uint32_t)rng.below(40); Key key = mkKey(k);
			if (K::cat == catTree && (r == 0 || sj == 0)) { two([&](auto& x, auto& y) { x.merge(y); }); what = "merge"; }
			else if (r == 1 || K::multi || pc[i]->count(key) == 0) {
				// node handle extracted and dropped: the node is destroyed through the handle's copy of the allocator
				two([&](auto&, auto& y) { auto nh = y.extract(key); (void)nh; });
				what = "node_handle_dropped";
			} else {
				// node handle extracted from j and offered to i, which already has the key: the handle comes back and dies
				two([&](auto& x, auto& y) { auto nh = y.extract(key); if (!nh.empty()) x.insert(std::move(nh)); });
				what = "node_handle_rejected";
			}
		}
		c.stats.count(std::string("op.") + what);
		if constexpr (traced) {
			// acts of this call: blocks freed belonged to j (a rejected node handle) or to either container (hash tables may rehash)
			std::string aI, aJ;
			for (auto& a : tracer().acts) {
				std::string b; for (size_t x : a.bufs) { if (!b.empty()) b += ','; b += std::to_string(x); }
				if (b.empty()) b = "-";
				if (a.isAlloc) { aI += fmt(" +%lld:%zu:%zu:%zu:%s", a.id, a.tsize, a.talign, a.n, b.c_str()); owned[i].insert(a.id); }
				else if (owned[j].count(a.id)) { aJ += fmt(" -%lld:%s", a.id, b.c_str()); owned[j].erase(a.id); }
				else { aI += fmt(" -%lld:%s", a.id, b.c_str()); owned[i].erase(a.id); }
			}
			// which nodes changed hands: those that now carry an element of i but were held by j
			std::string moved;
			for (auto& v : *pc[i]) {
				auto it = tracer().blockContaining(&v);
				if (it == tracer().blocks.end()) continue;
				if (owned[j].count(it->first)) { moved += fmt(" %lld", it->first); owned[j].erase(it->first); owned[i].insert(it->first); tracer().blocks[it->first].owner = i; }
			}
			// order as the calls made them: frees of a rejected node first is not observable here; both orders give the same state
			if (!aJ.empty()) emitQuiet(fmt("mutate %d%s", j, aJ.c_str()));
			if (!aI.empty()) { emitQuiet(fmt("splice %d %d%s", i, j, moved.c_str())); emit(fmt("mutate %d%s", i, aI.c_str())); }
			else emit(fmt("splice %d %d%s", i, j, moved.c_str()));
		} else emit(what);
		check(what);
	}

	void run(unsigned steps) {
		arena().restart();
		for (stepNo = 0; stepNo < steps && !dead; ++stepNo) {
			unsigned r = (unsigned)rng.below(100);
			int full = 0; for (int i = 0; i < E; ++i) if (pc[i]) ++full;
			if (full == 0 || r < 8) construct();
			else if (r < 12) { int i = pickFull(); if (i >= 0 && full > 1) destroy(i); }
			else if (r < 18) handleOp();
			else if (r < 26) assignOp();
			else if (r < 31) swapOp();
			else if (r < 38) spliceOp();
			else elementOp();
			if constexpr (traced) if (tracer().provenanceFired) dead = true;
		}
		finish();
	}

	void finish() {
		// destroy everything in random order; the ledger must be empty afterwards
		std::vector<int> order; for (int i = 0; i < E; ++i) if (pc[i]) order.push_back(i); for (int h = 0; h < H; ++h) if (hd[h]) order.push_back(100 + h);
		for (size_t k = order.size(); k > 1; --k) std::swap(order[k - 1], order[rng.below(k)]);
		for (int e : order) {
			if (e < 100) destroy(e);
			else { beginOp(-1); hd[e - 100].reset(); emit(fmt("destroy %d", e)); check("allocator object destruction"); }
		}
		if (!arena().live.empty())
			c.fail("C20 leak: %s: every container and allocator object is destroyed but %zu block(s) / %zu bytes of the base allocator are outstanding; history: %s",
				name.c_str(), arena().live.size(), arena().liveBytes, tail().c_str());
		if constexpr (traced) if (!tracer().blocks.empty() && !dead)
			c.fail("C20 leak: %s: %zu blocks handed out by allocate were never deallocated; history: %s", name.c_str(), tracer().blocks.size(), tail().c_str());
		// a defect must not poison the next history
		arena().live.clear(); arena().liveBytes = 0;
	}
};

// one history: fresh suites, one world
template<typename K, typename TCfg>
void runTraced(Ctx& c, Rng& rng, const std::string& tag, unsigned steps) {
	std::string base = tag;
	Suite tr(c, base + ".trace", TCfg::modelLine("trace"));
	Suite co(c, base + ".cont", TCfg::modelLine("cont"));
	std::string name = fmt("%s %s N=%zu C=%zu", base.c_str(), K::name().c_str(), TCfg::N, TCfg::C);
	tracer().reset(c, &tr, name);
	{
		World<K, TCfg, true> w(c, rng, &co, name);
		w.run(steps);
		c.stats.nontrivial(name);
		c.stats.sample(fmt("%s: %s", name.c_str(), w.tail().c_str()));
	}
	tracer().trace = nullptr;
}

// the same with a failing base allocator (World<…, faulty = true>)
template<typename K, typename TCfg>
void runTracedF(Ctx& c, Rng& rng, const std::string& tag, unsigned steps) {
	std::string base = tag;
	Suite tr(c, base + ".trace", TCfg::modelLine("trace"));
	Suite co(c, base + ".cont", TCfg::modelLine("cont"));
	std::string name = fmt("%s %s N=%zu C=%zu base allocator throws", base.c_str(), K::name().c_str(), TCfg::N, TCfg::C);
	tracer().reset(c, &tr, name);
	{
		World<K, TCfg, true, true> w(c, rng, &co, name);
		w.run(steps);
		c.stats.nontrivial(name);
		c.stats.sample(fmt("%s: %s", name.c_str(), w.tail().c_str()));
	}
	tracer().trace = nullptr;
}

template<typename K, typename TCfg>
void runPlain(Ctx& c, Rng& rng, const std::string& tag, unsigned steps) {
	std::string name = fmt("%s(plain) %s N=%zu C=%zu", tag.c_str(), K::name().c_str(), TCfg::N, TCfg::C);
	tracer().reset(c, nullptr, name);
	World<K, TCfg, false> w(c, rng, nullptr, name);
	w.run(steps);
	c.stats.nontrivial(name);
}

inline void dumpTracerStats(Ctx& c) {
	Tracer& t = tracer();
	c.stats.count("alloc.pool_path", t.poolAllocs); c.stats.count("alloc.raw_array", t.rawArrays); c.stats.count("alloc.raw_single", t.rawSingles);
	c.stats.count("pool.reparameterised", t.reparams); c.stats.count("pool.died", t.poolDeaths);
	c.stats.count("pool.buffers_obtained", t.buffersGot); c.stats.count("pool.buffers_returned", t.buffersBack); c.stats.count("pool.dealloc_with_flush", t.cacheFlushes);
	c.stats.count("base.allocate", arena().allocs); c.stats.count("base.deallocate", arena().frees);
	// fault layer and over-aligned value types (zero in the suites that use neither)
	c.stats.count("fault.base_allocator_threw", arena().faultsFired); c.stats.count("fault.inside_select_on_copy_caught", t.selectOnCopyCaught);
	c.stats.count("fault.allocate_failed_pool_path", t.failedAllocsPool); c.stats.count("fault.allocate_failed_raw_path", t.failedAllocsRaw);
	c.stats.count("fault.allocate_failed_after_reparameterisation", t.failedAllocsReparam); c.stats.count("fault.constructor_failed", t.failedNews);
	c.stats.count("overaligned.allocations", t.overalignedAllocs); c.stats.count("overaligned.pointer_not_aligned_for_value_type", t.overalignedMisaligned);
	// open known finding F29, once per run, with the concrete numbers (any misalignment below min(alignof(T), maxAlignment) is an ordinary FAIL, see LogA::allocate)
	if (t.overalignedMisaligned != 0)
		c.fail("C20 known-F29 overaligned-misaligned: %llu of %llu pointers returned by unsynchronized_pool_allocator::allocate for value types with alignof > %zu "
			"(Obj 64 bytes alignas(32), 32 bytes alignas(32), 128 bytes alignas(64)) are not aligned for the type, only to %zu; first: %s",
			(unsigned long long)t.overalignedMisaligned, (unsigned long long)t.overalignedAllocs, (size_t)momo::internal::UIntConst::maxAlignment,
			(size_t)momo::internal::UIntConst::maxAlignment, t.firstMisaligned.c_str());
}

} // namespace c20
