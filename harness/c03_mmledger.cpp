// C03 / C04 correspondence harness for the ledger layer over the hash-multimap model (lean/Momo/Model/MMLedger.lean, engine
// `mmledger`): momo::HashMultiMap under a recording, fault-injecting memory manager and instrumented key / value types.
// After EVERY operation the implementation line carries the result, for both containers the key count, value count, the key
// table's summary (count, capacity, generations, layout checksum) and a checksum over every value array in key order (key,
// representation none / fast pool k with the raw state byte / heap capacity, values), and
//   k / kb   number / bytes of the outstanding manager blocks of the key tables (bucket array of every generation, BucketParams,
//            HashMap crew) and the two ValueCrew::Data blocks - each looked up BY ADDRESS in the manager's ledger and checked
//            against the size the container must have requested
//   h / hb   number / bytes of the heap arrays of the big value arrays: the storage of every momo::Array behind a value array in
//            the big representation, looked up by address, size = capacity * sizeof(Value)
//   x / xb   number / bytes of all other outstanding blocks = buffers of the value-array memory pools (fast pools 1..maxFastCount,
//            the pool of the Array headers).  Which buffers a pool holds is MemPool's business (C09): buffers obtained / given back
//            during an operation are reported to the model as tokens (ag= af= bg= bf=), EXCEPT where HashMultiMap's own code
//            determines them - Clear, destruction, a failed copy construction, the old contents of an assigned-to container: there
//            the model gives back every buffer without being told
//   el       live key and value objects (instrumented types)
// and the model must print the same line.  Faults: bucket array / BucketParams refused, pool buffer / heap storage of a value
// array refused, throwing key / value copy (also inside the relocation of copy-only values), throwing equality functor, refused
// allocation inside Array::Shrink (swallowed by RemoveBack), copy construction failing at every stage.  Property-level oracle:
// the manager's ledger (unknown / wrong-size deallocation, outstanding blocks at the end), object counters, strong guarantee
// (contents, known blocks and objects unchanged after a failed Add / InsertKey / Remove / RemoveKey / copy assignment),
// reference std::map<key, std::vector<value>>.
#define MOMO_INCLUDE_OLD_HASH_BUCKETS
#include <cstring>
#include "momo/HashMultiMap.h"
#include "common/verif_elems.h"

#include <map>
#include <set>
#include <vector>
#include <algorithm>

#ifndef VF_PART
#define VF_PART 0
#endif

using namespace vf;

// ---------------------------------------------------------------- recording memory manager
struct Blk { size_t size; uint64_t serial; };
struct LMState {
	std::map<void*, Blk> live;
	uint64_t serial = 0;
	size_t refuseSize = 0;	// one-shot: the next allocation of exactly this size is refused
	long refuseAfter = -1;	// one-shot: the (n+1)-th allocation is refused
	std::vector<size_t> refusedSizes;
	size_t badDealloc = 0;
	void disarm() { refuseSize = 0; refuseAfter = -1; refusedSizes.clear(); }
	bool refused(size_t size) const { for (size_t x : refusedSizes) if (x == size) return true; return false; }
};
inline LMState& lm() { static LMState s; return s; }

class LedMM {
public:
	explicit LedMM() noexcept {}
	LedMM(LedMM&&) = default;
	LedMM(const LedMM&) = default;
	~LedMM() = default;
	LedMM& operator=(const LedMM&) = delete;
	void* Allocate(size_t size) {
		LMState& s = lm();
		if (s.refuseSize != 0 && size == s.refuseSize) { s.refuseSize = 0; s.refusedSizes.push_back(size); throw std::bad_alloc(); }
		if (s.refuseAfter >= 0) {
			if (s.refuseAfter == 0) { s.refuseAfter = -1; s.refusedSizes.push_back(size); throw std::bad_alloc(); }
			--s.refuseAfter;
		}
		void* p = std::malloc(size);
		if (!p) throw std::bad_alloc();
		s.live[p] = Blk{ size, ++s.serial };
		return p;
	}
	void Deallocate(void* p, size_t size) noexcept {
		LMState& s = lm();
		auto it = s.live.find(p);
		if (it == s.live.end() || it->second.size != size) { ++s.badDealloc; return; }
		s.live.erase(it);
		std::free(p);
	}
};

struct EqCtl { long countdown = -1; bool fired = false; };
inline EqCtl& qc() { static EqCtl q; return q; }

template<typename Key, typename HashBucket, unsigned tLogStart>
struct FamTraits : public momo::HashTraits<Key, HashBucket>
{
	static const bool isFastNothrowHashable = true;
	template<typename ItemTraits>
	using Bucket = typename HashBucket::template Bucket<ItemTraits, false>;
	size_t GetLogStartBucketCount() const noexcept { return tLogStart; }
	size_t GetHashCode(const Key& key) const { return famHash(idOf(key)); }
	bool IsEqual(const Key& a, const Key& b) const {
		if (qc().countdown == 0) { qc().countdown = -1; qc().fired = true; throw std::domain_error("equal"); }
		if (qc().countdown > 0) --qc().countdown;
		return idOf(a) == idOf(b);
	}
};

template<size_t tMaxFast>
struct MMS : public momo::HashMultiMapSettings
{
	static const momo::ExtraCheckMode extraCheckMode = momo::ExtraCheckMode::nothing;
	static const size_t valueArrayMaxFastCount = tMaxFast;
};

static uint64_t mixh(uint64_t h, uint64_t x) { return h * 1000003ull + x + 1; }

typedef ElemNM Key;

template<typename V, typename HashBucket, size_t tMaxFast, unsigned tLogStart>
struct Ad {
	typedef V Val;
	typedef FamTraits<Key, HashBucket, tLogStart> Traits;
	typedef momo::HashMultiMap<Key, V, Traits, LedMM, momo::HashMultiMapKeyValueTraits<Key, V, LedMM>, MMS<tMaxFast>> C;
	typedef decltype(C::mHashMap) HMap;
	typedef decltype(HMap::mHashSet) HS;
	static const size_t maxFast = tMaxFast;
	C c;
	HS& hs() { return c.mHashMap.mHashSet; }
};

struct RepInfo { int kind; size_t state, cap; };	// kind 0 none, 1 fast, 2 heap
template<typename VA> static RepInfo repOf(const VA& va)
{
	RepInfo r{0, 0, 0};
	if (va.mPtr == nullptr) return r;
	uint8_t st = *reinterpret_cast<const uint8_t*>(va.mPtr);
	r.state = st;
	if ((st >> 4) > 0) { r.kind = 1; return r; }
	r.kind = 2; r.cap = va.pvGetArray().GetCapacity();
	return r;
}
static uint64_t repCode(const RepInfo& r) { return r.kind == 0 ? 0 : r.kind == 1 ? 256 + r.state : 100000 + r.cap; }

// ---------------------------------------------------------------- layout of the real key table (as in c03_htledger.cpp; value := 0)
template<typename HS>
static uint64_t layoutSum(HS& s, std::string& gens)
{
	typedef typename HS::Bucket Bucket;
	uint64_t h = 0;
	Bucket fresh;
	size_t ng = 0;
	for (auto* bk = s.mBuckets; bk != nullptr; bk = bk->GetNextBuckets()) {
		size_t L = bk->GetLogCount(), n = bk->GetCount();
		h = mixh(mixh(h, 7777), L);
		gens += fmt(ng++ ? ",%zu" : "%zu", L);
		auto& params = bk->GetBucketParams();
		for (size_t i = 0; i < n; ++i) {
			Bucket& b = (*bk)[i];
			auto bounds = b.GetBounds(params);
			size_t c = bounds.GetCount();
			bool wf = b.WasFull();
			size_t mp = b.GetMaxProbe(L);
			if (c == 0 && wf == fresh.WasFull() && mp == fresh.GetMaxProbe(L)) continue;
			h = mixh(mixh(h, i), wf ? 1 : 0);
			h = mixh(h, mp);
			for (size_t j = 0; j < c; ++j) h = mixh(mixh(h, idOf(*bounds[j].GetKeyPtr())), 0);
		}
	}
	return h;
}

template<typename A>
static std::string summary(A& a)
{
	std::string g;
	uint64_t s = layoutSum(a.hs(), g);
	uint64_t as = 0;
	for (auto ref : a.c.mHashMap) {
		RepInfo r = repOf(ref.value);
		as = mixh(mixh(as, idOf(ref.key)), repCode(r));
		auto b = ref.value.GetBounds();
		for (size_t i = 0; i < b.GetCount(); ++i) as = mixh(as, idOf(b[i]));
	}
	return fmt("kc=%zu vc=%zu c=%zu cap=%zu g=%s s=%llu as=%llu", a.c.GetKeyCount(), a.c.GetCount(), a.hs().GetCount(), a.hs().GetCapacity(),
		g.c_str(), (unsigned long long)s, (unsigned long long)as);
}

template<typename Crew> static auto crewPtrOf(Crew& c, int) -> decltype((void*)c.mData) { return (void*)c.mData; }
template<typename Crew> static void* crewPtrOf(Crew&, long) { return nullptr; }

struct Extra { void* p; uint64_t serial; size_t size; };
struct LedView { size_t known = 0, knownBytes = 0, heaps = 0, heapBytes = 0; std::set<void*> knownPtrs; };

// every block the container must own, looked up by address; a missing block or a wrong size is a violation of C03
template<typename A>
static void ownBlocks(Ctx& c, const char* suite, const char* which, A& a, LedView& v, size_t crewSize)
{
	typedef typename A::HS HS;
	auto need = [&](void* p, size_t size, const char* what, bool heap) {
		auto it = lm().live.find(p);
		if (it == lm().live.end()) { c.fail("C03 ownership: %s: the %s of container %s is not an outstanding block of the memory manager", suite, what, which); return; }
		if (it->second.size != size) c.fail("C03 ownership: %s: the %s of container %s was requested with %zu bytes, the container expects %zu", suite, what, which, it->second.size, size);
		if (v.knownPtrs.insert(p).second) { if (heap) { ++v.heaps; v.heapBytes += it->second.size; } else { ++v.known; v.knownBytes += it->second.size; } }
	};
	HS& s = a.hs();
	for (auto* bk = s.mBuckets; bk != nullptr; bk = bk->GetNextBuckets()) need((void*)bk, HS::Buckets::pvGetBufferSize(bk->GetLogCount()), "bucket array", false);
	if (s.mBuckets != nullptr) need((void*)&s.mBuckets->GetBucketParams(), sizeof(typename HS::BucketParams), "BucketParams block", false);
	void* crew = crewPtrOf(s.mCrew, 0);
	if (crew != nullptr) need(crew, crewSize, "key table crew block", false);
	if (a.c.mValueCrew.mData != nullptr) need((void*)a.c.mValueCrew.mData, sizeof(*a.c.mValueCrew.mData), "ValueCrew::Data block", false);
	for (auto ref : a.c.mHashMap) {
		RepInfo r = repOf(ref.value);
		if (r.kind == 2) need((void*)ref.value.pvGetArray().GetItems(), r.cap * sizeof(typename A::Val), "heap array of a value array", true);
	}
}

typedef std::map<uint32_t, std::vector<uint32_t>> Ref;
static size_t refValues(const Ref& r) { size_t n = 0; for (auto& kv : r) n += kv.second.size(); return n; }

// ---------------------------------------------------------------- one run
template<typename A>
static void runConfig(Ctx& c, Rng& rng, const char* kind, unsigned n, const char* vname, const char* vcat, unsigned logStart, size_t fullFrom,
	unsigned fam, unsigned keyRange, unsigned nOps, unsigned runNo)
{
	typedef typename A::HS HS;
	typedef typename A::Val V;
	hc().fam = fam; hc().throwCountdown = -1; hc().fired = false;
	lm().disarm(); ec().copyCountdown = -1; ec().firedCopy = false; qc().countdown = -1; qc().fired = false;
	const size_t bsz = HS::Buckets::pvGetBufferSize(1) - HS::Buckets::pvGetBufferSize(0);
	const size_t hdr = HS::Buckets::pvGetBufferSize(0) - bsz;
	const size_t psz = sizeof(typename HS::BucketParams);
	const size_t vsz = sizeof(*std::declval<typename A::C&>().mValueCrew.mData);
	const bool vassign = momo::internal::ObjectManager<V, LedMM>::isNothrowAnywayAssignable;
	size_t csz = 0;
	{ size_t before = lm().live.size(); uint64_t ser = lm().serial; A probe; if (lm().live.size() == before + 2) for (auto& kv : lm().live) if (kv.second.serial > ser && kv.second.size != vsz) csz = kv.second.size;
	  if (lm().live.size() == before + 2 && csz == 0) csz = vsz; }
	std::string suiteName = fmt("mm_%s%u_%s_mf%zu_h%u_r%u", kind, n, vname, A::maxFast, fam, runNo);
	Suite s(c, suiteName, fmt("model mmledger kind=%s n=%u isz=%zu ial=%zu part=0 fast=1 reloc=1 fullFrom=%zu logstart=%u hash=%u cat=nmove assign=1 hdr=%zu bsz=%zu psz=%zu csz=%zu mf=%zu vcat=%s vassign=%d visz=%zu vsz=%zu",
		kind, n, sizeof(typename HS::Item), (size_t)HS::ItemTraits::alignment, fullFrom, logStart, fam, hdr, bsz, psz, csz, A::maxFast, vcat,
		vassign ? 1 : 0, sizeof(V), vsz));
	if (!HS::areItemsNothrowRelocatable) c.fail("harness: the key table of %s is expected to relocate without throwing", suiteName.c_str());
	const size_t baseBlocks = lm().live.size();
	std::string history;
	{
		A X, Y;
		Ref refA, refB;
		uint32_t serial = 1;
		std::vector<Extra> extraA, extraB;	// pool buffers attributed to A / B, newest first (the order of the model's books)
		uint64_t serial0 = 0;
		enum Owner { toA, toB };
		auto tail = [&](Owner newTo, std::string& opToks) {
			LedView v;
			ownBlocks(c, suiteName.c_str(), "A", X, v, csz);
			ownBlocks(c, suiteName.c_str(), "B", Y, v, csz);
			std::map<void*, Blk> extraNow;
			for (auto& kv : lm().live) if (!v.knownPtrs.count(kv.first)) extraNow.insert(kv);
			size_t extra = extraNow.size() - baseBlocks, extraBytes = 0; for (auto& kv : extraNow) extraBytes += kv.second.size;
			std::vector<Extra>& dst = (newTo == toA) ? extraA : extraB;
			std::vector<std::pair<uint64_t, Extra>> fresh;
			for (auto& kv : extraNow) if (kv.second.serial > serial0) fresh.push_back({ kv.second.serial, Extra{ kv.first, kv.second.serial, kv.second.size } });
			std::sort(fresh.begin(), fresh.end(), [](auto& x, auto& y) { return x.first < y.first; });
			for (auto& f : fresh) { dst.insert(dst.begin(), f.second); opToks += fmt(newTo == toA ? " ag=%zu" : " bg=%zu", f.second.size); }
			for (int side = 0; side < 2; ++side) {
				std::vector<Extra>& lst = side == 0 ? extraA : extraB;
				for (size_t i = 0; i < lst.size();) {
					auto it = lm().live.find(lst[i].p);
					if (it == lm().live.end() || it->second.serial != lst[i].serial) { opToks += fmt(side == 0 ? " af=%zu" : " bf=%zu", i); lst.erase(lst.begin() + (long)i); }
					else ++i;
				}
			}
			return " | A " + summary(X) + " | B " + summary(Y) + fmt(" | led k=%zu kb=%zu h=%zu hb=%zu x=%zu xb=%zu el=%ld", v.known, v.knownBytes,
				v.heaps, v.heapBytes, extra, extraBytes, ec().live);
		};
		// what a failed strongly exception-safe operation must leave alone: contents, blocks of known purpose, objects
		auto snapshot = [&]() {
			LedView v; ownBlocks(c, suiteName.c_str(), "A", X, v, csz); ownBlocks(c, suiteName.c_str(), "B", Y, v, csz);
			return summary(X) + summary(Y) + fmt(" k=%zu kb=%zu h=%zu hb=%zu el=%ld", v.known, v.knownBytes, v.heaps, v.heapBytes, ec().live);
		};
		auto fullCheck = [&](const char* when) {
			if (X.c.GetCount() != refValues(refA) || X.c.GetKeyCount() != refA.size())
				c.fail("C08 count: %s %s: %zu values / %zu keys, expected %zu / %zu", suiteName.c_str(), when, X.c.GetCount(), X.c.GetKeyCount(), refValues(refA), refA.size());
			if ((size_t)ec().live != refA.size() + refB.size() + refValues(refA) + refValues(refB))
				c.fail("C03 elements: %s %s: %ld key / value objects alive, the containers hold %zu", suiteName.c_str(), when, ec().live,
					refA.size() + refB.size() + refValues(refA) + refValues(refB));
			for (auto& kv : refA) {
				Key key(kv.first); auto it = X.c.Find(key);
				if (!it || it->GetCount() != kv.second.size()) { c.fail("C08 lookup: %s %s: key %u", suiteName.c_str(), when, kv.first); break; }
				for (size_t i = 0; i < kv.second.size(); ++i) if (idOf((*it)[i]) != kv.second[i]) { c.fail("C08 values: %s %s: key %u value #%zu", suiteName.c_str(), when, kv.first, i); break; }
			}
		};
		auto pickKey = [&](const Ref& ref) -> uint32_t {
			if (ref.empty() || rng.chance(1, 6)) return (uint32_t)rng.below(keyRange);
			auto it = ref.begin(); std::advance(it, (long)rng.below(ref.size())); return it->first;
		};
		for (unsigned step = 0; step < nOps; ++step) {
			unsigned r = (unsigned)rng.below(100);
			// phases: two stretches of 14 operations in every 70 grow one array (key 0) and then drain the longest one, so that heap
			// arrays grow through several capacities and shrink again
			const unsigned phase = (step / 14) % 5;
			const bool growPhase = phase == 1 && r < 85, drainPhase = phase == 2 && r < 85;
			if (growPhase) r = 0;
			if (drainPhase) r = 60;
			std::string op, res, toks;
			Owner newTo = toA;
			serial0 = lm().serial;
			// long value arrays: most additions go to few keys
			uint32_t k = growPhase ? 0u : rng.chance(3, 5) ? (uint32_t)rng.below(2) : (uint32_t)rng.below(keyRange);
			if (r < 42) {
				// ---- Add(key, value) into A (one time in eight into B), possibly under a fault
				bool intoB = !growPhase && rng.chance(1, 8);
				A& T = intoB ? Y : X; Ref& ref = intoB ? refB : refA;
				if (intoB) newTo = toB;
				uint32_t v = serial++;
				bool present = ref.count(k) != 0;
				const size_t growSize = HS::Buckets::pvGetBufferSize(T.hs().pvGetNewLogBucketCount());
				const bool tableEmpty = T.hs().mBuckets == nullptr;
				if (rng.chance(1, 3)) {
					unsigned w = (unsigned)rng.below(6);
					if (w == 0 || w == 1) lm().refuseAfter = 0;
					else if (w == 2) ec().copyCountdown = 0;
					else if (w == 3) ec().copyCountdown = 1 + (long)rng.below(4);
					else if (w == 4) lm().refuseSize = growSize;
					else qc().countdown = (long)rng.below(2);
				}
				std::string snap = snapshot();
				std::string out;
				{
					Key key(k); V val(v);
					long live0 = ec().live;
					try { T.c.Add(static_cast<const Key&>(key), static_cast<const V&>(val)); out = "1"; ref[k].push_back(v); }
					catch (const std::bad_alloc&) { out = "E:throw"; }
					catch (const std::runtime_error& e) { out = std::string(e.what()) == "copy" ? "E:throw" : "E:runtime"; }	// E:runtime = the key table is full
					catch (const std::domain_error&) { out = "E:user"; }
					bool firedG = lm().refused(growSize) && !present, firedP = tableEmpty && lm().refused(psz) && psz != growSize && !present;
					bool firedOther = false; for (size_t x : lm().refusedSizes) if (!(firedG && x == growSize) && !(firedP && x == psz)) firedOther = true;
					bool firedC = ec().firedCopy, firedE = qc().fired;
					lm().disarm(); ec().copyCountdown = -1; ec().firedCopy = false; qc().countdown = -1; qc().fired = false;
					if (out == "E:user") toks += " fe";
					else {
						if (firedG) toks += " fg";
						if (firedP) toks += " fp";
						if (firedOther) toks += " va";
						if (firedC) toks += " vc";
					}
					if (firedG) c.stats.count("fault.key_array_refused");
					if (firedP) c.stats.count("fault.key_params_refused");
					if (firedOther) c.stats.count("fault.value_array_allocation_refused");
					if (firedC) c.stats.count("fault.copy_threw");
					if (firedE) c.stats.count("fault.equal_threw");
					if (out == "1" && present) { RepInfo r1 = repOf(T.c.mHashMap.Find(key)->value); if (r1.kind == 2 && ref[k].size() == A::maxFast + 1) c.stats.count("state.fast_to_heap"); else if (r1.kind == 2 && r1.cap == ref[k].size() + 0 && false) {} }
					(void)live0;
				}
				if (out != "1") {
					c.stats.nontrivial(fmt("%s add %s", suiteName.substr(0, suiteName.find("_h")).c_str(), out.c_str()) + toks);
					std::string now = snapshot();
					if (now != snap) c.fail("C04 strong: %s Add(%u, %u) failed (%s%s) but the containers changed: before [%s] after [%s]", suiteName.c_str(), k, v, out.c_str(), toks.c_str(), snap.c_str(), now.c_str());
				}
				op = fmt(intoB ? "addb %u %u" : "add %u %u", k, v); res = out;
			}
			else if (r < 46) {
				uint32_t kk = pickKey(refA); uint32_t v = serial++;
				Key key(kk); V val(v);
				auto it = X.c.Find(key);
				if (rng.chance(1, 4)) { if (rng.chance(1, 2)) lm().refuseAfter = 0; else ec().copyCountdown = (long)rng.below(3); }
				std::string snap = snapshot();
				std::string out = "0";
				if (!!it) {
					try { X.c.Add(it, static_cast<const V&>(val)); out = "1"; refA[kk].push_back(v); }
					catch (const std::bad_alloc&) { out = "E:throw"; } catch (const std::runtime_error&) { out = "E:throw"; }
				}
				if (!lm().refusedSizes.empty()) { toks += " va"; c.stats.count("fault.value_array_allocation_refused"); }
				if (ec().firedCopy) { toks += " vc"; c.stats.count("fault.copy_threw"); }
				lm().disarm(); ec().copyCountdown = -1; ec().firedCopy = false;
				if (out == "E:throw" && snapshot() != snap) c.fail("C04 strong: %s Add(keyIter %u, %u) failed but the containers changed", suiteName.c_str(), kk, v);
				op = fmt("addat %u %u", kk, v); res = out;
			}
			else if (r < 52) {
				const size_t growSize = HS::Buckets::pvGetBufferSize(X.hs().pvGetNewLogBucketCount());
				const bool tableEmpty = X.hs().mBuckets == nullptr;
				bool present = refA.count(k) != 0;
				if (rng.chance(1, 3)) { unsigned w = (unsigned)rng.below(3); if (w == 0) lm().refuseAfter = 0; else if (w == 1) ec().copyCountdown = 0; else qc().countdown = 0; }
				std::string snap = snapshot();
				std::string out;
				{
					Key key(k);
					size_t kc0 = X.c.GetKeyCount();
					try { X.c.InsertKey(static_cast<const Key&>(key)); out = X.c.GetKeyCount() != kc0 ? "1" : "0"; if (out == "1") refA[k]; }
					catch (const std::bad_alloc&) { out = "E:throw"; } catch (const std::runtime_error& e) { out = std::string(e.what()) == "copy" ? "E:throw" : "E:runtime"; } catch (const std::domain_error&) { out = "E:user"; }
				}
				bool firedG = lm().refused(growSize) && !present, firedP = tableEmpty && lm().refused(psz) && psz != growSize && !present;
				if (out == "E:user") toks += " fe";
				else { if (firedG) toks += " fg"; if (firedP) toks += " fp"; if (ec().firedCopy) toks += " fa"; }
				lm().disarm(); ec().copyCountdown = -1; ec().firedCopy = false; qc().countdown = -1; qc().fired = false;
				if (out != "1" && out != "0") { c.stats.nontrivial("inskey " + out + toks); if (snapshot() != snap) c.fail("C04 strong: %s InsertKey(%u) failed (%s) but the containers changed", suiteName.c_str(), k, out.c_str()); }
				op = fmt("inskey %u", k); res = out;
			}
			else if (r < 70) {
				// ---- Remove(keyIter, valueIndex)
				uint32_t kk = pickKey(refA);
				// half of the removals take from the longest array (shrinking heap arrays)
				if (drainPhase || rng.chance(1, 2)) { size_t best = 0; for (auto& kv : refA) if (kv.second.size() > best) { best = kv.second.size(); kk = kv.first; } }
				Key key(kk);
				auto it = X.c.Find(key);
				size_t cnt = !!it ? it->GetCount() : 0;
				RepInfo rep0 = !!it ? repOf(X.c.mHashMap.Find(key)->value) : RepInfo{0, 0, 0};
				size_t i = cnt ? (size_t)rng.below(cnt) : 0;
				std::string out = "0";
				if (cnt) {
					if (rng.chance(1, 5)) lm().refuseAfter = 0;
					X.c.Remove(it, i); out = "1";
					auto& vec = refA[kk]; vec[i] = vec.back(); vec.pop_back();
					if (!lm().refusedSizes.empty()) { toks += " vs"; c.stats.count("fault.shrink_refused"); }
					lm().disarm();
					RepInfo rep1 = repOf(X.c.mHashMap.Find(key)->value);
					if (rep0.kind == 2 && rep1.kind == 2 && rep1.cap < rep0.cap) c.stats.count("state.heap_array_shrunk");
					if (rep0.kind == 2 && rep1.kind == 0) c.stats.count("state.heap_array_released");
				}
				op = fmt("remv %u %zu", kk, i); res = out;
			}
			else if (r < 74) {
				uint32_t m = (uint32_t)rng.range(2, 5), rr = (uint32_t)rng.below(m);
				size_t nrem = X.c.Remove([m, rr](const Key& x, const V& y) { return (idOf(x) + idOf(y)) % m == rr; });
				for (auto& kv : refA) { auto& vec = kv.second; size_t i = 0; while (i < vec.size()) { if ((kv.first + vec[i]) % m == rr) { vec[i] = vec.back(); vec.pop_back(); } else ++i; } }
				op = fmt("rempred %u %u", m, rr); res = fmt("%zu", nrem);
			}
			else if (r < 78) {
				uint32_t kk = pickKey(refA);
				Key key(kk);
				auto it = X.c.Find(key);
				if (!!it) { X.c.RemoveValues(it); refA[kk].clear(); }
				op = fmt("remvals %u", kk); res = "ok";
			}
			else if (r < 82) {
				uint32_t kk = pickKey(refA);
				if (rng.chance(1, 8)) qc().countdown = 0;
				std::string snap = snapshot();
				std::string out;
				{
					Key key(kk);
					try { size_t nrem = X.c.RemoveKey(static_cast<const Key&>(key)); out = fmt("%zu", nrem); refA.erase(kk); }
					catch (const std::domain_error&) { out = "E:user"; toks += " fe"; c.stats.count("fault.equal_threw"); }
				}
				qc().countdown = -1; qc().fired = false;
				if (out == "E:user" && snapshot() != snap) c.fail("C04 strong: %s RemoveKey(%u) failed but the containers changed", suiteName.c_str(), kk);
				op = fmt("remkey %u", kk); res = out;
			}
			else if (r < 85) {
				uint32_t kk = pickKey(refA);
				Key key(kk);
				auto it = X.c.Find(key);
				if (!!it) X.c.ResetKey(it, Key(kk));
				op = fmt("resetkey %u", kk); res = "ok";
			}
			else if (r < 87) {
				X.c.Clear(); refA.clear();
				extraA.clear();	// Clear gives back every pool buffer: the model is not told, it must know
				c.stats.count("clear");
				LedView v; ownBlocks(c, suiteName.c_str(), "A", X, v, csz);
				if (v.known != (csz ? 2u : 1u) || v.heaps != 0) c.fail("C03 clear: %s Clear() left %zu blocks of container A besides its crews", suiteName.c_str(), v.known + v.heaps - (csz ? 2 : 1));
				op = "clear"; res = "ok";
			}
			else if (r < 93) {
				// ---- B = A (copy construction + Swap + destruction of B's old contents), with faults at every stage
				newTo = toB;
				if (rng.chance(1, 2)) {
					unsigned w = (unsigned)rng.below(4);
					if (w == 0) lm().refuseSize = rng.chance(1, 2) ? vsz : (csz ? csz : vsz);
					else if (w == 1) ec().copyCountdown = (long)rng.below(X.c.GetCount() + X.c.GetKeyCount() + 1);
					else lm().refuseAfter = (long)rng.below(2 + X.c.GetKeyCount() / 2);
				}
				std::string snap = snapshot();
				size_t blocks0 = lm().live.size();
				std::string out = "ok";
				try { Y.c = X.c; refB = refA; }
				catch (const std::bad_alloc&) { out = "E:throw"; } catch (const std::runtime_error&) { out = "E:throw"; }
				lm().disarm(); ec().copyCountdown = -1; ec().firedCopy = false;
				if (out == "E:throw") {
					toks += " cf";
					c.stats.nontrivial("copy E:throw"); c.stats.count("fault.copy_construction_failed");
					// C04: a constructor that fails leaves nothing allocated and nothing constructed; the assigned-to container is untouched
					if (snapshot() != snap || lm().live.size() != blocks0) c.fail("C04 constructor: %s copy construction failed and left blocks / objects / changed containers: %zu blocks, %zu before", suiteName.c_str(), lm().live.size(), blocks0);
				} else extraB.clear();	// B's old pools died with the temporary
				op = "copyto"; res = out;
			}
			else if (r < 95) {
				Y.c = std::move(X.c); refB = refA; refA.clear();
				if (X.c.GetCount() != 0) c.fail("C14 move: %s source not empty", suiteName.c_str());
				X.c = typename A::C();
				extraB = extraA; extraA.clear();
				op = "moveto"; res = "ok";
			}
			else if (r < 98) { std::swap(refA, refB); X.c.Swap(Y.c); std::swap(extraA, extraB); op = "swap"; res = "ok"; }
			else op = "monitor";
			if (op == "monitor") {
				// the verified monitor, run by the model over ALL events of the history so far, must have accepted them and hold exactly
				// the blocks outstanding at the real manager and one object per stored key / value
				s.op(op); s.res(fmt("accepted blocks=%zu elems=%zu", lm().live.size() - baseBlocks, refA.size() + refB.size() + refValues(refA) + refValues(refB)));
			} else {
				std::string t = tail(newTo, toks);
				s.op(op + toks); s.res(res + t);
			}
			c.stats.evaluations++;
			for (auto ref : X.c.mHashMap) { RepInfo ri = repOf(ref.value); if (ri.kind == 2) { c.stats.count("state.ops_with_heap_array"); break; } }
			if (history.size() < 200) history += op + toks + "; ";
			if (step % 16 == 15 || step + 1 == nOps) fullCheck(op.c_str());
		}
		c.stats.sample(suiteName + ": " + history);
		c.stats.nontrivial(suiteName);
	}
	// the end of the history: everything is destroyed; the model's monitor must have accepted every event and hold nothing
	s.op("finish"); s.res("accepted blocks=0 elems=0");
	if (lm().live.size() != baseBlocks) c.fail("C03 leak: %s: %zu blocks outstanding after destruction", suiteName.c_str(), lm().live.size() - baseBlocks);
	if (lm().badDealloc) { c.fail("C03 dealloc: %s: %zu deallocations of unknown blocks / wrong size", suiteName.c_str(), lm().badDealloc); lm().badDealloc = 0; }
	if (ec().live != 0) { c.fail("C03 elements: %s: %ld key / value objects still alive", suiteName.c_str(), ec().live); ec().live = 0; }
	for (auto& kv : lm().live) std::free(kv.first);
	lm().live.clear();
}

template<typename V, typename HashBucket, size_t tMaxFast, unsigned tLogStart>
static void runKind(Ctx& c, Rng& rng, const char* kind, unsigned n, const char* vname, const char* vcat, size_t fullFrom, unsigned runs)
{
	typedef Ad<V, HashBucket, tMaxFast, tLogStart> A;
	for (unsigned run = 0; run < runs; ++run) {
		unsigned fam = (unsigned)rng.below(8);
		static const unsigned ranges[] = { 6, 20, 80 };
		unsigned keyRange = ranges[rng.below(3)];
		runConfig<A>(c, rng, kind, n, vname, vcat, tLogStart, fullFrom, fam, keyRange, c.thorough ? 900 : 260, run);
	}
}

int main(int argc, char** argv)
{
	Ctx c = parseArgs(argc, argv);
	Rng rng(c.seed * 0x1000 + 0x3B + VF_PART * 100);
	unsigned runs = c.thorough ? 16 : 5;
	// open-addressing key tables: every outstanding block that is not a bucket array, a BucketParams block, a crew or a heap array
	// is a buffer of the value-array pools
#if VF_PART == 0
	runKind<ElemNM, momo::HashBucketOpen8, 7, 2>(c, rng, "Open8", 7, "nm", "nmove", 7, runs);
	runKind<ElemCO, momo::HashBucketOpenN1<3, true>, 2, 1>(c, rng, "OpenN1", 3, "co", "copy", 3, runs);
#else
	runKind<ElemNM, momo::HashBucketOpen2N2<3>, 1, 2>(c, rng, "Open2N2", 3, "nm", "nmove", 3, runs);
	runKind<ElemCO, momo::HashBucketOpen8, 4, 1>(c, rng, "Open8", 7, "co", "copy", 7, runs);
#endif
	return c.finish();
}
