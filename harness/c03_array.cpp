// C03 harness, array family: Array (plain, internal capacity 3, with a Reallocate-able manager), SegmentedArray
// (sqrt and constant sizing) over nothrow-move / copy-only / trivially relocatable elements and plain integers.
// Random histories over two containers with equal or unequal managers, about one operation in three with an armed
// fault (k-th allocation refused, k-th element copy throws); every manager call and every element life-cycle event is
// one line for the Lean monitor `ledger` (see c03_ledger.h).
#include <algorithm>
#include "momo/Array.h"
#include "momo/SegmentedArray.h"
#include "c03_ledger.h"

using namespace c03;

template<typename E> static E mk(uint32_t v) { return E(v); }

template<typename A, typename MM, bool tInsert>
static void arrayHistories(Ctx& c, Rng& rng, const std::string& name, unsigned histories, unsigned opsPerHist)
{
	typedef typename A::Item E;
	Rec& r = rec();
	for (unsigned h = 0; h < histories; ++h) {
		bool twoManagers = rng.chance(1, 2);
		unsigned clsA = 1, clsB = twoManagers ? 2 : 1;
		r.begin(name + (twoManagers ? " managers=1,2" : " managers=1,1"));
		{
			std::unique_ptr<A> a(new A(MM(clsA))), b(new A(MM(clsB)));
			uint32_t next = 1;
			for (unsigned i = 0; i < opsPerHist; ++i) {
				int fault; long k; pickFault(rng, false, fault, k);
				A& x = rng.chance(2, 3) ? *a : *b;
				A& y = (&x == a.get()) ? *b : *a;
				const char* xn = (&x == a.get()) ? "a" : "b";
				size_t n = x.GetCount();
				unsigned sel = (unsigned)rng.below(40);
				switch (sel < 16 ? sel % 6 : sel - 16 + 6) {
				case 0: case 1: case 2: { uint32_t v = next++; runOp(fmt("%s.AddBack(const& %u) n=%zu", xn, v, n), fault, k, [&] { E e = mk<E>(v); x.AddBack(e); }); break; }
				case 3: case 4: { uint32_t v = next++; runOp(fmt("%s.AddBack(&& %u) n=%zu", xn, v, n), fault, k, [&] { x.AddBack(mk<E>(v)); }); break; }
				case 5: if (n > 0) { size_t j = rng.below(n); runOp(fmt("%s.AddBack(%s[%zu]) n=%zu", xn, xn, j, n), fault, k, [&] { x.AddBack(x[j]); }); } break;
				case 6: if (tInsert) { size_t j = rng.below(n + 1); uint32_t v = next++; runOp(fmt("%s.Insert(%zu, %u) n=%zu", xn, j, v, n), fault, k, [&] { E e = mk<E>(v); x.Insert(j, e); }); } break;
				case 7: if (tInsert) { size_t j = rng.below(n + 1); size_t cnt = rng.below(5); uint32_t v = next++; runOp(fmt("%s.Insert(%zu, count %zu, %u) n=%zu", xn, j, cnt, v, n), fault, k, [&] { E e = mk<E>(v); x.Insert(j, cnt, e); }); } break;
				case 8: if (tInsert && n > 0) { size_t j = rng.below(n); size_t cnt = rng.below(std::min<size_t>(n - j, 4) + 1); runOp(fmt("%s.Remove(%zu, %zu) n=%zu", xn, j, cnt, n), fault, k, [&] { x.Remove(j, cnt); }); } break;
				case 9: if (n > 0) { size_t cnt = 1 + rng.below(std::min<size_t>(n, 3)); runOp(fmt("%s.RemoveBack(%zu) n=%zu", xn, cnt, n), fault, k, [&] { x.RemoveBack(cnt); }); } break;
				case 10: if (rng.chance(1, 2)) { size_t m = rng.below(n + 12); runOp(fmt("%s.SetCount(%zu) n=%zu", xn, m, n), fault, k, [&] { x.SetCount(m); }); } break;
				case 11: { size_t m = rng.below(n + 12); uint32_t v = next++; runOp(fmt("%s.SetCount(%zu, %u) n=%zu", xn, m, v, n), fault, k, [&] { E e = mk<E>(v); x.SetCount(m, e); }); break; }
				case 12: { size_t m = rng.below(3 * n + 20); runOp(fmt("%s.Reserve(%zu) n=%zu cap=%zu", xn, m, n, x.GetCapacity()), fault, k, [&] { x.Reserve(m); }); break; }
				case 13: { bool withCap = rng.chance(1, 3); size_t m = n + rng.below(8); runOp(withCap ? fmt("%s.Shrink(%zu) n=%zu cap=%zu", xn, m, n, x.GetCapacity()) : fmt("%s.Shrink() n=%zu cap=%zu", xn, n, x.GetCapacity()), fault, k, [&] { if (withCap) x.Shrink(m); else x.Shrink(); }); break; }
				case 14: if (rng.chance(1, 3)) { bool shrink = rng.chance(2, 3); runOp(fmt("%s.Clear(%s) n=%zu", xn, shrink ? "true" : "false", n), fault, k, [&] { x.Clear(shrink); });
					if (shrink) c.stats.count("clear_with_shrink"); } break;
				case 15: runOp(fmt("copy-construct from %s n=%zu, destroy the copy", xn, n), fault, k, [&] { A t(x); (void)t; }); break;
				case 16: runOp(fmt("copy-construct from %s with manager %u, shrink-copy, destroy", xn, clsB), fault, k, [&] { A t(x, MM(clsB)); A u(x, true); (void)t; (void)u; }); break;
				case 17: runOp(fmt("%s = copy of the other (n=%zu <- %zu)", xn, n, y.GetCount()), fault, k, [&] { x = y; }); break;
				case 18: runOp(fmt("%s = std::move(other) (n=%zu <- %zu)", xn, n, y.GetCount()), fault, k, [&] { x = std::move(y); }); break;
				case 19: runOp(fmt("%s.Swap(other)", xn), fault, k, [&] { x.Swap(y); }); break;
				case 20: runOp(fmt("move-construct from %s n=%zu and move back", xn, n), fault, k, [&] { A t(std::move(x)); x = std::move(t); }); break;
				case 21: if (rng.chance(1, 3)) { runOp(fmt("construct Array(count 5, item 7, manager) and replace %s (n=%zu) by it (old one destroyed)", xn, n), fault, k, [&] {
						std::unique_ptr<A>& px = (&x == a.get()) ? a : b; unsigned cls = (&x == a.get()) ? clsA : clsB;
						E e = mk<E>(7); std::unique_ptr<A> t(new A((size_t)5, e, MM(cls))); px = std::move(t); }); } break;
				case 22: if (tInsert && n > 0) { uint32_t m = (uint32_t)rng.range(2, 4); runOp(fmt("%s.Remove(filter value%%%u==0) n=%zu", xn, m, n), fault, k, [&] { x.Remove([m](const E& e) { return valOf(e) % m == 0; }); }); } break;
				default: if (tInsert) { size_t j = rng.below(n + 1); uint32_t v = next; next += 3; runOp(fmt("%s.Insert(%zu, {%u,%u,%u}) n=%zu", xn, j, v, v + 1, v + 2, n), fault, k, [&] {
						E e0 = mk<E>(v), e1 = mk<E>(v + 1), e2 = mk<E>(v + 2); E arr[3] = { e0, e1, e2 }; x.Insert(j, arr, arr + 3); }); } break;
				}
				c.stats.count(std::string("count_ge_") + (a->GetCount() >= 32 ? "32" : a->GetCount() >= 8 ? "8" : "0"));
			}
			// "Clearing with shrink and destruction leave zero outstanding blocks and zero live elements"
			runOp("destroy b", F_NONE, 0, [&] { b.reset(); });
			runOp("a.Clear(true)", F_NONE, 0, [&] { a->Clear(true); });
			c.stats.count("clear_with_shrink");
			if (!r.live.empty() || !r.liveElems.empty())
				r.violation(fmt("Clear(true) of the only remaining array left %zu block(s) and %zu element(s) outstanding", r.live.size(), r.liveElems.size()));
			runOp("destroy a", F_NONE, 0, [&] { a.reset(); });
		}
		r.end();
		if (h < 2) c.stats.sample(r.histText().substr(0, 600));
	}
}

int main(int argc, char** argv)
{
	Ctx c = parseArgs(argc, argv);
#ifndef C03_PART
# define C03_PART 0
#endif
	Rng rng(c.seed * 0x1000 + 0x03A + C03_PART);
	static const char* suiteName[] = { "c03_array", "c03_arrayx", "c03_segarray" };
	Suite s(c, suiteName[C03_PART], "model ledger");
	Rec& r = rec(); r.c = &c; r.s = &s; r.family = suiteName[C03_PART];
	unsigned H = c.thorough ? 300 : 40, N = c.thorough ? 120 : 70;

	using momo::Array; using momo::SegmentedArray; using momo::ArraySettings; using momo::ArrayItemTraits;
	using momo::SegmentedArraySettings; using momo::SegmentedArrayItemTraits; using momo::SegmentedArrayItemCountFunc;

#ifndef C03_PART
# define C03_PART 0
#endif
#if C03_PART == 0
	arrayHistories<Array<ElemL, LedgerMM>, LedgerMM, true>(c, rng, "Array<nothrow-move>", H, N);
	arrayHistories<Array<ElemC, LedgerMM>, LedgerMM, true>(c, rng, "Array<copy-only>", H, N);
	arrayHistories<Array<ElemT, LedgerMM>, LedgerMM, true>(c, rng, "Array<triv-reloc>", H, N);
#elif C03_PART == 1
	arrayHistories<Array<ElemT, LedgerMMR>, LedgerMMR, true>(c, rng, "Array<triv-reloc, Reallocate>", H, N);
	arrayHistories<Array<uint32_t, LedgerMMR>, LedgerMMR, true>(c, rng, "Array<uint32, Reallocate>", H, N);
	arrayHistories<Array<ElemL, LedgerMM, ArrayItemTraits<ElemL, LedgerMM>, ArraySettings<3>>, LedgerMM, true>(c, rng, "ArrayIntCap<3,nothrow-move>", H, N);
	arrayHistories<Array<ElemT, LedgerMMR, ArrayItemTraits<ElemT, LedgerMMR>, ArraySettings<5>>, LedgerMMR, true>(c, rng, "ArrayIntCap<5,triv-reloc,Reallocate>", H, N);
#else
	arrayHistories<SegmentedArray<ElemL, LedgerMM>, LedgerMM, true>(c, rng, "SegmentedArray<sqrt,nothrow-move>", H, N);
	arrayHistories<SegmentedArray<ElemC, LedgerMM>, LedgerMM, true>(c, rng, "SegmentedArray<sqrt,copy-only>", H, N);
	arrayHistories<SegmentedArray<ElemL, LedgerMM, SegmentedArrayItemTraits<ElemL, LedgerMM>,
		SegmentedArraySettings<SegmentedArrayItemCountFunc::cnst, 2>>, LedgerMM, true>(c, rng, "SegmentedArray<cnst 4,nothrow-move>", H, N);
	arrayHistories<SegmentedArray<ElemT, LedgerMMR, SegmentedArrayItemTraits<ElemT, LedgerMMR>,
		SegmentedArraySettings<SegmentedArrayItemCountFunc::cnst, 1>>, LedgerMMR, true>(c, rng, "SegmentedArray<cnst 2,triv-reloc,Reallocate>", H, N);
#endif
	return c.finish();
}
