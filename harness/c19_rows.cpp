// C19 correspondence harness: detached DataTable rows destroyed on other threads while the owner keeps working.
//
// One source, two executables (tools/props/C19.py):
//   c19_rows_ledger  ASan+UBSan+LSan, ledger memory manager          (-DC19_LEDGER_BUILD)
//   c19_rows_tsan    ThreadSanitizer                                  (-DC19_TSAN_BUILD)
// Suites (both executables run all of them; budgets differ):
//   seq   model-level: single-threaded schedules of the small steps  new / add / extract / remove / move /
//         ~DataRow (whole, or split by hand into DestroyRaw | load | link write | CAS on a virtual thread) /
//         take-all / clear, replayed on the real table; after every step the complete hand-off state is compared
//         with the Lean model: free-list head and chain (read from the blocks' first words), table rows,
//         pool allocation count, detached handles, blocks inside a destructor.   -> seq.ops / seq.impl
//   ilv   the same for ALL interleavings of two virtual disposer threads (one row each) with an owner program
//   par   trace inclusion: real disposer threads destroy rows handed to them through queues while the owner
//         creates / adds / extracts / removes; the owner's history (which block the pool answered each time) must
//         be explainable by a schedule of the model, final state compared after join + take-all.
//   storm property-level only: k threads x rows released at once (CAS contention), owner creating / adding /
//         extracting concurrently; ledger, canaries, destructor counts, pool allocation count.
// Property-level oracles (FAIL lines): a block handed out while still in use, a row whose contents changed while it
// was detached (two rows sharing storage), item destructor count != 1, pool allocation count != rows in use at a
// quiescent point, memory-manager ledger not balanced at table destruction. Sanitizer reports abort the run.
#include "momo/DataTable.h"
#include "common/verif_common.h"

#include <atomic>
#include <condition_variable>
#include <deque>
#include <functional>
#include <memory>
#include <mutex>
#include <thread>
#include <unordered_map>

#include <fcntl.h>
#include <unistd.h>

using namespace vf;

// ------------------------------------------------------------------ what was running when a sanitizer / assert killed the process
// The op sequence of the running case is appended to <out>/fail.txt as it goes (tools/verif.py reads that file after a
// crash), so a sanitizer abort is reported with the concrete failing input. The file is removed at a clean exit.

static int g_crashFd = -1;
static Ctx* g_ctx = nullptr;
static void crashBegin(const char* what) {
	if (g_crashFd < 0 || g_ctx->failures) return;
	(void)!ftruncate(g_crashFd, 0); lseek(g_crashFd, 0, SEEK_SET);
	std::string h = std::string("C19 process killed (sanitizer report / assertion failure, see output_tail) while running ") + what + ": ";
	(void)!write(g_crashFd, h.data(), h.size());
}
static void crashNext(const char* opName) {	// announced before the operation runs: the crash may happen inside it
	if (g_crashFd < 0 || g_ctx->failures) return;
	(void)!write(g_crashFd, "<", 1); (void)!write(g_crashFd, opName, strlen(opName)); (void)!write(g_crashFd, "> ", 2);
}
static void crashOp(const std::string& op) {
	if (g_crashFd < 0 || g_ctx->failures) return;
	(void)!write(g_crashFd, op.data(), op.size()); (void)!write(g_crashFd, "; ", 2);
}

// ------------------------------------------------------------------ ledger memory manager

struct Ledger {
	std::mutex mu;
	std::map<void*, size_t> live;
	uint64_t allocs = 0, frees = 0, bad = 0;
	std::string firstBad;
	void note(const std::string& s) { if (bad++ == 0) firstBad = s; }
};

class LedgerMM {
public:
	explicit LedgerMM(Ledger* l) noexcept : led(l) {}
	LedgerMM(LedgerMM&& o) noexcept : led(o.led) {}
	LedgerMM(const LedgerMM& o) noexcept : led(o.led) {}
	~LedgerMM() noexcept {}
	LedgerMM& operator=(const LedgerMM&) = delete;
	void* Allocate(size_t size) {
		void* p = ::operator new(size);
		std::lock_guard<std::mutex> g(led->mu);
		led->live[p] = size; ++led->allocs;
		return p;
	}
	void Deallocate(void* p, size_t size) noexcept {
		{
			std::lock_guard<std::mutex> g(led->mu);
			++led->frees;
			auto it = led->live.find(p);
			if (it == led->live.end()) { led->note(fmt("free of a block the manager does not own (size %zu)", size)); return; }
			if (it->second != size) led->note(fmt("free with size %zu of a block allocated with size %zu", size, it->second));
			led->live.erase(it);
		}
		::operator delete(p);
	}
	bool IsEqual(const LedgerMM& o) const noexcept { return led == o.led; }
private:
	Ledger* led;
};

// ------------------------------------------------------------------ instrumented item

static const size_t maxSerial = size_t(1) << 22;
static uint64_t g_serial = 1;	// row serial numbers are unique per process run (owner thread only)
struct Counters {
	std::atomic<int64_t> live{0};
	std::atomic<uint64_t> badMagic{0};
	std::unique_ptr<std::atomic<uint8_t>[]> dtor;	// per serial
	Counters() : dtor(new std::atomic<uint8_t>[maxSerial]) { for (size_t i = 0; i < maxSerial; ++i) dtor[i].store(0, std::memory_order_relaxed); }
	void reset() { live = 0; badMagic = 0; }
};
static Counters g_cnt;

struct Counted {
	uint64_t serial = 0;
	uint32_t magic = 0xC0FFEE;
	Counted() noexcept { ++g_cnt.live; }
	Counted(const Counted& o) noexcept : serial(o.serial) { ++g_cnt.live; }
	Counted(Counted&& o) noexcept : serial(o.serial) { o.serial = 0; ++g_cnt.live; }
	Counted& operator=(const Counted& o) noexcept { serial = o.serial; return *this; }
	Counted& operator=(Counted&& o) noexcept { serial = o.serial; o.serial = 0; return *this; }
	~Counted() noexcept {
		if (magic != 0xC0FFEE) ++g_cnt.badMagic;
		magic = 0xDEAD;
		if (serial != 0 && serial < maxSerial) { uint8_t v = g_cnt.dtor[serial].load(); if (v < 200) g_cnt.dtor[serial].store(uint8_t(v + 1)); }
		--g_cnt.live;
	}
	bool operator==(const Counted& o) const noexcept { return serial == o.serial; }
};

static uint64_t canaryOf(uint64_t serial) { return serial * 0x9E3779B97F4A7C15ull ^ 0x5bd1e995u; }
static std::string strOf(uint64_t serial) { return "row-" + std::to_string(serial) + std::string(size_t(serial % 37), 'x'); }

// ------------------------------------------------------------------ table configurations

static constexpr momo::DataColumn<uint64_t> idCol("id");
static constexpr momo::DataColumn<uint64_t> canCol("canary");
static constexpr momo::DataColumn<std::string> strCol("str");
static constexpr momo::DataColumn<Counted> cntCol("cnt");

// dynamic column list, first word of a block = the 64-bit id column
struct DynCfg {
	static const char* name() { return "dyn"; }
	typedef momo::DataColumnList<momo::DataColumnTraits<>, LedgerMM> CL;
	typedef momo::DataTable<CL> Table;
	typedef Table::Row Row;
	static Table make(Ledger* led) { CL cl{LedgerMM(led)}; cl.Add(idCol, canCol, strCol, cntCol); return Table(std::move(cl)); }
	static void fill(Row& r, uint64_t serial) { r[idCol] = serial; r[canCol] = canaryOf(serial); r[strCol] = strOf(serial); r[cntCol].serial = serial; }
	// the three ways to create a detached row: NewRow(), NewRow(assignments...) (pvNewRow), NewRow(const Row&) (pvImportRaw)
	static Row create(Table& t, uint64_t serial) {
		if (serial % 3 == 1) { Row r = t.NewRow(idCol = serial, canCol = canaryOf(serial), strCol = strOf(serial)); r[cntCol].serial = serial; return r; }
		Row r = t.NewRow(); fill(r, serial); return r;
	}
	template<typename R> static uint64_t idOf(const R& r) { return r[idCol]; }
	template<typename R> static bool ok(const R& r, uint64_t serial) {
		return r[idCol] == serial && r[canCol] == canaryOf(serial) && r[strCol] == strOf(serial) && r[cntCol].serial == serial;
	}
};

// static (struct) column list, first word of a block = inside a std::string, row numbers kept in the block
struct StatStruct { std::string str; uint64_t id; uint64_t canary; Counted cnt; };
struct StatCfg {
	static const char* name() { return "stat"; }
	typedef momo::DataColumnListStatic<StatStruct, momo::DataColumnInfo<StatStruct>, LedgerMM, momo::DataSettings<true>> CL;
	typedef momo::DataTable<CL> Table;
	typedef Table::Row Row;
	static Table make(Ledger* led) { return Table(CL(LedgerMM(led))); }
	static void fill(Row& r, uint64_t serial) { r->id = serial; r->canary = canaryOf(serial); r->str = strOf(serial); r->cnt.serial = serial; }
	// NewRow() or NewRow(Raw&&)
	static Row create(Table& t, uint64_t serial) {
		if (serial % 3 == 1) { StatStruct v; v.id = serial; v.canary = canaryOf(serial); v.str = strOf(serial); v.cnt.serial = serial; return t.NewRow(std::move(v)); }
		Row r = t.NewRow(); fill(r, serial); return r;
	}
	template<typename R> static uint64_t idOf(const R& r) { return r->id; }
	template<typename R> static bool ok(const R& r, uint64_t serial) {
		return r->id == serial && r->canary == canaryOf(serial) && r->str == strOf(serial) && r->cnt.serial == serial;
	}
};

// ------------------------------------------------------------------ helpers on a real table

static std::string fmtIds(const std::vector<unsigned>& v) {
	std::string s = "[";
	for (size_t i = 0; i < v.size(); ++i) { if (i) s += ' '; s += std::to_string(v[i]); }
	return s + "]";
}

struct BlockIds {
	std::unordered_map<const void*, unsigned> ids;
	unsigned next = 1;
	bool known(const void* p) const { return ids.count(p) != 0; }
	unsigned get(const void* p) { auto it = ids.find(p); if (it != ids.end()) return it->second; ids[p] = next; return next++; }
	unsigned peek(const void* p) const { auto it = ids.find(p); return it == ids.end() ? 0 : it->second; }
};

template<typename Table>
static std::vector<const void*> chainOf(Table& t, size_t limit = 100000) {
	std::vector<const void*> v;
	void* p = t.mCrew.GetFreeRaws().load();
	while (p != nullptr && v.size() < limit) { v.push_back(p); void* n; std::memcpy(&n, p, sizeof n); p = n; }
	return v;
}

template<typename Table>
static std::vector<unsigned> rowIds(Table& t, BlockIds& b) {
	std::vector<unsigned> v;
	for (size_t i = 0; i < t.GetCount(); ++i) v.push_back(b.peek(t.mRaws[i]));
	return v;
}

// end-of-case accounting shared by all suites; the table has been destroyed already
static void checkLedger(Ctx& c, Ledger& led, const char* suite, const std::string& what) {
	if (led.bad) c.fail("C19 %s ledger: %s (%llu bad calls) in %s", suite, led.firstBad.c_str(), (unsigned long long)led.bad, what.c_str());
	if (!led.live.empty()) c.fail("C19 %s ledger: %zu blocks never returned to the memory manager after table destruction in %s", suite, led.live.size(), what.c_str());
}

static void checkItems(Ctx& c, uint64_t firstSerial, uint64_t endSerial, const char* suite, const std::string& what) {
	if (g_cnt.badMagic.load()) c.fail("C19 %s items: %llu destructors ran on an already destroyed item in %s", suite, (unsigned long long)g_cnt.badMagic.load(), what.c_str());
	if (g_cnt.live.load() != 0) c.fail("C19 %s items: %lld item objects alive after table destruction in %s", suite, (long long)g_cnt.live.load(), what.c_str());
	for (uint64_t s = firstSerial; s < endSerial; ++s)
		if (g_cnt.dtor[s].load() != 1) { c.fail("C19 %s items: item of row serial %llu destroyed %u times in %s", suite, (unsigned long long)s, unsigned(g_cnt.dtor[s].load()), what.c_str()); break; }
}

// ------------------------------------------------------------------ seq / ilv: single-threaded replay of small steps

template<typename Cfg>
struct SeqCase {
	typedef typename Cfg::Table Table;
	typedef typename Cfg::Row Row;
	struct Det { std::unique_ptr<Row> row; unsigned holder; uint64_t serial; const void* addr; };
	struct InProg { unsigned handle; std::unique_ptr<Row> row; uint64_t serial; const void* addr; void* head = nullptr; int stage = 0; uint64_t genAtLoad = 0; };	// stage 0 start, 1 loaded, 2 wrote

	Ctx& c; Suite& s; Ledger led; std::unique_ptr<Table> t; BlockIds ids;
	std::map<unsigned, Det> det;				// handle -> live detached row
	std::map<unsigned, InProg> prog;			// virtual thread -> destructor in progress
	std::unordered_map<const void*, uint64_t> pushGen;
	std::set<const void*> inUse;				// table rows + live detached + inside a destructor
	unsigned threads; unsigned nextHandle = 1; uint64_t firstSerial, serial; std::string trace; bool takeNonEmpty = false, reused = false, aba = false, casFailed = false;
	const char* suite;

	SeqCase(Ctx& c_, Suite& s_, unsigned threads_, const char* suite_)
		: c(c_), s(s_), threads(threads_), firstSerial(g_serial), serial(g_serial), suite(suite_) {
		crashBegin((std::string(suite_) + "/" + Cfg::name()).c_str());
		t.reset(new Table(Cfg::make(&led)));
		s.op(fmt("reset %u", threads)); s.res("ok");
	}
	void say(const std::string& op, const std::string& res) { crashOp(op); s.op(op); s.res(res); trace += op; trace += "; "; c.stats.evaluations++; }
	size_t alloc() { return t->mRawMemPool.GetAllocateCount(); }
	void state() {
		auto ch = chainOf(*t);
		std::vector<unsigned> chain; for (auto p : ch) chain.push_back(ids.peek(p));
		std::string dets;
		for (auto& kv : det) { if (!dets.empty()) dets += ' '; dets += fmt("%u:%u", kv.first, ids.peek(kv.second.addr)); }
		std::vector<unsigned> infl; for (auto& kv : prog) infl.push_back(ids.peek(kv.second.addr));
		std::sort(infl.begin(), infl.end());
		void* h = t->mCrew.GetFreeRaws().load();
		s.op("st");
		s.res(fmt("head=%s chain=%s rows=%s alloc=%zu det=[%s] inflight=%s", h ? std::to_string(ids.peek(h)).c_str() : "-", fmtIds(chain).c_str(),
			fmtIds(rowIds(*t, ids)).c_str(), alloc(), dets.c_str(), fmtIds(infl).c_str()));
		c.stats.count(fmt("%s.chain_len_%s", suite, chain.size() >= 4 ? "4+" : std::to_string(chain.size()).c_str()));
	}
	// ---- owner operations
	unsigned opNew() {
		crashNext("new");
		size_t before = alloc();
		Row r = Cfg::create(*t, serial);
		const void* a = r.GetRaw();
		bool seen = ids.known(a);
		unsigned blk = ids.get(a);
		if (inUse.count(a)) c.fail("C19 %s/%s reuse-while-in-use: NewRow answered block %u which is still in use; ops: %s", suite, Cfg::name(), blk, trace.c_str());
		inUse.insert(a);
		size_t took = before + 1 - alloc();
		unsigned h = nextHandle++;
		say(fmt("new %u %u", h, blk), fmt("ok %s took=%zu", seen ? "reuse" : "fresh", took));
		if (took) { takeNonEmpty = true; c.stats.count(std::string(suite) + ".takeall_nonempty"); }
		if (seen) { reused = true; c.stats.count(std::string(suite) + ".block_reused"); }
		det[h] = Det{ std::unique_ptr<Row>(new Row(std::move(r))), 0, serial, a };
		++serial;
		state();
		return h;
	}
	void opAdd(unsigned h) {
		crashNext("add");
		Det d = std::move(det[h]); det.erase(h);
		t->Add(std::move(*d.row));
		say(fmt("add %u", h), "ok"); state();
	}
	unsigned opExtract(size_t i, bool keep) {
		crashNext("extract");
		Row r = t->Extract(i, keep);
		const void* a = r.GetRaw();
		uint64_t ser = Cfg::idOf(r);
		if (!Cfg::ok(r, ser)) c.fail("C19 %s/%s contents: extracted row %zu (serial %llu) was overwritten; ops: %s", suite, Cfg::name(), i, (unsigned long long)ser, trace.c_str());
		unsigned h = nextHandle++;
		say(fmt("extract %zu %d %u", i, keep ? 1 : 0, h), fmt("blk=%u", ids.peek(a)));
		det[h] = Det{ std::unique_ptr<Row>(new Row(std::move(r))), 0, ser, a };
		c.stats.count(std::string(suite) + (keep ? ".extract_keep" : ".extract_swap"));
		state();
		return h;
	}
	void opRemove(size_t i, bool keep) {
		crashNext("remove");
		inUse.erase(t->mRaws[i]);
		t->Remove(i, keep);
		say(fmt("remove %zu %d", i, keep ? 1 : 0), "ok"); state();
	}
	void opMove(unsigned h, unsigned thr) {
		crashNext("move");
		Det& d = det[h];
		std::unique_ptr<Row> moved(new Row(std::move(*d.row)));	// DataRow(DataRow&&)
		d.row = std::move(moved); d.holder = thr;
		say(fmt("move %u %u", h, thr), "ok");
	}
	// DataRow::operator=(DataRow&&): a fresh row is created and then overwritten by move-assignment from row h; the fresh
	// row's block is pushed by the temporary's destructor (= new + dispose of the fresh row), h keeps its block
	void opMoveAssign(unsigned h) {
		crashNext("massign = new + move-assign (pushes the new row's block)");
		unsigned h2 = opNew();
		const void* a = det[h2].addr;
		*det[h2].row = std::move(*det[h].row);	// DataRow(std::move(row)).Swap(*this); the temporary dies with the old block of h2
		inUse.erase(a); ++pushGen[a];
		det[h].row = std::move(det[h2].row);
		det.erase(h2);
		if (det[h].row->GetRaw() != det[h].addr) c.fail("C19 %s/%s move-assign: the target row does not hold the source's block; ops: %s", suite, Cfg::name(), trace.c_str());
		say(fmt("dispose %u", h2), "ok"); state();
		c.stats.count(std::string(suite) + ".move_assign");
	}
	// swap of two detached row objects (DataRow::Swap): the handles exchange their blocks
	void opSwap(unsigned h1, unsigned h2) {
		crashNext("swap");
		Det& a = det[h1]; Det& b = det[h2];
		a.row->Swap(*b.row);
		std::swap(a.serial, b.serial); std::swap(a.addr, b.addr);
		if (a.row->GetRaw() != a.addr || b.row->GetRaw() != b.addr) c.fail("C19 %s/%s swap: row objects do not hold each other's blocks; ops: %s", suite, Cfg::name(), trace.c_str());
		say(fmt("swap %u %u", h1, h2), "ok"); state();
		c.stats.count(std::string(suite) + ".swap");
	}
	// the table object itself is moved (DataTable(DataTable&&)): detached rows keep pointing at the same list head
	void opTableMove() {
		crashNext("tmove");
		std::unique_ptr<Table> t2(new Table(std::move(*t)));
		t = std::move(t2);
		s.comment("tmove"); trace += "tmove; ";
		state();
		c.stats.count(std::string(suite) + ".table_moved");
	}
	void opTakeAll() {
		crashNext("takeall");
		size_t before = alloc();
		t->pvDeallocateFreeRaws();
		size_t took = before - alloc();
		say("takeall", fmt("took=%zu", took));
		if (took) { takeNonEmpty = true; c.stats.count(std::string(suite) + ".takeall_nonempty"); }
		state();
	}
	void opClear() {
		crashNext("clear");
		size_t before = alloc(), rows = t->GetCount();
		for (size_t i = 0; i < rows; ++i) inUse.erase(t->mRaws[i]);
		t->Clear();
		say("clear", fmt("took=%zu", before - rows - alloc()));
		state();
	}
	// ---- ~DataRow, whole
	void opDispose(unsigned h) {
		crashNext("dispose");
		Det d = std::move(det[h]); det.erase(h);
		if (!Cfg::ok(*d.row, d.serial)) c.fail("C19 %s/%s contents: detached row serial %llu was overwritten before its destruction; ops: %s", suite, Cfg::name(), (unsigned long long)d.serial, trace.c_str());
		inUse.erase(d.addr); ++pushGen[d.addr];
		if (d.holder == 0) d.row.reset();
		else { std::thread th([&d] { d.row.reset(); }); th.join(); c.stats.count(std::string(suite) + ".dispose_other_thread"); }
		say(fmt("dispose %u", h), "ok"); state();
	}
	// ---- ~DataRow split by hand on virtual thread det[h].holder (>= 1): the statements of DataRow.h:88-101 one at a time
	void opDBegin(unsigned h) {
		crashNext("dbegin");
		Det d = std::move(det[h]); det.erase(h);
		if (!Cfg::ok(*d.row, d.serial)) c.fail("C19 %s/%s contents: detached row serial %llu was overwritten before its destruction; ops: %s", suite, Cfg::name(), (unsigned long long)d.serial, trace.c_str());
		d.row->mColumnList->DestroyRaw(nullptr, d.row->mRaw);
		InProg p; p.handle = h; p.row = std::move(d.row); p.serial = d.serial; p.addr = d.addr;
		prog[d.holder] = std::move(p);
		say(fmt("dbegin %u", h), "ok"); state();
	}
	void opDLoad(unsigned thr) {
		crashNext("dload");
		InProg& p = prog[thr];
		p.head = p.row->mFreeRaws->load(); p.stage = 1; p.genAtLoad = p.head ? pushGen[p.head] : 0;
		say(fmt("dload %u", p.handle), "ok"); state();
	}
	void opDWrite(unsigned thr) {
		crashNext("dwrite");
		InProg& p = prog[thr];
		std::memcpy(p.row->mRaw, &p.head, sizeof(void*)); p.stage = 2;
		say(fmt("dwrite %u", p.handle), "ok"); state();
	}
	bool opDCas(unsigned thr) {
		crashNext("dcas");
		InProg& p = prog[thr];
		void* expected = p.head;
		bool okc = p.row->mFreeRaws->compare_exchange_strong(expected, static_cast<void*>(p.row->mRaw));
		unsigned h = p.handle;
		if (okc) {
			if (p.head && pushGen[p.head] != p.genAtLoad) { aba = true; c.stats.count(std::string(suite) + ".cas_succeeded_on_recycled_head(ABA)"); }
			++pushGen[p.addr]; inUse.erase(p.addr);
			p.row->mRaw = nullptr;	// the block is published; the real destructor of the Row object must not run again
			prog.erase(thr);
		} else { p.stage = 0; casFailed = true; c.stats.count(std::string(suite) + ".cas_failed"); }
		say(fmt("dcas %u", h), okc ? "ok" : "fail"); state();
		return okc;
	}
	void stepProg(unsigned thr) {
		InProg& p = prog[thr];
		if (p.stage == 0) opDLoad(thr); else if (p.stage == 1) opDWrite(thr); else opDCas(thr);
	}
	// ---- finish: complete every destructor, destroy every detached row, take all, compare, destroy the table
	void finish() {
		crashNext("finish: complete destructors, destroy detached rows, take-all, destroy table");
		while (!prog.empty()) stepProg(prog.begin()->first);
		while (!det.empty()) opDispose(det.begin()->first);
		opTakeAll();
		if (alloc() != t->GetCount())
			c.fail("C19 %s/%s reclaimed-once: %zu blocks allocated from the pool but %zu rows in the table after all detached rows were destroyed and reclaimed; ops: %s",
				suite, Cfg::name(), alloc(), t->GetCount(), trace.c_str());
		t.reset();
		checkLedger(c, led, suite, trace);
		checkItems(c, firstSerial, serial, suite, trace);
		g_serial = serial;
		if (takeNonEmpty && reused) c.stats.nontrivial(std::string(suite) + ":" + Cfg::name() + ":" + std::to_string(std::hash<std::string>()(trace)));
		c.stats.sample(std::string(suite) + "/" + Cfg::name() + ": " + trace.substr(0, 600), 6);
	}
};

template<typename Cfg>
static void runSeq(Ctx& c, Rng& rng, Suite& s, unsigned cases, unsigned opsPerCase)
{
	for (unsigned k = 0; k < cases && g_serial + 4096 < maxSerial; ++k) {
		g_cnt.reset();
		unsigned threads = 1 + (unsigned)rng.range(1, 3);
		SeqCase<Cfg> q(c, s, threads, "seq");
		unsigned stallBias = (unsigned)rng.below(4);	// how eager stalled destructors are to continue
		for (unsigned n = 0; n < opsPerCase; ++n) {
			// enabled choices
			std::vector<unsigned> ownerDet, anyDet, freeThr, busyThr;
			for (auto& kv : q.det) { anyDet.push_back(kv.first); if (kv.second.holder == 0) ownerDet.push_back(kv.first); }
			for (unsigned th = 1; th < threads; ++th) (q.prog.count(th) ? busyThr : freeThr).push_back(th);
			unsigned pick = (unsigned)rng.below(100);
			size_t rows = q.t->GetCount();
			if (pick < 22 && q.det.size() + q.prog.size() + rows < 40) q.opNew();
			else if (pick < 34 && !ownerDet.empty()) q.opAdd(ownerDet[rng.below(ownerDet.size())]);
			else if (pick < 44 && rows > 0) q.opExtract(rng.below(rows), rng.chance(1, 2));
			else if (pick < 48 && rows > 0) q.opRemove(rng.below(rows), rng.chance(1, 2));
			else if (pick < 56 && !anyDet.empty()) q.opMove(anyDet[rng.below(anyDet.size())], (unsigned)rng.below(threads));
			else if (pick < 57 && !ownerDet.empty() && q.det.size() + q.prog.size() + rows < 40) q.opMoveAssign(ownerDet[rng.below(ownerDet.size())]);
			else if (pick < 58 && anyDet.size() >= 2) { unsigned a = anyDet[rng.below(anyDet.size())], b = anyDet[rng.below(anyDet.size())]; if (a != b) q.opSwap(a, b); else q.opTableMove(); }
			else if (pick < 68 && !anyDet.empty()) {
				std::vector<unsigned> cand;
				for (auto& kv : q.det) if (!q.prog.count(kv.second.holder)) cand.push_back(kv.first);
				if (!cand.empty()) q.opDispose(cand[rng.below(cand.size())]);
			}
			else if (pick < 78 && !anyDet.empty()) {
				// start a split destructor on a free virtual thread that holds a row
				std::vector<unsigned> cand;
				for (auto& kv : q.det) if (kv.second.holder >= 1 && !q.prog.count(kv.second.holder)) cand.push_back(kv.first);
				if (!cand.empty()) q.opDBegin(cand[rng.below(cand.size())]);
				else if (!busyThr.empty()) q.stepProg(busyThr[rng.below(busyThr.size())]);
			}
			else if (pick < 90 + stallBias && !busyThr.empty()) q.stepProg(busyThr[rng.below(busyThr.size())]);
			else if (pick < 97) q.opTakeAll();
			else if (pick < 98) q.opClear();
			else if (q.det.size() + q.prog.size() + rows < 40) q.opNew();
		}
		q.finish();
		c.stats.count("seq.cases");
		if (q.aba) c.stats.count("seq.cases_with_ABA");
	}
}

// all interleavings of: virtual thread 1 destroying row A, virtual thread 2 destroying row B (4 steps each, more after a
// failed CAS), owner program P (a list of owner steps). DFS over schedules, every complete schedule replayed from scratch.
template<typename Cfg>
static void runInterleavings(Ctx& c, Suite& s, const std::vector<std::string>& ownerProg, unsigned extraRows, uint64_t& schedules,
	unsigned rowsA = 1, unsigned rowsB = 1)
{
	// a schedule is a string over {1,2,o}; DFS: every stack entry is a prefix, replayed from scratch and completed by
	// always taking the first enabled choice, the other enabled choices at every depth below the prefix are pushed
	std::vector<std::string> stack{ "" };
	while (!stack.empty() && g_serial + 64 < maxSerial) {
		std::string prefix = stack.back(); stack.pop_back();
		g_cnt.reset();
		SeqCase<Cfg> q(c, s, 3, "ilv");
		// setup: rowsA rows for virtual thread 1, rowsB rows for virtual thread 2 (destroyed one after the other), plus
		// extraRows rows in the table
		std::vector<unsigned> todo[3];
		for (unsigned i = 0; i < rowsA; ++i) todo[1].push_back(q.opNew());
		for (unsigned i = 0; i < rowsB; ++i) todo[2].push_back(q.opNew());
		for (unsigned i = 0; i < extraRows; ++i) { unsigned h = q.opNew(); q.opAdd(h); }
		for (int th = 1; th <= 2; ++th) for (unsigned h : todo[th]) q.opMove(h, (unsigned)th);
		size_t nextRow[3] = { 0, 0, 0 }; bool busy[3] = { false, false, false }; size_t ownerPc = 0; unsigned lastNew = 0;
		auto enabled = [&](char who) {
			if (who == 'o') return ownerPc < ownerProg.size();
			int th = who - '0';
			return busy[th] || nextRow[th] < todo[th].size();
		};
		auto fire = [&](char who) {
			if (who == 'o') {
				const std::string& op = ownerProg[ownerPc++];
				if (op == "new") lastNew = q.opNew();
				else if (op == "takeall") q.opTakeAll();
				else if (op == "add" && lastNew) { q.opAdd(lastNew); lastNew = 0; }
				else if (op == "extract" && q.t->GetCount()) lastNew = q.opExtract(0, true);
				else if (op == "dispose" && lastNew) { q.opDispose(lastNew); lastNew = 0; }
				else if (op == "remove" && q.t->GetCount()) q.opRemove(0, false);
				return;
			}
			int th = who - '0';
			if (!busy[th]) { q.opDBegin(todo[th][nextRow[th]++]); busy[th] = true; return; }
			bool wasCas = q.prog[th].stage == 2;
			q.stepProg(th);
			if (wasCas && !q.prog.count(th)) busy[th] = false;
		};
		for (char who : prefix) fire(who);
		std::string cur = prefix;
		while (true) {
			std::vector<char> en;
			for (char who : { '1', '2', 'o' }) if (enabled(who)) en.push_back(who);
			if (en.empty()) break;
			for (size_t i = 1; i < en.size(); ++i) stack.push_back(cur + en[i]);
			fire(en[0]); cur += en[0];
		}
		++schedules;
		c.stats.count("ilv.schedules");
		{ std::string pn = fmt("%ux%u,", rowsA, rowsB); for (auto& o : ownerProg) { pn += o; pn += ','; } c.stats.count("ilv.schedules[" + pn + Cfg::name() + "]"); }
		if (q.aba) c.stats.count("ilv.schedules_with_ABA");
		if (q.casFailed) c.stats.count("ilv.schedules_with_failed_CAS");
		c.stats.nontrivial(fmt("ilv:%s:%ux%u:", Cfg::name(), rowsA, rowsB) + cur + ":" + std::to_string(ownerProg.size()) + (ownerProg.empty() ? std::string() : ownerProg.back()));
		q.finish();
	}
}

// ------------------------------------------------------------------ par / storm: real threads

template<typename Row>
struct WorkQueue {
	struct Item { std::unique_ptr<Row> row; uint64_t serial; };
	std::mutex mu; std::condition_variable cv; std::deque<Item> q; bool closed = false;
	void push(Item it) { { std::lock_guard<std::mutex> g(mu); q.push_back(std::move(it)); } cv.notify_one(); }
	void close() { { std::lock_guard<std::mutex> g(mu); closed = true; } cv.notify_all(); }
	bool pop(Item& out) {
		std::unique_lock<std::mutex> g(mu);
		cv.wait(g, [&] { return closed || !q.empty(); });
		if (q.empty()) return false;
		out = std::move(q.front()); q.pop_front();
		return true;
	}
};

struct Shared {
	std::unique_ptr<std::atomic<uint8_t>[]> began;	// per serial: the disposer is about to destroy the row
	std::mutex mu; std::vector<std::string> errors;
	std::atomic<int> gate{0};
	Shared() : began(new std::atomic<uint8_t>[maxSerial]) { for (size_t i = 0; i < maxSerial; ++i) began[i].store(0, std::memory_order_relaxed); }
	void error(const std::string& e) { std::lock_guard<std::mutex> g(mu); if (errors.size() < 8) errors.push_back(e); }
};
static Shared g_shared;

template<typename Cfg>
static void disposerThread(WorkQueue<typename Cfg::Row>* wq, uint64_t seed, bool waitGate)
{
	Rng rng(seed);
	if (waitGate) while (g_shared.gate.load() == 0) std::this_thread::yield();
	typename WorkQueue<typename Cfg::Row>::Item it;
	while (wq->pop(it)) {
		if (!Cfg::ok(*it.row, it.serial)) g_shared.error(fmt("detached row serial %llu was overwritten while a disposer thread held it", (unsigned long long)it.serial));
		if (!waitGate) { unsigned spin = (unsigned)rng.below(4); for (unsigned i = 0; i < spin; ++i) std::this_thread::yield(); }
		g_shared.began[it.serial].store(1);
		it.row.reset();	// ~DataRow on this thread
	}
}

// owner-side bookkeeping of who uses a block
struct Usage {
	enum Kind { table, held, given };
	struct Info { Kind kind; uint64_t serial; };
	std::unordered_map<const void*, Info> m;
};

template<typename Cfg>
static void runPar(Ctx& c, Rng& rng, Suite* sp, unsigned cases, unsigned opsPerCase, unsigned maxThreads)
{
	typedef typename Cfg::Table Table; typedef typename Cfg::Row Row;
	for (unsigned k = 0; k < cases; ++k) {
		g_cnt.reset();
		if (g_serial + opsPerCase + 8 >= maxSerial) break;
		Ledger led; BlockIds ids; Usage use; std::string trace;
		crashBegin((std::string("par/") + Cfg::name() + " (owner history; disposer threads destroy the rows given to them)").c_str());
		uint64_t firstSerial = g_serial, serial = g_serial; unsigned nextHandle = 1;
		unsigned K = (unsigned)rng.range(1, maxThreads);
		std::unique_ptr<Table> t(new Table(Cfg::make(&led)));
		std::vector<std::unique_ptr<WorkQueue<Row>>> wq; std::vector<std::thread> thr;
		for (unsigned i = 0; i < K; ++i) { wq.emplace_back(new WorkQueue<Row>()); thr.emplace_back(disposerThread<Cfg>, wq.back().get(), c.seed * 7919 + k * 31 + i, false); }
		struct Held { std::unique_ptr<Row> row; uint64_t serial; const void* addr; };
		std::map<unsigned, Held> held;
		auto say = [&](const std::string& op, const std::string& res) { crashOp(op); if (sp) { sp->op(op); sp->res(res); } trace += op; trace += "; "; c.stats.evaluations++; };
		auto rowsLine = [&] { if (sp) { sp->op("rows"); sp->res("rows=" + fmtIds(rowIds(*t, ids))); } };
		if (sp) { sp->op(fmt("reset %u", K + 1)); sp->res("ok"); }
		uint64_t given = 0, reusedGiven = 0;
		for (unsigned n = 0; n < opsPerCase; ++n) {
			unsigned pick = (unsigned)rng.below(100);
			size_t rows = t->GetCount();
			if (pick < 35 || (held.empty() && rows == 0)) {
				crashNext("pnew");
				Row r = Cfg::create(*t, serial);
				const void* a = r.GetRaw();
				bool seen = ids.known(a); unsigned blk = ids.get(a);
				auto it = use.m.find(a);
				if (it != use.m.end()) {
					if (it->second.kind != Usage::given)
						c.fail("C19 par/%s reuse-while-in-use: NewRow answered block %u which is %s; owner history: %s", Cfg::name(), blk,
							it->second.kind == Usage::table ? "a row of the table" : "a live detached row held by the owner", trace.c_str());
					else if (!g_shared.began[it->second.serial].load())
						c.fail("C19 par/%s reuse-while-in-use: NewRow answered block %u although the row object (serial %llu) handed to a disposer thread has not been destroyed yet; owner history: %s",
							Cfg::name(), blk, (unsigned long long)it->second.serial, trace.c_str());
					else { ++reusedGiven; c.stats.count("par.block_reused_after_remote_destruction"); }
				}
				use.m[a] = Usage::Info{ Usage::held, serial };
				unsigned h = nextHandle++;
				say(fmt("pnew %u %u", h, blk), fmt("ok %s", seen ? "reuse" : "fresh"));
				held[h] = Held{ std::unique_ptr<Row>(new Row(std::move(r))), serial, a };
				++serial;
			} else if (pick < 55 && !held.empty()) {
				auto it = held.begin(); std::advance(it, rng.below(held.size()));
				use.m[it->second.addr] = Usage::Info{ Usage::table, it->second.serial };
				crashNext("add");
				t->Add(std::move(*it->second.row));
				say(fmt("add %u", it->first), "ok"); rowsLine();
				held.erase(it);
			} else if (pick < 70 && rows > 0) {
				size_t i = rng.below(rows); bool keep = rng.chance(1, 2);
				crashNext("extract");
				Row r = t->Extract(i, keep);
				const void* a = r.GetRaw(); uint64_t ser = Cfg::idOf(r);
				if (!Cfg::ok(r, ser)) c.fail("C19 par/%s contents: extracted row %zu (serial %llu) was overwritten; owner history: %s", Cfg::name(), i, (unsigned long long)ser, trace.c_str());
				unsigned h = nextHandle++;
				say(fmt("extract %zu %d %u", i, keep ? 1 : 0, h), fmt("blk=%u", ids.peek(a))); rowsLine();
				use.m[a] = Usage::Info{ Usage::held, ser };
				held[h] = Held{ std::unique_ptr<Row>(new Row(std::move(r))), ser, a };
			} else if (pick < 75 && rows > 0) {
				size_t i = rng.below(rows); bool keep = rng.chance(1, 2);
				use.m.erase(t->mRaws[i]);
				t->Remove(i, keep);
				say(fmt("remove %zu %d", i, keep ? 1 : 0), "ok"); rowsLine();
			} else if (pick < 95 && !held.empty()) {
				auto it = held.begin(); std::advance(it, rng.below(held.size()));
				unsigned th = (unsigned)rng.below(K);
				use.m[it->second.addr] = Usage::Info{ Usage::given, it->second.serial };
				say(fmt("give %u %u", it->first, th + 1), "ok");
				wq[th]->push(typename WorkQueue<Row>::Item{ std::move(it->second.row), it->second.serial });
				held.erase(it); ++given;
			} else if (!held.empty()) {
				auto it = held.begin(); std::advance(it, rng.below(held.size()));
				if (!Cfg::ok(*it->second.row, it->second.serial)) c.fail("C19 par/%s contents: detached row serial %llu was overwritten; owner history: %s", Cfg::name(), (unsigned long long)it->second.serial, trace.c_str());
				g_shared.began[it->second.serial].store(1);
				use.m[it->second.addr] = Usage::Info{ Usage::given, it->second.serial };
				say(fmt("dispose %u", it->first), "ok");
				held.erase(it);	// ~DataRow on the owner thread
			}
		}
		crashNext("join, take-all, destroy remaining rows and the table");
		for (auto& w : wq) w->close();
		for (auto& th : thr) th.join();
		say("join", "ok");
		// quiescent: everything handed out is either in the table or held by the owner after one more take-all
		t->pvDeallocateFreeRaws();
		say("ptakeall", "ok");
		if (sp) {
			std::string dets;
			for (auto& kv : held) { if (!dets.empty()) dets += ' '; dets += fmt("%u:%u", kv.first, ids.peek(kv.second.addr)); }
			sp->op("st");
			sp->res(fmt("head=- chain=[] rows=%s alloc=%zu det=[%s] inflight=[]", fmtIds(rowIds(*t, ids)).c_str(), t->mRawMemPool.GetAllocateCount(), dets.c_str()));
		}
		if (t->mCrew.GetFreeRaws().load() != nullptr) c.fail("C19 par/%s: free list not empty after take-all with all threads joined; owner history: %s", Cfg::name(), trace.c_str());
		if (t->mRawMemPool.GetAllocateCount() != t->GetCount() + held.size())
			c.fail("C19 par/%s reclaimed-once: %zu blocks allocated from the pool, but %zu table rows + %zu live detached rows after every handed-over row was destroyed and the list taken; owner history: %s",
				Cfg::name(), t->mRawMemPool.GetAllocateCount(), t->GetCount(), held.size(), trace.c_str());
		for (auto& e : g_shared.errors) c.fail("C19 par/%s contents: %s; owner history: %s", Cfg::name(), e.c_str(), trace.c_str());
		g_shared.errors.clear();
		held.clear();	// remaining detached rows die on the owner thread, before the table
		t.reset();
		checkLedger(c, led, "par", trace);
		checkItems(c, firstSerial, serial, "par", trace);
		g_serial = serial;
		c.stats.count("par.cases"); c.stats.count("par.rows_destroyed_on_other_threads", given);
		c.stats.count(fmt("par.threads_%u", K));
		if (given >= 3 && reusedGiven >= 1) c.stats.nontrivial(fmt("par:%s:%u:%llu", Cfg::name(), k, (unsigned long long)std::hash<std::string>()(trace)));
		c.stats.sample(std::string("par/") + Cfg::name() + ": " + trace.substr(0, 500), 9);
	}
}

// storm: threads x rowsPerThread rows pre-distributed, all threads released at once; the owner meanwhile creates, adds
// and extracts rows (every NewRow may take the list while pushes are in flight)
template<typename Cfg>
static void runStorm(Ctx& c, Rng& rng, unsigned threads, unsigned rowsPerThread, unsigned ownerOps)
{
	typedef typename Cfg::Table Table; typedef typename Cfg::Row Row;
	g_cnt.reset();
	size_t total = size_t(threads) * rowsPerThread;
	if (g_serial + 2 * total + ownerOps + 16 >= maxSerial) return;
	Ledger led; Usage use; uint64_t firstSerial = g_serial, serial = g_serial;
	std::string what = fmt("storm %s threads=%u rows/thread=%u ownerOps=%u seed=%llu", Cfg::name(), threads, rowsPerThread, ownerOps, (unsigned long long)c.seed);
	crashBegin(what.c_str());
	std::unique_ptr<Table> t(new Table(Cfg::make(&led)));
	std::vector<std::unique_ptr<WorkQueue<Row>>> wq;
	g_shared.gate.store(0);
	for (unsigned i = 0; i < threads; ++i) {
		wq.emplace_back(new WorkQueue<Row>());
		for (unsigned j = 0; j < rowsPerThread; ++j) {
			bool ext = (j % 3 == 2 && t->GetCount() > 0);	// rows returned by Extract are detached rows as well
			Row r = ext ? t->Extract(t->GetCount() - 1) : t->NewRow();
			if (!ext) { Cfg::fill(r, serial); ++serial; }
			uint64_t ser = Cfg::idOf(r);
			use.m[r.GetRaw()] = Usage::Info{ Usage::given, ser };
			wq.back()->push(typename WorkQueue<Row>::Item{ std::unique_ptr<Row>(new Row(std::move(r))), ser });
			if (j % 3 == 1) { Row extra = t->NewRow(); Cfg::fill(extra, serial); use.m[extra.GetRaw()] = Usage::Info{ Usage::table, serial }; ++serial; t->Add(std::move(extra)); }
		}
		wq.back()->close();
	}
	std::vector<std::thread> thr;
	for (unsigned i = 0; i < threads; ++i) thr.emplace_back(disposerThread<Cfg>, wq[i].get(), c.seed * 104729 + i, true);
	g_shared.gate.store(1);
	std::vector<std::pair<std::unique_ptr<Row>, uint64_t>> held;
	uint64_t reusedGiven = 0;
	for (unsigned n = 0; n < ownerOps; ++n) {
		unsigned pick = (unsigned)rng.below(10);
		if (pick < 5 || (held.empty() && t->GetCount() == 0)) {
			Row r = Cfg::create(*t, serial);
			const void* a = r.GetRaw();
			auto it = use.m.find(a);
			if (it != use.m.end()) {
				if (it->second.kind != Usage::given) c.fail("C19 storm reuse-while-in-use: NewRow answered a block that is %s in %s (owner op %u)", it->second.kind == Usage::table ? "a row of the table" : "a live detached row", what.c_str(), n);
				else if (!g_shared.began[it->second.serial].load()) c.fail("C19 storm reuse-while-in-use: NewRow answered the block of row serial %llu whose row object is still alive on a disposer thread in %s (owner op %u)", (unsigned long long)it->second.serial, what.c_str(), n);
				else ++reusedGiven;
			}
			use.m[a] = Usage::Info{ Usage::held, serial };
			held.emplace_back(std::unique_ptr<Row>(new Row(std::move(r))), serial); ++serial;
		} else if (pick < 8 && !held.empty()) {
			size_t i = rng.below(held.size());
			use.m[held[i].first->GetRaw()] = Usage::Info{ Usage::table, held[i].second };
			t->Add(std::move(*held[i].first));
			held[i] = std::move(held.back()); held.pop_back();
		} else if (t->GetCount() > 0) {
			size_t i = rng.below(t->GetCount());
			Row r = t->Extract(i, rng.chance(1, 2));
			uint64_t ser = Cfg::idOf(r);
			if (!Cfg::ok(r, ser)) c.fail("C19 storm contents: extracted row (serial %llu) was overwritten in %s (owner op %u)", (unsigned long long)ser, what.c_str(), n);
			use.m[r.GetRaw()] = Usage::Info{ Usage::held, ser };
			held.emplace_back(std::unique_ptr<Row>(new Row(std::move(r))), ser);
		}
	}
	for (auto& th : thr) th.join();
	t->pvDeallocateFreeRaws();
	if (t->mRawMemPool.GetAllocateCount() != t->GetCount() + held.size())
		c.fail("C19 storm reclaimed-once: %zu blocks allocated from the pool, but %zu table rows + %zu live detached rows after all %zu handed-over rows were destroyed and the list taken in %s",
			t->mRawMemPool.GetAllocateCount(), t->GetCount(), held.size(), total, what.c_str());
	for (auto& h : held) if (!Cfg::ok(*h.first, h.second)) c.fail("C19 storm contents: live detached row serial %llu was overwritten in %s", (unsigned long long)h.second, what.c_str());
	for (size_t i = 0; i < t->GetCount(); ++i) { auto ref = (*t)[i]; if (!Cfg::ok(ref, Cfg::idOf(ref))) c.fail("C19 storm contents: table row %zu was overwritten in %s", i, what.c_str()); }
	for (auto& e : g_shared.errors) c.fail("C19 storm contents: %s in %s", e.c_str(), what.c_str());
	g_shared.errors.clear();
	held.clear();
	t.reset();
	checkLedger(c, led, "storm", what);
	checkItems(c, firstSerial, serial, "storm", what);
	g_serial = serial;
	c.stats.evaluations++;
	c.stats.count("storm.rounds"); c.stats.count("storm.rows_destroyed_on_other_threads", total);
	c.stats.count("storm.blocks_reused_by_owner_while_threads_ran", reusedGiven);
	if (threads <= 3 && rowsPerThread <= 3) c.stats.count("storm.rounds_small(k<=3)");
	if (reusedGiven) c.stats.nontrivial(fmt("storm:%s:%u:%u:%llu", Cfg::name(), threads, rowsPerThread, (unsigned long long)reusedGiven));
}

// ------------------------------------------------------------------ main

// which table configuration this executable covers (the two are compiled as separate executables to halve compile time)
#if defined(C19_ONLY_DYN)
# define IF_DYN(x) x
# define IF_STAT(x)
#elif defined(C19_ONLY_STAT)
# define IF_DYN(x)
# define IF_STAT(x) x
#else
# define IF_DYN(x) x
# define IF_STAT(x) x
#endif

// ------------------------------------------------------------------ narrow rows (one 1-byte column, no row number)
static constexpr momo::DataColumn<uint8_t> byteCol("b");
struct NarrowDyn {
	static const char* name() { return "narrow-dyn"; }
	typedef momo::DataColumnList<momo::DataColumnTraits<>, LedgerMM, momo::DataItemTraits<LedgerMM>, momo::DataSettings<false>> CL;
	typedef momo::DataTable<CL> Table; typedef Table::Row Row;
	static Table make(Ledger* led) { CL cl{LedgerMM(led)}; cl.Add(byteCol); return Table(std::move(cl)); }
	static void set(Row& r, uint8_t v) { r[byteCol] = v; }
	template<typename R> static uint8_t get(const R& r) { return r[byteCol]; }
};
struct NarrowStruct { uint8_t b; };
struct NarrowStat {
	static const char* name() { return "narrow-stat"; }
	typedef momo::DataColumnListStatic<NarrowStruct, momo::DataColumnInfo<NarrowStruct>, LedgerMM, momo::DataSettings<false>> CL;
	typedef momo::DataTable<CL> Table; typedef Table::Row Row;
	static Table make(Ledger* led) { return Table(CL(LedgerMM(led))); }
	static void set(Row& r, uint8_t v) { r->b = v; }
	template<typename R> static uint8_t get(const R& r) { return r->b; }
};

template<typename Cfg>
static void runNarrow(Ctx& c, Rng& rng, unsigned cases)
{
	typedef typename Cfg::Table Table; typedef typename Cfg::Row Row;
	for (unsigned cs = 0; cs < cases; ++cs) {
		Ledger led;
		std::string what = fmt("%s case %u", Cfg::name(), cs);
		{
			Table t = Cfg::make(&led);
			// what ~DataRow relies on: a disposed row's storage holds the link pointer
			size_t blockSize = t.mRawMemPool.GetBlockSize();
			if (blockSize < sizeof(void*)) c.fail("C19 narrow: %s: the row pool hands out blocks of %zu bytes, but a disposed row's storage must hold the %zu-byte free-list link that ~DataRow writes into it", what.c_str(), blockSize, sizeof(void*));
			unsigned nLive = 40 + (unsigned)rng.below(60), nDet = 30 + (unsigned)rng.below(90), threads = 2 + (unsigned)rng.below(2);
			std::vector<uint8_t> expect;
			std::vector<std::vector<std::unique_ptr<Row>>> hand(threads);
			// interleave live and detached rows so that they are neighbours in the pool's buffers
			unsigned made = 0;
			for (unsigned i = 0; i < nLive + nDet; ++i) {
				bool live = (i % 2 == 0 && expect.size() < nLive) || made >= nDet;
				Row r = t.NewRow(); uint8_t v = (uint8_t)(37 * i + 11); Cfg::set(r, v);
				if (live) { t.Add(std::move(r)); expect.push_back(v); }
				else { hand[made % threads].emplace_back(new Row(std::move(r))); ++made; }
			}
			std::atomic<bool> go(false);
			std::vector<std::thread> ths;
			for (unsigned k = 0; k < threads; ++k)
				ths.emplace_back([&, k] { while (!go.load()) std::this_thread::yield(); for (auto& r : hand[k]) r.reset(); });
			go.store(true);
			// the owner keeps working: new rows (which drains the list and reuses blocks), adds, extracts
			for (unsigned j = 0; j < 60; ++j) {
				Row r = t.NewRow(); uint8_t v = (uint8_t)(91 * j + 5); Cfg::set(r, v);
				if (j % 3 == 0) { t.Add(std::move(r)); expect.push_back(v); }
				else if (j % 3 == 1 && t.GetCount() > 1) { Row e = t.Extract(t.GetCount() - 1); (void)e; expect.pop_back(); }
			}
			for (auto& th : ths) th.join();
			c.stats.evaluations++;
			if (t.GetCount() != expect.size()) c.fail("C19 narrow: %s: table holds %zu rows, %zu expected", what.c_str(), t.GetCount(), expect.size());
			for (size_t i = 0; i < expect.size() && i < t.GetCount(); ++i)
				if (Cfg::get(t[i]) != expect[i]) { c.fail("C19 narrow: %s: live row %zu holds %u, expected %u (its storage was overwritten while rows next to it were disposed of on %u threads)", what.c_str(), i, (unsigned)Cfg::get(t[i]), (unsigned)expect[i], threads); break; }
			Row fresh = t.NewRow();	// drain what the disposers left
			(void)fresh;
		}
		checkLedger(c, led, "narrow", what);
		c.stats.nontrivial(what);
	}
}

int main(int argc, char** argv)
{
	Ctx c = parseArgs(argc, argv);
	g_ctx = &c;
	g_crashFd = open((c.outDir + "/fail.txt").c_str(), O_CREAT | O_TRUNC | O_WRONLY, 0644);
#ifdef C19_TSAN_BUILD
	const bool tsan = true;
#else
	const bool tsan = false;
#endif
#ifdef C19_ONLY_STAT
	const unsigned variant = tsan ? 3 : 2;
#else
	const unsigned variant = tsan ? 1 : 0;
#endif
	Rng rng(c.seed * 0x1000 + 19 + 0x100 * variant);	// the four executables explore different schedules
	{
		Suite s(c, "seq", "model rows");
		unsigned cases = c.thorough ? (tsan ? 2500 : 10000) : (tsan ? 300 : 1000);
		IF_DYN(runSeq<DynCfg>(c, rng, s, cases, 70);)
		IF_STAT(runSeq<StatCfg>(c, rng, s, cases, 70);)
	}
	{
		Suite s(c, "ilv", "model rows");
		uint64_t schedules = 0;
		typedef std::vector<std::string> P;
		std::vector<P> small = { P{ "takeall" }, P{ "new" } };
		std::vector<P> two = { P{ "takeall", "new" }, P{ "new", "takeall" } };
		std::vector<P> three = { P{ "takeall", "new", "dispose" } };	// long enough for ABA: take, reuse, push again
		for (auto& p : small) { IF_DYN(runInterleavings<DynCfg>(c, s, p, 1, schedules);) IF_STAT(runInterleavings<StatCfg>(c, s, p, 0, schedules);) }
		if (!tsan || c.thorough)
			for (auto& p : two) { IF_DYN(runInterleavings<DynCfg>(c, s, p, 1, schedules);) IF_STAT(runInterleavings<StatCfg>(c, s, p, 0, schedules);) }
		if (!tsan && c.thorough && c.seed < 1000000) {
			// the large exhaustive configurations do not depend on the seed: run once (the thorough tier's second seed is >= 10^6)
			IF_DYN(runInterleavings<DynCfg>(c, s, three[0], 0, schedules);)		// ~146k schedules, includes ABA
			IF_DYN(runInterleavings<DynCfg>(c, s, P{}, 0, schedules, 3, 1);)		// 3 rows on one thread against 1 on the other, ~124k
			IF_STAT(runInterleavings<StatCfg>(c, s, three[0], 1, schedules);)
			IF_STAT(runInterleavings<StatCfg>(c, s, P{}, 0, schedules, 2, 1);)
		} else if (!tsan) {
			// more rows per thread (destroyed one after the other by the same thread)
			IF_DYN(runInterleavings<DynCfg>(c, s, P{}, 0, schedules, 2, 1);)
			IF_STAT(runInterleavings<StatCfg>(c, s, P{}, 0, schedules, 2, 1);)
		}
	}
	{
		Suite s(c, "par", "model rows");
		unsigned cases = c.thorough ? (tsan ? 1500 : 3000) : (tsan ? 150 : 300);
		IF_DYN(runPar<DynCfg>(c, rng, &s, cases, 120, c.thorough ? 6 : 3);)
		IF_STAT(runPar<StatCfg>(c, rng, &s, cases, 120, c.thorough ? 6 : 3);)
	}
	{
		// the configurations the property names: k disposer threads x up to 3 rows each, exhaustively over (threads, rows) in 1..3,
		// then arbitrary counts
		unsigned reps = c.thorough ? 600 : 50;
		for (unsigned rep = 0; rep < reps; ++rep)
			for (unsigned th = 1; th <= 3; ++th)
				for (unsigned rows = 1; rows <= 3; ++rows) {
					IF_DYN(runStorm<DynCfg>(c, rng, th, rows, 12);)
					IF_STAT(runStorm<StatCfg>(c, rng, th, rows, 12);)
				}
		unsigned big = c.thorough ? 800 : 60;
		for (unsigned rep = 0; rep < big; ++rep) {
			unsigned th = (unsigned)rng.range(2, c.thorough ? 12 : 8), rows = (unsigned)rng.range(4, c.thorough ? 300 : 120);
			IF_DYN(runStorm<DynCfg>(c, rng, th, rows, rows * 2);)
			IF_STAT(runStorm<StatCfg>(c, rng, th, rows, rows * 2);)
		}
	}
	// rows narrower than a pointer: the destructor of a detached row writes the free-list link (a pointer) into the row's
	// storage, so the row pool's blocks must be able to hold one whatever the columns are; neighbouring blocks are live rows
	IF_DYN(runNarrow<NarrowDyn>(c, rng, c.thorough ? 200 : 30);)
	IF_STAT(runNarrow<NarrowStat>(c, rng, c.thorough ? 200 : 30);)
	if (g_crashFd >= 0) { close(g_crashFd); g_crashFd = -1; if (!c.failures) unlink((c.outDir + "/fail.txt").c_str()); }
	return c.finish();
}
