// C20 correspondence harness, part 6: std::list / std::forward_list / std::set / std::map histories with a base allocator that throws
// bad_alloc: element calls, copy construction, copy assignment and the construction of allocator objects are run with the base
// allocator armed to throw at one of its next requests; the std::allocator twin is made to throw at the same allocate call of the
// same container call; pools with few blocks per buffer, so that many calls reach the base allocator.  See c20_world.h (faulty).
#include "c20_world.h"

using namespace c20;

int main(int argc, char** argv)
{
	Ctx c = parseArgs(argc, argv);
	Rng rng(c.seed * 0x1000 + 28);
	arena().init(c); arena().rng = &rng; installCrashReporter();
	const unsigned steps = c.thorough ? 1200 : 450;
	const unsigned rounds = c.thorough ? 10 : 3;
	for (unsigned round = 0; round < rounds; ++round) {
		std::string r = fmt("f%u_", round);
		runTracedF<KList<int>, Cfg<1, 0>>(c, rng, r + "list_int_a", steps);
		runTracedF<KList<int>, Cfg<3, 2>>(c, rng, r + "list_int_b", steps);
		runTracedF<KList<std::string>, Cfg<2, 0>>(c, rng, r + "list_str", steps);
		runTracedF<KFwd<Big>, Cfg<2, 1>>(c, rng, r + "fwd_big", steps);
		runTracedF<KSet<int, false>, Cfg<1, 16>>(c, rng, r + "set_i", steps);
		runTracedF<KMap<int, std::string, false>, Cfg<4, 0>>(c, rng, r + "map_is", steps);
	}
	dumpTracerStats(c);
	return c.finish();
}
