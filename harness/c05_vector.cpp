// C05 correspondence harness: momo::stdish::vector and vector_intcap<1..5> driven through their std interface
// (see c05_array.h); memory-manager calls are those of a logging std allocator
#include "c05_array.h"
using namespace c05;

template<typename T> using Vec = momo::stdish::vector<T, LogAlloc<T>>;
template<size_t N, typename T> using VecIC = momo::stdish::vector_intcap<N, T, LogAlloc<T>>;

int main(int argc, char** argv)
{
	Ctx c = parseArgs(argc, argv);
	Rng rng(c.seed * 0x1000 + 0x205);
	Budget b = c.thorough ? Budget{ 1000, 220, 300 } : Budget{ 40, 200, 260 };
#if !defined(C05_PART) || C05_PART == 1
	runConfig<VecAdapter<Vec<std::string>>>(c, rng, "v0_string", "", b);
	runConfig<VecAdapter<VecIC<1, std::string>>>(c, rng, "v1_string", "", b);
	runConfig<VecAdapter<VecIC<2, std::string>>>(c, rng, "v2_string", "", b);
	runConfig<VecAdapter<VecIC<3, std::string>>>(c, rng, "v3_string", "", b);
	runConfig<VecAdapter<VecIC<4, std::string>>>(c, rng, "v4_string", "", b);
	runConfig<VecAdapter<VecIC<5, std::string>>>(c, rng, "v5_string", "", b);
#endif
#if !defined(C05_PART) || C05_PART == 2
	runConfig<VecAdapter<Vec<Triv>>>(c, rng, "v0_triv", "", b);
	runConfig<VecAdapter<VecIC<3, Triv>>>(c, rng, "v3_triv", "", b);
	runConfig<VecAdapter<Vec<NM>>>(c, rng, "v0_nm", "", b);
	runConfig<VecAdapter<VecIC<2, NM>>>(c, rng, "v2_nm", "", b);
	runConfig<VecAdapter<Vec<TM>>>(c, rng, "v0_tm", "", b);
	runConfig<VecAdapter<VecIC<5, TM>>>(c, rng, "v5_tm", "", b);
	runConfig<VecAdapter<Vec<CO>>>(c, rng, "v0_co", "", b);
	runConfig<VecAdapter<Vec<SW>>>(c, rng, "v0_sw", "", b);
#endif
	return c.finish();
}
