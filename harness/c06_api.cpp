// C06 correspondence harness, interface completeness part (property level, differential against libstdc++):
// every overload of the interface momo::stdish shares with the std containers that the state-machine harnesses
// (c06_ordered / c06_unordered / c06_hist) do not spell: lvalue / rvalue / convertible-pair insert, piecewise and
// argument-less emplace(_hint), constructor-argument emplace of the sets, key_type&& overloads of try_emplace /
// insert_or_assign / operator[] (incl. "an rvalue key is not moved from when nothing is inserted"), non-const
// equal_range, erase(iterator) vs erase(const_iterator), at() const, heterogeneous lookups (transparent comparator:
// int and a key equivalent to SEVERAL elements; transparent hash / equality), range / initializer-list constructors
// and assignments with and without allocator / comparator / hash / equality / bucket count (stateful functors, so
// that "the functor passed is the functor used" is observable), key_comp / value_comp / hash_function / key_eq,
// max_size, get_allocator, (c)(r)begin / (c)(r)end, the six relational operators, free swap / erase_if, deduction
// guides, node handle operator bool / key() / mapped() writes; unordered: max_load_factor(float), rehash, reserve,
// load_factor, bucket_count, bucket, bucket_size, local iterators against the invariants the standard states;
// vector: data, assign overloads, emplace(pos, args...), insert(pos, first, last) with input and forward iterators,
// shrink_to_fit, reserve, resize(n, v), front / back / at const, reverse iterators, comparison operators.
// Elements are counted (CKey / CVal of common/verif_elems.h): live objects == stored elements at every checkpoint.
// VF_PART=1 ordered, 2 unordered (VF_OPEN=1: the _open variants), 3 vector.
#include "momo/stdish/set.h"
#include "momo/stdish/map.h"
#include "momo/stdish/vector.h"
#include "momo/stdish/unordered_set.h"
#include "momo/stdish/unordered_map.h"
#include "momo/stdish/unordered_multimap.h"
#include "c06_common.h"

#include <set>
#include <map>
#include <unordered_set>
#include <unordered_map>
#include <vector>
#include <tuple>
#include <cmath>

#ifndef VF_PART
#define VF_PART 1
#endif
#ifndef VF_OPEN
#define VF_OPEN 0
#endif

using namespace c06;

// one differential run without a model suite
struct Chk {
	Ctx& c; std::string kind;
	std::deque<std::string> hist;
	uint64_t steps = 0;
	bool diverged = false;
	Chk(Ctx& c_, const std::string& k) : c(c_), kind(k) {}
	std::string tail() const { std::string t; for (auto& h : hist) { t += h; t += " ; "; } return t; }
	void note(const std::string& op, const std::string& momo) {
		hist.push_back(op + " -> " + momo);
		if (hist.size() > 24) hist.pop_front();
		++steps; c.stats.evaluations++;
		size_t sp = op.find(' ');
		c.stats.count("api." + kind + "." + op.substr(0, sp));
	}
	void step(const std::string& op, const std::string& momo, const std::string& stdr) {
		note(op, momo);
		if (momo != stdr) {
			diverged = true;
			c.fail("C06 api/%s step %llu: `%s` momo answered [%s], libstdc++ answered [%s]; last calls: %s", kind.c_str(),
				(unsigned long long)steps, op.c_str(), momo.c_str(), stdr.c_str(), tail().c_str());
		}
	}
	// an invariant the standard states (no libstdc++ value to compare with)
	void inv(bool ok, const std::string& op, const std::string& what) {
		if (ok) return;
		diverged = true;
		c.fail("C06 api/%s step %llu: `%s` violates: %s; last calls: %s", kind.c_str(), (unsigned long long)steps, op.c_str(), what.c_str(), tail().c_str());
	}
};

typedef std::pair<const CKey, CVal> MV;	// value_type of the maps
typedef std::pair<CKey, CVal> MP;			// a convertible pair (insert(P&&))
static MV mkMV(int k, int v) { return MV(std::piecewise_construct, std::forward_as_tuple(k), std::forward_as_tuple(v)); }
static MP mkMP(int k, int v) { return MP(std::piecewise_construct, std::forward_as_tuple(k), std::forward_as_tuple(v)); }
template<typename C> static void destroyAndDefault(C& c) { c.~C(); ::new (static_cast<void*>(&c)) C(); }

static std::string pairsStr(const std::vector<P>& v) { return seqStr(v); }

#if VF_PART == 1
// ================================================================ ordered containers
template<typename C, bool isMap, bool isMulti, bool isMomo>
struct OA {
	typedef typename C::const_iterator CIt;
	typedef typename C::iterator It;
	typedef typename C::value_type V;
	typedef typename C::allocator_type A;
	template<typename I> static P get(I it) { if constexpr (isMap) return P(it->first.k, it->second.v); else return P(it->k, 0); }
	static std::vector<P> contents(const C& c) { std::vector<P> v; for (auto it = c.begin(); it != c.end(); ++it) v.push_back(get(it)); return v; }
	static size_t rank(const C& c, CIt it) { return (size_t)std::distance(c.begin(), it); }
	static CIt at(const C& c, size_t r) { return std::next(c.begin(), (ptrdiff_t)r); }
	static V mk(int k, int v) { if constexpr (isMap) return mkMV(k, v); else { (void)v; return CKey(k); } }
	static std::string ret(const C& c, It it) { return fmt("p=%zu 1", rank(c, it)); }
	static std::string ret(const C& c, const std::pair<It, bool>& r) { return fmt("p=%zu %d", rank(c, r.first), (int)r.second); }

	// plain insertion in every spelling; `how` selects the overload. The mapped value of how 6 / 7 is CVal() = 0.
	static const unsigned insHows = 10;
	static std::string ins(C& c, unsigned how, int k, int v) {
		if constexpr (isMap) {
			switch (how) {
			case 0: { const V x = mkMV(k, v); return ret(c, c.insert(x)); }
			case 1: return ret(c, c.insert(mkMV(k, v)));
			case 2: return ret(c, c.insert(mkMP(k, v)));
			case 3: { const MP x = mkMP(k, v); return ret(c, c.insert(x)); }
			case 4: return ret(c, c.emplace(std::piecewise_construct, std::forward_as_tuple(k / 16, k % 16), std::forward_as_tuple(v / 1000, v % 1000)));
			case 5: return ret(c, c.emplace(std::piecewise_construct, std::forward_as_tuple(k), std::forward_as_tuple(v)));
			case 6: return ret(c, c.emplace(std::piecewise_construct, std::forward_as_tuple(CKey(k)), std::tuple<>()));
			case 7: return ret(c, c.emplace());
			case 8: return ret(c, c.emplace(mkMP(k, v)));
			default: { const CKey key(k); return ret(c, c.emplace(key, CVal(v))); }
			}
		} else {
			switch (how) {
			case 0: case 3: { const CKey x(k); return ret(c, c.insert(x)); }
			case 1: case 2: return ret(c, c.insert(CKey(k)));
			case 4: return ret(c, c.emplace(k / 16, k % 16));
			case 5: case 6: return ret(c, c.emplace(k));
			case 7: return ret(c, c.emplace());
			case 8: return ret(c, c.emplace(CKey(k)));
			default: { const CKey key(k); return ret(c, c.emplace(key)); }
			}
		}
	}
	static std::string insh(C& c, unsigned how, size_t h, int k, int v) {
		CIt hint = at(c, h);
		It it;
		if constexpr (isMap) {
			switch (how) {
			case 0: { const V x = mkMV(k, v); it = c.insert(hint, x); break; }
			case 1: it = c.insert(hint, mkMV(k, v)); break;
			case 2: it = c.insert(hint, mkMP(k, v)); break;
			case 3: { const MP x = mkMP(k, v); it = c.insert(hint, x); break; }
			case 4: it = c.emplace_hint(hint, std::piecewise_construct, std::forward_as_tuple(k / 16, k % 16), std::forward_as_tuple(v / 1000, v % 1000)); break;
			case 5: it = c.emplace_hint(hint, std::piecewise_construct, std::forward_as_tuple(k), std::forward_as_tuple(v)); break;
			case 6: it = c.emplace_hint(hint, std::piecewise_construct, std::forward_as_tuple(CKey(k)), std::tuple<>()); break;
			case 7: it = c.emplace_hint(hint); break;
			case 8: it = c.emplace_hint(hint, mkMP(k, v)); break;
			default: { const CKey key(k); it = c.emplace_hint(hint, key, CVal(v)); break; }
			}
		} else {
			switch (how) {
			case 0: case 3: { const CKey x(k); it = c.insert(hint, x); break; }
			case 1: case 2: it = c.insert(hint, CKey(k)); break;
			case 4: it = c.emplace_hint(hint, k / 16, k % 16); break;
			case 5: case 6: it = c.emplace_hint(hint, k); break;
			case 7: it = c.emplace_hint(hint); break;
			case 8: it = c.emplace_hint(hint, CKey(k)); break;
			default: { const CKey key(k); it = c.emplace_hint(hint, key); break; }
			}
		}
		return fmt("p=%zu", rank(c, it));
	}
	// a mapped constructor that throws inside a piecewise emplace (maps): the key was already built in the buffer / moved into the
	// node; nothing may leak or be destroyed twice (ledger), the container stays as it was
	static std::string insThrow(C& c, unsigned how, size_t h, int k) {
		if constexpr (isMap) {
			try {
				switch (how % 4) {
				case 0: c.emplace(std::piecewise_construct, std::forward_as_tuple(k / 16, k % 16), std::forward_as_tuple(777, 1)); break;
				case 1: c.emplace_hint(at(c, h), std::piecewise_construct, std::forward_as_tuple(k / 16, k % 16), std::forward_as_tuple(777, 1)); break;
				case 2: c.emplace(std::piecewise_construct, std::forward_as_tuple(CKey(k)), std::forward_as_tuple(777, 2)); break;
				default: { if constexpr (!isMulti) { CKey key(k); c.try_emplace(std::move(key), 777, 3); } else c.emplace(std::piecewise_construct, std::forward_as_tuple(k), std::forward_as_tuple(777, 3)); break; }
				}
				return "no exception";
			}
			catch (const std::runtime_error&) { return "E:user"; }
		} else return "";
	}
	// the same calls with an allocation that fails (momo only; libstdc++ allocates at other moments): returns whether it threw
	static bool insAllocFail(C& c, unsigned how, size_t h, int k, int v, long countdown) {
		ledger().failCountdown = countdown; ledger().fired = false;
		bool threw = false;
		try {
			if constexpr (isMap) {
				switch (how % 3) {
				case 0: c.emplace(std::piecewise_construct, std::forward_as_tuple(k / 16, k % 16), std::forward_as_tuple(v / 1000, v % 1000)); break;
				case 1: c.emplace_hint(at(c, h), std::piecewise_construct, std::forward_as_tuple(k / 16, k % 16), std::forward_as_tuple(v / 1000, v % 1000)); break;
				default: c.emplace(std::piecewise_construct, std::forward_as_tuple(k), std::forward_as_tuple(v)); break;
				}
			} else {
				if (how % 2) c.emplace(k / 16, k % 16); else c.emplace_hint(at(c, h), k / 16, k % 16);
			}
		}
		catch (const std::bad_alloc&) { threw = true; }
		ledger().failCountdown = -1;
		return threw;
	}
	// key / value a call of `how` really inserts
	static int insKey(unsigned how, int k) { return how == 7 ? 0 : k; }
	static int insVal(unsigned how, int v) { return (how == 6 || how == 7) ? 0 : v; }

	// std::map only: try_emplace / insert_or_assign / operator[] / at, with lvalue and rvalue keys; reports the moved flags
	static std::string tryE(C& c, unsigned how, size_t h, int k, int v) {
		if constexpr (isMap && !isMulti) {
			CKey key(k); CVal val(v);
			std::string r;
			switch (how) {
			case 0: r = ret(c, c.try_emplace(std::move(key), std::move(val))); break;
			case 1: r = fmt("p=%zu", rank(c, c.try_emplace(at(c, h), std::move(key), std::move(val)))); break;
			case 2: r = ret(c, c.try_emplace(static_cast<const CKey&>(key), v / 1000, v % 1000)); break;
			case 3: r = fmt("p=%zu", rank(c, c.try_emplace(at(c, h), static_cast<const CKey&>(key), v / 1000, v % 1000))); break;
			case 4: r = ret(c, c.try_emplace(std::move(key))); break;
			default: r = fmt("p=%zu", rank(c, c.try_emplace(at(c, h), std::move(key)))); break;
			}
			return r + fmt(" keymoved=%d valmoved=%d", key.moved, val.moved);
		} else return "";
	}
	static std::string ioa(C& c, unsigned how, size_t h, int k, int v) {
		if constexpr (isMap && !isMulti) {
			CKey key(k); CVal val(v);
			std::string r;
			switch (how) {
			case 0: r = ret(c, c.insert_or_assign(std::move(key), std::move(val))); break;
			case 1: r = fmt("p=%zu", rank(c, c.insert_or_assign(at(c, h), std::move(key), std::move(val)))); break;
			case 2: r = ret(c, c.insert_or_assign(static_cast<const CKey&>(key), static_cast<const CVal&>(val))); break;
			default: r = fmt("p=%zu", rank(c, c.insert_or_assign(at(c, h), static_cast<const CKey&>(key), static_cast<const CVal&>(val)))); break;
			}
			return r + fmt(" keymoved=%d", key.moved);
		} else return "";
	}
	static std::string idx(C& c, unsigned how, int k, int v) {
		if constexpr (isMap && !isMulti) {
			CKey key(k);
			switch (how) {
			case 0: { int x = static_cast<const CVal&>(c[std::move(key)]).v; return fmt("v=%d keymoved=%d", x, key.moved); }
			case 1: { c[std::move(key)] = CVal(v); return fmt("ok keymoved=%d", key.moved); }
			case 2: { int x = static_cast<const CVal&>(c[static_cast<const CKey&>(key)]).v; return fmt("v=%d", x); }
			default: { c[static_cast<const CKey&>(key)] = CVal(v); return "ok"; }
			}
		} else return "";
	}
	static std::string atKey(C& c, bool viaConst, int k) {
		if constexpr (isMap && !isMulti) {
			try {
				const CKey key(k);
				if (viaConst) { const C& cc = c; return fmt("v=%d", cc.at(key).v); }
				return fmt("v=%d", c.at(key).v);
			}
			catch (const std::out_of_range&) { return "E:out_of_range"; }
		} else return "";
	}

	// lookups. keyForm 0: key_type, 1: int (heterogeneous), 2: Decade (heterogeneous, equivalent to several elements).
	// nonConst: through the non-const overloads (iterator results)
	template<typename K> static std::string lookupWith(C& c, bool nonConst, const K& key, bool multiMatch) {
		const C& cc = c;
		size_t lo, hi, elo, ehi, cnt, f; bool has;
		if (nonConst) {
			lo = rank(c, c.lower_bound(key)); hi = rank(c, c.upper_bound(key));
			auto r = c.equal_range(key); elo = rank(c, r.first); ehi = rank(c, r.second);
			f = rank(c, c.find(key));
		} else {
			lo = rank(c, cc.lower_bound(key)); hi = rank(c, cc.upper_bound(key));
			auto r = cc.equal_range(key); elo = rank(c, r.first); ehi = rank(c, r.second);
			f = rank(c, cc.find(key));
		}
		cnt = cc.count(key);
		if constexpr (isMomo) has = cc.contains(key); else has = cc.find(key) != cc.end();
		// find: which of several equivalent elements is unspecified for a key that matches several elements
		std::string fs = multiMatch ? std::string(f == c.size() ? (lo == hi ? "end" : "END-BUT-PRESENT") : (f >= lo && f < hi ? "inrange" : "OUTSIDE")) : fmt("%zu", f);
		return fmt("lb=%zu ub=%zu eqr=%zu,%zu cnt=%zu has=%d find=%s", lo, hi, elo, ehi, cnt, (int)has, fs.c_str());
	}
	static std::string lookup(C& c, unsigned keyForm, bool nonConst, int k) {
		switch (keyForm) {
		case 0: { const CKey key(k); return lookupWith(c, nonConst, key, false); }
		case 1: return lookupWith(c, nonConst, k, false);
		default: return lookupWith(c, nonConst, Decade{ k / 10 }, true);
		}
	}
	static std::string erp(C& c, bool viaIterator, size_t r) {
		if (viaIterator) { It it = c.begin(); std::advance(it, (ptrdiff_t)r); return fmt("p=%zu", rank(c, c.erase(it))); }
		CIt it = at(c, r); return fmt("p=%zu", rank(c, c.erase(it)));
	}
	static std::string erk(C& c, int k) { const CKey key(k); return fmt("n=%zu", (size_t)c.erase(key)); }
	static std::string erif(C& c, int m, int r) {
		size_t n = 0;
		if constexpr (isMomo) {
			if constexpr (isMap) n = erase_if(c, [m, r](typename C::const_reference ref) { return ref.first.k % m == r; });
			else n = erase_if(c, [m, r](const CKey& x) { return x.k % m == r; });
		} else { for (auto it = c.begin(); it != c.end(); ) { if (get(it).first % m == r) { it = c.erase(it); ++n; } else ++it; } }
		return fmt("n=%zu", n);
	}
	static std::string observers(const C& c, int k1, int k2, int v1, int v2) {
		CKey a(k1), b(k2);
		V x = mk(k1, v1), y = mk(k2, v2);
		auto kc = c.key_comp(); auto vc = c.value_comp();
		return fmt("key_comp=%d desc=%d id=%d value_comp=%d alloc=%d max_size_ok=%d", (int)kc(a, b), (int)kc.desc, kc.id, (int)vc(x, y),
			c.get_allocator().id, (int)(c.max_size() >= c.size() && c.max_size() > 1000));
	}
	// the reverse traversals and cbegin / cend
	static std::string reverse(C& c) {
		const C& cc = c;
		std::vector<P> r1, r2, r3, f2;
		for (auto it = c.rbegin(); it != c.rend(); ++it) r1.push_back(get(it));
		for (auto it = cc.rbegin(); it != cc.rend(); ++it) r2.push_back(get(it));
		for (auto it = c.crbegin(); it != c.crend(); ++it) r3.push_back(get(it));
		for (auto it = c.cbegin(); it != c.cend(); ++it) f2.push_back(get(it));
		std::vector<P> f = contents(c), rr = f; std::reverse(rr.begin(), rr.end());
		if (r1 != rr || r2 != rr || r3 != rr || f2 != f) return "reverse / const traversals disagree with begin()..end(): " + pairsStr(r1) + " | " + pairsStr(r2) + " | " + pairsStr(r3) + " | " + pairsStr(f2);
		return pairsStr(r1);
	}
	static std::string cmp(const C& a, const C& b) {
		return fmt("c=%d %d %d %d %d %d", (int)(a == b), (int)(a != b), (int)(a < b), (int)(a <= b), (int)(a > b), (int)(a >= b));
	}
	// node handle: extract by key, test it, rewrite key (and mapped) through the handle, insert into `dst`
	static std::string node(C& src, C& dst, int k, int k2, int v2) {
		const CKey key(k);
		auto nh = src.extract(key);
		bool full = static_cast<bool>(nh);
		if (full != !nh.empty()) return "operator bool contradicts empty()";
		if (!full) return "empty";
		std::string r;
		if constexpr (isMap) { r = fmt("%d:%d", nh.key().k, nh.mapped().v); nh.key() = CKey(k2); nh.mapped() = CVal(v2); }
		else { r = fmt("%d", nh.value().k); nh.value() = CKey(k2); }
		if constexpr (isMulti) { auto it = dst.insert(std::move(nh)); r += fmt(" -> p=%zu", rank(dst, it)); }
		else {
			auto res = dst.insert(std::move(nh));
			r += fmt(" -> p=%zu %d node=%s", rank(dst, res.position), (int)res.inserted, res.node.empty() ? "empty" : "kept");
			if (!res.node.empty()) { if constexpr (isMap) r += fmt(" %d:%d", res.node.key().k, res.node.mapped().v); else r += fmt(" %d", res.node.value().k); }
		}
		return r;
	}

	// (re)construction of `c` from a range / initializer list in every constructor form; iterKind selects the iterator category
	template<typename I> static void construct(C& c, unsigned form, I first, I last, const LessCK& comp, const A& alloc) {
		c.~C();
		switch (form) {
		case 0: ::new (static_cast<void*>(&c)) C(first, last); break;
		case 1: ::new (static_cast<void*>(&c)) C(first, last, alloc); break;
		case 2: ::new (static_cast<void*>(&c)) C(first, last, comp); break;
		default: ::new (static_cast<void*>(&c)) C(first, last, comp, alloc); break;
		}
	}
	static void constructList(C& c, unsigned form, const std::vector<P>& ys, const LessCK& comp, const A& alloc) {
		c.~C();
		void* p = static_cast<void*>(&c);
#define VF_IL0 {}
#define VF_IL1 { mk(ys[0].first, ys[0].second) }
#define VF_IL2 { mk(ys[0].first, ys[0].second), mk(ys[1].first, ys[1].second) }
#define VF_IL3 { mk(ys[0].first, ys[0].second), mk(ys[1].first, ys[1].second), mk(ys[2].first, ys[2].second) }
#define VF_CTOR(IL) switch (form) { \
		case 0: ::new (p) C(std::initializer_list<V> IL); break; \
		case 1: ::new (p) C(std::initializer_list<V> IL, alloc); break; \
		case 2: ::new (p) C(std::initializer_list<V> IL, comp); break; \
		default: ::new (p) C(std::initializer_list<V> IL, comp, alloc); break; }
		switch (ys.size()) {
		case 0: VF_CTOR(VF_IL0) break;
		case 1: VF_CTOR(VF_IL1) break;
		case 2: VF_CTOR(VF_IL2) break;
		default: VF_CTOR(VF_IL3) break;
		}
#undef VF_CTOR
	}
	static void constructEmpty(C& c, unsigned form, const LessCK& comp, const A& alloc) {
		c.~C();
		void* p = static_cast<void*>(&c);
		switch (form) {
		case 0: ::new (p) C(); break;
		case 1: ::new (p) C(alloc); break;
		case 2: ::new (p) C(comp); break;
		default: ::new (p) C(comp, alloc); break;
		}
	}
	static void assignList(C& c, const std::vector<P>& ys) {
		switch (ys.size()) {
		case 0: c = std::initializer_list<V> VF_IL0; break;
		case 1: c = VF_IL1; break;
		case 2: c = VF_IL2; break;
		default: c = VF_IL3; break;
		}
	}
	static void insertList(C& c, const std::vector<P>& ys) {
		switch (ys.size()) {
		case 0: c.insert(std::initializer_list<V> VF_IL0); break;
		case 1: c.insert(VF_IL1); break;
		case 2: c.insert(VF_IL2); break;
		default: c.insert(VF_IL3); break;
		}
	}
#undef VF_IL0
#undef VF_IL1
#undef VF_IL2
#undef VF_IL3
	// range operation with the chosen iterator kind: 0 vector iterators over value_type, 1 input iterators by reference,
	// 2 input iterators by value (momo: element-wise path), 3 (maps) vector iterators over pair<Key, Mapped>
	template<typename F> static void withRange(const std::vector<P>& ys, unsigned iterKind, F&& f) {
		if (isMap && iterKind == 3) {
			if constexpr (isMap) { std::vector<MP> src; src.reserve(ys.size()); for (auto& y : ys) src.push_back(mkMP(y.first, y.second)); f(src.begin(), src.end()); }
			return;
		}
		std::vector<V> src; src.reserve(ys.size());
		for (auto& y : ys) src.push_back(mk(y.first, y.second));
		switch (iterKind) {
		case 1: f(InputIt<V>(src, 0), InputIt<V>(src, src.size())); break;
		case 2: f(InputIt<V, true>(src, 0), InputIt<V, true>(src, src.size())); break;
		default: f(src.begin(), src.end()); break;
		}
	}
	static std::string state(const C& c) {
		return fmt("%s desc=%d cmpid=%d alloc=%d", pairsStr(contents(c)).c_str(), (int)c.key_comp().desc, c.key_comp().id, c.get_allocator().id);
	}
};

template<typename M, typename S, bool isMap, bool isMulti>
static void runOrderedApi(Ctx& c, Rng& rng, const char* kind, unsigned runs, unsigned opsPerRun)
{
	typedef OA<M, isMap, isMulti, true> OM;
	typedef OA<S, isMap, isMulti, false> OS;
	typedef typename M::allocator_type AM;
	typedef typename S::allocator_type AS;
	for (unsigned run = 0; run < runs; ++run) {
		Chk R(c, kind);
		static const int ranges[] = { 8, 40, 200, 1500 };
		int range = ranges[rng.below(4)];
		static const size_t targets[] = { 0, 12, 50, 200 };
		size_t target = targets[rng.below(4)];
		{
			M ma, mb; S sa, sb;
			int nextV = 1;
			// both containers of a side start with the same (possibly descending) stateful comparator
			{
				bool desc = rng.chance(1, 3); unsigned form = (unsigned)rng.below(4);
				LessCK comp(desc && form >= 2, form >= 2 ? 7 : 0);
				OM::constructEmpty(ma, form, comp, AM(5)); OS::constructEmpty(sa, form, comp, AS(5));
				OM::constructEmpty(mb, form, comp, AM(5)); OS::constructEmpty(sb, form, comp, AS(5));
				R.step(fmt("cempty form=%u desc=%d", form, (int)desc), OM::state(ma), OS::state(sa));
			}
			auto someItems = [&](size_t maxN) { std::vector<P> ys; size_t cnt = (size_t)rng.below(maxN + 1); for (size_t i = 0; i < cnt; ++i) ys.push_back(P((int)rng.below((uint64_t)range), isMap ? nextV++ : 0)); return ys; };
			for (unsigned step = 0; step < opsPerRun && !R.diverged; ++step) {
				bool grow = ma.size() < target && rng.chance(2, 3);
				bool onA = grow || rng.chance(3, 4);
				M& m = onA ? ma : mb; S& st = onA ? sa : sb;
				M& mo = onA ? mb : ma; S& so = onA ? sb : sa;
				const char* cn = onA ? "a" : "b";
				size_t n = m.size();
				int k = rng.chance(1, 5) ? (int)rng.below((uint64_t)range + 3) : (int)rng.below((uint64_t)range);
				int v = nextV++;
				unsigned op = (unsigned)rng.below(104);	// 99..103: throwing emplace / allocation fault / clear
				if (grow) op = (unsigned)rng.below(30);
				else if (n > target + 40 && op < 30) op = 60 + op % 8;
				if (op < 16) { unsigned how = (unsigned)rng.below(OM::insHows); R.step(fmt("ins%u %s %d %d", how, cn, k, v), OM::ins(m, how, k, v), OS::ins(st, how, k, v)); }
				else if (op < 30) { unsigned how = (unsigned)rng.below(OM::insHows); size_t h = (size_t)rng.below(n + 1); R.step(fmt("insh%u %s %zu %d %d", how, cn, h, k, v), OM::insh(m, how, h, k, v), OS::insh(st, how, h, k, v)); }
				else if (op < 42 && isMap && !isMulti) {
					size_t h = (size_t)rng.below(n + 1);
					switch (rng.below(4)) {
					case 0: { unsigned how = (unsigned)rng.below(6); R.step(fmt("try%u %s %zu %d %d", how, cn, h, k, v), OM::tryE(m, how, h, k, v), OS::tryE(st, how, h, k, v)); break; }
					case 1: { unsigned how = (unsigned)rng.below(4); R.step(fmt("ioa%u %s %zu %d %d", how, cn, h, k, v), OM::ioa(m, how, h, k, v), OS::ioa(st, how, h, k, v)); break; }
					case 2: { unsigned how = (unsigned)rng.below(4); R.step(fmt("idx%u %s %d %d", how, cn, k, v), OM::idx(m, how, k, v), OS::idx(st, how, k, v)); break; }
					default: { bool vc = rng.chance(1, 2); std::string a = OM::atKey(m, vc, k); if (a == "E:out_of_range") c.stats.count(vc ? "api.at_const.out_of_range" : "api.at.out_of_range"); R.step(fmt("at%d %s %d", (int)vc, cn, k), a, OS::atKey(st, vc, k)); break; }
					}
				}
				else if (op < 60) {
					unsigned kf = (unsigned)rng.below(3); bool nc = rng.chance(1, 2);
					std::string a = OM::lookup(m, kf, nc, k);
					if (kf == 2 && a.find("cnt=0") == std::string::npos && a.find("cnt=1 ") == std::string::npos) c.stats.count("api.hetero_key_matches_several");
					R.step(fmt("look kf=%u nc=%d %s %d", kf, (int)nc, cn, k), a, OS::lookup(st, kf, nc, k));
				}
				else if (op < 64) { if (n == 0) continue; size_t r = (size_t)rng.below(n); bool vi = rng.chance(1, 2); R.step(fmt("erp it=%d %s %zu", (int)vi, cn, r), OM::erp(m, vi, r), OS::erp(st, vi, r)); }
				else if (op < 67) R.step(fmt("erk %s %d", cn, k), OM::erk(m, k), OS::erk(st, k));
				else if (op < 69) { int mm = 2 + (int)rng.below(4), rr = (int)rng.below((uint64_t)mm); R.step(fmt("erif %s %d %d", cn, mm, rr), OM::erif(m, mm, rr), OS::erif(st, mm, rr)); }
				else if (op < 72) { int k2 = (int)rng.below((uint64_t)range); R.step(fmt("obs %s %d %d", cn, k, k2), OM::observers(m, k, k2, v, v + 1), OS::observers(st, k, k2, v, v + 1)); }
				else if (op < 75) R.step(fmt("rev %s", cn), OM::reverse(m), OS::reverse(st));
				else if (op < 79) R.step("cmp", OM::cmp(ma, mb), OS::cmp(sa, sb));
				else if (op < 81) { if (rng.chance(1, 2)) { swap(ma, mb); swap(sa, sb); } else { ma.swap(mb); sa.swap(sb); } R.step("swap", OM::state(ma) + " | " + OM::state(mb), OS::state(sa) + " | " + OS::state(sb)); }
				else if (op < 85) {
					if (!(m.get_allocator() == mo.get_allocator())) continue;	// a node may only enter a container with an equal allocator
					int pk = k;
					if (!mo.empty() && rng.chance(3, 4)) { auto lay = OS::contents(so); pk = lay[rng.below(lay.size())].first; }
					int k2 = (int)rng.below((uint64_t)range);
					const char* on = onA ? "b" : "a";
					R.step(fmt("node %s->%s %d newkey=%d", on, cn, pk, k2), OM::node(mo, m, pk, k2, v), OS::node(so, st, pk, k2, v));
				}
				else if (op < 89) {
					// construction from a range: the comparator / allocator given must be the ones in use afterwards
					auto ys = someItems(rng.chance(1, 4) ? 60 : 5);
					unsigned form = (unsigned)rng.below(4), ik = (unsigned)rng.below(isMap ? 4 : 3);
					LessCK comp(form >= 2 && rng.chance(1, 2), form >= 2 ? 9 : 0);
					OM::withRange(ys, ik, [&](auto f, auto l) { OM::construct(m, form, f, l, comp, AM(6)); });
					OS::withRange(ys, ik, [&](auto f, auto l) { OS::construct(st, form, f, l, comp, AS(6)); });
					R.step(fmt("crange form=%u iter=%u desc=%d %s %s", form, ik, (int)comp.desc, cn, pairsStr(ys).c_str()), OM::state(m), OS::state(st));
					// the other container follows (same ordering on both is not required by any call below, but keeps the runs comparable)
				}
				else if (op < 92) {
					auto ys = someItems(3); unsigned form = (unsigned)rng.below(4);
					LessCK comp(form >= 2 && rng.chance(1, 2), form >= 2 ? 11 : 0);
					OM::constructList(m, form, ys, comp, AM(4)); OS::constructList(st, form, ys, comp, AS(4));
					R.step(fmt("clist form=%u desc=%d %s %s", form, (int)comp.desc, cn, pairsStr(ys).c_str()), OM::state(m), OS::state(st));
				}
				else if (op < 95) {
					auto ys = someItems(rng.chance(1, 4) ? 40 : 5); unsigned ik = (unsigned)rng.below(isMap ? 4 : 3);
					OM::withRange(ys, ik, [&](auto f, auto l) { m.insert(f, l); });
					OS::withRange(ys, ik, [&](auto f, auto l) { st.insert(f, l); });
					R.step(fmt("insr iter=%u %s %s", ik, cn, pairsStr(ys).c_str()), OM::state(m), OS::state(st));
				}
				else if (op < 97) { auto ys = someItems(3); OM::insertList(m, ys); OS::insertList(st, ys); R.step(fmt("insl %s %s", cn, pairsStr(ys).c_str()), OM::state(m), OS::state(st)); }
				else if (op < 99) { auto ys = someItems(3); OM::assignList(m, ys); OS::assignList(st, ys); R.step(fmt("asl %s %s", cn, pairsStr(ys).c_str()), OM::state(m), OS::state(st)); }
				else if (rng.chance(2, 3)) {
					size_t h = (size_t)rng.below(n + 1); unsigned how = (unsigned)rng.below(12);
					// (a key that is absent: whether the mapped object is constructed at all for a present key is unspecified - libstdc++ does, momo does not)
					if (isMap && rng.chance(1, 2)) { int fk = range + 100 + (int)rng.below(1000); if (!isMulti) while (st.count(CKey(fk))) ++fk; c.stats.count("api.emplace_mapped_ctor_throws"); R.step(fmt("insthrow%u %s %zu %d", how % 4, cn, h, fk), OM::insThrow(m, how, h, fk), OS::insThrow(st, how, h, fk)); }
					else {
						// allocation fault during an emplace that builds its key / element first: strong guarantee ([associative.reqmts.except]) and no leak
						std::string before = OM::state(m);
						bool threw = OM::insAllocFail(m, how, h, k, v, (long)rng.below(2));
						std::string opn = fmt("insallocfail%u %s %zu %d %d", how % 3, cn, h, k, v);
						R.note(opn, threw ? "E:bad_alloc" : "inserted / found");
						c.stats.count(threw ? "api.emplace_alloc_fault_thrown" : "api.emplace_alloc_fault_not_reached");
						if (threw) R.inv(OM::state(m) == before, opn, "bad_alloc from emplace changed the container: " + before + " -> " + OM::state(m));
						else OS::insAllocFail(st, how, h, k, v, -1);
					}
				}
				else { m.clear(); st.clear(); R.step(fmt("clear %s", cn), OM::state(m), OS::state(st)); }
				if (R.diverged) break;
				// contents and the element ledger after every call
				std::string ca = pairsStr(OM::contents(ma)), cb = pairsStr(OM::contents(mb));
				if (ca != pairsStr(OS::contents(sa)) || cb != pairsStr(OS::contents(sb))) {
					R.inv(false, "contents", fmt("contents differ: momo a [%s] b [%s], libstdc++ a [%s] b [%s]", ca.c_str(), cb.c_str(), pairsStr(OS::contents(sa)).c_str(), pairsStr(OS::contents(sb)).c_str()));
					break;
				}
				long expectKeys = (long)(ma.size() + mb.size() + sa.size() + sb.size());
				if (cc().liveKeys != expectKeys || (isMap && cc().liveVals != expectKeys))
					R.inv(false, "ledger", fmt("%ld keys / %ld mapped objects alive, %ld elements stored in the four containers", cc().liveKeys, cc().liveVals, expectKeys));
			}
			if (!R.diverged) c.stats.nontrivial(fmt("api_%s run=%u range=%d target=%zu", kind, run, range, target));
			if (run < 1) c.stats.sample(fmt("api_%s: %s", kind, R.tail().substr(0, 300).c_str()));
		}
		if (cc().liveKeys != 0 || cc().liveVals != 0) { c.fail("C06 api/%s: %ld keys / %ld mapped objects alive after all containers were destroyed; last calls: %s", kind, cc().liveKeys, cc().liveVals, R.tail().c_str()); cc() = CountedCtl(); }
	}
}

// deduction guides (C++17): the deduced type is checked at compile time, the contents at run time
static void deductionOrdered(Ctx& c)
{
	std::vector<int> ks = { 5, 1, 9, 1 };
	std::vector<std::pair<int, int>> ps = { { 5, 50 }, { 1, 10 }, { 9, 90 }, { 1, 11 } };
	momo::stdish::set s1(ks.begin(), ks.end());
	static_assert(std::is_same<decltype(s1), momo::stdish::set<int>>::value, "set(It, It)");
	momo::stdish::set s2(ks.begin(), ks.end(), std::greater<int>());
	static_assert(std::is_same<decltype(s2), momo::stdish::set<int, std::greater<int>>>::value, "set(It, It, Less)");
	momo::stdish::set s3{ 3, 1, 2 };
	static_assert(std::is_same<decltype(s3), momo::stdish::set<int>>::value, "set(il)");
	momo::stdish::set s4({ 3, 1, 2 }, std::greater<int>());
	static_assert(std::is_same<decltype(s4), momo::stdish::set<int, std::greater<int>>>::value, "set(il, Less)");
	momo::stdish::multiset ms1(ks.begin(), ks.end());
	static_assert(std::is_same<decltype(ms1), momo::stdish::multiset<int>>::value, "multiset(It, It)");
	momo::stdish::multiset ms2({ 3, 1, 3 });	// not `multiset ms2{ 3, 1, 3 }`: g++ 12 skips the initializer-list phase of CTAD for classes that only INHERIT their constructors (multiset, map, multimap, the _open variants); std::multiset{3, 1, 3} deduces
	static_assert(std::is_same<decltype(ms2), momo::stdish::multiset<int>>::value, "multiset(il)");
	momo::stdish::map m1(ps.begin(), ps.end());
	static_assert(std::is_same<decltype(m1), momo::stdish::map<int, int>>::value, "map(It, It)");
	momo::stdish::map m2(ps.begin(), ps.end(), std::greater<int>());
	static_assert(std::is_same<decltype(m2), momo::stdish::map<int, int, std::greater<int>>>::value, "map(It, It, Less)");
	momo::stdish::map m3({ std::pair<const int, int>(2, 20), std::pair<const int, int>(1, 10) });
	static_assert(std::is_same<decltype(m3), momo::stdish::map<int, int>>::value, "map(il)");
	momo::stdish::map m4({ std::pair<int, int>(2, 20), std::pair<int, int>(1, 10) }, std::greater<int>());
	static_assert(std::is_same<decltype(m4), momo::stdish::map<int, int, std::greater<int>>>::value, "map(il, Less)");
	momo::stdish::multimap mm1(ps.begin(), ps.end());
	static_assert(std::is_same<decltype(mm1), momo::stdish::multimap<int, int>>::value, "multimap(It, It)");
	auto seq = [](const auto& cont) { std::string r; for (auto it = cont.begin(); it != cont.end(); ++it) { if constexpr (std::is_same<typename std::decay<decltype(cont)>::type::key_type, typename std::decay<decltype(cont)>::type::value_type>::value) r += fmt(" %d", *it); else r += fmt(" %d:%d", it->first, it->second); } return r; };
	auto expect = [&](const char* what, const std::string& got, const std::string& want) {
		c.stats.evaluations++;
		if (got != want) c.fail("C06 api/deduction %s: contents [%s], std container built the same way holds [%s]", what, got.c_str(), want.c_str());
	};
	expect("set(It,It)", seq(s1), seq(std::set(ks.begin(), ks.end())));
	expect("set(It,It,greater)", seq(s2), seq(std::set(ks.begin(), ks.end(), std::greater<int>())));
	expect("set{il}", seq(s3), seq(std::set{ 3, 1, 2 }));
	expect("set(il,greater)", seq(s4), seq(std::set({ 3, 1, 2 }, std::greater<int>())));
	expect("multiset(It,It)", seq(ms1), seq(std::multiset(ks.begin(), ks.end())));
	expect("multiset{il}", seq(ms2), seq(std::multiset{ 3, 1, 3 }));
	expect("map(It,It)", seq(m1), seq(std::map<int, int>(ps.begin(), ps.end())));
	expect("map(It,It,greater)", seq(m2), seq(std::map<int, int, std::greater<int>>(ps.begin(), ps.end())));
	expect("map{il}", seq(m3), seq(std::map<int, int>{ { 2, 20 }, { 1, 10 } }));
	expect("map(il,greater)", seq(m4), seq(std::map<int, int, std::greater<int>>{ { 2, 20 }, { 1, 10 } }));
	expect("multimap(It,It)", seq(mm1), seq(std::multimap<int, int>(ps.begin(), ps.end())));
	c.stats.count("api.deduction_guides_ordered", 11);
}
#endif // VF_PART == 1

#include "c06_api_uno.h"
#include "c06_api_vec.h"

int main(int argc, char** argv)
{
	Ctx c = parseArgs(argc, argv);
	Rng rng(c.seed * 0x1000 + 0x6B0 + VF_PART + VF_OPEN * 0x10);
#if VF_PART == 1
	unsigned runs = c.thorough ? 160 : 30, ops = c.thorough ? 600 : 400;
	{
		typedef SA<CKey, true, true, true> A;
		{ typedef momo::stdish::set<CKey, LessCK, A> M; typedef std::set<CKey, LessCK, A> S; runOrderedApi<M, S, false, false>(c, rng, "set", runs, ops); }
		{ typedef momo::stdish::multiset<CKey, LessCK, A> M; typedef std::multiset<CKey, LessCK, A> S; runOrderedApi<M, S, false, true>(c, rng, "mset", runs, ops); }
	}
	{
		typedef SA<MV, true, true, true> A;
		{ typedef momo::stdish::map<CKey, CVal, LessCK, A> M; typedef std::map<CKey, CVal, LessCK, A> S; runOrderedApi<M, S, true, false>(c, rng, "map", runs, ops); }
		{ typedef momo::stdish::multimap<CKey, CVal, LessCK, A> M; typedef std::multimap<CKey, CVal, LessCK, A> S; runOrderedApi<M, S, true, true>(c, rng, "mmap", runs, ops); }
	}
	deductionOrdered(c);
#endif
#if VF_PART == 2
	runUnorderedAll(c, rng);
#endif
#if VF_PART == 3
	runVectorAll(c, rng);
#endif
	if (!ledger().live.empty()) c.fail("C06 api part %d: %zu blocks of the stateful allocator still live at the end", VF_PART, ledger().live.size());
	if (ledger().bad) c.fail("C06 api part %d: %zu bad deallocations, first: %s", VF_PART, ledger().bad, ledger().firstBad.c_str());
	return c.finish();
}
