// C20 correspondence harness (std::map / std::set), part 3: std::map / set / multimap / multiset with momo's pool allocator against twins with
// std::allocator and against the Lean model (allocator level and container level).  See c20_alloc.h / c20_world.h.
#include "c20_world.h"

using namespace c20;

int main(int argc, char** argv)
{
	Ctx c = parseArgs(argc, argv);
	Rng rng(c.seed * 0x1000 + 22);
	arena().init(c); arena().rng = &rng; installCrashReporter();
	const unsigned steps = c.thorough ? 1500 : 500;
	const unsigned rounds = c.thorough ? 12 : 4;
	for (unsigned round = 0; round < rounds; ++round) {
		std::string r = fmt("r%u_", round);
		runTraced<KMap<int, int, false>, Cfg<32, 16>>(c, rng, r + "map_ii_a", steps);
		runTraced<KMap<int, int, false>, Cfg<1, 0>>(c, rng, r + "map_ii_b", steps);
		runTraced<KMap<int, std::string, false>, Cfg<12, 1>>(c, rng, r + "map_is_a", steps);
		runTraced<KMap<int, Big, false>, Cfg<14, 16>>(c, rng, r + "map_ib_a", steps);
		runTraced<KSet<int, false>, Cfg<15, 0>>(c, rng, r + "set_i_a", steps);
		runTraced<KSet<int, false>, Cfg<2, 16>>(c, rng, r + "set_i_b", steps);
		runTraced<KSet<Big, false>, Cfg<17, 3>>(c, rng, r + "set_b_a", steps);
		runTraced<KSet<std::string, false>, Cfg<18, 16>>(c, rng, r + "set_s_a", steps);
		// the momo allocator itself, without the reporting shell
		runPlain<KMap<int, int, false>, Cfg<momo::MemPoolConst::defaultBlockCount, momo::MemPoolConst::defaultCachedFreeBlockCount>>(c, rng, r + "map_ii", steps);
	}
	dumpTracerStats(c);
	return c.finish();
}
