// C20 correspondence harness, shared part: std node containers with momo::stdish::unsynchronized_pool_allocator
// against twins with std::allocator, and against the Lean model `Momo.PoolAlloc` (engine "poolalloc").
//
//   * Arena / CountAlloc<T>   the TBaseAllocator: a counting std-style allocator that carves blocks from a
//                             fixed arena (reproducible addresses), keeps the ledger (address -> size, pool tag),
//                             logs every call, poisons everything it does not currently lend out (ASan)
//   * LogA<T, Cfg>            the allocator the containers are instantiated with: a forwarding shell around the
//                             real unsynchronized_pool_allocator<T, CountAlloc<unsigned char>, MemPoolParams<N, C>>
//                             that reports every constructor / copy / rebinding conversion / assignment /
//                             destructor / allocate / deallocate to the tracer (nothing else is changed; the
//                             `plain` suites use the momo allocator directly, without the shell)
//   * Tracer                  writes the allocator-level suite (`*.trace`, model mode=trace: every pointer and every
//                             base-allocator call is predicted) and collects, per container call, what was
//                             allocated / freed for the container-level suite (`*.cont`, model mode=cont)
//   * World<Kind, Cfg>        random histories over several containers of one kind and allocator objects:
//                             construction (own pool / shared allocator / copy / move), assignment (copy / move),
//                             swap, splice / merge / node handles, insert / erase / clear / rehash, destruction
// Property-level oracles (FAIL lines): contents equal to the twin after every call; every deallocate goes to
// the kind of memory the block came from; every element's node block is held by its container and comes from
// the pool the container's allocator points to now; GetAllocateCount = number of nodes of the containers
// attached; use_count = number of containers and allocator objects attached; a copy has a fresh pool, a moved
// / swapped container the pool of its source; when a pool dies nothing requested for it is outstanding, at the
// end of a history the ledger is empty; the base allocator never sees an unknown pointer or a wrong size.
#pragma once
#include "momo/stdish/pool_allocator.h"
#include "common/verif_common.h"

#include <sys/mman.h>
#include <signal.h>
#include <unistd.h>
#include <algorithm>
#include <functional>
#include <map>
#include <memory>
#include <new>
#include <optional>
#include <set>
#include <string>
#include <vector>

#if defined(__SANITIZE_ADDRESS__)
# include <sanitizer/asan_interface.h>
# define VF_POISON(p, n) __asan_poison_memory_region((p), (n))
# define VF_UNPOISON(p, n) __asan_unpoison_memory_region((p), (n))
#else
# define VF_POISON(p, n) ((void)0)
# define VF_UNPOISON(p, n) ((void)0)
#endif

namespace c20 {
using namespace vf;

// ------------------------------------------------------------------------------------------------ arena

struct BaseBlock { size_t size; int pid; };

struct Arena {
	static constexpr uintptr_t wantedBase = 0x300000000000ull;	// fixed, so that op files are reproducible
	static constexpr size_t arenaSize = size_t{256} << 20;
	uint8_t* mem = nullptr;
	Ctx* c = nullptr;
	Rng* rng = nullptr;
	std::map<size_t, BaseBlock> live;	// ledger: offset -> block
	size_t liveBytes = 0;
	size_t bump = 0;
	int curPid = -1;					// pool on whose behalf the base allocator is being called
	struct Ev { char kind; size_t off, size; };
	std::vector<Ev> events;				// calls since the last takeEvents()
	uint64_t allocs = 0, frees = 0;
	// fault injection: the base allocator throws bad_alloc on the (failCountdown+1)-th request from now (-1 = never) - also inside
	// select_on_container_copy_construction (it allocates the control block of the new allocator object; it used to be declared
	// noexcept, so that a throw there was std::terminate: repaired in /repo, this is the regression test - the terminate handler
	// installed by installCrashReporter turns a std::terminate into a FAIL line)
	long failCountdown = -1;
	int inSelectOnCopy = 0;
	uint64_t faultsFired = 0;
	void armFail(long k) { failCountdown = k; }
	void disarm() { failCountdown = -1; }

	void init(Ctx& ctx) {
		c = &ctx;
		void* p = mmap((void*)wantedBase, arenaSize, PROT_READ | PROT_WRITE,
			MAP_PRIVATE | MAP_ANONYMOUS | MAP_NORESERVE | MAP_FIXED_NOREPLACE, -1, 0);
		if (p == MAP_FAILED || p != (void*)wantedBase) {
			if (p != MAP_FAILED) munmap(p, arenaSize);
			p = mmap(nullptr, arenaSize, PROT_READ | PROT_WRITE, MAP_PRIVATE | MAP_ANONYMOUS | MAP_NORESERVE, -1, 0);
			if (p == MAP_FAILED) { fprintf(stderr, "cannot map the arena\n"); exit(3); }
		}
		mem = (uint8_t*)p;
		VF_POISON(mem, arenaSize);
	}
	long long rel(const void* p) const { return (long long)((const uint8_t*)p - mem); }
	bool inside(const void* p) const { return (const uint8_t*)p >= mem && (const uint8_t*)p < mem + arenaSize; }
	// a history starts with an empty ledger: start carving again from a random 16-aligned offset
	void restart() {
		if (!live.empty()) return;
		bump = 16 * (size_t)rng->below(64);
	}
	void* allocate(size_t size) {
		if (failCountdown >= 0 && failCountdown-- == 0) { failCountdown = -1; ++faultsFired; throw std::bad_alloc(); }
		// 16-aligned (alignof(max_align_t)), random gap so that every residue modulo blockSize * blockCount occurs
		size_t off = bump + 16 * (size_t)rng->below(8);
		off = (off + 15) / 16 * 16;
		if (off + size + 64 > arenaSize) { c->fail("harness: arena exhausted"); throw std::bad_alloc(); }
		bump = off + size;
		live[off] = BaseBlock{ size, curPid };
		liveBytes += size;
		++allocs;
		VF_UNPOISON(mem + off, size);
		memset(mem + off, 0xCD, size);
		events.push_back(Ev{ 'M', off, size });
		return mem + off;
	}
	void deallocate(void* ptr, size_t size) noexcept {
		long long r = rel(ptr);
		++frees;
		auto it = (r >= 0) ? live.find((size_t)r) : live.end();
		if (it == live.end() || it->second.size != size) {
			c->fail("C20 ledger: base allocator deallocate(arena+%lld, %zu) matches no outstanding allocate", r, size);
			return;
		}
		events.push_back(Ev{ 'F', it->first, size });
		liveBytes -= size;
		memset(mem + it->first, 0xDD, size);
		VF_POISON(mem + it->first, size);
		live.erase(it);
	}
	std::vector<Ev> takeEvents() { std::vector<Ev> e; e.swap(events); return e; }
	size_t countOf(int pid) const { size_t n = 0; for (auto& kv : live) if (kv.second.pid == pid) ++n; return n; }
	void retag(const std::vector<Ev>& evs, int pid) { for (auto& e : evs) if (e.kind == 'M') { auto it = live.find(e.off); if (it != live.end()) it->second.pid = pid; } }
};

inline Arena& arena() { static Arena a; return a; }

// the counting std-style allocator used as TBaseAllocator
template<typename T>
struct CountAlloc {
	typedef T value_type;
	Arena* ar;
	CountAlloc() noexcept : ar(&arena()) {}
	explicit CountAlloc(Arena* a) noexcept : ar(a) {}
	template<typename U> CountAlloc(const CountAlloc<U>& o) noexcept : ar(o.ar) {}
	T* allocate(size_t n) { return static_cast<T*>(ar->allocate(n * sizeof(T))); }
	void deallocate(T* p, size_t n) noexcept { ar->deallocate(p, n * sizeof(T)); }
	template<typename U> bool operator==(const CountAlloc<U>& o) const noexcept { return ar == o.ar; }
	template<typename U> bool operator!=(const CountAlloc<U>& o) const noexcept { return ar != o.ar; }
};
typedef CountAlloc<unsigned char> BaseA;

// ------------------------------------------------------------------------------------------------ configuration

template<size_t tN, size_t tC>
struct Cfg {
	static const size_t N = tN, C = tC;
	typedef momo::MemPoolParams<tN, tC> Params;
	template<typename T> using Inner = momo::stdish::unsynchronized_pool_allocator<T, BaseA, Params>;
	typedef typename Inner<int>::MemPool MemPool;
	// the control block of allocate_shared<MemPool>(BaseA, ...) (pool_allocator.h:77)
	typedef std::_Sp_counted_ptr_inplace<MemPool, BaseA, __gnu_cxx::__default_lock_policy> ControlBlock;
	static std::string modelLine(const char* mode) {
		return fmt("model poolalloc mode=%s N=%zu C=%zu cb=%zu arena=%llu maxalign=%zu", mode, tN, tC, sizeof(ControlBlock),
			(unsigned long long)(uintptr_t)arena().mem, (size_t)momo::internal::UIntConst::maxAlignment);
	}
};

// ------------------------------------------------------------------------------------------------ tracer

struct UserBlock { size_t tsize, talign, n; int pid; bool viaPool; int owner; };

struct Act { bool isAlloc; long long id; size_t tsize, talign, n; std::vector<size_t> bufs; bool failed = false; };

struct PoolView { size_t S, A, ac; long rc; };

struct Tracer {
	Ctx* c = nullptr;
	Suite* trace = nullptr;			// allocator-level suite (may be null)
	std::string suiteName;
	std::string what;				// description of the running history (for FAIL lines)
	std::map<const void*, int> poolIds;	// live MemPool object -> pool id
	int nextPid = 0;
	std::map<long long, UserBlock> blocks;	// live blocks handed out by allocate
	std::vector<Act> acts;			// allocations / deallocations of the running container call
	struct NewPool { int pid; size_t tsize, talign; long long cb; };
	std::vector<NewPool> newPools;	// pools created during the running container call
	int curOwner = -1;				// entity on whose behalf the running container call allocates
	bool f13Case = false;			// dedicated case for the open finding F13
	bool provenanceFired = false;
	std::string lastOps;			// tail of the history, for FAIL lines
	uint64_t reparams = 0, poolDeaths = 0, rawArrays = 0, rawSingles = 0, poolAllocs = 0, buffersGot = 0, buffersBack = 0, cacheFlushes = 0;
	// fault layer: ordinal of the allocate call (within the running container call) that threw, -1 = none
	int allocCalls = 0, failedCall = -1;
	uint64_t failedAllocsPool = 0, failedAllocsRaw = 0, failedAllocsReparam = 0, failedNews = 0, selectOnCopyCaught = 0;
	std::string firstMisaligned;	// first pointer of an over-aligned value type that is not aligned for the type (finding F29)
	size_t failedNewSize = 0, failedNewAlign = 0;	// value type of the allocator object whose constructor threw last
	// over-aligned value types (alignof(T) > UIntConst::maxAlignment): the allocator only promises maxAlignment
	uint64_t overalignedAllocs = 0, overalignedMisaligned = 0;

	void reset(Ctx& ctx, Suite* tr, const std::string& name) {
		c = &ctx; trace = tr; suiteName = name; poolIds.clear(); nextPid = 0; blocks.clear(); acts.clear(); newPools.clear();
		curOwner = -1; provenanceFired = false; lastOps.clear();
	}
	int pidOf(const void* pool) const { auto it = poolIds.find(pool); return it == poolIds.end() ? -1 : it->second; }
	void note(const std::string& op) { lastOps += op; lastOps += "; "; if (lastOps.size() > 900) lastOps.erase(0, lastOps.size() - 700); }
	static std::string evStr(const std::vector<Arena::Ev>& evs) {
		std::string s;
		for (auto& e : evs) { if (!s.empty()) s += ' '; s += fmt("%c%zu:%zu", e.kind, e.off, e.size); }
		return s.empty() ? "-" : s;
	}
	std::string ledgerStr() const { return fmt("L=%zu/%zu", arena().live.size(), arena().liveBytes); }
	static std::string poolStr(int pid, const PoolView& v) { return fmt("p%d par=%zu/%zu ac=%zu rc=%ld", pid, v.S, v.A, v.ac, v.rc); }
	void line(const std::string& op, const std::string& res) { if (trace && !provenanceFired) { trace->op(op); trace->res(res); } }
	// the block that contains an address (an element lives inside its node block)
	std::map<long long, UserBlock>::const_iterator blockContaining(const void* p) const {
		long long r = arena().rel(p);
		auto it = blocks.upper_bound(r);
		if (it == blocks.begin()) return blocks.end();
		--it;
		return (r < it->first + (long long)(it->second.tsize * it->second.n)) ? it : blocks.end();
	}
};

inline Tracer& tracer() { static Tracer t; return t; }

// when the process dies (assertion of momo / libstdc++, sanitizer report) say which history was running: the concrete failing input
inline void reportDeath() {
	static bool done = false; if (done) return; done = true;
	Tracer& t = tracer();
	fprintf(stdout, "\nC20 crash: the process died while running history [%s]; last calls: %s\n", t.suiteName.c_str(), t.lastOps.c_str());
	fflush(stdout);
}
inline void onAbortSignal(int sig) { reportDeath(); signal(sig, SIG_DFL); raise(sig); }
// std::terminate (e.g. an exception leaving a noexcept function of the allocator) is a property-level failure, not just a crash
inline void onTerminate() {
	Tracer& t = tracer();
	if (t.c) t.c->fail("C20 terminate: std::terminate was called%s while running history [%s]; last calls: %s",
		arena().inSelectOnCopy > 0 ? " inside select_on_container_copy_construction (bad_alloc of the base allocator must be catchable there)" : "",
		t.suiteName.c_str(), t.lastOps.c_str());
	fflush(stdout);
	abort();
}
inline void installCrashReporter() {
	signal(SIGABRT, onAbortSignal); signal(SIGSEGV, onAbortSignal);
	std::set_terminate(onTerminate);
#if defined(__SANITIZE_ADDRESS__)
	__sanitizer_set_death_callback(reportDeath);
#endif
}

// ------------------------------------------------------------------------------------------------ the reporting shell

template<typename T, typename TCfg>
class LogA {
public:
	typedef T value_type;
	typedef TCfg Cfg;
	typedef typename TCfg::template Inner<T> Inner;
	typedef typename Inner::propagate_on_container_copy_assignment propagate_on_container_copy_assignment;
	typedef typename Inner::propagate_on_container_move_assignment propagate_on_container_move_assignment;
	typedef typename Inner::propagate_on_container_swap propagate_on_container_swap;
	template<typename U> struct rebind { typedef LogA<U, TCfg> other; };

	LogA() : LogA(BaseA(&arena())) {}
	explicit LogA(const BaseA& base) {
		Arena& ar = arena(); int saved = ar.curPid; ar.curPid = -2;
		ar.takeEvents();
		try { ::new (static_cast<void*>(&mStore)) Inner(base); }
		catch (const std::bad_alloc&) {
			// allocate_shared (pool_allocator.h:77) threw: there is no allocator object and no pool
			Tracer& t = tracer();
			auto evs = ar.takeEvents(); ar.curPid = saved;
			if (!evs.empty()) t.c->fail("C20 fault: %s the constructor that threw bad_alloc made %zu successful base allocator calls", t.suiteName.c_str(), evs.size());
			++t.failedNews; t.failedNewSize = sizeof(T); t.failedNewAlign = alignof(T);
			t.line(fmt("anewfail %zu %zu", sizeof(T), alignof(T)), "E:bad_alloc | - | " + t.ledgerStr());
			throw;
		}
		registerNew(ar, saved);
	}
	LogA(const LogA& o) { ::new (static_cast<void*>(&mStore)) Inner(o.inner()); logCopy(); }
	template<typename U> LogA(const LogA<U, TCfg>& o) { ::new (static_cast<void*>(&mStore)) Inner(static_cast<Inner>(o.inner())); logCopy(); }
	~LogA() { dropInner(); }
	LogA& operator=(const LogA& o) {
		if (this == &o) return *this;
		// operator= of the momo allocator (88-92): the shared_ptr is copy-assigned = the new pool gains an owner, the old one loses one
		Tracer& t = tracer(); Arena& ar = arena();
		int oldPid = t.pidOf(pool()), newPid = t.pidOf(o.pool());
		PoolView oldV = view(), newV = o.view();
		const void* oldPool = pool();
		int saved = ar.curPid; ar.curPid = oldPid;
		ar.takeEvents();
		inner() = o.inner();
		auto evs = ar.takeEvents();
		ar.curPid = saved;
		PoolView nv = newV; nv.rc = newV.rc + 1;
		t.line(fmt("acopy %d", newPid), t.poolStr(newPid, nv) + " | - | " + ledgerBefore(evs));
		if (oldPid == newPid) t.line(fmt("adrop %d", oldPid), t.poolStr(oldPid, newV) + " | - | " + t.ledgerStr());
		else if (oldV.rc >= 2) {
			if (!evs.empty()) t.c->fail("C20 assignment: %s dropping one of %ld owners of pool %d made base allocator calls", t.suiteName.c_str(), oldV.rc, oldPid);
			PoolView ov = oldV; ov.rc = oldV.rc - 1;
			t.line(fmt("adrop %d", oldPid), t.poolStr(oldPid, ov) + " | - | " + t.ledgerStr());
		} else reportDeath(oldPid, oldPool, evs);
		return *this;
	}

	LogA select_on_container_copy_construction() const {
		Arena& ar = arena(); int saved = ar.curPid; ar.curPid = -2;
		ar.takeEvents();
		++ar.inSelectOnCopy;
		try {
			LogA r(Adopt{}, *this);
			--ar.inSelectOnCopy;
			r.registerNew(ar, saved);
			return r;
		} catch (const std::bad_alloc&) {
			// the control block of the new allocator object could not be allocated: a catchable bad_alloc, nothing has changed
			--ar.inSelectOnCopy;
			Tracer& t = tracer();
			auto evs = ar.takeEvents(); ar.curPid = saved;
			if (!evs.empty()) t.c->fail("C20 fault: %s select_on_container_copy_construction that threw bad_alloc made %zu successful base allocator calls", t.suiteName.c_str(), evs.size());
			++t.failedNews; ++t.selectOnCopyCaught; t.failedNewSize = sizeof(T); t.failedNewAlign = alignof(T);
			t.line(fmt("anewfail %zu %zu", sizeof(T), alignof(T)), "E:bad_alloc | - | " + t.ledgerStr());
			throw;
		}
	}

	T* allocate(size_t n) {
		Tracer& t = tracer(); Arena& ar = arena();
		int pid = t.pidOf(pool());
		size_t acBefore = inner().mMemPool->GetAllocateCount();
		size_t Sb = inner().mMemPool->GetBlockSize(), Ab = inner().mMemPool->GetBlockAlignment();
		int saved = ar.curPid; ar.curPid = pid;
		ar.takeEvents();
		int ordinal = t.allocCalls++;
		T* p;
		try { p = inner().allocate(n); }
		catch (const std::bad_alloc&) {
			// the base allocator threw: a failed allocate changes nothing, except that an idle pool asked for a single object
			// of another type has already been re-parameterised (pool_allocator.h:119) and has returned its buffers
			auto evs = ar.takeEvents();
			ar.curPid = saved;
			auto par = Inner::pvGetMemPoolParams();
			bool equal = par.GetBlockSize() == Sb && par.GetBlockAlignment() == Ab;
			bool poolPath = n == 1 && (equal || acBefore == 0);
			bool reparam = n == 1 && !equal && acBefore == 0;
			size_t Se = reparam ? par.GetBlockSize() : Sb, Ae = reparam ? par.GetBlockAlignment() : Ab;
			PoolView v = view();
			if (v.ac != acBefore || v.S != Se || v.A != Ae || t.pidOf(pool()) != pid)
				t.c->fail("C20 fault: %s allocate(%zu) of a %zu/%zu type threw bad_alloc and left the pool with par=%zu/%zu ac=%zu (before: par=%zu/%zu ac=%zu, expected par=%zu/%zu); history: %s",
					t.suiteName.c_str(), n, sizeof(T), alignof(T), v.S, v.A, v.ac, Sb, Ab, acBefore, Se, Ae, t.lastOps.c_str());
			for (auto& e : evs) {
				if (e.kind == 'M') t.c->fail("C20 fault: %s allocate(%zu) threw bad_alloc but kept %zu bytes of the base allocator (arena+%zu): lost block; history: %s", t.suiteName.c_str(), n, e.size, e.off, t.lastOps.c_str());
				else if (!reparam) t.c->fail("C20 fault: %s allocate(%zu) threw bad_alloc and returned a buffer (arena+%zu) although the pool was not re-parameterised", t.suiteName.c_str(), n, e.off);
				else ++t.buffersBack;
			}
			if (poolPath) ++t.failedAllocsPool; else ++t.failedAllocsRaw;
			if (reparam) ++t.failedAllocsReparam;
			t.failedCall = ordinal;
			Act a{ true, -1, sizeof(T), alignof(T), n, {}, true };
			t.acts.push_back(a);
			t.line(fmt("allocfail %d %zu %zu %zu", pid, sizeof(T), alignof(T), n), "E:bad_alloc " + t.poolStr(pid, v) + " | " + t.evStr(evs) + " | " + t.ledgerStr());
			throw;
		}
		auto evs = ar.takeEvents();
		ar.curPid = saved;
		size_t acAfter = inner().mMemPool->GetAllocateCount();
		bool viaPool = acAfter == acBefore + 1;
		bool reparam = viaPool && (Sb != inner().mMemPool->GetBlockSize() || Ab != inner().mMemPool->GetBlockAlignment());
		long long id = ar.rel(p);
		if (!ar.inside(p)) t.c->fail("C20 allocate: %s pointer outside every block of the base allocator", t.suiteName.c_str());
		// what the allocator promises is min(alignof(T), UIntConst::maxAlignment) (ObjectAlignmenter, MemManagerStd): for over-aligned
		// value types a pointer that is not aligned for T is the open known finding F29: counted here, reported once per run (dumpTracerStats)
		const size_t promised = alignof(T) < (size_t)momo::internal::UIntConst::maxAlignment ? alignof(T) : (size_t)momo::internal::UIntConst::maxAlignment;
		if ((uintptr_t)p % promised != 0) t.c->fail("C20 allocate: %s pointer arena+%lld not aligned to %zu", t.suiteName.c_str(), id, promised);
		if (alignof(T) > promised) {
			++t.overalignedAllocs;
			if ((uintptr_t)p % alignof(T) != 0) {
				if (t.overalignedMisaligned++ == 0)
					t.firstMisaligned = fmt("%s: allocate(%zu) for a value type of %zu bytes with alignas(%zu) (%s) returned arena+%lld = %p", t.suiteName.c_str(), n, sizeof(T), alignof(T),
						viaPool ? "pool block" : "memory manager block", id, (void*)p);
			}
		}
		if (t.blocks.count(id)) t.c->fail("C20 allocate: %s returned arena+%lld which is still live", t.suiteName.c_str(), id);
		t.blocks[id] = UserBlock{ sizeof(T), alignof(T), n, pid, viaPool, t.curOwner };
		Act a{ true, id, sizeof(T), alignof(T), n, {} };
		std::string answers;
		for (auto& e : evs) if (e.kind == 'M') { answers += fmt(" %zu", e.off); if (viaPool) { a.bufs.push_back(e.off); ++t.buffersGot; } }
		for (auto& e : evs) if (e.kind == 'F' && viaPool) ++t.buffersBack;
		t.acts.push_back(a);
		if (viaPool) ++t.poolAllocs; else if (n == 1) ++t.rawSingles; else ++t.rawArrays;
		if (reparam) ++t.reparams;
		t.line(fmt("alloc %d %zu %zu %zu%s", pid, sizeof(T), alignof(T), n, answers.c_str()),
			fmt("%lld ", id) + t.poolStr(pid, view()) + " | " + t.evStr(evs) + " | " + t.ledgerStr());
		return p;
	}

	void deallocate(T* p, size_t n) noexcept {
		Tracer& t = tracer(); Arena& ar = arena();
		int pid = t.pidOf(pool());
		long long id = ar.rel(p);
		auto it = t.blocks.find(id);
		// the route the allocator is about to take (pool_allocator.h:131)
		bool toPool = n == 1 && Inner::pvIsEqual(Inner::pvGetMemPoolParams(), inner().mMemPool->GetParams());
		if (it == t.blocks.end()) { t.c->fail("C20 deallocate: %s arena+%lld is not a live block (%s)", t.suiteName.c_str(), id, t.lastOps.c_str()); return; }
		UserBlock b = it->second;
		if (b.pid != pid || b.n != n || b.tsize != sizeof(T))
			t.c->fail("C20 deallocate: %s block arena+%lld allocated through pool %d as %zu x %zu, freed through pool %d as %zu x %zu (%s)",
				t.suiteName.c_str(), id, b.pid, b.n, b.tsize, pid, n, sizeof(T), t.lastOps.c_str());
		if (toPool != b.viaPool) {
			// "every node is freed into the pool or raw memory it came from" is about to be violated
			const char* kind = b.viaPool ? "poolIntoRaw" : "rawIntoPool";
			if (t.f13Case && !b.viaPool)
				t.c->fail("C20 known-F13 shared-pool-two-node-types: %s: a block of the memory manager (arena+%lld, %zu bytes) is handed to MemPool::Deallocate; history: %s",
					t.suiteName.c_str(), id, b.tsize, t.lastOps.c_str());
			else
				t.c->fail("C20 provenance: %s: %s: block arena+%lld (%zu x %zu bytes, pool %d) goes to the other kind of memory; history: %s",
					t.suiteName.c_str(), kind, id, b.n, b.tsize, pid, t.lastOps.c_str());
			t.line(fmt("dealloc %d %zu %zu %zu %lld", pid, sizeof(T), alignof(T), n, id), fmt("ERR %s %lld", kind, id));
			t.provenanceFired = true;
			t.acts.push_back(Act{ false, id, sizeof(T), alignof(T), n, {} });
			// keep the process alive: give the block back where it came from
			int saved = ar.curPid; ar.curPid = pid;
			if (b.viaPool) inner().mMemPool->Deallocate(p);
			else inner().mMemPool->GetMemManager().Deallocate(p, n * sizeof(T));
			ar.curPid = saved;
			ar.takeEvents();
			t.blocks.erase(id);
			return;
		}
		size_t acBefore = inner().mMemPool->GetAllocateCount();
		int saved = ar.curPid; ar.curPid = pid;
		ar.takeEvents();
		// the block stops being the caller's now
		inner().deallocate(p, n);
		auto evs = ar.takeEvents();
		ar.curPid = saved;
		size_t acAfter = inner().mMemPool->GetAllocateCount();
		if ((acAfter + 1 == acBefore) != toPool)
			t.c->fail("C20 deallocate: %s block arena+%lld: GetAllocateCount %zu -> %zu although the call %s go to the pool", t.suiteName.c_str(), id, acBefore, acAfter, toPool ? "must" : "must not");
		t.blocks.erase(id);
		Act a{ false, id, sizeof(T), alignof(T), n, {} };
		for (auto& e : evs) if (e.kind == 'F' && toPool) { a.bufs.push_back(e.off); ++t.buffersBack; }
		if (toPool && evs.size() > 1) ++t.cacheFlushes;
		t.acts.push_back(a);
		t.line(fmt("dealloc %d %zu %zu %zu %lld", pid, sizeof(T), alignof(T), n, id),
			"ok " + t.poolStr(pid, view()) + " | " + t.evStr(evs) + " | " + t.ledgerStr());
	}

	template<typename V, typename... Args> void construct(V* p, Args&&... args) { inner().construct(p, std::forward<Args>(args)...); }
	template<typename V> void destroy(V* p) noexcept { inner().destroy(p); }

	friend bool operator==(const LogA& a, const LogA& b) noexcept { return a.inner() == b.inner(); }
	friend bool operator!=(const LogA& a, const LogA& b) noexcept { return a.inner() != b.inner(); }

	Inner& inner() noexcept { return *reinterpret_cast<Inner*>(&mStore); }
	const Inner& inner() const noexcept { return *reinterpret_cast<const Inner*>(&mStore); }
	const void* pool() const noexcept { return inner().mMemPool.get(); }
	PoolView view() const { auto& mp = *inner().mMemPool; return PoolView{ mp.GetBlockSize(), mp.GetBlockAlignment(), mp.GetAllocateCount(), inner().mMemPool.use_count() }; }
	int pid() const { return tracer().pidOf(pool()); }

private:
	struct Adopt {};
	LogA(Adopt, const LogA& src) { ::new (static_cast<void*>(&mStore)) Inner(src.inner().select_on_container_copy_construction()); }

	static std::string ledgerBefore(const std::vector<Arena::Ev>& evs) {
		// ledger as it was before the events `evs` (all of them frees) happened
		size_t cnt = arena().live.size(), bytes = arena().liveBytes;
		for (auto& e : evs) if (e.kind == 'F') { ++cnt; bytes += e.size; }
		return fmt("L=%zu/%zu", cnt, bytes);
	}
	void registerNew(Arena& ar, int savedPid) {
		Tracer& t = tracer();
		auto evs = ar.takeEvents();
		ar.curPid = savedPid;
		int pid = t.nextPid++;
		t.poolIds[pool()] = pid;
		ar.retag(evs, pid);
		long long cb = -1;
		for (auto& e : evs) if (e.kind == 'M') cb = (long long)e.off;
		if (evs.size() != 1 || cb < 0 || evs[0].size != sizeof(typename TCfg::ControlBlock))
			t.c->fail("C20 constructor: %s a new allocator object made %zu base allocator calls (expected one control block of %zu bytes)",
				t.suiteName.c_str(), evs.size(), sizeof(typename TCfg::ControlBlock));
		t.newPools.push_back(Tracer::NewPool{ pid, sizeof(T), alignof(T), cb });
		t.line(fmt("anew %zu %zu %lld", sizeof(T), alignof(T), cb), t.poolStr(pid, view()) + " | " + t.evStr(evs) + " | " + t.ledgerStr());
	}
	void logCopy() {
		Tracer& t = tracer();
		int pid = t.pidOf(pool());
		t.line(fmt("acopy %d", pid), t.poolStr(pid, view()) + " | - | " + t.ledgerStr());
	}
	void dropInner() {
		Tracer& t = tracer(); Arena& ar = arena();
		int pid = t.pidOf(pool());
		const void* pl = pool();
		long rc = inner().mMemPool.use_count();
		// what a surviving owner will say about the pool afterwards
		PoolView v = view(); v.rc = rc - 1;
		int saved = ar.curPid; ar.curPid = pid;
		ar.takeEvents();
		inner().~Inner();
		auto evs = ar.takeEvents();
		ar.curPid = saved;
		if (rc >= 2) {
			if (!evs.empty()) t.c->fail("C20 destructor: %s dropping one of %ld owners of pool %d made base allocator calls", t.suiteName.c_str(), rc, pid);
			t.line(fmt("adrop %d", pid), t.poolStr(pid, v) + " | - | " + t.ledgerStr());
		} else reportDeath(pid, pl, evs);
	}
	void reportDeath(int pid, const void* pl, const std::vector<Arena::Ev>& evs) {
		Tracer& t = tracer(); Arena& ar = arena();
		t.poolIds.erase(pl);
		++t.poolDeaths;
		for (auto& e : evs) if (e.kind == 'F' && e.size != sizeof(typename TCfg::ControlBlock)) ++t.buffersBack;
		for (auto& e : evs) if (e.kind == 'M') t.c->fail("C20 destructor: %s the dying pool %d allocated", t.suiteName.c_str(), pid);
		// last owner gone: nothing requested on behalf of this pool may be outstanding
		size_t left = ar.countOf(pid);
		if (left != 0)
			t.c->fail("C20 leak: %s: pool %d lost its last owner but %zu block(s) of the base allocator requested for it are outstanding; history: %s",
				t.suiteName.c_str(), pid, left, t.lastOps.c_str());
		for (auto& kv : t.blocks) if (kv.second.pid == pid)
			{ t.c->fail("C20 leak: %s: pool %d died while block arena+%lld allocated through it is live; history: %s", t.suiteName.c_str(), pid, kv.first, t.lastOps.c_str()); break; }
		t.line(fmt("adrop %d", pid), fmt("p%d dead | ", pid) + t.evStr(evs) + " | " + t.ledgerStr());
	}

	typename std::aligned_storage<sizeof(Inner), alignof(Inner)>::type mStore;
};

} // namespace c20
