// C07 correspondence harness: momo::DataTable with unique / multi hash indexes against
//   (a) a shadow list of rows + brute-force scans (property level: c.fail on disagreement), and
//   (b) the Lean model `table` (model level: rows in order, row numbers, the content of every index hash
//       table and the exact raw order inside every multi-hash group, read with -fno-access-control).
// One executable per table type (-DVF_PART=0..3): dynamic / static column list x keepRowNumber off / on,
// with selectEqualityMaxCount 6 / 1 / 2 / 6.
// Rows come from an arena memory manager, so that row addresses (the order inside multi-hash segments) are the
// same numbers on every run; the address of every new row is written on its op line ("address rank").
#include "momo/DataTable.h"
#include "common/verif_common.h"

#include <sys/mman.h>
#include <algorithm>
#include <functional>
#include <map>
#include <memory>
#include <set>
#include <string>
#include <unordered_map>
#include <vector>

#ifndef VF_PART
#define VF_PART 0
#endif

using namespace vf;

// ---------------------------------------------------------------- arena memory manager (deterministic addresses, ledger, faults)
struct Arena {
	char* base = nullptr; size_t cap = 0, top = 0;
	std::map<size_t, std::vector<char*>> freeLists;
	std::unordered_map<void*, size_t> live;
	long failAfter = -1; bool fired = false;
	size_t allocs = 0, badDealloc = 0, firedTotal = 0;
	Arena() {
		cap = size_t(4) << 30;
		base = (char*)mmap(nullptr, cap, PROT_READ | PROT_WRITE, MAP_PRIVATE | MAP_ANONYMOUS | MAP_NORESERVE, -1, 0);
		if (base == MAP_FAILED) { fprintf(stderr, "arena mmap failed\n"); exit(3); }
		top = 64;
	}
	void arm(long k) { failAfter = k; fired = false; }
	void disarm() { failAfter = -1; }
};
static Arena& arena() { static Arena a; return a; }

class ArenaMM {
public:
	explicit ArenaMM() noexcept {}
	ArenaMM(ArenaMM&&) = default;
	ArenaMM(const ArenaMM&) = default;
	~ArenaMM() = default;
	ArenaMM& operator=(const ArenaMM&) = delete;
	void* Allocate(size_t size) {
		Arena& a = arena();
		if (a.failAfter >= 0) {
			if (a.failAfter == 0) { a.failAfter = -1; a.fired = true; ++a.firedTotal; throw std::bad_alloc(); }
			--a.failAfter;
		}
		size_t rs = (size + 15) & ~size_t(15);
		if (rs == 0) rs = 16;
		char* p;
		auto it = a.freeLists.find(rs);
		if (it != a.freeLists.end() && !it->second.empty()) { p = it->second.back(); it->second.pop_back(); }
		else {
			if (a.top + rs > a.cap) throw std::bad_alloc();
			p = a.base + a.top; a.top += rs;
		}
		a.live[p] = size; ++a.allocs;
		return p;
	}
	void Deallocate(void* p, size_t size) noexcept {
		Arena& a = arena();
		auto it = a.live.find(p);
		if (it == a.live.end() || it->second != size) { ++a.badDealloc; return; }
		a.live.erase(it);
		size_t rs = (size + 15) & ~size_t(15);
		if (rs == 0) rs = 16;
		a.freeLists[rs].push_back((char*)p);
	}
};

// ---------------------------------------------------------------- columns
typedef momo::DataStructDefault<int, std::string> DynStruct;
MOMO_DATA_COLUMN_STRING_TAG(DynStruct, int, dynA);
MOMO_DATA_COLUMN_STRING_TAG(DynStruct, int, dynB);
MOMO_DATA_COLUMN_STRING_TAG(DynStruct, std::string, dynS);
MOMO_DATA_COLUMN_STRING_TAG(DynStruct, int, dynD);
MOMO_DATA_COLUMN_STRING_TAG(DynStruct, int, dynK);

struct SRow { int a; int b; std::string s; int d; int k; };
MOMO_DATA_COLUMN_STRUCT(SRow, a);
MOMO_DATA_COLUMN_STRUCT(SRow, b);
MOMO_DATA_COLUMN_STRUCT(SRow, s);
MOMO_DATA_COLUMN_STRUCT(SRow, d);
MOMO_DATA_COLUMN_STRUCT(SRow, k);

// hash family of DataTraits::AccumulateHashCode (chosen per history)
static unsigned g_fam = 0;
static uint64_t g_hashCalls = 0;
static inline size_t famInt(int v) {
	switch (g_fam) {
	case 0: return (size_t)(v & 3);                       // deliberately weak: 4 values
	case 1: return (size_t)v;                             // identity (std::hash<int>): all short hashes equal
	case 2: return 0;                                     // constant
	case 3: return ((size_t)(unsigned)v) << 56;           // high byte only
	default: return (size_t)v * 11400714819323198485ull;  // multiplicative
	}
}
static inline size_t famStr(const std::string& s) {
	size_t h = 0;
	for (char c : s) h = h * 31 + (unsigned char)c;
	switch (g_fam) {
	case 0: return s.size() & 1;
	case 1: return h;
	case 2: return 0;
	case 3: return h << 56;
	default: return h * 11400714819323198485ull;
	}
}

template<size_t tMaxEq>
struct WeakTraits : public momo::DataTraits {
	static const size_t selectEqualityMaxCount = tMaxEq;
	static void AccumulateHashCode(size_t& hashCode, const int& item, size_t /*offset*/) { ++g_hashCalls; hashCode += famInt(item); }
	static void AccumulateHashCode(size_t& hashCode, const std::string& item, size_t /*offset*/) { ++g_hashCalls; hashCode += famStr(item); }
};

template<bool tDyn, bool tKeep> struct CL;
template<bool tKeep> struct CL<true, tKeep> {
	typedef momo::DataColumnList<momo::DataColumnTraits<DynStruct>, ArenaMM, momo::DataItemTraits<ArenaMM>, momo::DataSettings<tKeep>> List;
	static const decltype(dynA)& A() { return dynA; }
	static const decltype(dynB)& B() { return dynB; }
	static const decltype(dynS)& S() { return dynS; }
	static const decltype(dynD)& D() { return dynD; }
	static const decltype(dynK)& K() { return dynK; }
	static List make() { List l; l.Add(dynA); l.Add(dynB); l.Add(dynS); l.Add(dynD); l.Add(dynK); return l; }
	template<typename... Cols> static List makeProj(const Cols&... cols) { List l; int dummy[] = { (l.Add(cols), 0)... }; (void)dummy; return l; }
};
template<bool tKeep> struct CL<false, tKeep> {
	typedef momo::DataColumnListStatic<SRow, momo::DataColumnInfo<SRow>, ArenaMM, momo::DataSettings<tKeep>> List;
	static const decltype(a)& A() { return a; }
	static const decltype(b)& B() { return b; }
	static const decltype(s)& S() { return s; }
	static const decltype(d)& D() { return d; }
	static const decltype(k)& K() { return k; }
	static List make() { return List(); }
	template<typename... Cols> static List makeProj(const Cols&...) { return List(); }
};

// ---------------------------------------------------------------- values
// value j of column s <-> string; the order of the strings is the order of the numbers (Selection::Sort), every third one is long (heap)
static std::string strOf(int j) { return std::string(1, (char)('a' + j)) + ((j % 3 == 2) ? std::string(28, 'x') : std::string()); }
static int strNo(const std::string& s) { return s.empty() ? -1 : s[0] - 'a'; }

struct RV { int id; int v[4]; };	// shadow row: identity + a b s d
static const uint64_t CKP = 2147483647ull;
static inline uint64_t ck(uint64_t h, uint64_t x) { return (h * 1000003ull + x + 1) % CKP; }

// predicate atoms shared with the driver: T | eq c v | mod c m r | lt c v | idmod m r
struct Pred {
	int kind = 0, c = 0, x = 0, y = 0;
	bool operator()(const RV& r) const {
		switch (kind) {
		case 1: return r.v[c] == x;
		case 2: return r.v[c] % x == y;
		case 3: return r.v[c] < x;
		case 4: return r.id % x == y;
		default: return true;
		}
	}
	std::string str() const {
		switch (kind) {
		case 1: return fmt("eq %d %d", c, x);
		case 2: return fmt("mod %d %d %d", c, x, y);
		case 3: return fmt("lt %d %d", c, x);
		case 4: return fmt("idmod %d %d", x, y);
		default: return "T";
		}
	}
};

typedef std::vector<std::pair<int, int>> Eqs;	// (column, value) in query order
static std::string eqsStr(const Eqs& e) { std::string s; for (auto& p : e) s += fmt("%s%d=%d", s.empty() ? "" : " ", p.first, p.second); return s; }
static bool eqsHold(const Eqs& e, const RV& r) { for (auto& p : e) if (r.v[p.first] != p.second) return false; return true; }

struct IdxDef { bool unique; std::vector<int> cols; };
static const IdxDef kIdx[4] = { { true, { 0, 1 } }, { false, { 0 } }, { false, { 1 } }, { false, { 2, 0 } } };

// ---------------------------------------------------------------- one history on one table type
template<bool tDyn, bool tKeep, size_t tMaxEq>
struct Runner {
	typedef CL<tDyn, tKeep> C;
	typedef typename C::List ColumnList;
	typedef momo::DataTable<ColumnList, WeakTraits<tMaxEq>> Table;
	typedef typename Table::Row Row;
	typedef typename Table::Raw Raw;
	typedef typename Table::ConstRowReference CRef;
	typedef typename Table::Selection Selection;

	Ctx& c; Rng& rng; Suite& su; std::string tag;
	Table* tab = nullptr;
	std::vector<RV> sh;			// shadow list (property-level oracle)
	std::vector<int> uDefs, mDefs;		// kIdx numbers of the existing unique / multi indexes, in creation order
	int nextId = 1;
	size_t offK = 0;
	uint64_t opNo = 0;
	int aRange = 3, bRange = 50, dupPct = 10;
	std::vector<Row> held;			// extracted rows waiting to be added back
	bool heavy = false;

	Runner(Ctx& c_, Rng& r_, Suite& s_, const std::string& tag_) : c(c_), rng(r_), su(s_), tag(tag_) {}

	// ------------------------------------------------ access to the real structures
	int idOfRaw(Raw* raw) const { return ColumnList::template GetByOffset<const int>(raw, offK); }
	static uint64_t addrOf(const void* raw) { return (uint64_t)((const char*)raw - arena().base); }
	RV rvOf(CRef r) const { RV x; x.id = r[C::K()]; x.v[0] = r[C::A()]; x.v[1] = r[C::B()]; x.v[2] = strNo(r[C::S()]); x.v[3] = r[C::D()]; return x; }
	size_t numOf(CRef r, size_t dflt) const { return numOfImpl(r, dflt, std::integral_constant<bool, tKeep>()); }
	size_t numOfImpl(CRef r, size_t, std::true_type) const { return r.GetNumber(); }
	size_t numOfImpl(CRef, size_t dflt, std::false_type) const { return dflt; }

	Row makeRow(const RV& x) {
		Row row = tab->NewRow();
		row[C::A()] = x.v[0]; row[C::B()] = x.v[1]; row[C::S()] = strOf(x.v[2]); row[C::D()] = x.v[3]; row[C::K()] = x.id;
		return row;
	}
	std::string valsStr(const RV& x) const { return fmt("%d %d %d %d", x.v[0], x.v[1], x.v[2], x.v[3]); }

	// content of the index hash tables, in the form the driver prints
	struct IdxDump { std::vector<std::vector<int>> u; std::vector<std::vector<std::vector<int>>> m; bool transient = false; };
	IdxDump dumpIdx() {
		IdxDump d;
		auto& ind = tab->mIndexes;
		for (size_t i = 0; i < ind.mUniqueHashes.GetCount(); ++i) {
			auto& uh = ind.mUniqueHashes[i];
			std::vector<int> ids;
			for (Raw* raw : uh.mHashSet) ids.push_back(idOfRaw(raw));
			d.u.push_back(ids);
			if (!!uh.mPositionAdd || !!uh.mPositionRemove) d.transient = true;
		}
		for (size_t i = 0; i < ind.mMultiHashes.GetCount(); ++i) {
			auto& mh = ind.mMultiHashes[i];
			std::vector<std::vector<int>> groups;
			for (auto ref : mh.mHashMultiMap.GetKeyBounds()) {
				std::vector<int> g;
				g.push_back(idOfRaw(ref.key));
				for (Raw* raw : ref) g.push_back(idOfRaw(raw));
				groups.push_back(g);
			}
			d.m.push_back(groups);
			if (!!mh.mKeyIteratorAdd || !!mh.mKeyIteratorRemove) d.transient = true;
		}
		return d;
	}
	static uint64_t groupSum(const std::vector<int>& g) { uint64_t h = 0; for (int x : g) h = ck(h, (uint64_t)x); return h; }
	static uint64_t multiSum(const std::vector<std::vector<int>>& gs) { uint64_t s = 0; for (auto& g : gs) s += groupSum(g); return s % CKP; }

	std::string chkLine(const IdxDump& d) {
		uint64_t r = 0; size_t n = tab->GetCount();
		for (size_t i = 0; i < n; ++i) {
			CRef row = (*tab)[i]; RV x = rvOf(row);
			r = ck(ck(r, (uint64_t)x.id), tKeep ? numOf(row, 0) : 0);
			for (int j = 0; j < 4; ++j) r = ck(r, (uint64_t)x.v[j]);
		}
		std::string s = fmt("n=%zu r=%llu t=%d", n, (unsigned long long)r, d.transient ? 1 : 0);
		for (size_t i = 0; i < d.u.size(); ++i) {
			uint64_t sum = 0; for (int id : d.u[i]) sum += ck(ck(0, 17), (uint64_t)id);
			s += fmt(" u%zu=%zu:%llu", i, d.u[i].size(), (unsigned long long)(sum % CKP));
		}
		for (size_t i = 0; i < d.m.size(); ++i) s += fmt(" m%zu=%zu:%llu", i, d.m[i].size(), (unsigned long long)multiSum(d.m[i]));
		return s;
	}
	std::string dumpLine(const IdxDump& d) {
		std::string s; size_t n = tab->GetCount();
		for (size_t i = 0; i < n; ++i) {
			CRef row = (*tab)[i]; RV x = rvOf(row);
			s += fmt("%s%d:%zu:%d,%d,%d,%d", i ? " " : "", x.id, tKeep ? numOf(row, 0) : (size_t)0, x.v[0], x.v[1], x.v[2], x.v[3]);
		}
		for (size_t i = 0; i < d.u.size(); ++i) {
			std::vector<int> ids = d.u[i]; std::sort(ids.begin(), ids.end());
			s += " | u("; for (size_t j = 0; j < kIdx[uDefs[i]].cols.size(); ++j) s += fmt(j ? ",%d" : "%d", kIdx[uDefs[i]].cols[j]);
			s += ") "; for (size_t j = 0; j < ids.size(); ++j) s += fmt(j ? " %d" : "%d", ids[j]);
		}
		for (size_t i = 0; i < d.m.size(); ++i) {
			auto gs = d.m[i]; std::sort(gs.begin(), gs.end(), [](const std::vector<int>& x, const std::vector<int>& y) { return x[0] < y[0]; });
			s += " | m("; for (size_t j = 0; j < kIdx[mDefs[i]].cols.size(); ++j) s += fmt(j ? ",%d" : "%d", kIdx[mDefs[i]].cols[j]);
			s += ") ";
			for (size_t g = 0; g < gs.size(); ++g) {
				s += fmt(g ? " ; %d>" : "%d>", gs[g][0]);
				for (size_t j = 1; j < gs[g].size(); ++j) s += fmt(j > 1 ? ",%d" : "%d", gs[g][j]);
			}
		}
		return s;
	}

	void fail(const std::string& what) {
		c.fail("C07 %s: suite=%s history=%s op#%llu (replay: the .ops file of the suite up to this op)", what.c_str(), su.name.c_str(), tag.c_str(), (unsigned long long)opNo);
	}

	// ------------------------------------------------ property level: table == shadow list, indexes == brute force
	// returns false when something is wrong; `f9row` >= 0: tolerate exactly the F9 pattern for this row / column
	bool checkState(const IdxDump& d, int f9row = -1, int f9col = -1, bool* f9hit = nullptr) {
		bool ok = true;
		size_t n = tab->GetCount();
		if (n != sh.size()) { fail(fmt("row count %zu, brute-force list has %zu", n, sh.size())); return false; }
		for (size_t i = 0; i < n; ++i) {
			CRef row = (*tab)[i]; RV x = rvOf(row);
			if (x.id != sh[i].id || x.v[0] != sh[i].v[0] || x.v[1] != sh[i].v[1] || x.v[2] != sh[i].v[2] || x.v[3] != sh[i].v[3]) {
				fail(fmt("row %zu is (id %d: %d %d %d %d), list semantics give (id %d: %d %d %d %d)", i, x.id, x.v[0], x.v[1], x.v[2], x.v[3],
					sh[i].id, sh[i].v[0], sh[i].v[1], sh[i].v[2], sh[i].v[3]));
				return false;
			}
			if (tKeep && numOf(row, i) != i) { fail(fmt("row number of row %zu is %zu", i, numOf(row, i))); ok = false; }
		}
		if (d.transient) { fail("an index keeps a pending add/remove position after the operation"); ok = false; }
		std::map<int, size_t> pos; for (size_t i = 0; i < n; ++i) pos[sh[i].id] = i;
		for (size_t i = 0; i < d.u.size(); ++i) {
			std::vector<int> ids = d.u[i]; std::sort(ids.begin(), ids.end());
			std::vector<int> want; for (auto& r : sh) want.push_back(r.id); std::sort(want.begin(), want.end());
			if (ids != want) { fail(fmt("unique index %zu holds %zu raws, not exactly the %zu rows of the table", i, ids.size(), want.size())); ok = false; }
			const auto& cols = kIdx[uDefs[i]].cols;
			std::set<std::vector<int>> keys;
			for (auto& r : sh) { std::vector<int> key; for (int cc : cols) key.push_back(r.v[cc]); if (!keys.insert(key).second) { fail(fmt("two rows equal on the columns of unique index %zu (row id %d)", i, r.id)); ok = false; } }
		}
		for (size_t i = 0; i < d.m.size(); ++i) {
			const auto& cols = kIdx[mDefs[i]].cols;
			if (groupsMatch(d.m[i], cols, pos, -1)) continue;
			// F9 pattern: the index is exactly right for all other rows, the updated row sits once, in the wrong group
			// (its old one - possibly as the key row - because the entry made for its new key was removed instead)
			size_t occ = 0; for (auto& g : d.m[i]) occ += (size_t)std::count(g.begin(), g.end(), f9row);
			if (f9row >= 0 && std::find(cols.begin(), cols.end(), f9col) != cols.end() && occ == 1 && groupsMatch(d.m[i], cols, pos, f9row)) { if (f9hit) *f9hit = true; continue; }
			fail(fmt("multi index %zu does not group the rows by their key columns", i)); ok = false;
		}
		return ok;
	}

	// every group holds rows of one key, different groups have different keys, together they hold every row once
	// (`exclude`: a row id left out of the comparison)
	bool groupsMatch(const std::vector<std::vector<int>>& groups, const std::vector<int>& cols, const std::map<int, size_t>& pos, int exclude) {
		std::map<std::vector<int>, std::vector<int>> want, got;
		for (auto& r : sh) if (r.id != exclude) { std::vector<int> key; for (int cc : cols) key.push_back(r.v[cc]); want[key].push_back(r.id); }
		for (auto& g : groups) {
			bool have = false; std::vector<int> key;
			for (int id : g) {
				if (id == exclude) continue;
				auto pk = pos.find(id); if (pk == pos.end()) return false;
				std::vector<int> k2; for (int cc : cols) k2.push_back(sh[pk->second].v[cc]);
				if (!have) { key = k2; have = true; if (got.count(key)) return false; }
				else if (k2 != key) return false;
				got[key].push_back(id);
			}
			if (!have && exclude < 0) return false;
		}
		for (auto& kv : got) std::sort(kv.second.begin(), kv.second.end());
		for (auto& kv : want) std::sort(kv.second.begin(), kv.second.end());
		return got == want;
	}

	// lookups of one row through every index (detects a stale position left by finding F9)
	template<typename F> void dispatchEqs(const Eqs& e, F&& f);	// defined below
	bool lookupFinds(size_t n) {
		const RV& x = sh[n];
		bool ok = true;
		for (size_t i = 0; i < uDefs.size(); ++i) {
			Eqs e; for (int cc : kIdx[uDefs[i]].cols) e.push_back({ cc, x.v[cc] });
			dispatchEqs(e, [&](auto mk) {
				auto p = tab->FindByUniqueHash(mk(), (momo::DataUniqueHashIndex)(ptrdiff_t)i);
				if (!p || (*p)[C::K()] != x.id) ok = false;
			});
		}
		for (size_t i = 0; i < mDefs.size(); ++i) {
			Eqs e; for (int cc : kIdx[mDefs[i]].cols) e.push_back({ cc, x.v[cc] });
			dispatchEqs(e, [&](auto mk) {
				auto bounds = tab->FindByMultiHash(mk(), (momo::DataMultiHashIndex)(ptrdiff_t)i);
				bool found = false;
				for (auto r : bounds) if (r[C::K()] == x.id) found = true;
				if (!found) ok = false;
			});
		}
		return ok;
	}

	// ------------------------------------------------ emit state comparison lines
	void emitChk(bool full) {
		IdxDump d = dumpIdx();
		checkState(d);
		su.op("chk"); su.res(chkLine(d));
		if (full) { su.op("dump"); su.res(dumpLine(d)); }
	}

	// ------------------------------------------------ the expected outcome of a uniqueness check (brute force)
	// returns (-1,-1) or (conflicting row id, unique index number); `skip` = position of the row being replaced
	std::pair<int, int> conflict(const int* v, long skip) {
		for (size_t i = 0; i < uDefs.size(); ++i) {
			const auto& cols = kIdx[uDefs[i]].cols;
			for (size_t r = 0; r < sh.size(); ++r) {
				if ((long)r == skip) continue;
				bool eq = true; for (int cc : cols) if (sh[r].v[cc] != v[cc]) eq = false;
				if (eq) return { sh[r].id, (int)i };
			}
		}
		return { -1, -1 };
	}

	// ------------------------------------------------ fallible row-level operations with the failure sweep
	// `attempt(faultArmed)` performs the operation once and returns its outcome line ("ok", "dup r i", "E:bad_alloc");
	// it fills `line` with the op line (without fault annotation).
	struct Outcome { std::string res; std::string line; };
	std::vector<uint64_t> multiSums() { IdxDump d = dumpIdx(); std::vector<uint64_t> s; for (auto& m : d.m) s.push_back(multiSum(m)); return s; }

	template<typename Attempt, typename Apply>
	void fallible(const char* what, bool sweep, Attempt&& attempt, Apply&& applyToShadow) {
		Arena& ar = arena();
		if (sweep) {
			for (long k = 0; k < 40; ++k) {
				std::vector<uint64_t> before = multiSums();
				ar.arm(k);
				Outcome o = attempt();
				ar.disarm();
				if (!ar.fired) { finishOp(what, o, applyToShadow); return; }
				c.stats.count(std::string("fault.fired.") + what);
				if (o.res != "E:bad_alloc") { c.stats.count(std::string("fault.swallowed.") + what); finishOp(what, o, applyToShadow); return; }
				// the operation threw: the table must be unchanged; tell the model which groups were sorted on the way
				std::vector<uint64_t> after = multiSums();
				unsigned mask = 0; for (size_t i = 0; i < after.size(); ++i) if (before[i] != after[i]) mask |= 1u << i;
				if (mask) c.stats.count("fault.sorted_segment_side_effect");
				++opNo; c.stats.evaluations++;
				su.op(o.line + fmt(" fault %u", mask)); su.res("E:bad_alloc");
				c.stats.count(std::string("fault.thrown.") + what);
				c.stats.nontrivial(fmt("%s/fault/%s/%ld", tag.c_str(), what, k));
				emitChk(false);
			}
			fail(fmt("%s still fails after 40 single allocation failures", what));
		}
		Outcome o = attempt();
		finishOp(what, o, applyToShadow);
	}
	template<typename Apply>
	void finishOp(const char* what, const Outcome& o, Apply&& applyToShadow) {
		++opNo; c.stats.evaluations++;
		su.op(o.line); su.res(o.res);
		c.stats.count(std::string("op.") + what + (o.res == "ok" ? ".ok" : o.res.compare(0, 3, "dup") == 0 ? ".refused" : ".other"));
		applyToShadow(o.res);
	}

	std::string resOf(const typename Table::TryResult& r) {
		if (r) return "ok";
		return fmt("dup %d %td", (int)r.rowReference[C::K()], (ptrdiff_t)r.uniqueHashIndex);
	}
	void expectRes(const char* what, const std::string& got, const int* v, long skip, const std::string& input) {
		auto cf = conflict(v, skip);
		std::string want = cf.first < 0 ? "ok" : fmt("dup %d %d", cf.first, cf.second);
		if (got != want) fail(fmt("%s %s answered '%s', uniqueness by brute force gives '%s'", what, input.c_str(), got.c_str(), want.c_str()));
	}

	void opAdd(bool sweep, bool throwing) {
		RV x = genRow();
		uint64_t lastAddr = 0;
		auto attempt = [&]() -> Outcome {
			Outcome o; lastAddr = 0;
			try {
				Row row = makeRow(x);
				lastAddr = addrOf(row.GetRaw());
				o.line = fmt("add %d %llu %s", x.id, (unsigned long long)lastAddr, valsStr(x).c_str());
				if (throwing) {
					try { tab->Add(std::move(row)); o.res = "ok"; }
					catch (const typename Table::UniqueIndexViolation& e) { o.res = resOf(e); }
				} else o.res = resOf(tab->TryAdd(std::move(row)));
			} catch (const std::bad_alloc&) {
				if (o.line.empty()) o.line = fmt("add %d 0 %s", x.id, valsStr(x).c_str());
				o.res = "E:bad_alloc";
			}
			return o;
		};
		fallible("add", sweep, attempt, [&](const std::string& res) {
			expectRes("add", res, x.v, -1, valsStr(x));
			if (res == "ok") sh.push_back(x);
		});
	}
	// directed: add a row to a multi-hash group whose value array ends exactly at (or one before) a segment boundary,
	// with every allocation of the operation failing in turn (pvAdd sorts the completed segment before it can fail)
	bool opAddBoundary() {
		IdxDump d = dumpIdx();
		std::map<int, const RV*> byId; for (auto& r : sh) byId[r.id] = &r;
		for (size_t i = 0; i < d.m.size(); ++i) for (auto& g : d.m[i]) {
			size_t cnt = g.size() - 1;
			if (cnt != 63 && cnt != 64 && cnt != 191 && cnt != 192 && cnt != 319 && cnt != 320 && cnt != 447 && cnt != 448) continue;
			auto it = byId.find(g[0]); if (it == byId.end()) continue;
			forced = *it->second; haveForced = true; forcedCols = kIdx[mDefs[i]].cols;
			c.stats.count(fmt("directed.add_at_segment_boundary.%zu", cnt));
			if (cnt % 64 == 0) {
				std::map<int, uint64_t> addrById; for (size_t r = 0; r < tab->GetCount(); ++r) addrById[(int)(*tab)[r][C::K()]] = addrOf((*tab)[r].GetRaw());
				size_t lo = cnt == 64 ? 0 : cnt - 128;
				std::vector<uint64_t> as; for (size_t j = lo; j < cnt; ++j) as.push_back(addrById[g[1 + j]]);
				c.stats.count(std::is_sorted(as.begin(), as.end()) ? "directed.segment_already_sorted" : "directed.segment_unsorted_before_add");
			}
			size_t thrownBefore = c.stats.counters["fault.thrown.add"];
			opAdd(true, false);
			c.stats.count("directed.faults_thrown", c.stats.counters["fault.thrown.add"] - thrownBefore);
			haveForced = false;
			return true;
		}
		return false;
	}
	RV forced; bool haveForced = false; std::vector<int> forcedCols;

	void opInsert(bool sweep) {
		RV x = genRow();
		size_t n = (size_t)rng.below(sh.size() + 1);
		auto attempt = [&]() -> Outcome {
			Outcome o;
			try {
				Row row = makeRow(x);
				o.line = fmt("ins %zu %d %llu %s", n, x.id, (unsigned long long)addrOf(row.GetRaw()), valsStr(x).c_str());
				o.res = resOf(tab->TryInsert(n, std::move(row)));
			} catch (const std::bad_alloc&) {
				if (o.line.empty()) o.line = fmt("ins %zu %d 0 %s", n, x.id, valsStr(x).c_str());
				o.res = "E:bad_alloc";
			}
			return o;
		};
		fallible("insert", sweep, attempt, [&](const std::string& res) {
			expectRes("insert", res, x.v, -1, valsStr(x));
			if (res == "ok") sh.insert(sh.begin() + (ptrdiff_t)n, x);
		});
	}
	void opUpdRow(bool sweep) {
		if (sh.empty()) return;
		size_t n = (size_t)rng.below(sh.size());
		RV x = genRow();
		if (rng.chance(1, 3)) { x.v[0] = sh[n].v[0]; x.v[1] = sh[n].v[1]; }	// same unique key as the row replaced
		auto attempt = [&]() -> Outcome {
			Outcome o;
			try {
				Row row = makeRow(x);
				o.line = fmt("updrow %zu %d %llu %s", n, x.id, (unsigned long long)addrOf(row.GetRaw()), valsStr(x).c_str());
				o.res = resOf(tab->TryUpdate(n, std::move(row)));
			} catch (const std::bad_alloc&) {
				if (o.line.empty()) o.line = fmt("updrow %zu %d 0 %s", n, x.id, valsStr(x).c_str());
				o.res = "E:bad_alloc";
			}
			return o;
		};
		fallible("update_row", sweep, attempt, [&](const std::string& res) {
			expectRes("update(row)", res, x.v, (long)n, fmt("row %zu <- %s", n, valsStr(x).c_str()));
			if (res == "ok") sh[n] = x;
		});
	}
	// single-column update; returns true when finding F9 struck and the table was rebuilt
	void opUpdCol(bool sweep) {
		if (sh.empty()) return;
		size_t n = (size_t)rng.below(sh.size());
		int col = (int)rng.below(4);
		RV x = sh[n];
		RV g = genRow(); --nextId;
		x.v[col] = rng.chance(1, 8) ? sh[n].v[col] : g.v[col];
		auto attempt = [&]() -> Outcome {
			Outcome o;
			o.line = fmt("updcol %zu %d %d", n, col, x.v[col]);
			try {
				CRef ref = (*tab)[n];
				switch (col) {
				case 0: o.res = resOf(tab->TryUpdate(ref, C::A(), (int)x.v[0])); break;
				case 1: o.res = resOf(tab->TryUpdate(ref, C::B(), (int)x.v[1])); break;
				case 2: { std::string str = strOf(x.v[2]); o.res = resOf(tab->TryUpdate(ref, C::S(), static_cast<const std::string&>(str))); break; }
				default: o.res = resOf(tab->TryUpdate(ref, C::D(), (int)x.v[3])); break;
				}
			} catch (const std::bad_alloc&) { o.res = "E:bad_alloc"; }
			return o;
		};
		bool done = false;
		fallible("update_column", sweep, attempt, [&](const std::string& res) {
			expectRes("update(column)", res, x.v, (long)n, fmt("row %zu column %d <- %d", n, col, x.v[col]));
			if (res == "ok") { sh[n] = x; done = true; }
		});
		if (!done) return;
		// finding F9: the index may keep the raw at the position of its old key
		bool indexed = false;
		for (int u : uDefs) for (int cc : kIdx[u].cols) if (cc == col) indexed = true;
		for (int m : mDefs) for (int cc : kIdx[m].cols) if (cc == col) indexed = true;
		if (!indexed) return;
		c.stats.count("update_column.on_indexed_column");
		IdxDump d = dumpIdx();
		bool f9 = false;
		bool structural = checkStateQuiet(d, sh[n].id, col, &f9);
		bool found = lookupFinds(n);
		if (structural && !f9 && found) return;
		if (structural && (f9 || !found)) {
			c.fail("C07 known-F9 update-col-stale-entry: suite=%s history=%s op#%llu TryUpdate(row %zu (id %d), column %d, %d) left the raw at the position of its old key "
				"(%s); lookups through the index miss the row. Replay: the .ops file up to this op on a table with hash family %u",
				su.name.c_str(), tag.c_str(), (unsigned long long)opNo, n, sh[n].id, col, x.v[col], f9 ? "it is listed in the group of the old key" : "unreachable from the new hash code", g_fam);
			c.stats.count("known_F9_hits");
			rebuild("T");
			return;
		}
		fail(fmt("after TryUpdate(row %zu, column %d, %d) the indexes are inconsistent in a way that is not the known F9 pattern", n, col, x.v[col]));
	}
	bool checkStateQuiet(const IdxDump& d, int f9row, int f9col, bool* f9hit) {
		int before = c.failures;
		// run the structural check but convert its complaints into a return value only when they are F9-shaped
		bool ok = checkState(d, f9row, f9col, f9hit);
		(void)before;
		return ok;
	}

	// copy construction (also the resynchronisation after F9): `pred` selects the rows copied
	void rebuild(const std::string& predStr, const Pred* pred = nullptr) {
		Table* t2;
		if (pred) { Pred p = *pred; auto* self = this; t2 = new Table(*tab, [p, self](CRef r) { return p(self->rvOf(r)); }); }
		else t2 = new Table(*tab);
		std::string line = "copy " + predStr + " |";
		for (size_t i = 0; i < t2->GetCount(); ++i) line += fmt(" %llu", (unsigned long long)addrOf((*t2)[i].GetRaw()));
		held.clear();
		delete tab; tab = t2;
		if (pred) { std::vector<RV> s2; for (auto& r : sh) if ((*pred)(r)) s2.push_back(r); sh = s2; }
		++opNo; c.stats.evaluations++;
		su.op(line); su.res(fmt("ok %zu", tab->GetCount()));
		c.stats.count("op.copy");
	}

	// ------------------------------------------------ removal, extraction, assignment
	// where AcceptRemove will find the raw: key row, inside a sorted full segment, or in the unsorted tail
	void removalStats(int id) {
		IdxDump d = dumpIdx();
		for (auto& groups : d.m) for (auto& g : groups) {
			auto it = std::find(g.begin(), g.end(), id);
			if (it == g.end()) continue;
			size_t pos = (size_t)(it - g.begin()), cnt = g.size() - 1;
			if (pos == 0) { c.stats.count(cnt == 0 ? "remove.multi.last_row_of_key" : "remove.multi.key_row"); continue; }
			size_t idx = pos - 1, lo = 0, hi = 64, seg = 0; bool inFull = false;
			while (hi < cnt) { if (idx < hi) { inFull = true; break; } lo = hi; ++seg; hi += (seg < 4 ? 128 : seg < 10 ? 256 : 512); }	// GetItemCount(seg): 64, 128 x3, 256 x6, 512 ...
			(void)lo;
			c.stats.count(inFull ? fmt("remove.multi.from_full_segment_%zu", std::min<size_t>(seg, 3)) : "remove.multi.from_tail");
		}
	}
	void opRemove() {
		if (sh.empty()) return;
		size_t n = (size_t)rng.below(sh.size());
		int kind = (int)rng.below(6);
		bool keepOrder = kind % 2 == 0;
		int id = sh[n].id;
		if (!mDefs.empty() && (!heavy || rng.chance(1, 3))) removalStats(id);
		++opNo; c.stats.evaluations++;
		Arena& ar = arena();
		bool armed = rng.chance(1, 3);
		if (armed) ar.arm((long)rng.below(3));
		try {
			switch (kind) {
			case 0: case 1: su.op(fmt("rem %zu %d", n, keepOrder ? 1 : 0)); tab->Remove(n, keepOrder); c.stats.count("op.remove.number"); break;
			case 2: su.op(fmt("remref %d", id)); tab->Remove((*tab)[n]); keepOrder = true; c.stats.count("op.remove.reference"); break;
			case 3: case 4: { su.op(fmt("rem %zu %d", n, keepOrder ? 1 : 0)); Row r = tab->Extract(n, keepOrder); ar.disarm(); keepRow(std::move(r), id); c.stats.count("op.extract.number"); break; }
			default: { su.op(fmt("remref %d", id)); Row r = tab->Extract((*tab)[n]); ar.disarm(); keepOrder = true; keepRow(std::move(r), id); c.stats.count("op.extract.reference"); break; }
			}
		} catch (const std::bad_alloc&) {
			ar.disarm();
			// the property: a removal interrupted by an allocation failure leaves the table unchanged (the model has no such path)
			su.res("E:bad_alloc"); c.stats.count("fault.thrown.remove");
			return;
		}
		ar.disarm();
		if (armed && ar.fired) c.stats.count("fault.swallowed.remove");
		su.res(fmt("ok %d", id));
		if (keepOrder) sh.erase(sh.begin() + (ptrdiff_t)n);
		else { sh[n] = sh.back(); sh.pop_back(); }
	}
	void keepRow(Row&& r, int id) {
		if ((int)r[C::K()] != id) fail(fmt("Extract returned row id %d instead of %d", (int)r[C::K()], id));
		if (held.size() < 4 && rng.chance(1, 2)) held.push_back(std::move(r));
	}
	void opReadd() {
		if (held.empty()) return;
		Row r = std::move(held.back()); held.pop_back();
		RV x; x.id = r[C::K()]; x.v[0] = r[C::A()]; x.v[1] = r[C::B()]; x.v[2] = strNo(r[C::S()]); x.v[3] = r[C::D()];
		++opNo; c.stats.evaluations++;
		su.op(fmt("add %d %llu %s", x.id, (unsigned long long)addrOf(r.GetRaw()), valsStr(x).c_str()));
		std::string res = resOf(tab->TryAdd(std::move(r)));
		su.res(res);
		expectRes("add(extracted row)", res, x.v, -1, valsStr(x));
		if (res == "ok") sh.push_back(x);
		c.stats.count("op.readd_extracted");
	}
	void opRemoveRows() {
		if (sh.empty()) return;
		size_t cnt = (size_t)rng.below(std::min<size_t>(sh.size(), heavy ? 40 : 8) + 1);
		std::vector<CRef> refs; std::string line = "remrows"; std::set<int> ids;
		bool contiguous = rng.chance(1, 3);
		size_t start = (size_t)rng.below(sh.size());
		for (size_t i = 0; i < cnt; ++i) {
			size_t n = contiguous ? std::min(start + i, sh.size() - 1) : (size_t)rng.below(sh.size());
			refs.push_back((*tab)[n]); line += fmt(" %d", sh[n].id); ids.insert(sh[n].id);
		}
		++opNo; c.stats.evaluations++;
		su.op(line);
		tab->Remove(refs.begin(), refs.end());
		std::vector<RV> s2; for (auto& r : sh) if (!ids.count(r.id)) s2.push_back(r); sh = s2;
		su.res(fmt("ok %zu", tab->GetCount()));
		c.stats.count("op.remove.range");
	}
	Pred genPred() {
		Pred p; p.kind = (int)rng.below(5);
		switch (p.kind) {
		case 1: p.c = (int)rng.below(4); p.x = sh.empty() ? 0 : sh[rng.below(sh.size())].v[p.c]; break;
		case 2: p.c = (int)rng.below(4); p.x = 2 + (int)rng.below(4); p.y = (int)rng.below((uint64_t)p.x); break;
		case 3: p.c = (int)rng.below(2); p.x = (int)rng.below((uint64_t)(p.c == 0 ? aRange : bRange) + 1); break;
		case 4: p.x = 2 + (int)rng.below(5); p.y = (int)rng.below((uint64_t)p.x); break;
		default: break;
		}
		return p;
	}
	void opRemovePred() {
		Pred p = genPred();
		if (p.kind == 0 && !rng.chance(1, 10)) p.kind = 4, p.x = 7, p.y = 3;
		++opNo; c.stats.evaluations++;
		su.op("rempred " + p.str());
		auto* self = this;
		size_t removed = tab->Remove([p, self](CRef r) { return p(self->rvOf(r)); });
		std::vector<RV> s2; for (auto& r : sh) if (!p(r)) s2.push_back(r);
		if (removed != sh.size() - s2.size()) fail(fmt("Remove(%s) reported %zu rows, a scan finds %zu", p.str().c_str(), removed, sh.size() - s2.size()));
		sh = s2;
		su.res(fmt("ok %zu", removed));
		c.stats.count("op.remove.predicate");
	}
	void opAssign() {
		if (sh.empty()) return;
		size_t cnt = (size_t)rng.below(sh.size() + 3);
		std::vector<CRef> refs; std::string line = "assign"; std::vector<RV> s2; std::set<int> seen;
		bool keepMost = rng.chance(1, 2);
		if (keepMost) {	// a permutation of most rows
			std::vector<size_t> perm; for (size_t i = 0; i < sh.size(); ++i) if (!rng.chance(1, 10)) perm.push_back(i);
			for (size_t i = perm.size(); i > 1; --i) std::swap(perm[i - 1], perm[rng.below(i)]);
			for (size_t n : perm) { refs.push_back((*tab)[n]); line += fmt(" %d", sh[n].id); if (seen.insert(sh[n].id).second) s2.push_back(sh[n]); }
		} else {
			for (size_t i = 0; i < cnt; ++i) { size_t n = (size_t)rng.below(sh.size()); refs.push_back((*tab)[n]); line += fmt(" %d", sh[n].id); if (seen.insert(sh[n].id).second) s2.push_back(sh[n]); }
		}
		++opNo; c.stats.evaluations++;
		su.op(line);
		tab->Assign(refs.begin(), refs.end());
		sh = s2;
		su.res(fmt("ok %zu", tab->GetCount()));
		c.stats.count("op.assign");
	}
	void opClear() {
		++opNo; c.stats.evaluations++;
		su.op("clear"); tab->Clear(); sh.clear(); su.res("ok");
		c.stats.count("op.clear");
	}

	// ------------------------------------------------ indexes
	bool hasIdx(int k) { for (int u : uDefs) if (u == k) return true; for (int m : mDefs) if (m == k) return true; return false; }
	void createIdx(int k) {
		if (hasIdx(k)) return;
		const IdxDef& def = kIdx[k];
		std::string line = def.unique ? "uidx" : "midx"; for (int cc : def.cols) line += fmt(" %d", cc);
		for (int round = 0; round < 6; ++round) {
			++opNo; c.stats.evaluations++;
			su.op(line);
			if (def.unique) {
				try {
					auto ix = tab->AddUniqueHashIndex(C::A(), C::B());
					su.res(fmt("ok %td", (ptrdiff_t)ix)); uDefs.push_back(k);
					c.stats.count(sh.empty() ? "index.unique.before_data" : "index.unique.after_data");
					// brute force: no two rows may be equal on (a, b)
					std::set<std::pair<int, int>> keys; for (auto& r : sh) if (!keys.insert({ r.v[0], r.v[1] }).second) fail("AddUniqueHashIndex succeeded although two rows are equal on its columns");
					return;
				} catch (const typename Table::UniqueIndexViolation& e) {
					int id = e.rowReference[C::K()];
					su.res(fmt("E:user %d", id));
					c.stats.count("index.unique.refused");
					// brute force: the row reported must be the second of two equal rows
					bool dup = false; size_t pos = 0;
					for (size_t i = 0; i < sh.size(); ++i) if (sh[i].id == id) pos = i;
					for (size_t i = 0; i < pos; ++i) if (sh[i].v[0] == sh[pos].v[0] && sh[i].v[1] == sh[pos].v[1]) dup = true;
					if (!dup) fail(fmt("AddUniqueHashIndex reported row id %d which no earlier row equals", id));
					emitChk(false);
					// remove the offender and try again
					++opNo; su.op(fmt("remref %d", id)); tab->Remove((*tab)[pos]); su.res(fmt("ok %d", id)); sh.erase(sh.begin() + (ptrdiff_t)pos);
				}
			} else {
				ptrdiff_t ix;
				if (k == 1) ix = (ptrdiff_t)tab->AddMultiHashIndex(C::A());
				else if (k == 2) ix = (ptrdiff_t)tab->AddMultiHashIndex(C::B());
				else ix = (ptrdiff_t)tab->AddMultiHashIndex(C::S(), C::A());
				su.res(fmt("ok %td", ix)); mDefs.push_back(k);
				c.stats.count(sh.empty() ? "index.multi.before_data" : "index.multi.after_data");
				return;
			}
		}
	}
	void dropIdx(bool unique) {
		++opNo; c.stats.evaluations++;
		if (unique) { su.op("dropu"); tab->RemoveUniqueHashIndexes(); uDefs.clear(); }
		else { su.op("dropm"); tab->RemoveMultiHashIndexes(); mDefs.clear(); }
		su.res("ok"); c.stats.count("index.dropped");
	}

	// ------------------------------------------------ queries
	Eqs genEqs(bool present) {
		static const int combos[15][4] = { {0,-1,-1,-1}, {1,-1,-1,-1}, {2,-1,-1,-1}, {3,-1,-1,-1}, {0,1,-1,-1}, {1,0,-1,-1}, {2,0,-1,-1}, {0,2,-1,-1},
			{1,2,-1,-1}, {3,0,-1,-1}, {0,1,2,-1}, {2,1,0,-1}, {1,3,0,-1}, {0,1,2,3}, {3,2,1,0} };
		const int* cb = combos[rng.below(15)];
		Eqs e;
		const RV* src = (present && !sh.empty()) ? &sh[rng.below(sh.size())] : nullptr;
		for (int i = 0; i < 4 && cb[i] >= 0; ++i) {
			int cc = cb[i], v;
			if (src) v = src->v[cc];
			else v = (cc == 0) ? (int)rng.below((uint64_t)aRange + 2) : (cc == 1) ? (int)rng.below((uint64_t)bRange + 5) + (rng.chance(1, 3) ? bRange : 0) : (cc == 2) ? (int)rng.below(7) : (int)rng.below(6);
			e.push_back({ cc, v });
		}
		return e;
	}
	std::vector<int> scan(const Eqs& e, const Pred& p) { std::vector<int> ids; for (auto& r : sh) if (eqsHold(e, r) && p(r)) ids.push_back(r.id); return ids; }

	std::unique_ptr<Selection> lastSel;
	bool haveSel = false;

	template<typename RowsT> std::vector<int> idsOf(const RowsT& rows) { std::vector<int> ids; for (auto r : rows) ids.push_back((int)r[C::K()]); return ids; }
	static std::string listSum(const std::vector<int>& ids) { uint64_t h = 0; for (int x : ids) h = ck(h, (uint64_t)x); return fmt("n=%zu h=%llu", ids.size(), (unsigned long long)h); }

	void querySelect() {
		Eqs e = rng.chance(1, 8) ? Eqs() : genEqs(rng.chance(3, 4));
		Pred p; if (rng.chance(1, 3)) p = genPred();
		auto* self = this;
		auto filter = [p, self](CRef r) { return p(self->rvOf(r)); };
		std::vector<int> want = scan(e, p);
		bool count = rng.chance(1, 3);
		++opNo; c.stats.evaluations++;
		if (count) {
			size_t got = 0;
			if (e.empty()) got = (p.kind == 0) ? tab->SelectCount() : tab->SelectCount(filter);
			else dispatchEqs(e, [&](auto mk) { got = (p.kind == 0) ? tab->SelectCount(mk()) : tab->SelectCount(mk(), filter); });
			su.op(fmt("cnt %s | %s", eqsStr(e).c_str(), p.str().c_str())); su.res(fmt("%zu", got));
			if (got != want.size()) fail(fmt("SelectCount(%s | %s) = %zu, a brute-force scan finds %zu", eqsStr(e).c_str(), p.str().c_str(), got, want.size()));
			c.stats.count("query.select_count");
		} else {
			if (e.empty()) { if (p.kind == 0) lastSel.reset(new Selection(tab->Select())); else lastSel.reset(new Selection(tab->Select(filter))); }
			else dispatchEqs(e, [&](auto mk) { if (p.kind == 0) lastSel.reset(new Selection(tab->Select(mk()))); else lastSel.reset(new Selection(tab->Select(mk(), filter))); });
			haveSel = true;
			std::vector<int> got = idsOf(*lastSel);
			su.op(fmt("sel %s | %s", eqsStr(e).c_str(), p.str().c_str())); su.res(listSum(got));
			std::vector<int> g2 = got; std::sort(g2.begin(), g2.end()); std::sort(want.begin(), want.end());
			if (g2 != want) fail(fmt("Select(%s | %s) returns %zu rows, a brute-force scan finds %zu (or other rows)", eqsStr(e).c_str(), p.str().c_str(), got.size(), want.size()));
			c.stats.count("query.select");
		}
		c.stats.count(want.empty() ? "query.result.empty" : want.size() > 192 ? "query.result.gt192" : want.size() > 64 ? "query.result.gt64" : "query.result.small");
		c.stats.nontrivial(fmt("%s/q/%s/%d/%zu", tag.c_str(), eqsStr(e).c_str(), p.kind, want.size()));
	}
	void queryFind() {
		if (uDefs.empty() && mDefs.empty()) return;
		size_t which = (size_t)rng.below(uDefs.size() + mDefs.size());
		bool present = rng.chance(2, 3);
		bool explicitIdx = rng.chance(1, 2);
		++opNo; c.stats.evaluations++;
		if (which < uDefs.size()) {
			const auto& cols = kIdx[uDefs[which]].cols;
			Eqs e; const RV* src = (present && !sh.empty()) ? &sh[rng.below(sh.size())] : nullptr;
			for (int cc : cols) e.push_back({ cc, src ? src->v[cc] : (int)rng.below((uint64_t)bRange + 5) });
			if (rng.chance(1, 2)) std::reverse(e.begin(), e.end());
			std::string got = "none";
			dispatchEqs(e, [&](auto mk) {
				auto ptr = tab->FindByUniqueHash(mk(), explicitIdx ? (momo::DataUniqueHashIndex)(ptrdiff_t)which : momo::DataUniqueHashIndex::empty);
				if (!!ptr) got = fmt("%d", (int)(*ptr)[C::K()]);
			});
			su.op(fmt("fu %s %s", explicitIdx ? fmt("%zu", which).c_str() : "-", eqsStr(e).c_str())); su.res(got);
			std::vector<int> want = scan(e, Pred());
			std::string w = want.empty() ? "none" : fmt("%d", want[0]);
			if (want.size() > 1 || got != w) fail(fmt("FindByUniqueHash(%s) = %s, a brute-force scan gives %s (%zu rows)", eqsStr(e).c_str(), got.c_str(), w.c_str(), want.size()));
			c.stats.count(want.empty() ? "query.find_unique.absent" : "query.find_unique.present");
		} else {
			size_t mi = which - uDefs.size();
			const auto& cols = kIdx[mDefs[mi]].cols;
			Eqs e; const RV* src = (present && !sh.empty()) ? &sh[rng.below(sh.size())] : nullptr;
			for (int cc : cols) e.push_back({ cc, src ? src->v[cc] : (int)rng.below((uint64_t)bRange + 5) + bRange });
			if (rng.chance(1, 2)) std::reverse(e.begin(), e.end());
			std::vector<int> got;
			dispatchEqs(e, [&](auto mk) {
				auto bounds = tab->FindByMultiHash(mk(), explicitIdx ? (momo::DataMultiHashIndex)(ptrdiff_t)mi : momo::DataMultiHashIndex::empty);
				got = idsOf(bounds);
				if (bounds.GetCount() != got.size()) fail("FindByMultiHash: GetCount differs from the number of rows iterated");
			});
			su.op(fmt("fm %s %s", explicitIdx ? fmt("%zu", mi).c_str() : "-", eqsStr(e).c_str())); su.res(listSum(got));
			std::vector<int> want = scan(e, Pred());
			std::vector<int> g2 = got; std::sort(g2.begin(), g2.end()); std::sort(want.begin(), want.end());
			if (g2 != want) fail(fmt("FindByMultiHash(%s) returns %zu rows, a brute-force scan finds %zu (or other rows)", eqsStr(e).c_str(), got.size(), want.size()));
			c.stats.count(want.empty() ? "query.find_multi.absent" : want.size() > 192 ? "query.find_multi.gt192" : want.size() > 64 ? "query.find_multi.gt64" : "query.find_multi.present");
		}
	}
	template<typename T2> std::vector<std::vector<int>> tuplesOf(const T2& t2, const std::vector<int>& cols) {
		std::vector<std::vector<int>> out;
		for (auto r : t2) { std::vector<int> tup; for (int cc : cols) tup.push_back(cc == 0 ? (int)r[C::A()] : cc == 1 ? (int)r[C::B()] : strNo(r[C::S()])); out.push_back(tup); }
		return out;
	}
	void queryProject() {
		int combo = (int)rng.below(3);
		bool distinct = rng.chance(1, 2);
		Pred p; if (rng.chance(1, 2)) p = genPred();
		auto* self = this;
		auto filter = [p, self](CRef r) { return p(self->rvOf(r)); };
		std::vector<int> cols = combo == 0 ? std::vector<int>{ 0 } : combo == 1 ? std::vector<int>{ 0, 2 } : std::vector<int>{ 1, 0 };
		std::vector<std::vector<int>> got;
		const Table& ct = *tab;
		switch (combo) {
		case 0: { Table r = distinct ? ct.ProjectDistinct(C::makeProj(C::A()), filter, C::A()) : ct.Project(C::makeProj(C::A()), filter, C::A()); got = tuplesOf(r, cols); break; }
		case 1: { Table r = distinct ? ct.ProjectDistinct(C::makeProj(C::A(), C::S()), filter, C::A(), C::S()) : ct.Project(C::makeProj(C::A(), C::S()), filter, C::A(), C::S()); got = tuplesOf(r, cols); break; }
		default: { Table r = distinct ? ct.ProjectDistinct(C::makeProj(C::B(), C::A()), filter, C::B(), C::A()) : ct.Project(C::makeProj(C::B(), C::A()), filter, C::B(), C::A()); got = tuplesOf(r, cols); break; }
		}
		++opNo; c.stats.evaluations++;
		std::string line = fmt("proj %d", distinct ? 1 : 0); for (int cc : cols) line += fmt(" %d", cc); line += " | " + p.str();
		uint64_t h = 0; for (auto& tup : got) { h = ck(h, 7); for (int x : tup) h = ck(h, (uint64_t)x); }
		su.op(line); su.res(fmt("n=%zu h=%llu", got.size(), (unsigned long long)h));
		std::vector<std::vector<int>> want; std::set<std::vector<int>> seen;
		for (auto& r : sh) if (p(r)) { std::vector<int> tup; for (int cc : cols) tup.push_back(r.v[cc]); if (!distinct || seen.insert(tup).second) want.push_back(tup); }
		if (got != want) fail(fmt("%s(%s) returns %zu rows, a brute-force scan gives %zu (or other rows / another order)", distinct ? "ProjectDistinct" : "Project", line.c_str(), got.size(), want.size()));
		c.stats.count(distinct ? "query.project_distinct" : "query.project");
	}
	// Sort / Group / bounds on the selection of the last `sel`
	void querySelection() {
		if (!haveSel) return;
		int combo = (int)rng.below(3);
		std::vector<int> cols = combo == 0 ? std::vector<int>{ 1, 0 } : combo == 1 ? std::vector<int>{ 0 } : std::vector<int>{ 2, 1 };
		std::vector<int> before = idsOf(*lastSel);
		std::map<int, const RV*> byId; for (auto& r : sh) byId[r.id] = &r;
		auto keyOf = [&](int id) { std::vector<int> key; auto it = byId.find(id); for (int cc : cols) key.push_back(it == byId.end() ? -1 : it->second->v[cc]); return key; };
		std::string colsStr; for (int cc : cols) colsStr += fmt(" %d", cc);
		++opNo; c.stats.evaluations++;
		if (rng.chance(1, 2)) {
			switch (combo) { case 0: lastSel->Sort(C::B(), C::A()); break; case 1: lastSel->Sort(C::A()); break; default: lastSel->Sort(C::S(), C::B()); break; }
			std::vector<int> after = idsOf(*lastSel);
			uint64_t h = 0; std::vector<std::vector<int>> keys;
			for (int id : after) { auto key = keyOf(id); keys.push_back(key); h = ck(h, 7); for (int x : key) h = ck(h, (uint64_t)x); }
			su.op("sort" + colsStr); su.res(fmt("h=%llu", (unsigned long long)h));
			if (!std::is_sorted(keys.begin(), keys.end())) fail(fmt("Selection::Sort(%s) left the selection unsorted", colsStr.c_str()));
			std::vector<int> b2 = before, a2 = after; std::sort(b2.begin(), b2.end()); std::sort(a2.begin(), a2.end());
			if (a2 != b2) fail(fmt("Selection::Sort(%s) changed the set of rows", colsStr.c_str()));
			c.stats.count("query.selection.sort");
			// bounds on the sorted selection (combo 2 sorts by a string column: the model compares numbers, skip)
			if (combo != 2) {
				for (int rep = 0; rep < 2; ++rep) {
					Eqs e; const RV* src = (!sh.empty() && rng.chance(2, 3)) ? &sh[rng.below(sh.size())] : nullptr;
					for (int cc : cols) e.push_back({ cc, src ? src->v[cc] : (int)rng.below((uint64_t)bRange + 5) });
					std::vector<int> key; for (auto& p : e) key.push_back(p.second);
					size_t lb = 0, ub = 0;
					if (combo == 0) { lb = lastSel->GetLowerBound(typename Table::template Equality<int>(C::B(), e[0].second), typename Table::template Equality<int>(C::A(), e[1].second));
						ub = lastSel->GetUpperBound(typename Table::template Equality<int>(C::B(), e[0].second), typename Table::template Equality<int>(C::A(), e[1].second)); }
					else { lb = lastSel->GetLowerBound(typename Table::template Equality<int>(C::A(), e[0].second)); ub = lastSel->GetUpperBound(typename Table::template Equality<int>(C::A(), e[0].second)); }
					++opNo; su.op("lb " + eqsStr(e)); su.res(fmt("%zu", lb));
					++opNo; su.op("ub " + eqsStr(e)); su.res(fmt("%zu", ub));
					size_t wl = 0, wu = 0; for (auto& k2 : keys) { if (k2 < key) ++wl; if (!(key < k2)) ++wu; }
					if (lb != wl || ub != wu) fail(fmt("GetLowerBound/GetUpperBound(%s) = %zu/%zu, a linear scan of the sorted selection gives %zu/%zu", eqsStr(e).c_str(), lb, ub, wl, wu));
					c.stats.count("query.selection.bounds");
				}
			}
		} else {
			switch (combo) { case 0: lastSel->Group(C::B(), C::A()); break; case 1: lastSel->Group(C::A()); break; default: lastSel->Group(C::S(), C::B()); break; }
			std::vector<int> after = idsOf(*lastSel);
			std::set<std::vector<int>> closed; std::vector<int> cur; bool first = true; size_t runs = 0; bool ok = true;
			for (int id : after) { auto key = keyOf(id); if (first || key != cur) { if (!first) closed.insert(cur); if (closed.count(key)) ok = false; cur = key; first = false; ++runs; } }
			su.op("group" + colsStr); su.res(fmt("g=%zu", runs));
			if (!ok) fail(fmt("Selection::Group(%s) left equal keys apart", colsStr.c_str()));
			std::vector<int> b2 = before, a2 = after; std::sort(b2.begin(), b2.end()); std::sort(a2.begin(), a2.end());
			if (a2 != b2) fail(fmt("Selection::Group(%s) changed the set of rows", colsStr.c_str()));
			c.stats.count("query.selection.group");
		}
	}

	// ------------------------------------------------ generation
	RV genRow() {
		RV x = genRow0();
		if (haveForced) { for (int cc : forcedCols) x.v[cc] = forced.v[cc]; if (forcedCols.size() == 1 && forcedCols[0] == 0) x.v[1] = bRange + (int)rng.below(1000); }
		return x;
	}
	RV genRow0() {
		RV x; x.id = nextId++;
		if (!sh.empty() && rng.chance((unsigned)dupPct, 100)) { const RV& o = sh[rng.below(sh.size())]; x.v[0] = o.v[0]; x.v[1] = o.v[1]; }
		else {
			x.v[0] = rng.chance(3, 5) ? 0 : (int)rng.below((uint64_t)aRange);
			x.v[1] = (int)rng.below((uint64_t)bRange);
		}
		x.v[2] = (int)rng.below(5);
		x.v[3] = (int)rng.below(4);
		return x;
	}

	void refill(size_t target) {
		while (sh.size() < target) { size_t before = sh.size(); opAdd(false, false); emitChk(false); if (sh.size() == before && rng.chance(1, 50)) break; }
	}

	// flavor 0: mixed history; 1: single-column updates dominate (finding F9 lives there); 2: removals / assignments dominate
	void run(unsigned subset, unsigned afterMask, size_t bulk, size_t steps, unsigned flavor) {
		offK = 0;
		tab = new Table(C::make());
		offK = tab->GetColumnList().GetOffset(C::K());
		heavy = bulk > 200;
		bRange = (int)std::max<size_t>(8, bulk * 2 / 3);
		aRange = 3;
		dupPct = (afterMask & 1) && (subset & 1) ? 1 : 10;
		std::vector<std::pair<size_t, int>> later;	// (step, index) to create after the data
		for (int k = 0; k < 4; ++k) if (subset & (1u << k)) {
			if (afterMask & (1u << k)) later.push_back({ (size_t)rng.below(steps * 2 / 3 + 1), k });
			else createIdx(k);
		}
		emitChk(true);
		for (size_t i = 0; i < bulk; ++i) { opAdd(!heavy && rng.chance(1, 4), rng.chance(1, 10)); emitChk(false); }
		emitChk(!heavy || rng.chance(1, 2));
		for (size_t st = 0; st < steps; ++st) {
			for (auto& lt : later) if (lt.first == st) { createIdx(lt.second); dupPct = 10; emitChk(false); }
			bool sweep = heavy ? rng.chance(1, 5) : rng.chance(1, 2);
			unsigned r = (unsigned)rng.below(100);
			if (flavor == 1 && rng.chance(1, 2)) r = 45;
			if (flavor == 2 && rng.chance(1, 2)) r = 58 + (unsigned)rng.below(32);
			if (!mDefs.empty() && rng.chance(1, heavy ? 3 : 20) && opAddBoundary()) r = 1000;
			if (r == 1000) {}
			else if (r < 22) opAdd(sweep, rng.chance(1, 10));
			else if (r < 30) opInsert(sweep);
			else if (r < 40) opUpdRow(sweep);
			else if (r < 58) opUpdCol(sweep);
			else if (r < 72) opRemove();
			else if (r < 76) opReadd();
			else if (r < 82) opRemoveRows();
			else if (r < 86) opRemovePred();
			else if (r < 90) opAssign();
			else if (r < 91) { if (rng.chance(1, 3)) opClear(); }
			else if (r < 94) { if (rng.chance(1, 3)) { Pred p = genPred(); rebuild(p.str(), &p); } else rebuild("T"); }
			else if (r < 95) { bool u = rng.chance(1, 2); std::vector<int> defs = u ? uDefs : mDefs; dropIdx(u); for (int k : defs) later.push_back({ st + 1 + (size_t)rng.below(10), k }); }
			else opAdd(sweep, false);
			haveSel = false; lastSel.reset();
			emitChk(rng.chance(1, heavy ? 40 : 10));
			size_t nq = heavy ? 2 : 3;
			for (size_t q = 0; q < nq; ++q) {
				unsigned qr = (unsigned)rng.below(10);
				if (qr < 5) querySelect(); else if (qr < 8) queryFind(); else if (qr < 9) queryProject(); else { querySelect(); querySelection(); }
			}
			if (sh.size() < bulk / 2) refill(bulk * 3 / 4);
		}
		emitChk(true);
		held.clear();
		lastSel.reset();
		delete tab; tab = nullptr;
		Arena& ar = arena();
		if (!ar.live.empty() || ar.badDealloc) { fail(fmt("%zu blocks still allocated / %zu bad deallocations after the table was destroyed", ar.live.size(), ar.badDealloc)); ar.live.clear(); ar.badDealloc = 0; }
	}
};

// typed dispatch of a list of (column, value) equalities to DataEquality<...>
template<bool tDyn, bool tKeep, size_t tMaxEq>
template<typename F>
void Runner<tDyn, tKeep, tMaxEq>::dispatchEqs(const Eqs& e, F&& f)
{
	int code = 0; for (auto& p : e) code = code * 5 + p.first + 1;
	std::string sv; for (auto& p : e) if (p.first == 2) sv = strOf(p.second);
	int v[4] = { 0, 0, 0, 0 }; for (size_t i = 0; i < e.size() && i < 4; ++i) v[i] = e[i].second;
	const std::string& svr = sv;
	// DataEquality is neither copyable nor movable: hand over a maker that builds the prvalue at the call site
	#define EA(i) And(C::A(), v[i])
	#define EB(i) And(C::B(), v[i])
	#define ES(i) And(C::S(), svr)
	#define ED(i) And(C::D(), v[i])
	#define MK(chain) f([&]() { return momo::DataEquality<>().chain; })
	switch (code) {
	case 1: MK(EA(0)); break;
	case 2: MK(EB(0)); break;
	case 3: MK(ES(0)); break;
	case 4: MK(ED(0)); break;
	case 1 * 5 + 2: MK(EA(0).EB(1)); break;
	case 2 * 5 + 1: MK(EB(0).EA(1)); break;
	case 3 * 5 + 1: MK(ES(0).EA(1)); break;
	case 1 * 5 + 3: MK(EA(0).ES(1)); break;
	case 2 * 5 + 3: MK(EB(0).ES(1)); break;
	case 4 * 5 + 1: MK(ED(0).EA(1)); break;
	case (1 * 5 + 2) * 5 + 3: MK(EA(0).EB(1).ES(2)); break;
	case (3 * 5 + 2) * 5 + 1: MK(ES(0).EB(1).EA(2)); break;
	case (2 * 5 + 4) * 5 + 1: MK(EB(0).ED(1).EA(2)); break;
	case ((1 * 5 + 2) * 5 + 3) * 5 + 4: MK(EA(0).EB(1).ES(2).ED(3)); break;
	case ((4 * 5 + 3) * 5 + 2) * 5 + 1: MK(ED(0).ES(1).EB(2).EA(3)); break;
	default: fprintf(stderr, "dispatchEqs: unsupported column sequence %d\n", code); exit(3);
	}
	#undef MK
	#undef EA
	#undef EB
	#undef ES
	#undef ED
}

template<bool tDyn, bool tKeep, size_t tMaxEq>
static void runAll(Ctx& c, Rng& rng, const char* name)
{
	Suite su(c, name, fmt("model table keep=%d maxeq=%zu", tKeep ? 1 : 0, tMaxEq));
	// every subset of {unique(a,b), multi(a), multi(b), multi(s,a)}; each index before or after the data;
	// sizes: small (<= 80 rows), medium (100..250), big (> 330 rows: more than 64 and more than 192 rows per key of multi(a))
	for (unsigned subset = 0; subset < 16; ++subset) {
		unsigned rounds = c.thorough ? 9 : 3;
		for (unsigned round = 0; round < rounds; ++round) {
			unsigned afterMask = (unsigned)rng.below(16) & subset;
			if (round == 0) afterMask = 0;
			if (round == 1) afterMask = subset;
			g_fam = (round % 3 == 2) ? 1u : (unsigned)rng.below(5);
			unsigned size = round % 3;
			size_t bulk = size == 2 ? (c.thorough ? 450 + (size_t)rng.below(350) : 330 + (size_t)rng.below(120)) : size == 1 ? 100 + (size_t)rng.below(150) : 10 + (size_t)rng.below(70);
			size_t steps = c.thorough ? 260 : 120;
			unsigned flavor = (unsigned)rng.below(3);
			std::string tag = fmt("%s:subset=%u,after=%u,fam=%u,bulk=%zu,flavor=%u,round=%u", name, subset, afterMask, g_fam, bulk, flavor, round);
			su.comment("history " + tag);
			su.op("reset"); su.res("ok");
			Runner<tDyn, tKeep, tMaxEq> r(c, rng, su, tag);
			r.run(subset, afterMask, bulk, steps, flavor);
			c.stats.count(fmt("history.size.%s", size == 2 ? "big" : size == 1 ? "medium" : "small"));
			c.stats.count(fmt("history.hash_family.%u", g_fam));
			c.stats.count(fmt("history.indexes_after_data.%u", (unsigned)__builtin_popcount(afterMask)));
			if (c.stats.samples.size() < 4) c.stats.sample(tag);
		}
	}
}

int main(int argc, char** argv)
{
	Ctx c = parseArgs(argc, argv);
	Rng rng(c.seed * 0x1000 + 7 + VF_PART * 0x100);
#if VF_PART == 0
	runAll<true, false, 6>(c, rng, "dyn_nonum");
#elif VF_PART == 1
	runAll<true, true, 1>(c, rng, "dyn_num");
#elif VF_PART == 2
	runAll<false, false, 2>(c, rng, "sta_nonum");
#else
	runAll<false, true, 6>(c, rng, "sta_num");
#endif
	c.stats.count("arena.allocations", arena().allocs);
	c.stats.count("arena.faults_fired", arena().firedTotal);
	return c.finish();
}
