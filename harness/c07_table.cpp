// C07 correspondence harness: momo::DataTable with unique / multi hash indexes against
//   (a) a shadow list of rows + brute-force scans (property level: c.fail on disagreement), and
//   (b) the Lean model `table` (model level: rows in order, row numbers, the content of every index hash
//       table and the exact raw order inside every multi-hash group, read with -fno-access-control).
// One executable per table type (-DVF_PART=0..3): dynamic / static column list x keepRowNumber off / on,
// with selectEqualityMaxCount 6 / 1 / 2 / 6.
// Rows come from an arena memory manager, so that row addresses (the order inside multi-hash segments) are the
// same numbers on every run; the address of every new row is written on its op line ("address rank").
#include "momo/DataTable.h"
#include "common/verif_common.h"

#include <sys/mman.h>
#include <algorithm>
#include <functional>
#include <map>
#include <memory>
#include <set>
#include <string>
#include <unordered_map>
#include <vector>

#ifndef VF_PART
#define VF_PART 0
#endif

using namespace vf;

// ---------------------------------------------------------------- ledger of the global heap (the long strings of column s live there):
// compared around operations that must give back everything they built (a failed table copy destroys the items of the row it imported)
static long g_heapLive = 0;
void* operator new(size_t n) { void* p = malloc(n ? n : 1); if (!p) throw std::bad_alloc(); ++g_heapLive; return p; }
void operator delete(void* p) noexcept { if (p) { --g_heapLive; free(p); } }
void operator delete(void* p, size_t) noexcept { if (p) { --g_heapLive; free(p); } }

// ---------------------------------------------------------------- arena memory manager (deterministic addresses, ledger, faults)
// (the arena's own bookkeeping stays out of the heap ledger)
template<typename T> struct MallocAlloc {
	typedef T value_type;
	MallocAlloc() = default;
	template<typename U> MallocAlloc(const MallocAlloc<U>&) {}
	T* allocate(size_t n) { void* p = malloc(n * sizeof(T)); if (!p) throw std::bad_alloc(); return (T*)p; }
	void deallocate(T* p, size_t) { free(p); }
	template<typename U> bool operator==(const MallocAlloc<U>&) const { return true; }
	template<typename U> bool operator!=(const MallocAlloc<U>&) const { return false; }
};
struct Arena {
	char* base = nullptr; size_t cap = 0, top = 0;
	typedef std::vector<char*, MallocAlloc<char*>> FreeList;
	std::map<size_t, FreeList, std::less<size_t>, MallocAlloc<std::pair<const size_t, FreeList>>> freeLists;
	std::unordered_map<void*, size_t, std::hash<void*>, std::equal_to<void*>, MallocAlloc<std::pair<void* const, size_t>>> live;
	long failAfter = -1; bool fired = false;
	size_t allocs = 0, badDealloc = 0, firedTotal = 0;
	Arena() {
		cap = size_t(4) << 30;
		base = (char*)mmap(nullptr, cap, PROT_READ | PROT_WRITE, MAP_PRIVATE | MAP_ANONYMOUS | MAP_NORESERVE, -1, 0);
		if (base == MAP_FAILED) { fprintf(stderr, "arena mmap failed\n"); exit(3); }
		top = 64;
	}
	void arm(long k) { failAfter = k; fired = false; }
	void disarm() { failAfter = -1; }
};
static Arena& arena() { static Arena a; return a; }

class ArenaMM {
public:
	explicit ArenaMM() noexcept {}
	ArenaMM(ArenaMM&&) = default;
	ArenaMM(const ArenaMM&) = default;
	~ArenaMM() = default;
	ArenaMM& operator=(const ArenaMM&) = delete;
	void* Allocate(size_t size) {
		Arena& a = arena();
		if (a.failAfter >= 0) {
			if (a.failAfter == 0) { a.failAfter = -1; a.fired = true; ++a.firedTotal; throw std::bad_alloc(); }
			--a.failAfter;
		}
		size_t rs = (size + 15) & ~size_t(15);
		if (rs == 0) rs = 16;
		char* p;
		auto it = a.freeLists.find(rs);
		if (it != a.freeLists.end() && !it->second.empty()) { p = it->second.back(); it->second.pop_back(); }
		else {
			if (a.top + rs > a.cap) throw std::bad_alloc();
			p = a.base + a.top; a.top += rs;
		}
		a.live[p] = size; ++a.allocs;
		return p;
	}
	void Deallocate(void* p, size_t size) noexcept {
		Arena& a = arena();
		auto it = a.live.find(p);
		if (it == a.live.end() || it->second != size) { ++a.badDealloc; return; }
		a.live.erase(it);
		size_t rs = (size + 15) & ~size_t(15);
		if (rs == 0) rs = 16;
		a.freeLists[rs].push_back((char*)p);
	}
};

// ---------------------------------------------------------------- columns
typedef momo::DataStructDefault<int, std::string> DynStruct;
MOMO_DATA_COLUMN_STRING_TAG(DynStruct, int, dynA);
MOMO_DATA_COLUMN_STRING_TAG(DynStruct, int, dynB);
MOMO_DATA_COLUMN_STRING_TAG(DynStruct, std::string, dynS);
MOMO_DATA_COLUMN_STRING_TAG(DynStruct, int, dynD);
MOMO_DATA_COLUMN_STRING_TAG(DynStruct, int, dynK);

struct SRow { int a; int b; std::string s; int d; int k; };
MOMO_DATA_COLUMN_STRUCT(SRow, a);
MOMO_DATA_COLUMN_STRUCT(SRow, b);
MOMO_DATA_COLUMN_STRUCT(SRow, s);
MOMO_DATA_COLUMN_STRUCT(SRow, d);
MOMO_DATA_COLUMN_STRUCT(SRow, k);

// hash family of DataTraits::AccumulateHashCode (chosen per history)
static unsigned g_fam = 0;
static uint64_t g_hashCalls = 0;
static inline size_t famInt(int v) {
	switch (g_fam) {
	case 0: return (size_t)(v & 3);                       // deliberately weak: 4 values
	case 1: return (size_t)v;                             // identity (std::hash<int>): all short hashes equal
	case 2: return 0;                                     // constant
	case 3: return ((size_t)(unsigned)v) << 56;           // high byte only
	default: return (size_t)v * 11400714819323198485ull;  // multiplicative
	}
}
static inline size_t famStr(const std::string& s) {
	size_t h = 0;
	for (char c : s) h = h * 31 + (unsigned char)c;
	switch (g_fam) {
	case 0: return s.size() & 1;
	case 1: return h;
	case 2: return 0;
	case 3: return h << 56;
	default: return h * 11400714819323198485ull;
	}
}

// functor faults: HashFault = a throwing hash / equality of an indexed item type (armed only around Remove / Extract: the reject path of
// DataIndexes::RemoveRaw), UserFault = a throwing row filter or a throwing conversion of an item argument of NewRow(assignments...)
struct HashFault {};
struct UserFault {};
static long g_hashFailAfter = -1; static bool g_hashFired = false;
static inline void hashTick() {
	++g_hashCalls;
	if (g_hashFailAfter >= 0) { if (g_hashFailAfter == 0) { g_hashFailAfter = -1; g_hashFired = true; throw HashFault(); } --g_hashFailAfter; }
}

template<size_t tMaxEq>
struct WeakTraits : public momo::DataTraits {
	static const size_t selectEqualityMaxCount = tMaxEq;
	static void AccumulateHashCode(size_t& hashCode, const int& item, size_t /*offset*/) { hashTick(); hashCode += famInt(item); }
	static void AccumulateHashCode(size_t& hashCode, const std::string& item, size_t /*offset*/) { hashTick(); hashCode += famStr(item); }
	template<typename Item> static bool IsEqual(const Item& item1, const Item& item2) { hashTick(); return item1 == item2; }
};

template<bool tDyn, bool tKeep> struct CL;
template<bool tKeep> struct CL<true, tKeep> {
	typedef momo::DataColumnList<momo::DataColumnTraits<DynStruct>, ArenaMM, momo::DataItemTraits<ArenaMM>, momo::DataSettings<tKeep>> List;
	static const decltype(dynA)& A() { return dynA; }
	static const decltype(dynB)& B() { return dynB; }
	static const decltype(dynS)& S() { return dynS; }
	static const decltype(dynD)& D() { return dynD; }
	static const decltype(dynK)& K() { return dynK; }
	static List make() { List l; l.Add(dynA); l.Add(dynB); l.Add(dynS); l.Add(dynD.Mutable()); l.Add(dynK); return l; }	// d: mutable column
	template<typename... Cols> static List makeProj(const Cols&... cols) { List l; int dummy[] = { (l.Add(cols), 0)... }; (void)dummy; return l; }
};
template<bool tKeep> struct CL<false, tKeep> {
	typedef momo::DataColumnListStatic<SRow, momo::DataColumnInfo<SRow>, ArenaMM, momo::DataSettings<tKeep>> List;
	static const decltype(a)& A() { return a; }
	static const decltype(b)& B() { return b; }
	static const decltype(s)& S() { return s; }
	static const decltype(d)& D() { return d; }
	static const decltype(k)& K() { return k; }
	static List make() { List l; l.SetMutable(d); return l; }	// d: mutable column
	template<typename... Cols> static List makeProj(const Cols&...) { return List(); }
};

// ---------------------------------------------------------------- values
// value j of column s <-> string; the order of the strings is the order of the numbers (Selection::Sort), every third one is long (heap)
static std::string strOf(int j) { return std::string(1, (char)('a' + j)) + ((j % 3 == 2) ? std::string(28, 'x') : std::string()); }
static int strNo(const std::string& s) { return s.empty() ? -1 : s[0] - 'a'; }

struct RV { int id; int v[4]; };	// shadow row: identity + a b s d
static const uint64_t CKP = 2147483647ull;
static inline uint64_t ck(uint64_t h, uint64_t x) { return (h * 1000003ull + x + 1) % CKP; }

// predicate atoms shared with the driver: T | eq c v | mod c m r | lt c v | idmod m r
struct Pred {
	int kind = 0, c = 0, x = 0, y = 0;
	bool operator()(const RV& r) const {
		switch (kind) {
		case 1: return r.v[c] == x;
		case 2: return r.v[c] % x == y;
		case 3: return r.v[c] < x;
		case 4: return r.id % x == y;
		default: return true;
		}
	}
	std::string str() const {
		switch (kind) {
		case 1: return fmt("eq %d %d", c, x);
		case 2: return fmt("mod %d %d %d", c, x, y);
		case 3: return fmt("lt %d %d", c, x);
		case 4: return fmt("idmod %d %d", x, y);
		default: return "T";
		}
	}
};

typedef std::vector<std::pair<int, int>> Eqs;	// (column, value) in query order
static std::string eqsStr(const Eqs& e) { std::string s; for (auto& p : e) s += fmt("%s%d=%d", s.empty() ? "" : " ", p.first, p.second); return s; }
static bool eqsHold(const Eqs& e, const RV& r) { for (auto& p : e) if (r.v[p.first] != p.second) return false; return true; }

struct IdxDef { bool unique; std::vector<int> cols; };
static const IdxDef kIdx[4] = { { true, { 0, 1 } }, { false, { 0 } }, { false, { 1 } }, { false, { 2, 0 } } };

// ---------------------------------------------------------------- one history on one table type
template<bool tDyn, bool tKeep, size_t tMaxEq>
struct Runner {
	typedef CL<tDyn, tKeep> C;
	typedef typename C::List ColumnList;
	typedef momo::DataTable<ColumnList, WeakTraits<tMaxEq>> Table;
	typedef typename Table::Row Row;
	typedef typename Table::Raw Raw;
	typedef typename Table::ConstRowReference CRef;
	typedef typename Table::Selection Selection;

	Ctx& c; Rng& rng; Suite& su; std::string tag;
	Table* tab = nullptr;
	std::vector<RV> sh;			// shadow list (property-level oracle)
	std::vector<int> uDefs, mDefs;		// kIdx numbers of the existing unique / multi indexes, in creation order
	int nextId = 1;
	size_t offK = 0;
	uint64_t opNo = 0;
	int aRange = 3, bRange = 50, dupPct = 10;
	std::vector<Row> held;			// extracted rows waiting to be added back
	bool heavy = false;

	Runner(Ctx& c_, Rng& r_, Suite& s_, const std::string& tag_) : c(c_), rng(r_), su(s_), tag(tag_) {}

	// ------------------------------------------------ access to the real structures
	int idOfRaw(Raw* raw) const { return ColumnList::template GetByOffset<const int>(raw, offK); }
	static uint64_t addrOf(const void* raw) { return (uint64_t)((const char*)raw - arena().base); }
	RV rvOf(CRef r) const { RV x; x.id = r[C::K()]; x.v[0] = r[C::A()]; x.v[1] = r[C::B()]; x.v[2] = strNo(r[C::S()]); x.v[3] = r[C::D()]; return x; }
	size_t numOf(CRef r, size_t dflt) const { return numOfImpl(r, dflt, std::integral_constant<bool, tKeep>()); }
	size_t numOfImpl(CRef r, size_t, std::true_type) const { return r.GetNumber(); }
	size_t numOfImpl(CRef, size_t dflt, std::false_type) const { return dflt; }

	Row makeRow(const RV& x) {
		Row row = tab->NewRow();
		row[C::A()] = x.v[0]; row[C::B()] = x.v[1]; row[C::S()] = strOf(x.v[2]); row[C::D()] = x.v[3]; row[C::K()] = x.id;
		return row;
	}
	std::string valsStr(const RV& x) const { return fmt("%d %d %d %d", x.v[0], x.v[1], x.v[2], x.v[3]); }
	// the item argument of column s in NewRow / AddRow / InsertRow(assignments...): converted to std::string inside pvFillRaw
	struct StrArg { int j; bool boom; operator std::string() const { if (boom) throw UserFault(); return strOf(j); } };
	#define VF_ASSIGNS(x, boom) C::A() = (int)(x).v[0], C::B() = (int)(x).v[1], C::S() = StrArg{ (x).v[2], (boom) }, C::D() = (int)(x).v[3], C::K() = (int)(x).id
	RV rvOfRow(const Row& r) const { RV x; x.id = r[C::K()]; x.v[0] = r[C::A()]; x.v[1] = r[C::B()]; x.v[2] = strNo(r[C::S()]); x.v[3] = r[C::D()]; return x; }
	static bool sameRV(const RV& p, const RV& q) { return p.id == q.id && p.v[0] == q.v[0] && p.v[1] == q.v[1] && p.v[2] == q.v[2] && p.v[3] == q.v[3]; }
	// how a detached row is made: 0 NewRow() + operator[], 1 NewRow(assignments...), 2 NewRow(const Row&) of such a row
	Row buildRow(const RV& x, int mk) {
		if (mk == 1) {
			Row row = tab->NewRow(VF_ASSIGNS(x, false));
			if (!sameRV(rvOfRow(row), x)) fail(fmt("NewRow(assignments: id %d: %s) holds (%s)", x.id, valsStr(x).c_str(), valsStr(rvOfRow(row)).c_str()));
			c.stats.count("row.made_by.NewRow(assignments)");
			return row;
		}
		if (mk == 2) {
			Row row0 = makeRow(x);
			const Row& cr = row0;
			Row row = tab->NewRow(cr);
			if (row.GetRaw() == row0.GetRaw() || !sameRV(rvOfRow(row), x) || !sameRV(rvOfRow(row0), x))
				fail(fmt("NewRow(const Row&) of (id %d: %s) holds (%s)", x.id, valsStr(x).c_str(), valsStr(rvOfRow(row)).c_str()));
			c.stats.count("row.made_by.NewRow(const Row&)");
			return row;
		}
		return makeRow(x);
	}
	// NewRow(assignments...) interrupted by a throwing item conversion: the exception reaches the caller, the row block goes back to the pool
	void probeNewRowThrow(const RV& x) {
		tab->pvDeallocateFreeRaws();
		size_t blocks = tab->mRawMemPool.GetAllocateCount();	// (the pool may keep an empty buffer: the arena ledger is compared at the end of the history)
		bool thrown = false;
		long heap = g_heapLive;
		try { Row row = tab->NewRow(VF_ASSIGNS(x, true)); }
		catch (const UserFault&) { thrown = true; }
		if (g_heapLive != heap) fail(fmt("NewRow(assignments: id %d) interrupted by a throwing item conversion left %ld heap blocks of row items allocated", x.id, g_heapLive - heap));
		if (!thrown) fail(fmt("NewRow(assignments: id %d) swallowed the exception thrown by the conversion of an item argument", x.id));
		if (tab->mRawMemPool.GetAllocateCount() != blocks)
			fail(fmt("NewRow(assignments: id %d) interrupted by a throwing item conversion keeps its row block (%zu -> %zu blocks of the raw pool)",
				x.id, blocks, tab->mRawMemPool.GetAllocateCount()));
		c.stats.evaluations++; c.stats.count("fault.thrown.new_row_item_conversion");
	}

	// content of the index hash tables, in the form the driver prints
	struct IdxDump { std::vector<std::vector<int>> u; std::vector<std::vector<std::vector<int>>> m; bool transient = false; };
	IdxDump dumpIdx() {
		IdxDump d;
		auto& ind = tab->mIndexes;
		for (size_t i = 0; i < ind.mUniqueHashes.GetCount(); ++i) {
			auto& uh = ind.mUniqueHashes[i];
			std::vector<int> ids;
			for (Raw* raw : uh.mHashSet) ids.push_back(idOfRaw(raw));
			d.u.push_back(ids);
			if (!!uh.mPositionAdd || !!uh.mPositionRemove) d.transient = true;
		}
		for (size_t i = 0; i < ind.mMultiHashes.GetCount(); ++i) {
			auto& mh = ind.mMultiHashes[i];
			std::vector<std::vector<int>> groups;
			for (auto ref : mh.mHashMultiMap.GetKeyBounds()) {
				std::vector<int> g;
				g.push_back(idOfRaw(ref.key));
				for (Raw* raw : ref) g.push_back(idOfRaw(raw));
				groups.push_back(g);
			}
			d.m.push_back(groups);
			if (!!mh.mKeyIteratorAdd || !!mh.mKeyIteratorRemove) d.transient = true;
		}
		return d;
	}
	static uint64_t groupSum(const std::vector<int>& g) { uint64_t h = 0; for (int x : g) h = ck(h, (uint64_t)x); return h; }
	static uint64_t multiSum(const std::vector<std::vector<int>>& gs) { uint64_t s = 0; for (auto& g : gs) s += groupSum(g); return s % CKP; }

	std::string chkLine(const IdxDump& d) {
		uint64_t r = 0; size_t n = tab->GetCount();
		for (size_t i = 0; i < n; ++i) {
			CRef row = (*tab)[i]; RV x = rvOf(row);
			r = ck(ck(r, (uint64_t)x.id), tKeep ? numOf(row, 0) : 0);
			for (int j = 0; j < 4; ++j) r = ck(r, (uint64_t)x.v[j]);
		}
		std::string s = fmt("n=%zu r=%llu t=%d", n, (unsigned long long)r, d.transient ? 1 : 0);
		for (size_t i = 0; i < d.u.size(); ++i) {
			uint64_t sum = 0; for (int id : d.u[i]) sum += ck(ck(0, 17), (uint64_t)id);
			s += fmt(" u%zu=%zu:%llu", i, d.u[i].size(), (unsigned long long)(sum % CKP));
		}
		for (size_t i = 0; i < d.m.size(); ++i) s += fmt(" m%zu=%zu:%llu", i, d.m[i].size(), (unsigned long long)multiSum(d.m[i]));
		return s;
	}
	std::string dumpLine(const IdxDump& d) {
		std::string s; size_t n = tab->GetCount();
		for (size_t i = 0; i < n; ++i) {
			CRef row = (*tab)[i]; RV x = rvOf(row);
			s += fmt("%s%d:%zu:%d,%d,%d,%d", i ? " " : "", x.id, tKeep ? numOf(row, 0) : (size_t)0, x.v[0], x.v[1], x.v[2], x.v[3]);
		}
		for (size_t i = 0; i < d.u.size(); ++i) {
			std::vector<int> ids = d.u[i]; std::sort(ids.begin(), ids.end());
			s += " | u("; for (size_t j = 0; j < kIdx[uDefs[i]].cols.size(); ++j) s += fmt(j ? ",%d" : "%d", kIdx[uDefs[i]].cols[j]);
			s += ") "; for (size_t j = 0; j < ids.size(); ++j) s += fmt(j ? " %d" : "%d", ids[j]);
		}
		for (size_t i = 0; i < d.m.size(); ++i) {
			auto gs = d.m[i]; std::sort(gs.begin(), gs.end(), [](const std::vector<int>& x, const std::vector<int>& y) { return x[0] < y[0]; });
			s += " | m("; for (size_t j = 0; j < kIdx[mDefs[i]].cols.size(); ++j) s += fmt(j ? ",%d" : "%d", kIdx[mDefs[i]].cols[j]);
			s += ") ";
			for (size_t g = 0; g < gs.size(); ++g) {
				s += fmt(g ? " ; %d>" : "%d>", gs[g][0]);
				for (size_t j = 1; j < gs[g].size(); ++j) s += fmt(j > 1 ? ",%d" : "%d", gs[g][j]);
			}
		}
		return s;
	}

	void fail(const std::string& what) {
		c.fail("C07 %s: suite=%s history=%s op#%llu (replay: the .ops file of the suite up to this op)", what.c_str(), su.name.c_str(), tag.c_str(), (unsigned long long)opNo);
	}

	// ------------------------------------------------ property level: table == shadow list, indexes == brute force
	// returns false when something is wrong; `f9row` >= 0: tolerate exactly the F9 pattern for this row / column
	bool checkState(const IdxDump& d, int f9row = -1, int f9col = -1, bool* f9hit = nullptr) {
		bool ok = true;
		size_t n = tab->GetCount();
		if (n != sh.size()) { fail(fmt("row count %zu, brute-force list has %zu", n, sh.size())); return false; }
		for (size_t i = 0; i < n; ++i) {
			CRef row = (*tab)[i]; RV x = rvOf(row);
			if (x.id != sh[i].id || x.v[0] != sh[i].v[0] || x.v[1] != sh[i].v[1] || x.v[2] != sh[i].v[2] || x.v[3] != sh[i].v[3]) {
				fail(fmt("row %zu is (id %d: %d %d %d %d), list semantics give (id %d: %d %d %d %d)", i, x.id, x.v[0], x.v[1], x.v[2], x.v[3],
					sh[i].id, sh[i].v[0], sh[i].v[1], sh[i].v[2], sh[i].v[3]));
				return false;
			}
			if (tKeep && numOf(row, i) != i) { fail(fmt("row number of row %zu is %zu", i, numOf(row, i))); ok = false; }
		}
		if (d.transient) { fail("an index keeps a pending add/remove position after the operation"); ok = false; }
		std::map<int, size_t> pos; for (size_t i = 0; i < n; ++i) pos[sh[i].id] = i;
		for (size_t i = 0; i < d.u.size(); ++i) {
			std::vector<int> ids = d.u[i]; std::sort(ids.begin(), ids.end());
			std::vector<int> want; for (auto& r : sh) want.push_back(r.id); std::sort(want.begin(), want.end());
			if (ids != want) { fail(fmt("unique index %zu holds %zu raws, not exactly the %zu rows of the table", i, ids.size(), want.size())); ok = false; }
			const auto& cols = kIdx[uDefs[i]].cols;
			std::set<std::vector<int>> keys;
			for (auto& r : sh) { std::vector<int> key; for (int cc : cols) key.push_back(r.v[cc]); if (!keys.insert(key).second) { fail(fmt("two rows equal on the columns of unique index %zu (row id %d)", i, r.id)); ok = false; } }
		}
		for (size_t i = 0; i < d.m.size(); ++i) {
			const auto& cols = kIdx[mDefs[i]].cols;
			if (groupsMatch(d.m[i], cols, pos, -1)) continue;
			// F9 pattern: the index is exactly right for all other rows, the updated row sits once, in the wrong group
			// (its old one - possibly as the key row - because the entry made for its new key was removed instead)
			size_t occ = 0; for (auto& g : d.m[i]) occ += (size_t)std::count(g.begin(), g.end(), f9row);
			if (f9row >= 0 && std::find(cols.begin(), cols.end(), f9col) != cols.end() && occ == 1 && groupsMatch(d.m[i], cols, pos, f9row)) { if (f9hit) *f9hit = true; continue; }
			fail(fmt("multi index %zu does not group the rows by their key columns", i)); ok = false;
		}
		return ok;
	}

	// every group holds rows of one key, different groups have different keys, together they hold every row once
	// (`exclude`: a row id left out of the comparison)
	bool groupsMatch(const std::vector<std::vector<int>>& groups, const std::vector<int>& cols, const std::map<int, size_t>& pos, int exclude) {
		std::map<std::vector<int>, std::vector<int>> want, got;
		for (auto& r : sh) if (r.id != exclude) { std::vector<int> key; for (int cc : cols) key.push_back(r.v[cc]); want[key].push_back(r.id); }
		for (auto& g : groups) {
			bool have = false; std::vector<int> key;
			for (int id : g) {
				if (id == exclude) continue;
				auto pk = pos.find(id); if (pk == pos.end()) return false;
				std::vector<int> k2; for (int cc : cols) k2.push_back(sh[pk->second].v[cc]);
				if (!have) { key = k2; have = true; if (got.count(key)) return false; }
				else if (k2 != key) return false;
				got[key].push_back(id);
			}
			if (!have && exclude < 0) return false;
		}
		for (auto& kv : got) std::sort(kv.second.begin(), kv.second.end());
		for (auto& kv : want) std::sort(kv.second.begin(), kv.second.end());
		return got == want;
	}

	// lookups of one row through every index (detects a stale position left by finding F9)
	template<typename F> void dispatchEqs(const Eqs& e, F&& f);	// defined below
	bool lookupFinds(size_t n) {
		const RV& x = sh[n];
		bool ok = true;
		for (size_t i = 0; i < uDefs.size(); ++i) {
			Eqs e; for (int cc : kIdx[uDefs[i]].cols) e.push_back({ cc, x.v[cc] });
			dispatchEqs(e, [&](auto mk) {
				auto p = tab->FindByUniqueHash(mk(), (momo::DataUniqueHashIndex)(ptrdiff_t)i);
				if (!p || (*p)[C::K()] != x.id) ok = false;
			});
		}
		for (size_t i = 0; i < mDefs.size(); ++i) {
			Eqs e; for (int cc : kIdx[mDefs[i]].cols) e.push_back({ cc, x.v[cc] });
			dispatchEqs(e, [&](auto mk) {
				auto bounds = tab->FindByMultiHash(mk(), (momo::DataMultiHashIndex)(ptrdiff_t)i);
				bool found = false;
				for (auto r : bounds) if (r[C::K()] == x.id) found = true;
				if (!found) ok = false;
			});
		}
		return ok;
	}

	// ------------------------------------------------ bucket level (finding F9): the hash set of the unique index unique(a,b) against the model `tableidx`
	// Second suite `<name>_idx`, stateless: one op line = the complete layout of the hash set before one successful single-column update of a
	// column of unique(a,b) (generations newest first, buckets, max-probe state, items in insertion order with the hash code of their raw's
	// current key), one answer line = what is observed after the update (is the raw reachable through Find, count, capacity, generations, checksum
	// of the layout with the stored short hashes). Momo.TIdx.updCol predicts the answer line from the op line.
	Suite* sx = nullptr;
	static uint64_t mixh(uint64_t h, uint64_t x) { return h * 1000003ull + x + 1; }
	static void appU(std::string& s, char sep, uint64_t v) { char buf[24]; int k = 24; do { buf[--k] = (char)('0' + v % 10); v /= 10; } while (v); s += sep; s.append(buf + k, (size_t)(24 - k)); }
	struct IdxShot {
		std::string body;		// " G <L> B <i> <m> <e> <id>:<hash> ..." (only with wantBody)
		std::vector<size_t> gensL;	// newest first
		uint64_t sum = 0;		// = Momo.TIdx.layoutSumU
		bool sane = true;		// every stored short hash is that of its raw's current key, no raw twice, as many items as GetCount()
		size_t count = 0, cap = 0;
	};
	// (calls the hash function of the index: not while a hash fault is armed; the tick counter is put back)
	template<typename HS>
	IdxShot idxShot(HS& hs, bool wantBody) {
		typedef typename HS::Bucket Bucket;
		static_assert(std::is_same<Bucket, momo::internal::BucketOpen2N2<typename HS::BucketItemTraits, 3, true>>::value,
			"the hash set of a unique index is expected to use BucketOpen2N2<ItemTraits, 3, useHashCodePartGetter = true>");
		static_assert(std::is_same<decltype(Bucket::mHashData.shortHashes[0]), uint8_t&>::value, "7-bit short hashes kept in bytes");
		IdxShot s; s.count = hs.GetCount(); s.cap = hs.GetCapacity();
		uint64_t ticks = g_hashCalls;
		uint64_t h = 0; size_t items = 0;
		std::set<int> seen;
		for (auto* bk = hs.mBuckets; bk != nullptr; bk = bk->GetNextBuckets()) {
			size_t L = bk->GetLogCount(), nb = bk->GetCount();
			s.gensL.push_back(L);
			h = mixh(mixh(h, 7777), L);
			if (wantBody) { s.body += " G"; appU(s.body, ' ', L); }
			for (size_t i = 0; i < nb; ++i) {
				Bucket& b = (*bk)[i];
				size_t cnt = (size_t)(b.mState[1] & 3), m = b.mState[0], e = (size_t)(b.mState[1] >> 2);
				size_t mp = m << e;
				if (mp != b.GetMaxProbe(L) || cnt != b.GetBounds(bk->GetBucketParams()).GetCount()) s.sane = false;
				if (cnt == 0 && mp == 0) continue;
				h = mixh(mixh(h, i), mp);
				if (wantBody) { s.body += " B"; appU(s.body, ' ', i); appU(s.body, ' ', m); appU(s.body, ' ', e); }
				for (size_t j = 0; j < cnt; ++j) {	// insertion order = GetBounds order = physical slots maxCount-1, maxCount-2, ...
					size_t slot = Bucket::maxCount - 1 - j;
					Raw* raw = (&b.mItems)[slot];
					int id = idOfRaw(raw);
					uint64_t code = (uint64_t)hs.GetHashTraits().GetHashCode(raw);
					uint64_t stored = b.mHashData.shortHashes[slot];
					if (stored != (code >> 57)) s.sane = false;
					if (!seen.insert(id).second) s.sane = false;
					h = mixh(mixh(h, (uint64_t)id), stored);
					if (wantBody) { appU(s.body, ' ', (uint64_t)id); appU(s.body, ':', code); }
					++items;
				}
			}
		}
		if (items != s.count) s.sane = false;
		s.sum = h;
		g_hashCalls = ticks;
		return s;
	}
	struct IdxPre { bool have = false; IdxShot shot; uint64_t hold = 0; size_t fired0 = 0; };
	// -1: nothing emitted, 0 / 1: the `reach` of the emitted answer line
	int idxReach = -1;
	void idxBefore(int uPos, size_t n, IdxPre& pre) {
		pre.have = false; pre.fired0 = arena().firedTotal;
		if (!sx || uPos < 0 || g_hashFailAfter >= 0) return;
		auto& hs = tab->mIndexes.mUniqueHashes[(size_t)uPos].mHashSet;
		uint64_t ticks = g_hashCalls;
		pre.hold = (uint64_t)hs.GetHashTraits().GetHashCode(tab->mRaws[n]);
		g_hashCalls = ticks;
		pre.shot = idxShot(hs, true);
		pre.have = true;
	}
	// after an attempt that answered "ok"; `v` = the values of the row after the update
	void idxAfter(int uPos, size_t n, int col, const int* v, const IdxPre& pre) {
		if (!pre.have || g_hashFailAfter >= 0) return;
		if (arena().firedTotal != pre.fired0) { c.stats.count("idxpred.skipped_fault_swallowed"); return; }
		if (!pre.shot.sane) { c.stats.count("idxpred.skipped_preexisting_stale"); return; }
		auto& hs = tab->mIndexes.mUniqueHashes[(size_t)uPos].mHashSet;
		Raw* raw = tab->mRaws[n];
		int id = idOfRaw(raw);
		uint64_t ticks = g_hashCalls;
		uint64_t hnew = (uint64_t)hs.GetHashTraits().GetHashCode(raw);
		auto pos = hs.Find(raw);
		bool reach = !!pos && *pos == raw;
		g_hashCalls = ticks;
		uint64_t want = 0; for (int cc : kIdx[0].cols) want += (uint64_t)famInt(v[cc]);
		if (hnew != want) fail(fmt("harness: the hash code of unique(a,b) of row id %d is %llu, the sum of the family values of its columns is %llu", id, (unsigned long long)hnew, (unsigned long long)want));
		IdxShot after = idxShot(hs, false);
		std::string line = fmt("upd raw=%d hold=%llu hnew=%llu count=%zu cap=%zu", id, (unsigned long long)pre.hold, (unsigned long long)hnew, pre.shot.count, pre.shot.cap);
		line += pre.shot.body;
		std::string g; for (size_t i = 0; i < after.gensL.size(); ++i) g += fmt(i ? ",%zu" : "%zu", after.gensL[i]);
		sx->op(line);
		sx->res(fmt("reach=%d n=%zu cap=%zu g=%s sum=%llu", reach ? 1 : 0, after.count, after.cap, g.c_str(), (unsigned long long)after.sum));
		idxReach = reach ? 1 : 0;
		c.stats.count("idxpred.lines");
		c.stats.count(fmt("idxpred.column_%d", col));
		if (!reach) c.stats.count("idxpred.unreachable_observed");
		if (after.gensL != pre.shot.gensL) c.stats.count("idxpred.grew");
		if (pre.shot.gensL.size() > 1) c.stats.count("idxpred.several_generations_before");
		if (after.gensL.size() > 1) c.stats.count("idxpred.several_generations_after");
		if (!after.gensL.empty()) { uint64_t mask = (uint64_t(1) << after.gensL[0]) - 1; if ((pre.hold & mask) == (hnew & mask)) c.stats.count("idxpred.new_and_old_same_home_bucket"); }
		if ((pre.hold >> 57) == (hnew >> 57)) c.stats.count("idxpred.new_and_old_same_short_hash");
	}

	// ------------------------------------------------ emit state comparison lines
	void emitChk(bool full) {
		IdxDump d = dumpIdx();
		checkState(d);
		su.op("chk"); su.res(chkLine(d));
		if (full) { su.op("dump"); su.res(dumpLine(d)); }
	}

	// ------------------------------------------------ the expected outcome of a uniqueness check (brute force)
	// returns (-1,-1) or (conflicting row id, unique index number); `skip` = position of the row being replaced
	std::pair<int, int> conflict(const int* v, long skip) {
		for (size_t i = 0; i < uDefs.size(); ++i) {
			const auto& cols = kIdx[uDefs[i]].cols;
			for (size_t r = 0; r < sh.size(); ++r) {
				if ((long)r == skip) continue;
				bool eq = true; for (int cc : cols) if (sh[r].v[cc] != v[cc]) eq = false;
				if (eq) return { sh[r].id, (int)i };
			}
		}
		return { -1, -1 };
	}

	// ------------------------------------------------ fallible row-level operations with the failure sweep
	// `attempt(faultArmed)` performs the operation once and returns its outcome line ("ok", "dup r i", "E:bad_alloc");
	// it fills `line` with the op line (without fault annotation).
	struct Outcome { std::string res; std::string line; };
	std::vector<uint64_t> multiSums() { IdxDump d = dumpIdx(); std::vector<uint64_t> s; for (auto& m : d.m) s.push_back(multiSum(m)); return s; }

	template<typename Attempt, typename Apply>
	void fallible(const char* what, bool sweep, Attempt&& attempt, Apply&& applyToShadow) {
		Arena& ar = arena();
		if (sweep) {
			for (long k = 0; k < 40; ++k) {
				std::vector<uint64_t> before = multiSums();
				ar.arm(k);
				Outcome o = attempt();
				ar.disarm();
				if (!ar.fired) { finishOp(what, o, applyToShadow); return; }
				c.stats.count(std::string("fault.fired.") + what);
				if (o.res != "E:bad_alloc") { c.stats.count(std::string("fault.swallowed.") + what); finishOp(what, o, applyToShadow); return; }
				// the operation threw: the table must be unchanged; tell the model which groups were sorted on the way
				std::vector<uint64_t> after = multiSums();
				unsigned mask = 0; for (size_t i = 0; i < after.size(); ++i) if (before[i] != after[i]) mask |= 1u << i;
				if (mask) c.stats.count("fault.sorted_segment_side_effect");
				++opNo; c.stats.evaluations++;
				su.op(o.line + fmt(" fault %u", mask)); su.res("E:bad_alloc");
				c.stats.count(std::string("fault.thrown.") + what);
				c.stats.nontrivial(fmt("%s/fault/%s/%ld", tag.c_str(), what, k));
				emitChk(false);
			}
			fail(fmt("%s still fails after 40 single allocation failures", what));
		}
		Outcome o = attempt();
		finishOp(what, o, applyToShadow);
	}
	template<typename Apply>
	void finishOp(const char* what, const Outcome& o, Apply&& applyToShadow) {
		++opNo; c.stats.evaluations++;
		su.op(o.line); su.res(o.res);
		c.stats.count(std::string("op.") + what + (o.res == "ok" ? ".ok" : o.res.compare(0, 3, "dup") == 0 ? ".refused" : ".other"));
		applyToShadow(o.res);
	}

	std::string resOf(const typename Table::TryResult& r) {
		if (r) return "ok";
		return fmt("dup %d %td", (int)r.rowReference[C::K()], (ptrdiff_t)r.uniqueHashIndex);
	}
	void expectRes(const char* what, const std::string& got, const int* v, long skip, const std::string& input) {
		auto cf = conflict(v, skip);
		std::string want = cf.first < 0 ? "ok" : fmt("dup %d %d", cf.first, cf.second);
		if (got != want) fail(fmt("%s %s answered '%s', uniqueness by brute force gives '%s'", what, input.c_str(), got.c_str(), want.c_str()));
	}

	void opAdd(bool sweep, bool throwing) {
		RV x = genRow();
		uint64_t lastAddr = 0;
		// 0-2: NewRow() + operator[]; 3: NewRow(assignments...); 4: NewRow(const Row&); 5: TryAddRow / AddRow(assignments...)
		int mk = (int)rng.below(6);
		if ((mk == 3 || mk == 5) && rng.chance(1, 3)) probeNewRowThrow(x);
		auto attempt = [&]() -> Outcome {
			Outcome o; lastAddr = 0;
			try {
				if (mk == 5) {
					if (throwing) {
						try { auto ref = tab->AddRow(VF_ASSIGNS(x, false)); lastAddr = addrOf(ref.GetRaw()); o.res = "ok"; }
						catch (const typename Table::UniqueIndexViolation& e) { o.res = resOf(e); }
					} else { auto r = tab->TryAddRow(VF_ASSIGNS(x, false)); o.res = resOf(r); if (r) lastAddr = addrOf(r.rowReference.GetRaw()); }
					o.line = fmt("add %d %llu %s", x.id, (unsigned long long)lastAddr, valsStr(x).c_str());
					return o;
				}
				Row row = buildRow(x, mk == 3 ? 1 : mk == 4 ? 2 : 0);
				lastAddr = addrOf(row.GetRaw());
				o.line = fmt("add %d %llu %s", x.id, (unsigned long long)lastAddr, valsStr(x).c_str());
				if (throwing) {
					try { tab->Add(std::move(row)); o.res = "ok"; }
					catch (const typename Table::UniqueIndexViolation& e) { o.res = resOf(e); }
				} else o.res = resOf(tab->TryAdd(std::move(row)));
			} catch (const std::bad_alloc&) {
				if (o.line.empty()) o.line = fmt("add %d 0 %s", x.id, valsStr(x).c_str());
				o.res = "E:bad_alloc";
			}
			return o;
		};
		fallible("add", sweep, attempt, [&](const std::string& res) {
			expectRes("add", res, x.v, -1, valsStr(x));
			if (res == "ok") sh.push_back(x);
		});
		if (mk == 5) c.stats.count(throwing ? "op.add.AddRow(assignments)" : "op.add.TryAddRow(assignments)");
	}
	// directed: add a row to a multi-hash group whose value array ends exactly at (or one before) a segment boundary,
	// with every allocation of the operation failing in turn (pvAdd sorts the completed segment before it can fail)
	bool opAddBoundary() {
		IdxDump d = dumpIdx();
		std::map<int, const RV*> byId; for (auto& r : sh) byId[r.id] = &r;
		for (size_t i = 0; i < d.m.size(); ++i) for (auto& g : d.m[i]) {
			size_t cnt = g.size() - 1;
			if (cnt != 63 && cnt != 64 && cnt != 191 && cnt != 192 && cnt != 319 && cnt != 320 && cnt != 447 && cnt != 448) continue;
			auto it = byId.find(g[0]); if (it == byId.end()) continue;
			forced = *it->second; haveForced = true; forcedCols = kIdx[mDefs[i]].cols;
			c.stats.count(fmt("directed.add_at_segment_boundary.%zu", cnt));
			if (cnt % 64 == 0) {
				std::map<int, uint64_t> addrById; for (size_t r = 0; r < tab->GetCount(); ++r) addrById[(int)(*tab)[r][C::K()]] = addrOf((*tab)[r].GetRaw());
				size_t lo = cnt == 64 ? 0 : cnt - 128;
				std::vector<uint64_t> as; for (size_t j = lo; j < cnt; ++j) as.push_back(addrById[g[1 + j]]);
				c.stats.count(std::is_sorted(as.begin(), as.end()) ? "directed.segment_already_sorted" : "directed.segment_unsorted_before_add");
			}
			size_t thrownBefore = c.stats.counters["fault.thrown.add"];
			opAdd(true, false);
			c.stats.count("directed.faults_thrown", c.stats.counters["fault.thrown.add"] - thrownBefore);
			haveForced = false;
			return true;
		}
		return false;
	}
	RV forced; bool haveForced = false; std::vector<int> forcedCols;

	void opInsert(bool sweep) {
		RV x = genRow();
		size_t n = (size_t)rng.below(sh.size() + 1);
		int how = (int)rng.below(4);	// 0 TryInsert(n, Row&&), 1 Insert(n, Row&&), 2 TryInsertRow(n, assignments...), 3 InsertRow(n, assignments...)
		int mk = (int)rng.below(3);
		if (how >= 2 && rng.chance(1, 3)) probeNewRowThrow(x);
		auto attempt = [&]() -> Outcome {
			Outcome o;
			try {
				if (how >= 2) {
					uint64_t addr = 0;
					if (how == 3) {
						try { auto ref = tab->InsertRow(n, VF_ASSIGNS(x, false)); addr = addrOf(ref.GetRaw()); o.res = "ok"; }
						catch (const typename Table::UniqueIndexViolation& e) { o.res = resOf(e); }
					} else { auto r = tab->TryInsertRow(n, VF_ASSIGNS(x, false)); o.res = resOf(r); if (r) addr = addrOf(r.rowReference.GetRaw()); }
					o.line = fmt("ins %zu %d %llu %s", n, x.id, (unsigned long long)addr, valsStr(x).c_str());
					return o;
				}
				Row row = buildRow(x, mk);
				o.line = fmt("ins %zu %d %llu %s", n, x.id, (unsigned long long)addrOf(row.GetRaw()), valsStr(x).c_str());
				if (how == 1) {
					try {
						auto ref = tab->Insert(n, std::move(row)); o.res = "ok";
						if ((int)ref[C::K()] != x.id) fail(fmt("Insert(%zu, row id %d) returned a reference to row id %d", n, x.id, (int)ref[C::K()]));
					} catch (const typename Table::UniqueIndexViolation& e) { o.res = resOf(e); }
				} else o.res = resOf(tab->TryInsert(n, std::move(row)));
			} catch (const std::bad_alloc&) {
				if (o.line.empty()) o.line = fmt("ins %zu %d 0 %s", n, x.id, valsStr(x).c_str());
				o.res = "E:bad_alloc";
			}
			return o;
		};
		fallible("insert", sweep, attempt, [&](const std::string& res) {
			expectRes("insert", res, x.v, -1, valsStr(x));
			if (res == "ok") sh.insert(sh.begin() + (ptrdiff_t)n, x);
		});
		static const char* names[4] = { "op.insert.TryInsert", "op.insert.Insert(throwing)", "op.insert.TryInsertRow(assignments)", "op.insert.InsertRow(assignments)" };
		c.stats.count(names[how]);
	}
	void opUpdRow(bool sweep) {
		if (sh.empty()) return;
		size_t n = (size_t)rng.below(sh.size());
		RV x = genRow();
		if (rng.chance(1, 3)) { x.v[0] = sh[n].v[0]; x.v[1] = sh[n].v[1]; }	// same unique key as the row replaced
		bool throwing = rng.chance(1, 2);	// Update(rowNumber, Row&&) instead of TryUpdate
		int mk = (int)rng.below(3);
		auto attempt = [&]() -> Outcome {
			Outcome o;
			try {
				Row row = buildRow(x, mk);
				o.line = fmt("updrow %zu %d %llu %s", n, x.id, (unsigned long long)addrOf(row.GetRaw()), valsStr(x).c_str());
				if (throwing) {
					try {
						auto ref = tab->Update(n, std::move(row)); o.res = "ok";
						if ((int)ref[C::K()] != x.id) fail(fmt("Update(%zu, row id %d) returned a reference to row id %d", n, x.id, (int)ref[C::K()]));
					} catch (const typename Table::UniqueIndexViolation& e) { o.res = resOf(e); }
				} else o.res = resOf(tab->TryUpdate(n, std::move(row)));
			} catch (const std::bad_alloc&) {
				if (o.line.empty()) o.line = fmt("updrow %zu %d 0 %s", n, x.id, valsStr(x).c_str());
				o.res = "E:bad_alloc";
			}
			return o;
		};
		fallible("update_row", sweep, attempt, [&](const std::string& res) {
			expectRes("update(row)", res, x.v, (long)n, fmt("row %zu <- %s", n, valsStr(x).c_str()));
			if (res == "ok") sh[n] = x;
		});
		c.stats.count(throwing ? "op.update_row.Update(throwing)" : "op.update_row.TryUpdate");
	}
	// one single-column update through the overload number `how`; answers like resOf
	template<typename Col, typename Item>
	std::string updItem(CRef ref, const Col& col, Item item, int how, size_t n) {
		const Item& citem = item;
		switch (how) {
		case 0: return resOf(tab->TryUpdate(ref, col, std::move(item)));
		case 1: return resOf(tab->TryUpdate(ref, col, citem));
		default:
			try {
				auto r = (how == 2) ? tab->Update(ref, col, std::move(item)) : tab->Update(ref, col, citem);
				if (r.GetRaw() != (*tab)[n].GetRaw()) fail(fmt("Update(row %zu, column, item) returned a reference to another row", n));
				return "ok";
			} catch (const typename Table::UniqueIndexViolation& e) { return resOf(e); }
		}
	}
	// single-column update; returns true when finding F9 struck and the table was rebuilt
	void opUpdCol(bool sweep) {
		if (sh.empty()) return;
		size_t n = (size_t)rng.below(sh.size());
		int col = (int)rng.below(4);
		RV x = sh[n];
		RV g = genRow(); --nextId;
		x.v[col] = rng.chance(1, 8) ? sh[n].v[col] : g.v[col];
		int how = (int)rng.below(4);	// the four single-column overloads: TryUpdate / Update x Item&& / const Item&
		// bucket-level prediction (suite <name>_idx): the column belongs to unique(a,b) and the value changes (otherwise UpdateRaw touches no index)
		int idxU = (sx && (col == 0 || col == 1) && x.v[col] != sh[n].v[col]) ? uPosOf(0) : -1;
		idxReach = -1;
		auto attempt = [&]() -> Outcome {
			Outcome o;
			o.line = fmt("updcol %zu %d %d", n, col, x.v[col]);
			IdxPre pre;
			if (idxU >= 0) idxBefore(idxU, n, pre);	// at the start of every attempt: a failed attempt may change the shape of the hash set
			try {
				CRef ref = (*tab)[n];
				switch (col) {
				case 0: o.res = updItem(ref, C::A(), (int)x.v[0], how, n); break;
				case 1: o.res = updItem(ref, C::B(), (int)x.v[1], how, n); break;
				case 2: o.res = updItem(ref, C::S(), strOf(x.v[2]), how, n); break;
				default: o.res = updItem(ref, C::D(), (int)x.v[3], how, n); break;
				}
			} catch (const std::bad_alloc&) { o.res = "E:bad_alloc"; }
			if (idxU >= 0 && o.res == "ok") idxAfter(idxU, n, col, x.v, pre);
			return o;
		};
		static const char* names[4] = { "op.update_column.TryUpdate(Item&&)", "op.update_column.TryUpdate(const Item&)", "op.update_column.Update(Item&&)", "op.update_column.Update(const Item&)" };
		c.stats.count(names[how]);
		bool done = false;
		fallible("update_column", sweep, attempt, [&](const std::string& res) {
			expectRes("update(column)", res, x.v, (long)n, fmt("row %zu column %d <- %d", n, col, x.v[col]));
			if (res == "ok") { sh[n] = x; done = true; }
		});
		if (!done) return;
		// finding F9: the index may keep the raw at the position of its old key
		bool indexed = false;
		for (int u : uDefs) for (int cc : kIdx[u].cols) if (cc == col) indexed = true;
		for (int m : mDefs) for (int cc : kIdx[m].cols) if (cc == col) indexed = true;
		if (!indexed) return;
		c.stats.count("update_column.on_indexed_column");
		IdxDump d = dumpIdx();
		bool f9 = false;
		bool structural = checkStateQuiet(d, sh[n].id, col, &f9);
		bool found = lookupFinds(n);
		if (idxReach == 0 && structural && !f9 && found)
			fail(fmt("harness: after TryUpdate(row %zu (id %d), column %d, %d) mHashSet.Find(raw) of unique(a,b) does not return the raw (answer line reach=0 of suite %s_idx), "
				"but the lookups through the indexes find the row: the F9 recognition and the bucket-level observation disagree", n, sh[n].id, col, x.v[col], su.name.c_str()));
		if (structural && !f9 && found) return;
		if (structural && (f9 || !found)) {
			c.fail("C07 known-F9 update-col-stale-entry: suite=%s history=%s op#%llu TryUpdate(row %zu (id %d), column %d, %d) left the raw at the position of its old key "
				"(%s); lookups through the index miss the row. Replay: the .ops file up to this op on a table with hash family %u",
				su.name.c_str(), tag.c_str(), (unsigned long long)opNo, n, sh[n].id, col, x.v[col], f9 ? "it is listed in the group of the old key" : "unreachable from the new hash code", g_fam);
			c.stats.count("known_F9_hits");
			rebuild("T");
			return;
		}
		fail(fmt("after TryUpdate(row %zu, column %d, %d) the indexes are inconsistent in a way that is not the known F9 pattern", n, col, x.v[col]));
	}
	bool checkStateQuiet(const IdxDump& d, int f9row, int f9col, bool* f9hit) {
		int before = c.failures;
		// run the structural check but convert its complaints into a return value only when they are F9-shaped
		bool ok = checkState(d, f9row, f9col, f9hit);
		(void)before;
		return ok;
	}

	// copy construction (also the resynchronisation after F9): `pred` selects the rows copied
	// every allocation of the copy failing in turn (small tables; 8 random ones otherwise): the constructor must throw bad_alloc and
	// leave nothing allocated (the catch of pvFill gives the imported raw back), the source stays as it was
	void copyFaults(const Pred* pred, int via) {
		Arena& ar = arena();
		auto* self = this;
		auto make = [&]() {
			if (via == 1) { Table t(*lastSel); (void)t.GetCount(); }
			else if (via == 2) { typename Table::ConstSelection cs = *lastSel; Table t(cs); (void)t.GetCount(); }
			else if (pred) { Pred p = *pred; Table t(*tab, [p, self](CRef r) { return p(self->rvOf(r)); }); (void)t.GetCount(); }
			else { Table t(*tab); (void)t.GetCount(); }
		};
		tab->pvDeallocateFreeRaws();
		size_t a0 = ar.allocs, live = ar.live.size();
		make();
		size_t total = ar.allocs - a0;
		if (ar.live.size() != live) { fail("a table copy that was destroyed again left blocks allocated"); return; }
		size_t tries = (!heavy && sh.size() <= 80) ? total : std::min<size_t>(total, 8);
		for (size_t i = 0; i < tries; ++i) {
			long k = (tries == total) ? (long)i : (long)rng.below(total);
			long heap = g_heapLive;
			ar.arm(k); bool bad = false;
			try { make(); } catch (const std::bad_alloc&) { bad = true; }
			ar.disarm();
			long heapAfter = g_heapLive;
			c.stats.evaluations++;
			if (heapAfter != heap) { fail(fmt("a table copy (%s) with the failure of its allocation #%ld armed left %ld heap blocks of row items (strings) allocated", via ? "from a selection" : "copy constructor", k, heapAfter - heap)); return; }
			if (!bad) { c.stats.count(ar.fired ? "fault.swallowed.copy" : "fault.not_reached.copy"); continue; }
			c.stats.count("fault.thrown.copy");
			if (ar.live.size() != live) { fail(fmt("a table copy (%s) interrupted by the failure of its allocation #%ld left %zu blocks allocated (%zu before)", via ? "from a selection" : "copy constructor", k, ar.live.size(), live)); ar.live.clear(); return; }
		}
		c.stats.nontrivial(fmt("%s/copyfault/%d/%zu", tag.c_str(), via, std::min<size_t>(total, 64) / 8));
		IdxDump d = dumpIdx(); checkState(d);
	}
	void rebuild(const std::string& predStr, const Pred* pred = nullptr, bool faults = false) {
		if (faults) copyFaults(pred, 0);	// not in the resynchronisation after F9: the indexes of the source are inconsistent there
		Table* t2;
		if (pred) { Pred p = *pred; auto* self = this; t2 = new Table(*tab, [p, self](CRef r) { return p(self->rvOf(r)); }); }
		else t2 = new Table(*tab);
		std::string line = "copy " + predStr + " |";
		for (size_t i = 0; i < t2->GetCount(); ++i) line += fmt(" %llu", (unsigned long long)addrOf((*t2)[i].GetRaw()));
		held.clear();
		delete tab; tab = t2;
		if (pred) { std::vector<RV> s2; for (auto& r : sh) if ((*pred)(r)) s2.push_back(r); sh = s2; }
		++opNo; c.stats.evaluations++;
		su.op(line); su.res(fmt("ok %zu", tab->GetCount()));
		c.stats.count("op.copy");
	}

	// ------------------------------------------------ removal, extraction, assignment
	// where AcceptRemove will find the raw: key row, inside a sorted full segment, or in the unsorted tail
	void removalStats(int id) {
		IdxDump d = dumpIdx();
		for (auto& groups : d.m) for (auto& g : groups) {
			auto it = std::find(g.begin(), g.end(), id);
			if (it == g.end()) continue;
			size_t pos = (size_t)(it - g.begin()), cnt = g.size() - 1;
			if (pos == 0) { c.stats.count(cnt == 0 ? "remove.multi.last_row_of_key" : "remove.multi.key_row"); continue; }
			size_t idx = pos - 1, lo = 0, hi = 64, seg = 0; bool inFull = false;
			while (hi < cnt) { if (idx < hi) { inFull = true; break; } lo = hi; ++seg; hi += (seg < 4 ? 128 : seg < 10 ? 256 : 512); }	// GetItemCount(seg): 64, 128 x3, 256 x6, 512 ...
			(void)lo;
			c.stats.count(inFull ? fmt("remove.multi.from_full_segment_%zu", std::min<size_t>(seg, 3)) : "remove.multi.from_tail");
		}
	}
	void opRemove() {
		if (sh.empty()) return;
		size_t n = (size_t)rng.below(sh.size());
		int kind = (int)rng.below(6);
		bool keepOrder = kind % 2 == 0;
		int id = sh[n].id;
		if (!mDefs.empty() && (!heavy || rng.chance(1, 3))) removalStats(id);
		Arena& ar = arena();
		auto perform = [&](bool& ko) {	// ko: the order of the remaining rows is kept
			switch (kind) {
			case 0: case 1: tab->Remove(n, keepOrder); break;
			case 2: tab->Remove((*tab)[n]); ko = true; break;
			case 3: case 4: { Row r = tab->Extract(n, keepOrder); g_hashFailAfter = -1; ar.disarm(); keepRow(std::move(r), id); break; }
			default: { Row r = tab->Extract((*tab)[n]); g_hashFailAfter = -1; ar.disarm(); ko = true; keepRow(std::move(r), id); break; }
			}
		};
		// a throwing hash / equality of an indexed item type: every tick of DataTraits::AccumulateHashCode / IsEqual inside the removal fails
		// in turn (the first 12, then 2 random later ones); the removal must throw and leave rows and indexes as they were (no pending position)
		if ((!uDefs.empty() || !mDefs.empty()) && rng.chance(1, heavy ? 6 : 2)) {
			for (int att = 0; att < 14; ++att) {
				long k = att < 12 ? att : 12 + (long)rng.below(200);
				bool ko = keepOrder;
				g_hashFailAfter = k; g_hashFired = false;
				try { perform(ko); }
				catch (const HashFault&) {
					g_hashFailAfter = -1;
					++opNo; c.stats.evaluations++;
					c.stats.count("fault.thrown.remove_hash");
					c.stats.nontrivial(fmt("%s/hashfault/remove/%d/%ld", tag.c_str(), kind, std::min<long>(k, 12)));
					emitChk(false);	// rows, row numbers, index contents, no pending add / remove position: against the shadow list and the model
					continue;
				}
				g_hashFailAfter = -1;
				if (g_hashFired) fail(fmt("removal of row %zu (id %d) swallowed the exception of a throwing hash function", n, id));
				finishRemove(kind, n, id, ko, false);	// went through without reaching tick k
				return;
			}
		}
		bool armed = rng.chance(1, 3);
		if (armed) ar.arm((long)rng.below(3));
		bool ko = keepOrder;
		try { perform(ko); }
		catch (const std::bad_alloc&) {
			ar.disarm();
			// the property: a removal interrupted by an allocation failure leaves the table unchanged (the model has no such path)
			++opNo; c.stats.evaluations++;
			su.op(kind == 2 || kind == 5 ? fmt("remref %d", id) : fmt("rem %zu %d", n, keepOrder ? 1 : 0));
			su.res("E:bad_alloc"); c.stats.count("fault.thrown.remove");
			return;
		}
		ar.disarm();
		finishRemove(kind, n, id, ko, armed && ar.fired);
	}
	void finishRemove(int kind, size_t n, int id, bool keepOrder, bool swallowed) {
		static const char* names[6] = { "op.remove.number", "op.remove.number", "op.remove.reference", "op.extract.number", "op.extract.number", "op.extract.reference" };
		++opNo; c.stats.evaluations++;
		su.op(kind == 2 || kind == 5 ? fmt("remref %d", id) : fmt("rem %zu %d", n, keepOrder ? 1 : 0));
		c.stats.count(names[kind]);
		if (swallowed) c.stats.count("fault.swallowed.remove");
		su.res(fmt("ok %d", id));
		if (keepOrder) sh.erase(sh.begin() + (ptrdiff_t)n);
		else { sh[n] = sh.back(); sh.pop_back(); }
	}
	void keepRow(Row&& r, int id) {
		if ((int)r[C::K()] != id) fail(fmt("Extract returned row id %d instead of %d", (int)r[C::K()], id));
		if (held.size() < 4 && rng.chance(1, 2)) held.push_back(std::move(r));
	}
	void opReadd() {
		if (held.empty()) return;
		Row r = std::move(held.back()); held.pop_back();
		RV x; x.id = r[C::K()]; x.v[0] = r[C::A()]; x.v[1] = r[C::B()]; x.v[2] = strNo(r[C::S()]); x.v[3] = r[C::D()];
		++opNo; c.stats.evaluations++;
		su.op(fmt("add %d %llu %s", x.id, (unsigned long long)addrOf(r.GetRaw()), valsStr(x).c_str()));
		std::string res = resOf(tab->TryAdd(std::move(r)));
		su.res(res);
		expectRes("add(extracted row)", res, x.v, -1, valsStr(x));
		if (res == "ok") sh.push_back(x);
		c.stats.count("op.readd_extracted");
	}
	void opRemoveRows() {
		if (sh.empty()) return;
		size_t cnt = (size_t)rng.below(std::min<size_t>(sh.size(), heavy ? 40 : 8) + 1);
		std::vector<CRef> refs; std::string line = "remrows"; std::set<int> ids;
		bool contiguous = rng.chance(1, 3);
		size_t start = (size_t)rng.below(sh.size());
		for (size_t i = 0; i < cnt; ++i) {
			size_t n = contiguous ? std::min(start + i, sh.size() - 1) : (size_t)rng.below(sh.size());
			refs.push_back((*tab)[n]); line += fmt(" %d", sh[n].id); ids.insert(sh[n].id);
		}
		++opNo; c.stats.evaluations++;
		su.op(line);
		tab->Remove(refs.begin(), refs.end());
		std::vector<RV> s2; for (auto& r : sh) if (!ids.count(r.id)) s2.push_back(r); sh = s2;
		su.res(fmt("ok %zu", tab->GetCount()));
		c.stats.count("op.remove.range");
	}
	Pred genPred() {
		Pred p; p.kind = (int)rng.below(5);
		switch (p.kind) {
		case 1: p.c = (int)rng.below(4); p.x = sh.empty() ? 0 : sh[rng.below(sh.size())].v[p.c]; break;
		case 2: p.c = (int)rng.below(4); p.x = 2 + (int)rng.below(4); p.y = (int)rng.below((uint64_t)p.x); break;
		case 3: p.c = (int)rng.below(2); p.x = (int)rng.below((uint64_t)(p.c == 0 ? aRange : bRange) + 1); break;
		case 4: p.x = 2 + (int)rng.below(5); p.y = (int)rng.below((uint64_t)p.x); break;
		default: break;
		}
		return p;
	}
	void opRemovePred() {
		Pred p = genPred();
		if (p.kind == 0 && !rng.chance(1, 10)) p.kind = 4, p.x = 7, p.y = 3;
		auto* self = this;
		// a row filter that throws at its j-th call (after rows were already marked for removal when row numbers are kept), and
		// the allocations of the raw set (no row numbers) failing in turn: Remove(filter) must throw and leave the table as it was
		if (!sh.empty() && rng.chance(1, 2)) {
			size_t at = (size_t)rng.below(sh.size()), calls = 0; bool thrown = false;
			try { tab->Remove([p, self, at, &calls](CRef r) { if (calls++ == at) throw UserFault(); return p(self->rvOf(r)); }); }
			catch (const UserFault&) { thrown = true; }
			if (!thrown) fail(fmt("Remove(%s) swallowed the exception thrown by the %zu-th call of the row filter", p.str().c_str(), at));
			++opNo; c.stats.evaluations++; c.stats.count("fault.thrown.remove_filter_user");
			c.stats.nontrivial(fmt("%s/filterfault/%d/%zu", tag.c_str(), p.kind, std::min<size_t>(at, 8)));
			emitChk(false);
			for (long k = 0; k < 3; ++k) {
				Arena& ar = arena();
				ar.arm(k); bool bad = false; size_t before = tab->GetCount();
				try { tab->Remove([p, self](CRef r) { return p(self->rvOf(r)); }); }
				catch (const std::bad_alloc&) { bad = true; }
				ar.disarm();
				if (!bad) {	// went through: this was the operation
					size_t removed = before - tab->GetCount();
					finishRemovePred(p, removed);
					if (ar.fired) c.stats.count("fault.swallowed.remove_filter");
					return;
				}
				++opNo; c.stats.evaluations++; c.stats.count("fault.thrown.remove_filter_alloc");
				emitChk(false);
			}
		}
		size_t removed = tab->Remove([p, self](CRef r) { return p(self->rvOf(r)); });
		finishRemovePred(p, removed);
	}
	void finishRemovePred(const Pred& p, size_t removed) {
		++opNo; c.stats.evaluations++;
		su.op("rempred " + p.str());
		std::vector<RV> s2; for (auto& r : sh) if (!p(r)) s2.push_back(r);
		if (removed != sh.size() - s2.size()) fail(fmt("Remove(%s) reported %zu rows, a scan finds %zu", p.str().c_str(), removed, sh.size() - s2.size()));
		sh = s2;
		su.res(fmt("ok %zu", removed));
		c.stats.count("op.remove.predicate");
	}
	// write through a mutable column (column d, never indexed): RowReference::GetMutable of operator[] / MakeMutableReference
	void opSetMutable() {
		if (sh.empty()) return;
		size_t n = (size_t)rng.below(sh.size());
		int v = (int)rng.below(4);
		if (rng.chance(1, 2)) { auto ref = (*tab)[n]; ref.GetMutable(C::D()) = v; }
		else { const Table& ct = *tab; CRef cref = ct[n]; tab->MakeMutableReference(cref).GetMutable(C::D()) = v; }
		sh[n].v[3] = v;
		++opNo; c.stats.evaluations++;
		su.op(fmt("updcol %zu 3 %d", n, v)); su.res("ok");	// for the model: an update of a column that no index uses
		c.stats.count("op.write_mutable_column");
	}
	void opAssign() {
		if (sh.empty()) return;
		size_t cnt = (size_t)rng.below(sh.size() + 3);
		std::vector<CRef> refs; std::string line = "assign"; std::vector<RV> s2; std::set<int> seen;
		bool keepMost = rng.chance(1, 2);
		if (keepMost) {	// a permutation of most rows
			std::vector<size_t> perm; for (size_t i = 0; i < sh.size(); ++i) if (!rng.chance(1, 10)) perm.push_back(i);
			for (size_t i = perm.size(); i > 1; --i) std::swap(perm[i - 1], perm[rng.below(i)]);
			for (size_t n : perm) { refs.push_back((*tab)[n]); line += fmt(" %d", sh[n].id); if (seen.insert(sh[n].id).second) s2.push_back(sh[n]); }
		} else {
			for (size_t i = 0; i < cnt; ++i) { size_t n = (size_t)rng.below(sh.size()); refs.push_back((*tab)[n]); line += fmt(" %d", sh[n].id); if (seen.insert(sh[n].id).second) s2.push_back(sh[n]); }
		}
		++opNo; c.stats.evaluations++;
		su.op(line);
		tab->Assign(refs.begin(), refs.end());
		sh = s2;
		su.res(fmt("ok %zu", tab->GetCount()));
		c.stats.count("op.assign");
	}
	void opClear() {
		++opNo; c.stats.evaluations++;
		su.op("clear"); tab->Clear(); sh.clear(); su.res("ok");
		c.stats.count("op.clear");
	}

	// ------------------------------------------------ indexes
	bool hasIdx(int k) { for (int u : uDefs) if (u == k) return true; for (int m : mDefs) if (m == k) return true; return false; }
	void createIdx(int k) {
		if (hasIdx(k)) return;
		const IdxDef& def = kIdx[k];
		std::string line = def.unique ? "uidx" : "midx"; for (int cc : def.cols) line += fmt(" %d", cc);
		for (int round = 0; round < 6; ++round) {
			++opNo; c.stats.evaluations++;
			su.op(line);
			if (def.unique) {
				try {
					auto ix = tab->AddUniqueHashIndex(C::A(), C::B());
					su.res(fmt("ok %td", (ptrdiff_t)ix)); uDefs.push_back(k);
					c.stats.count(sh.empty() ? "index.unique.before_data" : "index.unique.after_data");
					// brute force: no two rows may be equal on (a, b)
					std::set<std::pair<int, int>> keys; for (auto& r : sh) if (!keys.insert({ r.v[0], r.v[1] }).second) fail("AddUniqueHashIndex succeeded although two rows are equal on its columns");
					return;
				} catch (const typename Table::UniqueIndexViolation& e) {
					int id = e.rowReference[C::K()];
					su.res(fmt("E:user %d", id));
					c.stats.count("index.unique.refused");
					// brute force: the row reported must be the second of two equal rows
					bool dup = false; size_t pos = 0;
					for (size_t i = 0; i < sh.size(); ++i) if (sh[i].id == id) pos = i;
					for (size_t i = 0; i < pos; ++i) if (sh[i].v[0] == sh[pos].v[0] && sh[i].v[1] == sh[pos].v[1]) dup = true;
					if (!dup) fail(fmt("AddUniqueHashIndex reported row id %d which no earlier row equals", id));
					emitChk(false);
					// remove the offender and try again
					++opNo; su.op(fmt("remref %d", id)); tab->Remove((*tab)[pos]); su.res(fmt("ok %d", id)); sh.erase(sh.begin() + (ptrdiff_t)pos);
				}
			} else {
				ptrdiff_t ix;
				if (k == 1) ix = (ptrdiff_t)tab->AddMultiHashIndex(C::A());
				else if (k == 2) ix = (ptrdiff_t)tab->AddMultiHashIndex(C::B());
				else ix = (ptrdiff_t)tab->AddMultiHashIndex(C::S(), C::A());
				su.res(fmt("ok %td", ix)); mDefs.push_back(k);
				c.stats.count(sh.empty() ? "index.multi.before_data" : "index.multi.after_data");
				return;
			}
		}
	}
	void dropIdx(bool unique) {
		++opNo; c.stats.evaluations++;
		if (unique) { su.op("dropu"); tab->RemoveUniqueHashIndexes(); uDefs.clear(); }
		else { su.op("dropm"); tab->RemoveMultiHashIndexes(); mDefs.clear(); }
		su.res("ok"); c.stats.count("index.dropped");
	}

	// ------------------------------------------------ queries
	Eqs genEqs(bool present) {
		static const int combos[15][4] = { {0,-1,-1,-1}, {1,-1,-1,-1}, {2,-1,-1,-1}, {3,-1,-1,-1}, {0,1,-1,-1}, {1,0,-1,-1}, {2,0,-1,-1}, {0,2,-1,-1},
			{1,2,-1,-1}, {3,0,-1,-1}, {0,1,2,-1}, {2,1,0,-1}, {1,3,0,-1}, {0,1,2,3}, {3,2,1,0} };
		const int* cb = combos[rng.below(15)];
		Eqs e;
		const RV* src = (present && !sh.empty()) ? &sh[rng.below(sh.size())] : nullptr;
		for (int i = 0; i < 4 && cb[i] >= 0; ++i) {
			int cc = cb[i], v;
			if (src) v = src->v[cc];
			else v = (cc == 0) ? (int)rng.below((uint64_t)aRange + 2) : (cc == 1) ? (int)rng.below((uint64_t)bRange + 5) + (rng.chance(1, 3) ? bRange : 0) : (cc == 2) ? (int)rng.below(7) : (int)rng.below(6);
			e.push_back({ cc, v });
		}
		return e;
	}
	std::vector<int> scan(const Eqs& e, const Pred& p) { std::vector<int> ids; for (auto& r : sh) if (eqsHold(e, r) && p(r)) ids.push_back(r.id); return ids; }

	std::unique_ptr<Selection> lastSel;
	bool haveSel = false;

	template<typename RowsT> std::vector<int> idsOf(const RowsT& rows) { std::vector<int> ids; for (auto r : rows) ids.push_back((int)r[C::K()]); return ids; }
	static std::string listSum(const std::vector<int>& ids) { uint64_t h = 0; for (int x : ids) h = ck(h, (uint64_t)x); return fmt("n=%zu h=%llu", ids.size(), (unsigned long long)h); }

	typedef typename Table::ConstSelection ConstSelection;
	typedef typename Table::EmptyRowFilter NoFilter;
	template<typename F> void dispatchVar(const Eqs& e, F&& f);	// Equality<Item>... spelling, defined below
	void querySelect() {
		Eqs e = rng.chance(1, 8) ? Eqs() : genEqs(rng.chance(3, 4));
		Pred p; if (rng.chance(1, 3)) p = genPred();
		auto* self = this;
		auto filter = [p, self](CRef r) { return p(self->rvOf(r)); };
		std::vector<int> want = scan(e, p);
		bool count = rng.chance(1, 3);
		// the spelling of the call: Equalities<...> (column == item && ...) or Equality<Item>..., through the table or a const reference to it
		bool variadic = rng.chance(1, 2), viaConst = rng.chance(1, 2);
		const Table& ct = *tab;
		++opNo; c.stats.evaluations++;
		if (count) {
			size_t got = 0;
			if (e.empty()) got = (p.kind == 0) ? tab->SelectCount() : tab->SelectCount(filter);
			else if (variadic) dispatchVar(e, [&](auto... mk) { got = (p.kind == 0) ? ct.SelectCount(NoFilter(), mk()...) : ct.SelectCount(filter, mk()...); });
			else dispatchEqs(e, [&](auto mk) { got = (p.kind == 0) ? tab->SelectCount(mk()) : tab->SelectCount(mk(), filter); });
			su.op(fmt("cnt %s | %s", eqsStr(e).c_str(), p.str().c_str())); su.res(fmt("%zu", got));
			if (got != want.size()) fail(fmt("SelectCount(%s | %s) = %zu, a brute-force scan finds %zu", eqsStr(e).c_str(), p.str().c_str(), got, want.size()));
			c.stats.count(variadic && !e.empty() ? "query.select_count.variadic" : "query.select_count");
		} else {
			std::vector<int> got;
			if (viaConst) {	// ConstSelection
				std::unique_ptr<ConstSelection> cs;
				if (e.empty()) { if (p.kind == 0) cs.reset(new ConstSelection(ct.Select())); else cs.reset(new ConstSelection(ct.Select(filter))); }
				else if (variadic) dispatchVar(e, [&](auto... mk) { if (p.kind == 0) cs.reset(new ConstSelection(ct.Select(NoFilter(), mk()...))); else cs.reset(new ConstSelection(ct.Select(filter, mk()...))); });
				else dispatchEqs(e, [&](auto mk) { if (p.kind == 0) cs.reset(new ConstSelection(ct.Select(mk()))); else cs.reset(new ConstSelection(ct.Select(mk(), filter))); });
				got = idsOf(*cs);
				if (cs->GetCount() != got.size()) fail("ConstSelection: GetCount differs from the number of rows iterated");
				haveSel = false; lastSel.reset();
			} else {
				if (e.empty()) { if (p.kind == 0) lastSel.reset(new Selection(tab->Select())); else lastSel.reset(new Selection(tab->Select(filter))); }
				else if (variadic) dispatchVar(e, [&](auto... mk) { if (p.kind == 0) lastSel.reset(new Selection(tab->Select(NoFilter(), mk()...))); else lastSel.reset(new Selection(tab->Select(filter, mk()...))); });
				else dispatchEqs(e, [&](auto mk) { if (p.kind == 0) lastSel.reset(new Selection(tab->Select(mk()))); else lastSel.reset(new Selection(tab->Select(mk(), filter))); });
				haveSel = true;
				got = idsOf(*lastSel);
			}
			su.op(fmt("sel %s | %s", eqsStr(e).c_str(), p.str().c_str())); su.res(listSum(got));
			std::vector<int> g2 = got; std::sort(g2.begin(), g2.end()); std::sort(want.begin(), want.end());
			if (g2 != want) fail(fmt("Select(%s | %s) returns %zu rows, a brute-force scan finds %zu (or other rows)", eqsStr(e).c_str(), p.str().c_str(), got.size(), want.size()));
			c.stats.count(fmt("query.select%s%s", viaConst ? ".const" : "", variadic && !e.empty() ? ".variadic" : ""));
		}
		c.stats.count(want.empty() ? "query.result.empty" : want.size() > 192 ? "query.result.gt192" : want.size() > 64 ? "query.result.gt64" : "query.result.small");
		c.stats.nontrivial(fmt("%s/q/%s/%d/%zu", tag.c_str(), eqsStr(e).c_str(), p.kind, want.size()));
	}
	template<typename F> void dispatchVarIdx(const Eqs& e, F&& f);	// Equality<Item>... spelling for the column sets of the indexes and (d)
	int uPosOf(int k) const { for (size_t i = 0; i < uDefs.size(); ++i) if (uDefs[i] == k) return (int)i; return -1; }
	int mPosOf(int k) const { for (size_t i = 0; i < mDefs.size(); ++i) if (mDefs[i] == k) return (int)i; return -1; }
	// GetUniqueHashIndex / GetMultiHashIndex(columns...) against the list of indexes the harness created; lookups by a column set
	// that has no index: std::logic_error
	void queryIndexOf() {
		const Table& ct = *tab;
		++opNo; c.stats.evaluations++;
		ptrdiff_t u0 = (ptrdiff_t)ct.GetUniqueHashIndex(C::A(), C::B()), u1 = (ptrdiff_t)ct.GetUniqueHashIndex(C::B(), C::A()), u2 = (ptrdiff_t)ct.GetUniqueHashIndex(C::A());
		ptrdiff_t m1 = (ptrdiff_t)ct.GetMultiHashIndex(C::A()), m2 = (ptrdiff_t)ct.GetMultiHashIndex(C::B()), m3 = (ptrdiff_t)ct.GetMultiHashIndex(C::A(), C::S()), m4 = (ptrdiff_t)ct.GetMultiHashIndex(C::D());
		if (u0 != uPosOf(0) || u1 != uPosOf(0) || u2 != -1 || m1 != mPosOf(1) || m2 != mPosOf(2) || m3 != mPosOf(3) || m4 != -1)
			fail(fmt("GetUniqueHashIndex / GetMultiHashIndex(columns) = u(a,b) %td u(b,a) %td u(a) %td m(a) %td m(b) %td m(a,s) %td m(d) %td, the indexes created are u(a,b) %d m(a) %d m(b) %d m(s,a) %d",
				u0, u1, u2, m1, m2, m3, m4, uPosOf(0), mPosOf(1), mPosOf(2), mPosOf(3)));
		c.stats.count("query.index_of_columns");
		{	// the operator== / operator&& spelling of an equality list
			const RV* src = (!sh.empty() && rng.chance(3, 4)) ? &sh[rng.below(sh.size())] : nullptr;
			int va = src ? src->v[0] : (int)rng.below((uint64_t)aRange + 2), vb = src ? src->v[1] : (int)rng.below((uint64_t)bRange + 5);
			std::string vs = strOf(src && rng.chance(2, 3) ? src->v[2] : (int)rng.below(7));
			bool three = rng.chance(1, 2);
			size_t got = three ? ct.SelectCount((C::A() == va) && (C::B() == vb) && (C::S() == vs)) : ct.SelectCount((C::B() == vb) && (C::A() == va));
			Eqs e2 = three ? Eqs{ { 0, va }, { 1, vb }, { 2, strNo(vs) } } : Eqs{ { 1, vb }, { 0, va } };
			++opNo; c.stats.evaluations++;
			su.op(fmt("cnt %s | T", eqsStr(e2).c_str())); su.res(fmt("%zu", got));
			size_t want = scan(e2, Pred()).size();
			if (got != want) fail(fmt("SelectCount(%s, written with == and &&) = %zu, a brute-force scan finds %zu", eqsStr(e2).c_str(), got, want));
			c.stats.count("query.select_count.operator_and");
		}
		// a lookup without an index over exactly these columns
		static const int combos[7][2] = { {0,1}, {1,0}, {0,-1}, {1,-1}, {2,0}, {0,2}, {3,-1} };
		const int* cb = combos[rng.below(7)];
		Eqs e; for (int i = 0; i < 2 && cb[i] >= 0; ++i) e.push_back({ cb[i], (int)rng.below(4) });
		std::vector<int> cols; for (auto& q : e) cols.push_back(q.first); std::sort(cols.begin(), cols.end());
		bool unique = rng.chance(1, 2), variadic = rng.chance(1, 2);
		bool have = false;
		for (int k : (unique ? uDefs : mDefs)) { std::vector<int> kc = kIdx[k].cols; std::sort(kc.begin(), kc.end()); if (kc == cols) have = true; }
		if (have) return;
		std::string got = "returned";
		try {
			if (unique) {
				if (variadic) dispatchVarIdx(e, [&](auto... mk) { (void)ct.FindByUniqueHash(momo::DataUniqueHashIndex::empty, mk()...); });
				else dispatchEqs(e, [&](auto mk) { (void)ct.FindByUniqueHash(mk()); });
			} else {
				if (variadic) dispatchVarIdx(e, [&](auto... mk) { (void)ct.FindByMultiHash(momo::DataMultiHashIndex::empty, mk()...); });
				else dispatchEqs(e, [&](auto mk) { (void)ct.FindByMultiHash(mk()); });
			}
		} catch (const std::logic_error&) { got = "E:logic"; }
		++opNo; c.stats.evaluations++;
		su.op(fmt("%s - %s", unique ? "fu" : "fm", eqsStr(e).c_str())); su.res(got);
		if (got != "E:logic") fail(fmt("FindBy%sHash(%s) without an index over these columns did not throw std::logic_error", unique ? "Unique" : "Multi", eqsStr(e).c_str()));
		c.stats.count("query.find.index_not_found");
	}
	void queryFind() {
		if (uDefs.empty() && mDefs.empty()) return;
		size_t which = (size_t)rng.below(uDefs.size() + mDefs.size());
		if (!uDefs.empty() && rng.chance(1, 3)) which = (size_t)rng.below(uDefs.size());
		bool present = rng.chance(2, 3);
		bool explicitIdx = rng.chance(1, 2);
		// 0 Equalities<...>, 1 the same through a const table, 2 (index, Equality<Item>...), 3 the same through a const table,
		// 4 / 5 (unique only) FindByUniqueHash(index, const Row&) through the table / a const table
		int form = (int)rng.below(which < uDefs.size() ? 6 : 4);
		const Table& ct = *tab;
		++opNo; c.stats.evaluations++;
		if (which < uDefs.size()) {
			const auto& cols = kIdx[uDefs[which]].cols;
			Eqs e; const RV* src = (present && !sh.empty()) ? &sh[rng.below(sh.size())] : nullptr;
			for (int cc : cols) e.push_back({ cc, src ? src->v[cc] : (int)rng.below((uint64_t)bRange + 5) });
			if (rng.chance(1, 2)) std::reverse(e.begin(), e.end());
			std::string got = "none";
			auto uix = explicitIdx ? (momo::DataUniqueHashIndex)(ptrdiff_t)which : momo::DataUniqueHashIndex::empty;
			if (form >= 4) {
				explicitIdx = true; uix = (momo::DataUniqueHashIndex)(ptrdiff_t)which;
				RV x = genRow0(); --nextId; x.id = 0;	// a detached row: the index columns as asked, anything in the others
				for (auto& q : e) x.v[q.first] = q.second;
				Row row = buildRow(x, (int)rng.below(3));
				const Row& crow = row;
				if (form == 4) { auto ptr = tab->FindByUniqueHash(uix, crow); if (!!ptr) { got = fmt("%d", (int)(*ptr)[C::K()]); if (ptr.GetCount() != 1 || (int)ptr->Get(C::K()) != (int)(*ptr)[C::K()]) fail("FindByUniqueHash(index, row): the row pointer is inconsistent"); } }
				else { auto ptr = ct.FindByUniqueHash(uix, crow); if (!!ptr) got = fmt("%d", (int)(*ptr)[C::K()]); if (static_cast<bool>(ptr) != (got != "none") || ptr.GetCount() > 1) fail("FindByUniqueHash(index, row) const: the row pointer is inconsistent"); }
				if (!sameRV(rvOfRow(row), x)) fail("FindByUniqueHash(index, row) changed the row it was given");
			}
			else if (form == 0) dispatchEqs(e, [&](auto mk) { auto ptr = tab->FindByUniqueHash(mk(), uix); if (!!ptr) got = fmt("%d", (int)(*ptr)[C::K()]); });
			else if (form == 1) dispatchEqs(e, [&](auto mk) { auto ptr = ct.FindByUniqueHash(mk(), uix); if (!!ptr) got = fmt("%d", (int)(*ptr)[C::K()]); });
			else if (form == 2) dispatchVarIdx(e, [&](auto... mk) { auto ptr = tab->FindByUniqueHash(uix, mk()...); if (!!ptr) got = fmt("%d", (int)(*ptr)[C::K()]); });
			else dispatchVarIdx(e, [&](auto... mk) { auto ptr = ct.FindByUniqueHash(uix, mk()...); if (!!ptr) got = fmt("%d", (int)(*ptr)[C::K()]); });
			su.op(fmt("fu %s %s", explicitIdx ? fmt("%zu", which).c_str() : "-", eqsStr(e).c_str())); su.res(got);
			std::vector<int> want = scan(e, Pred());
			std::string w = want.empty() ? "none" : fmt("%d", want[0]);
			if (want.size() > 1 || got != w) fail(fmt("FindByUniqueHash(%s; call form %d) = %s, a brute-force scan gives %s (%zu rows)", eqsStr(e).c_str(), form, got.c_str(), w.c_str(), want.size()));
			c.stats.count(want.empty() ? "query.find_unique.absent" : "query.find_unique.present");
			c.stats.count(fmt("query.find_unique.form%d", form));
		} else {
			size_t mi = which - uDefs.size();
			const auto& cols = kIdx[mDefs[mi]].cols;
			Eqs e; const RV* src = (present && !sh.empty()) ? &sh[rng.below(sh.size())] : nullptr;
			for (int cc : cols) e.push_back({ cc, src ? src->v[cc] : (int)rng.below((uint64_t)bRange + 5) + bRange });
			if (rng.chance(1, 2)) std::reverse(e.begin(), e.end());
			std::vector<int> got;
			auto mix = explicitIdx ? (momo::DataMultiHashIndex)(ptrdiff_t)mi : momo::DataMultiHashIndex::empty;
			auto take = [&](auto bounds) { got = idsOf(bounds); if (bounds.GetCount() != got.size()) fail("FindByMultiHash: GetCount differs from the number of rows iterated"); };
			if (form == 0) dispatchEqs(e, [&](auto mk) { take(tab->FindByMultiHash(mk(), mix)); });
			else if (form == 1) dispatchEqs(e, [&](auto mk) { take(ct.FindByMultiHash(mk(), mix)); });
			else if (form == 2) dispatchVarIdx(e, [&](auto... mk) { take(tab->FindByMultiHash(mix, mk()...)); });
			else dispatchVarIdx(e, [&](auto... mk) { take(ct.FindByMultiHash(mix, mk()...)); });
			su.op(fmt("fm %s %s", explicitIdx ? fmt("%zu", mi).c_str() : "-", eqsStr(e).c_str())); su.res(listSum(got));
			std::vector<int> want = scan(e, Pred());
			std::vector<int> g2 = got; std::sort(g2.begin(), g2.end()); std::sort(want.begin(), want.end());
			if (g2 != want) fail(fmt("FindByMultiHash(%s; call form %d) returns %zu rows, a brute-force scan finds %zu (or other rows)", eqsStr(e).c_str(), form, got.size(), want.size()));
			c.stats.count(want.empty() ? "query.find_multi.absent" : want.size() > 192 ? "query.find_multi.gt192" : want.size() > 64 ? "query.find_multi.gt64" : "query.find_multi.present");
			c.stats.count(fmt("query.find_multi.form%d", form));
		}
	}
	template<typename T2> std::vector<std::vector<int>> tuplesOf(const T2& t2, const std::vector<int>& cols) {
		std::vector<std::vector<int>> out;
		for (auto r : t2) { std::vector<int> tup; for (int cc : cols) tup.push_back(cc == 0 ? (int)r[C::A()] : cc == 1 ? (int)r[C::B()] : strNo(r[C::S()])); out.push_back(tup); }
		return out;
	}
	// the table returned by Project / ProjectDistinct: no index left, row numbers = positions
	void checkProjected(const Table& r) {
		if (r.mIndexes.mUniqueHashes.GetCount() != 0 || r.mIndexes.mMultiHashes.GetCount() != 0) fail("the table returned by Project / ProjectDistinct still has an index");
		for (size_t i = 0; i < r.GetCount(); ++i) if (tKeep && numOf(r[i], i) != i) { fail(fmt("row %zu of a projected table reports row number %zu", i, numOf(r[i], i))); break; }
	}
	void queryProject() {
		int combo = (int)rng.below(3);
		bool distinct = rng.chance(1, 2);
		Pred p; if (rng.chance(1, 2)) p = genPred();
		auto* self = this;
		auto filter = [p, self](CRef r) { return p(self->rvOf(r)); };
		std::vector<int> cols = combo == 0 ? std::vector<int>{ 0 } : combo == 1 ? std::vector<int>{ 0, 2 } : std::vector<int>{ 1, 0 };
		std::vector<std::vector<int>> got;
		const Table& ct = *tab;
		bool noFilter = p.kind == 0 && rng.chance(2, 3);	// the overloads without a row filter
		auto call = [&]() {
			got.clear();
			if (noFilter) switch (combo) {
			case 0: { Table r = distinct ? ct.ProjectDistinct(C::makeProj(C::A()), C::A()) : ct.Project(C::makeProj(C::A()), C::A()); got = tuplesOf(r, cols); checkProjected(r); break; }
			case 1: { Table r = distinct ? ct.ProjectDistinct(C::makeProj(C::A(), C::S()), C::A(), C::S()) : ct.Project(C::makeProj(C::A(), C::S()), C::A(), C::S()); got = tuplesOf(r, cols); checkProjected(r); break; }
			default: { Table r = distinct ? ct.ProjectDistinct(C::makeProj(C::B(), C::A()), C::B(), C::A()) : ct.Project(C::makeProj(C::B(), C::A()), C::B(), C::A()); got = tuplesOf(r, cols); checkProjected(r); break; }
			}
			else switch (combo) {
			case 0: { Table r = distinct ? ct.ProjectDistinct(C::makeProj(C::A()), filter, C::A()) : ct.Project(C::makeProj(C::A()), filter, C::A()); got = tuplesOf(r, cols); checkProjected(r); break; }
			case 1: { Table r = distinct ? ct.ProjectDistinct(C::makeProj(C::A(), C::S()), filter, C::A(), C::S()) : ct.Project(C::makeProj(C::A(), C::S()), filter, C::A(), C::S()); got = tuplesOf(r, cols); checkProjected(r); break; }
			default: { Table r = distinct ? ct.ProjectDistinct(C::makeProj(C::B(), C::A()), filter, C::B(), C::A()) : ct.Project(C::makeProj(C::B(), C::A()), filter, C::B(), C::A()); got = tuplesOf(r, cols); checkProjected(r); break; }
			}
		};
		// a projection interrupted by an allocation failure: bad_alloc, nothing left allocated (the partial result table is destroyed)
		if (rng.chance(1, 3)) {
			Arena& ar = arena();
			tab->pvDeallocateFreeRaws();
			size_t live = ar.live.size();
			for (int att = 0; att < 3; ++att) {
				got.clear(); got.shrink_to_fit();
				long heap = g_heapLive;
				ar.arm(att == 0 ? 0 : (long)rng.below(4 + 2 * sh.size())); bool bad = false;
				try { call(); } catch (const std::bad_alloc&) { bad = true; }
				ar.disarm();
				long heapAfter = g_heapLive;
				c.stats.evaluations++;
				if (bad && heapAfter != heap) { fail(fmt("%s interrupted by an allocation failure left %ld heap blocks of row items allocated", distinct ? "ProjectDistinct" : "Project", heapAfter - heap)); break; }
				if (!bad) { c.stats.count(ar.fired ? "fault.swallowed.project" : "fault.not_reached.project"); continue; }
				c.stats.count("fault.thrown.project");
				if (ar.live.size() != live) { fail(fmt("%s interrupted by an allocation failure left %zu blocks allocated (%zu before)", distinct ? "ProjectDistinct" : "Project", ar.live.size(), live)); ar.live.clear(); break; }
			}
		}
		call();
		++opNo; c.stats.evaluations++;
		std::string line = fmt("proj %d", distinct ? 1 : 0); for (int cc : cols) line += fmt(" %d", cc); line += " | " + p.str();
		uint64_t h = 0; for (auto& tup : got) { h = ck(h, 7); for (int x : tup) h = ck(h, (uint64_t)x); }
		su.op(line); su.res(fmt("n=%zu h=%llu", got.size(), (unsigned long long)h));
		std::vector<std::vector<int>> want; std::set<std::vector<int>> seen;
		for (auto& r : sh) if (p(r)) { std::vector<int> tup; for (int cc : cols) tup.push_back(r.v[cc]); if (!distinct || seen.insert(tup).second) want.push_back(tup); }
		if (got != want) fail(fmt("%s(%s) returns %zu rows, a brute-force scan gives %zu (or other rows / another order)", distinct ? "ProjectDistinct" : "Project", line.c_str(), got.size(), want.size()));
		c.stats.count(fmt("%s%s", distinct ? "query.project_distinct" : "query.project", noFilter ? ".no_filter" : ""));
	}
	// Sort / Group / bounds on the selection of the last `sel`
	void querySelection() {
		if (!haveSel) return;
		int combo = (int)rng.below(3);
		std::vector<int> cols = combo == 0 ? std::vector<int>{ 1, 0 } : combo == 1 ? std::vector<int>{ 0 } : std::vector<int>{ 2, 1 };
		std::vector<int> before = idsOf(*lastSel);
		std::map<int, const RV*> byId; for (auto& r : sh) byId[r.id] = &r;
		auto keyOf = [&](int id) { std::vector<int> key; auto it = byId.find(id); for (int cc : cols) key.push_back(it == byId.end() ? -1 : it->second->v[cc]); return key; };
		std::string colsStr; for (int cc : cols) colsStr += fmt(" %d", cc);
		++opNo; c.stats.evaluations++;
		if (rng.chance(1, 2)) {
			if (rng.chance(1, 4)) {	// Sort(columns...) &&
				Selection tmp(*lastSel);
				switch (combo) { case 0: { Selection g(std::move(tmp).Sort(C::B(), C::A())); lastSel->Swap(g); break; } case 1: { Selection g(std::move(tmp).Sort(C::A())); lastSel->Swap(g); break; } default: { Selection g(std::move(tmp).Sort(C::S(), C::B())); lastSel->Swap(g); break; } }
				c.stats.count("query.selection.sort.rvalue");
			}
			else switch (combo) { case 0: lastSel->Sort(C::B(), C::A()); break; case 1: lastSel->Sort(C::A()); break; default: lastSel->Sort(C::S(), C::B()); break; }
			std::vector<int> after = idsOf(*lastSel);
			uint64_t h = 0; std::vector<std::vector<int>> keys;
			for (int id : after) { auto key = keyOf(id); keys.push_back(key); h = ck(h, 7); for (int x : key) h = ck(h, (uint64_t)x); }
			su.op("sort" + colsStr); su.res(fmt("h=%llu", (unsigned long long)h));
			if (!std::is_sorted(keys.begin(), keys.end())) fail(fmt("Selection::Sort(%s) left the selection unsorted", colsStr.c_str()));
			std::vector<int> b2 = before, a2 = after; std::sort(b2.begin(), b2.end()); std::sort(a2.begin(), a2.end());
			if (a2 != b2) fail(fmt("Selection::Sort(%s) changed the set of rows", colsStr.c_str()));
			c.stats.count("query.selection.sort");
			// bounds on the sorted selection (combo 2 sorts by a string column: the model compares numbers, skip)
			if (combo != 2) {
				for (int rep = 0; rep < 2; ++rep) {
					Eqs e; const RV* src = (!sh.empty() && rng.chance(2, 3)) ? &sh[rng.below(sh.size())] : nullptr;
					for (int cc : cols) e.push_back({ cc, src ? src->v[cc] : (int)rng.below((uint64_t)bRange + 5) });
					std::vector<int> key; for (auto& p : e) key.push_back(p.second);
					size_t lb = 0, ub = 0;
					if (combo == 0) { lb = lastSel->GetLowerBound(typename Table::template Equality<int>(C::B(), e[0].second), typename Table::template Equality<int>(C::A(), e[1].second));
						ub = lastSel->GetUpperBound(typename Table::template Equality<int>(C::B(), e[0].second), typename Table::template Equality<int>(C::A(), e[1].second)); }
					else { lb = lastSel->GetLowerBound(typename Table::template Equality<int>(C::A(), e[0].second)); ub = lastSel->GetUpperBound(typename Table::template Equality<int>(C::A(), e[0].second)); }
					++opNo; su.op("lb " + eqsStr(e)); su.res(fmt("%zu", lb));
					++opNo; su.op("ub " + eqsStr(e)); su.res(fmt("%zu", ub));
					size_t wl = 0, wu = 0; for (auto& k2 : keys) { if (k2 < key) ++wl; if (!(key < k2)) ++wu; }
					if (lb != wl || ub != wu) fail(fmt("GetLowerBound/GetUpperBound(%s) = %zu/%zu, a linear scan of the sorted selection gives %zu/%zu", eqsStr(e).c_str(), lb, ub, wl, wu));
					c.stats.count("query.selection.bounds");
				}
			}
		} else {
			// 1 in 3: the allocation of the hash-code array fails (pvGroup falls back to sorting in place without it)
			Arena& ar = arena();
			bool starve = rng.chance(1, 3), rvalue = rng.chance(1, 4);
			std::unique_ptr<Selection> tmp; if (rvalue) tmp.reset(new Selection(*lastSel));
			if (starve) ar.arm(0);
			if (rvalue) {	// Group(columns...) &&
				switch (combo) { case 0: { Selection g(std::move(*tmp).Group(C::B(), C::A())); lastSel->Swap(g); break; } case 1: { Selection g(std::move(*tmp).Group(C::A())); lastSel->Swap(g); break; } default: { Selection g(std::move(*tmp).Group(C::S(), C::B())); lastSel->Swap(g); break; } }
			}
			else switch (combo) { case 0: lastSel->Group(C::B(), C::A()); break; case 1: lastSel->Group(C::A()); break; default: lastSel->Group(C::S(), C::B()); break; }
			ar.disarm();
			if (starve && ar.fired) c.stats.count(rvalue ? "fault.group_without_hash_array.with_copy" : "fault.group_without_hash_array");
			std::vector<int> after = idsOf(*lastSel);
			std::set<std::vector<int>> closed; std::vector<int> cur; bool first = true; size_t runs = 0; bool ok = true;
			for (int id : after) { auto key = keyOf(id); if (first || key != cur) { if (!first) closed.insert(cur); if (closed.count(key)) ok = false; cur = key; first = false; ++runs; } }
			su.op("group" + colsStr); su.res(fmt("g=%zu", runs));
			if (!ok) fail(fmt("Selection::Group(%s) left equal keys apart", colsStr.c_str()));
			std::vector<int> b2 = before, a2 = after; std::sort(b2.begin(), b2.end()); std::sort(a2.begin(), a2.end());
			if (a2 != b2) fail(fmt("Selection::Group(%s) changed the set of rows", colsStr.c_str()));
			c.stats.count("query.selection.group");
		}
	}

	// the remaining entry points of DataSelection, on copies of the selection of the last `sel` (which stays as the model knows it);
	// the oracle of each is the same operation on the list of row ids (property level only: the model has no selection objects)
	template<typename SelT> bool selIs(const SelT& sel, const std::vector<int>& ids, const char* what) {
		std::vector<int> got = idsOf(sel);
		if (got == ids && sel.GetCount() == ids.size() && sel.IsEmpty() == ids.empty()) return true;
		fail(fmt("Selection %s: %zu rows (%s), the same operation on the list of row ids gives %zu rows (%s)", what, got.size(), listSum(got).c_str(), ids.size(), listSum(ids).c_str()));
		return false;
	}
	void querySelectionOps() {
		if (!haveSel) return;
		const std::vector<int> base = idsOf(*lastSel);
		std::map<int, const RV*> byId; for (auto& r : sh) byId[r.id] = &r;
		auto* self = this;
		Pred p = genPred();
		auto filter = [p, self](CRef r) { return p(self->rvOf(r)); };
		auto pid = [&](int id) { return p(*byId[id]); };
		++opNo; c.stats.evaluations++;
		int what = (int)rng.below(12);
		c.stats.count(fmt("query.selection.op%d", what));
		switch (what) {
		case 0: {	// Reverse & / &&
			Selection w(*lastSel); std::vector<int> ids = base; std::reverse(ids.begin(), ids.end());
			if (rng.chance(1, 2)) { w.Reverse(); selIs(w, ids, "Reverse()"); }
			else { Selection w2(std::move(w).Reverse()); selIs(w2, ids, "Reverse() &&"); }
			break; }
		case 1: {	// Sort(lessFunc) & / && with a total order (d descending, then row id), BinarySearch(predicate)
			Selection w(*lastSel); std::vector<int> ids = base;
			auto keyOf = [&](int id) { return std::make_pair(-byId[id]->v[3], id); };
			std::sort(ids.begin(), ids.end(), [&](int x, int y) { return keyOf(x) < keyOf(y); });
			auto less = [](CRef r1, CRef r2) { int d1 = r1[C::D()], d2 = r2[C::D()]; return d1 != d2 ? d1 > d2 : (int)r1[C::K()] < (int)r2[C::K()]; };
			if (rng.chance(1, 2)) w.Sort(less); else { Selection w2(std::move(w).Sort(less)); w.Swap(w2); }
			if (!selIs(w, ids, "Sort(lessFunc)")) break;
			for (int rep = 0; rep < 3; ++rep) {
				int dv = (int)rng.below(6) - 1;
				size_t got = w.BinarySearch([dv](CRef r) { return (int)r[C::D()] < dv; });	// first row (in this order) whose d is below dv
				size_t want = 0; for (int id : ids) if (!(byId[id]->v[3] < dv)) ++want;
				if (got != want) fail(fmt("Selection::BinarySearch(d < %d) on %zu rows sorted by d descending = %zu, a linear scan gives %zu", dv, ids.size(), got, want));
			}
			break; }
		case 2: {	// filtered copy
			Selection w(*lastSel, filter); std::vector<int> ids; for (int id : base) if (pid(id)) ids.push_back(id);
			selIs(w, ids, ("filtered copy (" + p.str() + ")").c_str());
			break; }
		case 3: {	// Remove(filter)
			Selection w(*lastSel); std::vector<int> ids; for (int id : base) if (!pid(id)) ids.push_back(id);
			size_t removed = w.Remove(filter);
			if (removed != base.size() - ids.size()) fail(fmt("Selection::Remove(%s) reported %zu rows, a scan finds %zu", p.str().c_str(), removed, base.size() - ids.size()));
			selIs(w, ids, ("Remove(" + p.str() + ")").c_str());
			break; }
		case 4: {	// copy / move assignment, Swap, Clear, Reserve
			Selection w(tab->SelectEmpty()); selIs(w, {}, "SelectEmpty()");
			Selection part(*lastSel, filter); std::vector<int> pids; for (int id : base) if (pid(id)) pids.push_back(id);
			w = *lastSel; selIs(w, base, "copy assignment");
			w = static_cast<const Selection&>(w); selIs(w, base, "self assignment");
			Selection w2(tab->SelectEmpty()); w2 = std::move(w); selIs(w2, base, "move assignment");
			w2.Swap(part); selIs(w2, pids, "Swap (left)"); selIs(part, base, "Swap (right)");
			swap(w2, part); selIs(part, pids, "swap (right)");
			part.Reserve(pids.size() + 10); selIs(part, pids, "Reserve");
			part.Clear(); selIs(part, {}, "Clear");
			const Table& ct = *tab; ConstSelection ce = ct.SelectEmpty(); selIs(ce, {}, "SelectEmpty() const");
			break; }
		case 5: {	// Assign(begin, end), Add(begin, end), Insert(index, begin, end) with the rows of another selection
			Selection other(*lastSel, filter); std::vector<int> oids; for (int id : base) if (pid(id)) oids.push_back(id);
			Selection w(*lastSel);
			w.Add(other.GetBegin(), other.GetEnd()); std::vector<int> ids = base; ids.insert(ids.end(), oids.begin(), oids.end()); selIs(w, ids, "Add(begin, end)");
			size_t at = (size_t)rng.below(ids.size() + 1);
			w.Insert(at, other.GetBegin(), other.GetEnd()); ids.insert(ids.begin() + (ptrdiff_t)at, oids.begin(), oids.end()); selIs(w, ids, "Insert(index, begin, end)");
			w.Assign(other.GetBegin(), other.GetEnd()); selIs(w, oids, "Assign(begin, end)");
			Selection e2(tab->SelectEmpty()); e2.Assign(tab->GetBegin(), tab->GetEnd());
			std::vector<int> all; for (auto& r : sh) all.push_back(r.id); selIs(e2, all, "Assign(table.GetBegin(), table.GetEnd())");
			break; }
		case 6: {	// GetColumnItems of a selection: DataConstItemBounds / DataConstItemIterator
			auto items = lastSel->GetColumnItems(C::B());
			bool ok = items.GetCount() == base.size();
			size_t i = 0;
			for (auto it = items.GetBegin(); ok && it != items.GetEnd(); ++it, ++i) if (*it != byId[base[i]]->v[1] || items[i] != *it || it.GetOffset() != tab->GetColumnList().GetOffset(C::B())) ok = false;
			if (ok && !base.empty()) {
				auto b = items.GetBegin(), e2 = items.GetEnd();
				size_t j = (size_t)rng.below(base.size());
				auto it = b; it += (ptrdiff_t)j;
				if (e2 - b != (ptrdiff_t)base.size() || !(b < e2) || (e2 < b) || *it != byId[base[j]]->v[1] || it - b != (ptrdiff_t)j || !(it == b + (ptrdiff_t)j) || (int)(*it.GetRowIterator())[C::K()] != base[j]) ok = false;
				auto si = items.GetBegin(); std::string s0 = *lastSel->GetColumnItems(C::S()).GetBegin();
				if (strNo(s0) != byId[base[0]]->v[2] || lastSel->GetColumnItems(C::S()).GetBegin()->size() != s0.size()) ok = false;
				(void)si;
			}
			if (!ok) fail(fmt("Selection::GetColumnItems(b) over %zu rows does not list the items of column b of these rows", base.size()));
			break; }
		case 7: {	// GetColumnItems of the table
			const Table& ct = *tab;
			auto items = ct.GetColumnItems(C::A());
			bool ok = items.GetCount() == sh.size(); size_t i = 0;
			for (int a : items) { if (i >= sh.size() || a != sh[i].v[0]) { ok = false; break; } ++i; }
			if (!ok || i != sh.size()) fail("DataTable::GetColumnItems(a) does not list the items of column a in row order");
			if (ct.ContainsColumn(C::A()) != true || ct.ContainsColumn(C::K()) != true || ct.IsEmpty() != sh.empty()) fail("ContainsColumn / IsEmpty answer wrongly");
			defaultTable(std::integral_constant<bool, tDyn>());
			break; }
		case 8: {	// iterator arithmetic of the selection and the table
			auto b = lastSel->GetBegin(), e2 = lastSel->GetEnd();
			bool ok = (e2 - b == (ptrdiff_t)base.size()) && !(e2 < b) && (base.empty() ? b == e2 : b < e2);
			if (!base.empty()) { size_t j = (size_t)rng.below(base.size()); auto it = b + (ptrdiff_t)j; if ((int)(*it)[C::K()] != base[j] || (int)it->Get(C::K()) != base[j] || it - b != (ptrdiff_t)j || (int)b[(ptrdiff_t)j][C::K()] != base[j]) ok = false; }
			auto tb = tab->GetBegin(), te = tab->GetEnd();
			if (te - tb != (ptrdiff_t)sh.size() || (te < tb)) ok = false;
			if (!sh.empty()) { size_t j = (size_t)rng.below(sh.size()); if ((int)tb[(ptrdiff_t)j][C::K()] != sh[j].id) ok = false; typename Table::ConstIterator cit = tb; if (!(cit == ct_begin())) ok = false; }
			if (!ok) fail("iterator arithmetic on a selection / the table disagrees with positions in the list of rows");
			break; }
		case 9: case 10: {	// DataTable(const Selection&) / DataTable(const ConstSelection&): the rows of the selection, in its order, no index
			if (lastSel->GetCount() > 120 && !rng.chance(1, 4)) break;
			int via = what == 9 ? 1 : 2;
			if (rng.chance(1, 2)) copyFaults(nullptr, via);
			std::unique_ptr<Table> t2;
			if (via == 1) t2.reset(new Table(*lastSel)); else { ConstSelection cs = *lastSel; t2.reset(new Table(cs)); }
			bool ok = t2->GetCount() == base.size() && t2->mIndexes.mUniqueHashes.GetCount() == 0 && t2->mIndexes.mMultiHashes.GetCount() == 0;
			for (size_t i = 0; ok && i < base.size(); ++i) { RV x = rvOf((*t2)[i]); if (!sameRV(x, *byId[base[i]]) || (tKeep && numOf((*t2)[i], i) != i) || (*t2)[i].GetRaw() == (*lastSel)[i].GetRaw()) ok = false; }
			if (!ok) fail(fmt("DataTable(%s of %zu rows) does not hold copies of exactly these rows in this order", via == 1 ? "Selection" : "ConstSelection", base.size()));
			IdxDump d = dumpIdx(); checkState(d);
			break; }
		default: {	// conversion of an rvalue selection, copy of a ConstSelection, Sort / bounds on a ConstSelection
			Selection w(*lastSel);
			ConstSelection cs(std::move(w)); selIs(cs, base, "operator ConstSelection() &&");
			ConstSelection cs2(cs); cs2.Sort(C::A()); std::vector<int> ks; for (auto r : cs2) ks.push_back((int)r[C::A()]);
			std::vector<int> ws; for (int id : base) ws.push_back(byId[id]->v[0]); std::sort(ws.begin(), ws.end());
			if (ks != ws) fail("ConstSelection::Sort(a) does not sort by column a");
			int av = (int)rng.below((uint64_t)aRange + 1);
			size_t lb = cs2.GetLowerBound(typename Table::template Equality<int>(C::A(), av)), ub = cs2.GetUpperBound(typename Table::template Equality<int>(C::A(), av));
			size_t wl = 0, wu = 0; for (int a : ws) { if (a < av) ++wl; if (a <= av) ++wu; }
			if (lb != wl || ub != wu) fail(fmt("ConstSelection bounds (a == %d) = %zu/%zu, a linear scan gives %zu/%zu", av, lb, ub, wl, wu));
			break; }
		}
	}
	// DataTable() (static column lists only): an empty table of the same columns that takes a copy of a row of this one
	void defaultTable(std::true_type) {}
	void defaultTable(std::false_type) {
		Table t0;
		bool ok = t0.GetCount() == 0 && t0.IsEmpty() && t0.Select().GetCount() == 0;
		if (ok && !sh.empty()) {
			size_t n = (size_t)rng.below(sh.size());
			t0.Add(t0.NewRow((*tab)[n]));
			ok = t0.GetCount() == 1 && sameRV(rvOf(t0[0]), sh[n]);
		}
		if (!ok) fail("a default-constructed DataTable is not an empty table that accepts a copy of a row");
	}
	typename Table::ConstIterator ct_begin() const { const Table& ct = *tab; return ct.GetBegin(); }

	// ------------------------------------------------ generation
	RV genRow() {
		RV x = genRow0();
		if (haveForced) { for (int cc : forcedCols) x.v[cc] = forced.v[cc]; if (forcedCols.size() == 1 && forcedCols[0] == 0) x.v[1] = bRange + (int)rng.below(1000); }
		return x;
	}
	RV genRow0() {
		RV x; x.id = nextId++;
		if (!sh.empty() && rng.chance((unsigned)dupPct, 100)) { const RV& o = sh[rng.below(sh.size())]; x.v[0] = o.v[0]; x.v[1] = o.v[1]; }
		else {
			x.v[0] = rng.chance(3, 5) ? 0 : (int)rng.below((uint64_t)aRange);
			x.v[1] = (int)rng.below((uint64_t)bRange);
		}
		x.v[2] = (int)rng.below(5);
		x.v[3] = (int)rng.below(4);
		return x;
	}

	void refill(size_t target) {
		while (sh.size() < target) { size_t before = sh.size(); opAdd(false, false); emitChk(false); if (sh.size() == before && rng.chance(1, 50)) break; }
	}

	// flavor 0: mixed history; 1: single-column updates dominate (finding F9 lives there); 2: removals / assignments dominate
	void run(unsigned subset, unsigned afterMask, size_t bulk, size_t steps, unsigned flavor) {
		offK = 0;
		tab = new Table(C::make());
		offK = tab->GetColumnList().GetOffset(C::K());
		heavy = bulk > 200;
		bRange = (int)std::max<size_t>(8, bulk * 2 / 3);
		aRange = 3;
		dupPct = (afterMask & 1) && (subset & 1) ? 1 : 10;
		std::vector<std::pair<size_t, int>> later;	// (step, index) to create after the data
		for (int k = 0; k < 4; ++k) if (subset & (1u << k)) {
			if (afterMask & (1u << k)) later.push_back({ (size_t)rng.below(steps * 2 / 3 + 1), k });
			else createIdx(k);
		}
		emitChk(true);
		for (size_t i = 0; i < bulk; ++i) { opAdd(!heavy && rng.chance(1, 4), rng.chance(1, 10)); emitChk(false); }
		emitChk(!heavy || rng.chance(1, 2));
		for (size_t st = 0; st < steps; ++st) {
			for (auto& lt : later) if (lt.first == st) { createIdx(lt.second); dupPct = 10; emitChk(false); }
			bool sweep = heavy ? rng.chance(1, 5) : rng.chance(1, 2);
			unsigned r = (unsigned)rng.below(100);
			if (flavor == 1 && rng.chance(1, 2)) r = 45;
			if (flavor == 2 && rng.chance(1, 2)) r = 58 + (unsigned)rng.below(32);
			if (!mDefs.empty() && rng.chance(1, heavy ? 3 : 20) && opAddBoundary()) r = 1000;
			if (r == 1000) {}
			else if (r < 22) opAdd(sweep, rng.chance(1, 10));
			else if (r < 30) opInsert(sweep);
			else if (r < 40) opUpdRow(sweep);
			else if (r < 56) opUpdCol(sweep);
			else if (r < 58) opSetMutable();
			else if (r < 72) opRemove();
			else if (r < 76) opReadd();
			else if (r < 82) opRemoveRows();
			else if (r < 86) opRemovePred();
			else if (r < 90) opAssign();
			else if (r < 91) { if (rng.chance(1, 3)) opClear(); }
			else if (r < 94) { if (rng.chance(1, 3)) { Pred p = genPred(); rebuild(p.str(), &p, true); } else rebuild("T", nullptr, true); }
			else if (r < 95) { bool u = rng.chance(1, 2); std::vector<int> defs = u ? uDefs : mDefs; dropIdx(u); for (int k : defs) later.push_back({ st + 1 + (size_t)rng.below(10), k }); }
			else opAdd(sweep, false);
			haveSel = false; lastSel.reset();
			emitChk(rng.chance(1, heavy ? 40 : 10));
			size_t nq = heavy ? 2 : 3;
			for (size_t q = 0; q < nq; ++q) {
				unsigned qr = (unsigned)rng.below(14);
				if (qr < 5) querySelect(); else if (qr < 8) queryFind(); else if (qr < 9) queryProject(); else if (qr < 10) { querySelect(); querySelection(); }
				else if (qr < 12) { querySelect(); querySelectionOps(); querySelectionOps(); } else if (qr < 13) queryIndexOf(); else queryFind();
			}
			if (sh.size() < bulk / 2) refill(bulk * 3 / 4);
		}
		emitChk(true);
		held.clear();
		lastSel.reset();
		delete tab; tab = nullptr;
		Arena& ar = arena();
		if (!ar.live.empty() || ar.badDealloc) { fail(fmt("%zu blocks still allocated / %zu bad deallocations after the table was destroyed", ar.live.size(), ar.badDealloc)); ar.live.clear(); ar.badDealloc = 0; }
	}
};

// typed dispatch of a list of (column, value) equalities to DataEquality<...>
template<bool tDyn, bool tKeep, size_t tMaxEq>
template<typename F>
void Runner<tDyn, tKeep, tMaxEq>::dispatchEqs(const Eqs& e, F&& f)
{
	int code = 0; for (auto& p : e) code = code * 5 + p.first + 1;
	std::string sv; for (auto& p : e) if (p.first == 2) sv = strOf(p.second);
	int v[4] = { 0, 0, 0, 0 }; for (size_t i = 0; i < e.size() && i < 4; ++i) v[i] = e[i].second;
	const std::string& svr = sv;
	// DataEquality is neither copyable nor movable: hand over a maker that builds the prvalue at the call site
	#define EA(i) And(C::A(), v[i])
	#define EB(i) And(C::B(), v[i])
	#define ES(i) And(C::S(), svr)
	#define ED(i) And(C::D(), v[i])
	#define MK(chain) f([&]() { return momo::DataEquality<>().chain; })
	switch (code) {
	case 1: MK(EA(0)); break;
	case 2: MK(EB(0)); break;
	case 3: MK(ES(0)); break;
	case 4: MK(ED(0)); break;
	case 1 * 5 + 2: MK(EA(0).EB(1)); break;
	case 2 * 5 + 1: MK(EB(0).EA(1)); break;
	case 3 * 5 + 1: MK(ES(0).EA(1)); break;
	case 1 * 5 + 3: MK(EA(0).ES(1)); break;
	case 2 * 5 + 3: MK(EB(0).ES(1)); break;
	case 4 * 5 + 1: MK(ED(0).EA(1)); break;
	case (1 * 5 + 2) * 5 + 3: MK(EA(0).EB(1).ES(2)); break;
	case (3 * 5 + 2) * 5 + 1: MK(ES(0).EB(1).EA(2)); break;
	case (2 * 5 + 4) * 5 + 1: MK(EB(0).ED(1).EA(2)); break;
	case ((1 * 5 + 2) * 5 + 3) * 5 + 4: MK(EA(0).EB(1).ES(2).ED(3)); break;
	case ((4 * 5 + 3) * 5 + 2) * 5 + 1: MK(ED(0).ES(1).EB(2).EA(3)); break;
	default: fprintf(stderr, "dispatchEqs: unsupported column sequence %d\n", code); exit(3);
	}
	#undef MK
	#undef EA
	#undef EB
	#undef ES
	#undef ED
}

// the same lists handed over as separate Equality<Item> arguments (f receives one maker per equality)
#define VF_VAR_PROLOGUE \
	int code = 0; for (auto& p : e) code = code * 5 + p.first + 1; \
	std::string sv; for (auto& p : e) if (p.first == 2) sv = strOf(p.second); \
	int v[4] = { 0, 0, 0, 0 }; for (size_t i = 0; i < e.size() && i < 4; ++i) v[i] = e[i].second; \
	const std::string& svr = sv; \
	typedef typename Table::template Equality<int> EqI; typedef typename Table::template Equality<std::string> EqS;
#define QA(i) [&]() { return EqI(C::A(), v[i]); }
#define QB(i) [&]() { return EqI(C::B(), v[i]); }
#define QS(i) [&]() { return EqS(C::S(), svr); }
#define QD(i) [&]() { return EqI(C::D(), v[i]); }
template<bool tDyn, bool tKeep, size_t tMaxEq>
template<typename F>
void Runner<tDyn, tKeep, tMaxEq>::dispatchVar(const Eqs& e, F&& f)
{
	VF_VAR_PROLOGUE
	switch (code) {
	case 1: f(QA(0)); break;
	case 2: f(QB(0)); break;
	case 3: f(QS(0)); break;
	case 4: f(QD(0)); break;
	case 1 * 5 + 2: f(QA(0), QB(1)); break;
	case 2 * 5 + 1: f(QB(0), QA(1)); break;
	case 3 * 5 + 1: f(QS(0), QA(1)); break;
	case 1 * 5 + 3: f(QA(0), QS(1)); break;
	case 2 * 5 + 3: f(QB(0), QS(1)); break;
	case 4 * 5 + 1: f(QD(0), QA(1)); break;
	case (1 * 5 + 2) * 5 + 3: f(QA(0), QB(1), QS(2)); break;
	case (3 * 5 + 2) * 5 + 1: f(QS(0), QB(1), QA(2)); break;
	case (2 * 5 + 4) * 5 + 1: f(QB(0), QD(1), QA(2)); break;
	case ((1 * 5 + 2) * 5 + 3) * 5 + 4: f(QA(0), QB(1), QS(2), QD(3)); break;
	case ((4 * 5 + 3) * 5 + 2) * 5 + 1: f(QD(0), QS(1), QB(2), QA(3)); break;
	default: fprintf(stderr, "dispatchVar: unsupported column sequence %d\n", code); exit(3);
	}
}
template<bool tDyn, bool tKeep, size_t tMaxEq>
template<typename F>
void Runner<tDyn, tKeep, tMaxEq>::dispatchVarIdx(const Eqs& e, F&& f)
{
	VF_VAR_PROLOGUE
	switch (code) {
	case 1: f(QA(0)); break;
	case 2: f(QB(0)); break;
	case 4: f(QD(0)); break;
	case 1 * 5 + 2: f(QA(0), QB(1)); break;
	case 2 * 5 + 1: f(QB(0), QA(1)); break;
	case 3 * 5 + 1: f(QS(0), QA(1)); break;
	case 1 * 5 + 3: f(QA(0), QS(1)); break;
	default: fprintf(stderr, "dispatchVarIdx: unsupported column sequence %d\n", code); exit(3);
	}
}
#undef QA
#undef QB
#undef QS
#undef QD
#undef VF_VAR_PROLOGUE

template<bool tDyn, bool tKeep, size_t tMaxEq>
static void runAll(Ctx& c, Rng& rng, const char* name)
{
	Suite su(c, name, fmt("model table keep=%d maxeq=%zu", tKeep ? 1 : 0, tMaxEq));
	// bucket level: the hash set of unique(a,b) before / after every successful single-column update of one of its columns (see Runner::idxShot)
	Suite sx(c, std::string(name) + "_idx", fmt("model tableidx ls=%zu", (size_t)WeakTraits<tMaxEq>::HashBucket::logStartBucketCount));
	// every subset of {unique(a,b), multi(a), multi(b), multi(s,a)}; each index before or after the data;
	// sizes: small (<= 80 rows), medium (100..250), big (> 330 rows: more than 64 and more than 192 rows per key of multi(a))
	for (unsigned subset = 0; subset < 16; ++subset) {
		unsigned rounds = c.thorough ? 9 : 3;
		for (unsigned round = 0; round < rounds; ++round) {
			unsigned afterMask = (unsigned)rng.below(16) & subset;
			if (round == 0) afterMask = 0;
			if (round == 1) afterMask = subset;
			g_fam = (round % 3 == 2) ? 1u : (unsigned)rng.below(5);
			unsigned size = round % 3;
			size_t bulk = size == 2 ? (c.thorough ? 450 + (size_t)rng.below(350) : 330 + (size_t)rng.below(120)) : size == 1 ? 100 + (size_t)rng.below(150) : 10 + (size_t)rng.below(70);
			size_t steps = c.thorough ? 260 : 120;
			unsigned flavor = (unsigned)rng.below(3);
			std::string tag = fmt("%s:subset=%u,after=%u,fam=%u,bulk=%zu,flavor=%u,round=%u", name, subset, afterMask, g_fam, bulk, flavor, round);
			su.comment("history " + tag);
			su.op("reset"); su.res("ok");
			Runner<tDyn, tKeep, tMaxEq> r(c, rng, su, tag);
			if (subset & 1u) sx.comment("history " + tag);
			r.sx = &sx;
			r.run(subset, afterMask, bulk, steps, flavor);
			c.stats.count(fmt("history.size.%s", size == 2 ? "big" : size == 1 ? "medium" : "small"));
			c.stats.count(fmt("history.hash_family.%u", g_fam));
			c.stats.count(fmt("history.indexes_after_data.%u", (unsigned)__builtin_popcount(afterMask)));
			if (c.stats.samples.size() < 4) c.stats.sample(tag);
		}
	}
}

int main(int argc, char** argv)
{
	Ctx c = parseArgs(argc, argv);
	Rng rng(c.seed * 0x1000 + 7 + VF_PART * 0x100);
#if VF_PART == 0
	runAll<true, false, 6>(c, rng, "dyn_nonum");
#elif VF_PART == 1
	runAll<true, true, 1>(c, rng, "dyn_num");
#elif VF_PART == 2
	runAll<false, false, 2>(c, rng, "sta_nonum");
#else
	runAll<false, true, 6>(c, rng, "sta_num");
#endif
	c.stats.count("arena.allocations", arena().allocs);
	c.stats.count("arena.faults_fired", arena().firedTotal);
	return c.finish();
}
