// C03 harness, shared part: the event recorder (every memory-manager call and every element life-cycle event of
// a history becomes one op line for the Lean monitor `ledger` plus the recorder's own verdict as result line),
// logging / size- and identity-checking / fault-injecting memory managers, instrumented element types,
// throwing functors, history framing.
//
// The Lean monitor (Momo.Ledger.step, proved sound and complete w.r.t. the list-level statement of C03 in
// Props/C03.lean) replays the very same event stream and must answer line by line what the recorder answered:
// the verified monitor is the judge, the recorder's verdict is the second opinion that produces the FAIL line
// with the concrete history.
#pragma once
#include "momo/ObjectManager.h"
#include "common/verif_common.h"
#include <new>
#include <stdexcept>
#include <unordered_map>
#include <unordered_set>
#include <functional>
#include <type_traits>
#include <memory>
#include <unistd.h>
#include <fcntl.h>
#include <sys/wait.h>
#if defined(__SANITIZE_ADDRESS__)
# include <sanitizer/asan_interface.h>
# define C03_POISON(p, n) ASAN_POISON_MEMORY_REGION(p, n)
# define C03_UNPOISON(p, n) ASAN_UNPOISON_MEMORY_REGION(p, n)
#else
# define C03_POISON(p, n) ((void)0)
# define C03_UNPOISON(p, n) ((void)0)
#endif

// C03_ARENA32: every block comes from an arena mapped below 4 GB (common/verif_arena32.h), for builds in which the containers
// keep 32-bit pointers (memory managers with ptrUsefulBitCount = 32)
#ifdef C03_ARENA32
# include "common/verif_arena32.h"
#endif

namespace c03 {
using namespace vf;

#ifdef C03_ARENA32
inline void* rawAlloc(size_t n) { try { return arena32().alloc(n); } catch (const std::bad_alloc&) { return nullptr; } }
inline void rawFree(void* p, size_t n) { arena32().release(p, n); }
#else
inline void* rawAlloc(size_t n) { return std::malloc(n); }
inline void rawFree(void* p, size_t) { std::free(p); }
#endif

struct Rec {
	Ctx* c = nullptr; Suite* s = nullptr;
	struct Blk { uint64_t id; unsigned mgr; size_t size; unsigned op; };
	std::map<uintptr_t, Blk> live, retired;      // retired = given back during this history, kept (poisoned) until its end
	std::unordered_set<uint64_t> liveElems;
	std::unordered_map<uintptr_t, uint64_t> atAddr;   // address-bound (not trivially relocatable) elements
	uint64_t nextBlk = 1, nextElem = 1;
	unsigned rejected = 0;
	// faults (one-shot countdowns; -1 = disarmed)
	long allocCountdown = -1, copyCountdown = -1, funcCountdown = -1;
	bool allocFired = false, copyFired = false, funcFired = false;
	// the current history, for FAIL lines
	std::string family, histName; unsigned histNo = 0; std::vector<std::string> opLog; std::set<std::string> failedKinds;
	uint64_t events = 0, histEvents = 0;
	unsigned hashMode = 0;
	bool inChild = false;	// forked probe: nothing is written, violations are only counted
	unsigned childViolations = 0;

	std::string histText() const {
		std::string r = fmt("history #%u %s seed=%llu ops=[", histNo, histName.c_str(), (unsigned long long)c->seed);
		size_t from = opLog.size() > 60 ? opLog.size() - 60 : 0;
		if (from) r += fmt("...%zu earlier ops (see the op file %s.ops, comment 'history %u')...; ", from, family.c_str(), histNo);
		for (size_t i = from; i < opLog.size(); ++i) { if (i > from) r += "; "; r += fmt("#%zu ", i) + opLog[i]; }
		return r + "]";
	}
	void violation(const std::string& what) {
		if (inChild) { ++childViolations; return; }
		c->stats.count("violations");
		std::string kind = what.substr(0, what.find(':'));
		if (!failedKinds.insert(kind).second) return;	// one FAIL per history and kind is enough; the op file has them all
		std::string t = histText();
		if (t.size() > 3300) t = t.substr(0, 1200) + " ... " + t.substr(t.size() - 2000);
		c->fail("C03 %s | %s: %s", what.c_str(), family.c_str(), t.c_str());
	}
	void emit(const char* line, const char* verdict) {
		if (inChild) return;
		fputs(line, s->ops); fputc('\n', s->ops); ++s->lines;
		fputs(verdict, s->impl); fputc('\n', s->impl);
		++events; ++histEvents;
		if (verdict[0] != 'o') ++rejected;
	}

	// ---------------------------------------------------------------- history framing
	void begin(const std::string& name) {
		++histNo; histName = name; opLog.clear(); failedKinds.clear(); histEvents = 0;
		nextBlk = 1; nextElem = 1; rejected = 0;
		s->comment(fmt("history %u %s", histNo, name.c_str()));
	}
	void op(const std::string& text) { opLog.push_back(text); }
	void note(const std::string& text) { if (!opLog.empty()) opLog.back() += text; }
	void disarm() { allocCountdown = copyCountdown = funcCountdown = -1; allocFired = copyFired = funcFired = false; }
	// all containers and elements of the history are gone: report what is left
	void end() {
		disarm();
		s->op("end");
		s->res(fmt("end blocks=%zu elems=%zu rejected=%u", live.size(), liveElems.size(), rejected));
		if (!live.empty()) {
			std::string bl;
			size_t k = 0;
			for (auto& kv : live) { if (k++ < 6) bl += fmt(" block#%llu(size %zu, manager %u, allocated in op #%u)", (unsigned long long)kv.second.id, kv.second.size, kv.second.mgr, kv.second.op); }
			violation(fmt("leak: %zu block(s) outstanding after destruction of every container:%s", live.size(), bl.c_str()));
		}
		if (!liveElems.empty()) {
			violation(fmt("element leak: %zu element object(s) constructed and never destroyed (first eid %llu)", liveElems.size(),
				(unsigned long long)*liveElems.begin()));
		}
		c->stats.evaluations++;
		c->stats.count("histories");
		c->stats.count("events", histEvents);
		for (auto& kv : live) { rawFree(reinterpret_cast<void*>(kv.first), kv.second.size ? kv.second.size : 1); }
		for (auto& kv : retired) { C03_UNPOISON(reinterpret_cast<void*>(kv.first), kv.second.size); rawFree(reinterpret_cast<void*>(kv.first), kv.second.size ? kv.second.size : 1); }
		live.clear(); retired.clear(); liveElems.clear(); atAddr.clear();
	}

	// ---------------------------------------------------------------- blocks
	void* alloc(unsigned mgr, size_t size) {
		if (allocCountdown == 0) { allocCountdown = -1; allocFired = true; c->stats.count("fault.alloc_refused"); throw std::bad_alloc(); }
		if (allocCountdown > 0) --allocCountdown;
		void* p = rawAlloc(size ? size : 1);
		if (!p) throw std::bad_alloc();
		std::memset(p, 0xCD, size);
		uint64_t id = nextBlk++;
		live[reinterpret_cast<uintptr_t>(p)] = Blk{ id, mgr, size, (unsigned)(opLog.empty() ? 0 : opLog.size() - 1) };
		char buf[96]; snprintf(buf, sizeof buf, "a %u %llu %zu", mgr, (unsigned long long)id, size);
		emit(buf, "ok");
		return p;
	}
	// returns true when the block was really retired
	bool dealloc(unsigned mgr, void* p, size_t size) {
		uintptr_t a = reinterpret_cast<uintptr_t>(p);
		char buf[96];
		auto it = live.find(a);
		if (it == live.end()) {
			auto jt = retired.find(a);
			uint64_t id = jt == retired.end() ? 0 : jt->second.id;
			snprintf(buf, sizeof buf, "d %u %llu %zu", mgr, (unsigned long long)id, size);
			emit(buf, "reject:dealloc-not-live");
			if (id) violation(fmt("double free: block#%llu (size %zu, manager %u, allocated in op #%u) is given back a second time (size %zu, manager %u)",
				(unsigned long long)id, jt->second.size, jt->second.mgr, jt->second.op, size, mgr));
			else violation(fmt("free of a block the manager never handed out (size %zu, manager %u)", size, mgr));
			return false;
		}
		Blk b = it->second;
		snprintf(buf, sizeof buf, "d %u %llu %zu", mgr, (unsigned long long)b.id, size);
		if (b.mgr != mgr) {
			emit(buf, "reject:dealloc-wrong-manager");
			violation(fmt("wrong manager: block#%llu allocated by manager %u (size %zu, op #%u) is given back through the unequal manager %u",
				(unsigned long long)b.id, b.mgr, b.size, b.op, mgr));
			return false;
		}
		if (b.size != size) {
			emit(buf, "reject:dealloc-wrong-size");
			violation(fmt("wrong size: block#%llu requested with size %zu (manager %u, op #%u) is given back with size %zu",
				(unsigned long long)b.id, b.size, b.mgr, b.op, size));
			return false;
		}
		emit(buf, "ok");
		live.erase(it);
		retired[a] = b;
		C03_POISON(p, size);	// any later access by the container aborts under ASan; the bytes are kept (see classOf)
		return true;
	}
	void* realloc(unsigned mgr, void* p, size_t size, size_t newSize) {
		if (allocCountdown == 0) { allocCountdown = -1; allocFired = true; c->stats.count("fault.realloc_refused"); throw std::bad_alloc(); }
		if (allocCountdown > 0) --allocCountdown;
		c->stats.count("mm.reallocate");
		long saved = allocCountdown; allocCountdown = -1;
		void* q = alloc(mgr, newSize);
		allocCountdown = saved;
		std::memcpy(q, p, size < newSize ? size : newSize);
		dealloc(mgr, p, size);
		return q;
	}
	// (block id, offset, size, live?) of an address; id 0 = not inside any block of this history
	struct Where { uint64_t id; size_t off; size_t size; bool isLive; };
	Where where(const void* p) const {
		uintptr_t a = reinterpret_cast<uintptr_t>(p);
		for (int k = 0; k < 2; ++k) {
			const auto& m = k == 0 ? live : retired;
			auto it = m.upper_bound(a);
			if (it != m.begin()) { --it; if (a < it->first + it->second.size || (it->second.size == 0 && a == it->first)) return Where{ it->second.id, (size_t)(a - it->first), it->second.size, k == 0 }; }
		}
		return Where{ 0, 0, 0, false };
	}
	void touch(const void* p, size_t len, const char* what) {
		Where w = where(p);
		if (w.id == 0) return;
		char buf[96]; snprintf(buf, sizeof buf, "t %llu %zu %zu", (unsigned long long)w.id, w.off, len);
		if (!w.isLive) { emit(buf, "reject:touch-dead-block"); violation(fmt("use of freed memory: %s at offset %zu of block#%llu after it was given back", what, w.off, (unsigned long long)w.id)); }
		else if (w.off + len > w.size) { emit(buf, "reject:touch-out-of-bounds"); violation(fmt("out of bounds: %s at offset %zu, length %zu in block#%llu of size %zu", what, w.off, len, (unsigned long long)w.id, w.size)); }
		else { emit(buf, "ok"); c->stats.count("touch.inside_block"); }
	}

	// ---------------------------------------------------------------- elements
	uint64_t construct(const void* self, size_t len, bool addressBound) {
		if (addressBound) {
			auto it = atAddr.find(reinterpret_cast<uintptr_t>(self));
			if (it != atAddr.end() && liveElems.count(it->second)) {
				char buf[64]; snprintf(buf, sizeof buf, "c %llu", (unsigned long long)it->second);
				emit(buf, "reject:construct-over-live");
				violation(fmt("construction over a live object: element eid %llu was never destroyed and its storage is constructed again", (unsigned long long)it->second));
			}
		}
		uint64_t eid = nextElem++;
		char buf[64]; snprintf(buf, sizeof buf, "c %llu", (unsigned long long)eid);
		emit(buf, "ok");
		liveElems.insert(eid);
		if (addressBound) atAddr[reinterpret_cast<uintptr_t>(self)] = eid;
		touch(self, len, "element constructed");
		return eid;
	}
	void destroy(uint64_t eid, const void* self, size_t len, bool addressBound) {
		char buf[64]; snprintf(buf, sizeof buf, "x %llu", (unsigned long long)eid);
		if (liveElems.erase(eid)) {
			emit(buf, "ok");
			if (addressBound) atAddr.erase(reinterpret_cast<uintptr_t>(self));
		}
		else { emit(buf, "reject:destroy-not-live"); violation(fmt("element destroyed twice (or never constructed): eid %llu", (unsigned long long)eid)); }
		touch(self, len, "element destroyed");
	}
	void use(uint64_t eid) {
		char buf[64]; snprintf(buf, sizeof buf, "u %llu", (unsigned long long)eid);
		if (liveElems.count(eid)) emit(buf, "ok");
		else { emit(buf, "reject:use-not-live"); violation(fmt("element used after destruction / relocation: eid %llu", (unsigned long long)eid)); }
	}
	void copyPoint() {
		if (copyCountdown == 0) { copyCountdown = -1; copyFired = true; c->stats.count("fault.copy_threw"); throw std::runtime_error("copy"); }
		if (copyCountdown > 0) --copyCountdown;
	}
	void funcPoint() {
		if (funcCountdown == 0) { funcCountdown = -1; funcFired = true; c->stats.count("fault.functor_threw"); throw std::domain_error("functor"); }
		if (funcCountdown > 0) --funcCountdown;
	}
};
inline Rec& rec() { static Rec r; return r; }

// identity class of a manager object. A manager object that lives in a block which was already given back (the crew
// of a destroyed container) is a use of freed memory: reported (touch event, rejected by the monitor), then read.
inline unsigned classOf(const void* mgrObj, const unsigned* clsField, const char* forWhat) {
	Rec& r = rec();
	Rec::Where w = r.where(mgrObj);
	if (w.id != 0 && !w.isLive) {
		char buf[96]; snprintf(buf, sizeof buf, "t %llu %zu %zu", (unsigned long long)w.id, w.off, sizeof(unsigned));
		r.emit(buf, "reject:touch-dead-block");
		r.violation(fmt("dangling manager: the memory manager object stored at offset %zu of block#%llu (size %zu: the crew of a container that "
			"has been destroyed) is used for %s after that block was given back", w.off, (unsigned long long)w.id, w.size, forWhat));
		C03_UNPOISON(clsField, sizeof(unsigned)); unsigned cls = *clsField; C03_POISON(clsField, sizeof(unsigned));
		return cls;
	}
	return *clsField;
}

// ---------------------------------------------------------------- memory managers
// stateful: `cls` is the identity class; copies / moved instances are equal to the original
class LedgerMM {
public:
	unsigned cls;
	explicit LedgerMM(unsigned cls_ = 1) noexcept : cls(cls_) {}
	LedgerMM(LedgerMM&& o) noexcept : cls(o.cls) {}
	LedgerMM(const LedgerMM& o) noexcept : cls(o.cls) {}
	~LedgerMM() = default;
	LedgerMM& operator=(const LedgerMM&) = delete;
	void* Allocate(size_t size) { return rec().alloc(classOf(this, &cls, "Allocate"), size); }
	void Deallocate(void* p, size_t size) noexcept { rec().dealloc(classOf(this, &cls, "Deallocate"), p, size); }
	bool IsEqual(const LedgerMM& o) const noexcept { return classOf(this, &cls, "IsEqual") == classOf(&o, &o.cls, "IsEqual"); }
};
// the same with `Reallocate` (Array of trivially relocatable items takes the realloc path)
class LedgerMMR : public LedgerMM {
public:
	explicit LedgerMMR(unsigned cls_ = 1) noexcept : LedgerMM(cls_) {}
	LedgerMMR(LedgerMMR&& o) noexcept : LedgerMM(o.cls) {}
	LedgerMMR(const LedgerMMR& o) noexcept : LedgerMM(o.cls) {}
	LedgerMMR& operator=(const LedgerMMR&) = delete;
	void* Reallocate(void* p, size_t size, size_t newSize) { return rec().realloc(classOf(this, &cls, "Reallocate"), p, size, newSize); }
	bool IsEqual(const LedgerMMR& o) const noexcept { return classOf(this, &cls, "IsEqual") == classOf(&o, &o.cls, "IsEqual"); }
};
// std allocator with identity, for the stdish wrappers (MemManagerStd<LedgerAlloc<…>>)
template<typename T>
struct LedgerAlloc {
	typedef T value_type;
	unsigned cls;
	typedef std::true_type propagate_on_container_move_assignment;
	typedef std::true_type propagate_on_container_copy_assignment;
	typedef std::true_type propagate_on_container_swap;
	typedef std::false_type is_always_equal;
	explicit LedgerAlloc(unsigned c = 1) noexcept : cls(c) {}
	template<typename U> LedgerAlloc(const LedgerAlloc<U>& o) noexcept : cls(o.cls) {}
	template<typename U> struct rebind { typedef LedgerAlloc<U> other; };
	T* allocate(size_t n) { return static_cast<T*>(rec().alloc(cls, n * sizeof(T))); }
	void deallocate(T* p, size_t n) noexcept { rec().dealloc(cls, p, n * sizeof(T)); }
	template<typename U> bool operator==(const LedgerAlloc<U>& o) const noexcept { return cls == o.cls; }
	template<typename U> bool operator!=(const LedgerAlloc<U>& o) const noexcept { return cls != o.cls; }
};

// ---------------------------------------------------------------- element types
enum : uint32_t { ST_LIVE = 0xA11CE, ST_MOVED = 0x30FED, ST_DEAD = 0xDEAD };

// nothrow-move, not trivially relocatable: bound to its address (`self`); copy may throw when armed
struct ElemL {
	uint64_t eid; uint32_t id; uint32_t state; const ElemL* self;
	explicit ElemL(uint32_t i = 0) : id(i), state(ST_LIVE), self(this) { eid = rec().construct(this, sizeof *this, true); }
	ElemL(const ElemL& o) : id((rec().copyPoint(), o.id)), state(ST_LIVE), self(this) { rec().use(o.eid); eid = rec().construct(this, sizeof *this, true); }
	ElemL(ElemL&& o) noexcept : id(o.id), state(ST_LIVE), self(this) { rec().use(o.eid); o.state = ST_MOVED; eid = rec().construct(this, sizeof *this, true); }
	ElemL& operator=(const ElemL& o) { rec().copyPoint(); rec().use(o.eid); rec().use(eid); id = o.id; state = ST_LIVE; return *this; }
	ElemL& operator=(ElemL&& o) noexcept { rec().use(o.eid); rec().use(eid); id = o.id; state = ST_LIVE; if (&o != this) o.state = ST_MOVED; return *this; }
	~ElemL() {
		if (self != this) rec().violation(fmt("element eid %llu (value %u) was relocated bytewise although its type is not trivially relocatable", (unsigned long long)eid, id));
		rec().destroy(eid, this, sizeof *this, true); state = ST_DEAD;
	}
};
// copy-only (no move constructor), copy may throw when armed: not nothrow relocatable
struct ElemC {
	uint64_t eid; uint32_t id; uint32_t state; const ElemC* self;
	explicit ElemC(uint32_t i = 0) : id(i), state(ST_LIVE), self(this) { eid = rec().construct(this, sizeof *this, true); }
	ElemC(const ElemC& o) : id((rec().copyPoint(), o.id)), state(ST_LIVE), self(this) { rec().use(o.eid); eid = rec().construct(this, sizeof *this, true); }
	ElemC& operator=(const ElemC& o) { rec().copyPoint(); rec().use(o.eid); rec().use(eid); id = o.id; state = ST_LIVE; return *this; }
	~ElemC() {
		if (self != this) rec().violation(fmt("element eid %llu (value %u) was relocated bytewise although its type is not trivially relocatable", (unsigned long long)eid, id));
		rec().destroy(eid, this, sizeof *this, true); state = ST_DEAD;
	}
};
// declared trivially relocatable (momo::IsTriviallyRelocatable specialised below), move constructor not noexcept:
// relocation is memcpy / Reallocate, no constructor or destructor runs; identity = the eid carried in the bytes
struct ElemT {
	uint64_t eid; uint32_t id; uint32_t state;
	explicit ElemT(uint32_t i = 0) : id(i), state(ST_LIVE) { eid = rec().construct(this, sizeof *this, false); }
	ElemT(const ElemT& o) : id((rec().copyPoint(), o.id)), state(ST_LIVE) { rec().use(o.eid); eid = rec().construct(this, sizeof *this, false); }
	ElemT& operator=(const ElemT& o) { rec().copyPoint(); rec().use(o.eid); rec().use(eid); id = o.id; state = ST_LIVE; return *this; }
	~ElemT() { rec().destroy(eid, this, sizeof *this, false); state = ST_DEAD; }
};

template<typename E> struct ElemName;
template<> struct ElemName<ElemL> { static const char* get() { return "nothrow-move"; } };
template<> struct ElemName<ElemC> { static const char* get() { return "copy-only"; } };
template<> struct ElemName<ElemT> { static const char* get() { return "triv-reloc"; } };
template<> struct ElemName<uint32_t> { static const char* get() { return "uint32"; } };

template<typename E> inline uint32_t valOf(const E& e) { return e.id; }
inline uint32_t valOf(uint32_t e) { return e; }
template<typename E> inline void useKey(const E& e) { rec().use(e.eid); }
inline void useKey(uint32_t) {}

inline size_t hashVal(uint32_t v) {
	switch (rec().hashMode) {
	case 0: return (size_t)v * 0x9E3779B97F4A7C15ull;
	case 1: return (size_t)(v % 5);
	default: return (size_t)v << 57;
	}
}

// ---------------------------------------------------------------- fault arming per operation
enum Fault { F_NONE = 0, F_ALLOC = 1, F_COPY = 2, F_FUNC = 3 };
inline const char* faultName(int f) { static const char* n[] = { "", "alloc", "copy", "functor" }; return n[f]; }

// runs one operation of a history: logs it, arms the chosen fault, maps exceptions, records whether the fault fired
inline bool runOp(const std::string& text, int fault, long k, const std::function<void()>& f)
{
	Rec& r = rec();
	r.op(fault == F_NONE ? text : text + fmt(" [%s-fault k=%ld]", faultName(fault), k));
	r.disarm();
	if (fault == F_ALLOC) r.allocCountdown = k; else if (fault == F_COPY) r.copyCountdown = k; else if (fault == F_FUNC) r.funcCountdown = k;
	bool threw = false;
	const char* what = "";
	try { f(); }
	catch (const std::bad_alloc&) { threw = true; what = "bad_alloc"; }
	catch (const std::runtime_error&) { threw = true; what = "copy"; }
	catch (const std::domain_error&) { threw = true; what = "functor"; }
	catch (const std::exception& e) { threw = true; what = "other"; r.note(fmt(" (%s)", e.what())); }
	bool fired = r.allocFired || r.copyFired || r.funcFired;
	r.disarm();
	r.c->stats.count("ops");
	if (threw) { r.note(fmt(" -> E:%s", what)); r.c->stats.count(std::string("op_exited_with_exception.") + what); r.c->stats.nontrivial(r.family + "/" + text.substr(0, text.find(' ')) + "/" + what + fmt("/%ld", k)); }
	else if (fired) r.c->stats.count("fault_fired_but_absorbed");
	return threw;
}

// Runs `body` in a forked child with the recorder muted: 0 = completed without a violation, 1 = the recorder saw a
// violation, 2 = the child crashed (sanitizer abort, signal). Used to probe operations whose failure mode is memory
// corruption (a double destruction of rows crashes inside std::string), so that the harness survives and reports the
// concrete history in a FAIL line instead of dying with a sanitizer trace only.
inline int probeInChild(const std::function<void()>& body)
{
	fflush(nullptr);
	pid_t pid = fork();
	if (pid < 0) return 0;
	if (pid == 0) {
		int devnull = open("/dev/null", O_WRONLY);
		if (devnull >= 0) { dup2(devnull, 1); dup2(devnull, 2); }
		Rec& r = rec(); r.inChild = true; r.childViolations = 0;
		try { body(); } catch (...) {}
		_exit(r.childViolations ? 3 : 0);
	}
	int st = 0;
	while (waitpid(pid, &st, 0) < 0) {}
	if (WIFEXITED(st) && WEXITSTATUS(st) == 0) return 0;
	if (WIFEXITED(st) && WEXITSTATUS(st) == 3) return 1;
	return 2;
}

// random fault choice: about one operation in three runs with an armed fault
inline void pickFault(Rng& rng, bool functorFaults, int& fault, long& k)
{
	fault = F_NONE; k = 0;
	unsigned d = (unsigned)rng.below(9);
	if (d == 0) { fault = F_ALLOC; k = (long)rng.below(4); }
	else if (d == 1) { fault = F_COPY; k = (long)rng.below(6); }
	else if (d == 2 && functorFaults) { fault = F_FUNC; k = (long)rng.below(12); }
	else if (d == 3) { fault = F_ALLOC; k = (long)rng.below(12); }
}

} // namespace c03

namespace momo {
template<> struct IsTriviallyRelocatable<c03::ElemT> : public std::true_type {};
}
