// c06_api.cpp, VF_PART == 3: momo::stdish::vector against std::vector (element = counted CVal, stateful allocator)
#if VF_PART == 3
#include <forward_list>

template<typename V, bool isMomo>
struct VA {
	typedef typename V::allocator_type A;
	static std::vector<int> vals(const V& v) { std::vector<int> r; for (auto it = v.begin(); it != v.end(); ++it) r.push_back(it->v); return r; }
	static std::string str(const std::vector<int>& v) { std::string r = fmt("%zu:", v.size()); for (int x : v) r += fmt(" %d", x); return r; }
	static std::string state(const V& v) { return str(vals(v)) + fmt(" alloc=%d", v.get_allocator().id); }
	static size_t idxOf(const V& v, typename V::const_iterator it) { return (size_t)(it - v.begin()); }
	// range operation with the chosen iterator category: 0 random access, 1 input by reference, 2 input by value, 3 forward
	template<typename F> static void withRange(const std::vector<int>& ys, unsigned iterKind, F&& f) {
		std::vector<CVal> src; src.reserve(ys.size());
		for (int y : ys) src.emplace_back(y);
		switch (iterKind) {
		case 1: f(InputIt<CVal>(src, 0), InputIt<CVal>(src, src.size())); break;
		case 2: f(InputIt<CVal, true>(src, 0), InputIt<CVal, true>(src, src.size())); break;
		case 3: { std::forward_list<CVal> fl(src.begin(), src.end()); f(fl.begin(), fl.end()); break; }
		default: f(src.begin(), src.end()); break;
		}
	}
#define VF_IL0 {}
#define VF_IL1 { CVal(ys[0]) }
#define VF_IL2 { CVal(ys[0]), CVal(ys[1]) }
#define VF_IL3 { CVal(ys[0]), CVal(ys[1]), CVal(ys[2]) }
	// forms: 0 () | 1 (alloc) | 2 (n) | 3 (n, alloc) | 4 (n, value) | 5 (n, value, alloc)
	static void constructN(V& v, unsigned form, size_t n, int x, const A& alloc) {
		v.~V();
		void* p = static_cast<void*>(&v);
		const CVal val(x);
		switch (form) {
		case 0: ::new (p) V(); break;
		case 1: ::new (p) V(alloc); break;
		case 2: ::new (p) V(n); break;
		case 3: ::new (p) V(n, alloc); break;
		case 4: ::new (p) V(n, val); break;
		default: ::new (p) V(n, val, alloc); break;
		}
	}
	template<typename I> static void construct(V& v, bool withAlloc, I first, I last, const A& alloc) {
		v.~V();
		if (withAlloc) ::new (static_cast<void*>(&v)) V(first, last, alloc); else ::new (static_cast<void*>(&v)) V(first, last);
	}
	static void constructList(V& v, bool withAlloc, const std::vector<int>& ys, const A& alloc) {
		v.~V();
		void* p = static_cast<void*>(&v);
#define VF_CTOR(IL) if (withAlloc) ::new (p) V(std::initializer_list<CVal> IL, alloc); else ::new (p) V(std::initializer_list<CVal> IL);
		switch (ys.size()) {
		case 0: VF_CTOR(VF_IL0) break;
		case 1: VF_CTOR(VF_IL1) break;
		case 2: VF_CTOR(VF_IL2) break;
		default: VF_CTOR(VF_IL3) break;
		}
#undef VF_CTOR
	}
	static void assignList(V& v, bool viaOperator, const std::vector<int>& ys) {
		if (viaOperator) {
			switch (ys.size()) {
			case 0: v = std::initializer_list<CVal> VF_IL0; break;
			case 1: v = VF_IL1; break;
			case 2: v = VF_IL2; break;
			default: v = VF_IL3; break;
			}
		} else {
			switch (ys.size()) {
			case 0: v.assign(std::initializer_list<CVal> VF_IL0); break;
			case 1: v.assign(VF_IL1); break;
			case 2: v.assign(VF_IL2); break;
			default: v.assign(VF_IL3); break;
			}
		}
	}
	static size_t insertList(V& v, size_t i, const std::vector<int>& ys) {
		auto pos = v.cbegin() + (ptrdiff_t)i;
		switch (ys.size()) {
		case 0: return idxOf(v, v.insert(pos, std::initializer_list<CVal> VF_IL0));
		case 1: return idxOf(v, v.insert(pos, VF_IL1));
		case 2: return idxOf(v, v.insert(pos, VF_IL2));
		default: return idxOf(v, v.insert(pos, VF_IL3));
		}
	}
#undef VF_IL0
#undef VF_IL1
#undef VF_IL2
#undef VF_IL3
	// single-element insertion in every spelling; self: the argument is a reference to an element of the vector itself
	static std::string ins1(V& v, unsigned how, size_t i, int x, size_t selfIdx) {
		auto pos = v.cbegin() + (ptrdiff_t)i;
		bool self = how >= 6 && !v.empty();
		switch (self ? how : how % 6) {
		case 0: { const CVal val(x); return fmt("p=%zu", idxOf(v, v.insert(pos, val))); }
		case 1: return fmt("p=%zu", idxOf(v, v.insert(pos, CVal(x))));
		case 2: return fmt("p=%zu", idxOf(v, v.emplace(pos, x / 1000, x % 1000)));
		case 3: return fmt("p=%zu", idxOf(v, v.emplace(pos)));
		case 4: { CVal& r = v.emplace_back(x / 1000, x % 1000); return fmt("back=%d isback=%d", r.v, (int)(&r == &v.back())); }
		case 5: { const CVal val(x); v.push_back(val); return "ok"; }
		case 6: return fmt("p=%zu", idxOf(v, v.insert(pos, static_cast<const CVal&>(v[selfIdx]))));
		case 7: return fmt("p=%zu", idxOf(v, v.emplace(pos, static_cast<const CVal&>(v[selfIdx]))));
		case 8: v.push_back(static_cast<const CVal&>(v[selfIdx])); return "ok";
		default: { CVal& r = v.emplace_back(static_cast<const CVal&>(v[selfIdx])); return fmt("back=%d", r.v); }
		}
	}
	static std::string access(V& v, size_t i) {
		const V& cv = v;
		std::string r;
		try { r += fmt("at=%d", v.at(i).v); } catch (const std::out_of_range&) { r += "at=E:out_of_range"; }
		try { r += fmt(" cat=%d", cv.at(i).v); } catch (const std::out_of_range&) { r += " cat=E:out_of_range"; }
		if (i < v.size()) r += fmt(" idx=%d cidx=%d data=%d cdata=%d", v[i].v, cv[i].v, v.data()[i].v, cv.data()[i].v);
		if (!v.empty()) {
			r += fmt(" front=%d cfront=%d back=%d cback=%d", v.front().v, cv.front().v, v.back().v, cv.back().v);
			if (v.data() != &v.front() || cv.data() != &cv.front() || &v.back() != v.data() + (v.size() - 1) || &cv.back() != &v.back() || &v[v.size() / 2] != v.data() + v.size() / 2)
				r += " ADDRESSES-INCONSISTENT";
		}
		return r;
	}
	static std::string write(V& v, unsigned how, size_t i, int x) {
		switch (how) {
		case 0: v.front() = CVal(x); break;
		case 1: v.back() = CVal(x); break;
		case 2: v.at(i) = CVal(x); break;
		case 3: v[i] = CVal(x); break;
		default: v.data()[i] = CVal(x); break;
		}
		return "ok";
	}
	static std::string reverse(V& v) {
		const V& cv = v;
		std::vector<int> r1, r2, r3, f2;
		for (auto it = v.rbegin(); it != v.rend(); ++it) r1.push_back(it->v);
		for (auto it = cv.rbegin(); it != cv.rend(); ++it) r2.push_back(it->v);
		for (auto it = v.crbegin(); it != v.crend(); ++it) r3.push_back(it->v);
		for (auto it = v.cbegin(); it != v.cend(); ++it) f2.push_back(it->v);
		std::vector<int> f = vals(v), rr = f; std::reverse(rr.begin(), rr.end());
		if (r1 != rr || r2 != rr || r3 != rr || f2 != f) return "reverse / const traversals disagree with begin()..end()";
		if (!v.empty()) { *v.rbegin() = CVal(v.rbegin()->v + 1); }	// a reverse_iterator is writable
		return str(r1);
	}
	static std::string cmp(const V& a, const V& b) {
		return fmt("c=%d %d %d %d %d %d", (int)(a == b), (int)(a != b), (int)(a < b), (int)(a <= b), (int)(a > b), (int)(a >= b));
	}
	static std::string eraseVal(V& v, int x) {
		size_t n;
		if constexpr (isMomo) n = erase(v, CVal(x));
		else { size_t n0 = v.size(); v.erase(std::remove(v.begin(), v.end(), CVal(x)), v.end()); n = n0 - v.size(); }
		return fmt("n=%zu", n);
	}
	static std::string eraseIf(V& v, int m, int r) {
		size_t n;
		if constexpr (isMomo) n = erase_if(v, [m, r](const CVal& e) { return e.v % m == r; });
		else { size_t n0 = v.size(); v.erase(std::remove_if(v.begin(), v.end(), [m, r](const CVal& e) { return e.v % m == r; }), v.end()); n = n0 - v.size(); }
		return fmt("n=%zu", n);
	}
};

static void runVectorApi(Ctx& c, Rng& rng, unsigned runs, unsigned opsPerRun)
{
	typedef SA<CVal, true, true, true> A;
	typedef momo::stdish::vector<CVal, A> M; typedef std::vector<CVal, A> S;
	typedef VA<M, true> OM; typedef VA<S, false> OS;
	for (unsigned run = 0; run < runs; ++run) {
		Chk R(c, "vec");
		{
			M ma, mb; S sa, sb;
			for (unsigned step = 0; step < opsPerRun && !R.diverged; ++step) {
				bool onA = rng.chance(3, 4);
				M& m = onA ? ma : mb; S& st = onA ? sa : sb;
				const char* cn = onA ? "a" : "b";
				size_t n = m.size();
				int x = (int)rng.below(40);
				auto someVals = [&](size_t maxN) { std::vector<int> ys; size_t cnt = (size_t)rng.below(maxN + 1); for (size_t i = 0; i < cnt; ++i) ys.push_back((int)rng.below(40)); return ys; };
				unsigned op = (unsigned)rng.below(100);
				if (n > 80 && op < 34) op = 40;
				if (op < 18) {
					unsigned how = (unsigned)rng.below(10); size_t i = (size_t)rng.below(n + 1), si = n ? (size_t)rng.below(n) : 0;
					if (how >= 6 && n) c.stats.count("api.vec.self_reference_argument");
					R.step(fmt("ins1 how=%u %s %zu %d self=%zu", how, cn, i, x, si), OM::ins1(m, how, i, x, si), OS::ins1(st, how, i, x, si));
				}
				else if (op < 24) {
					auto ys = someVals(rng.chance(1, 5) ? 40 : 4); unsigned ik = (unsigned)rng.below(4); size_t i = (size_t)rng.below(n + 1);
					size_t rm = 0, rs = 0;
					OM::withRange(ys, ik, [&](auto f, auto l) { rm = OM::idxOf(m, m.insert(m.cbegin() + (ptrdiff_t)i, f, l)); });
					OS::withRange(ys, ik, [&](auto f, auto l) { rs = OS::idxOf(st, st.insert(st.cbegin() + (ptrdiff_t)i, f, l)); });
					R.step(fmt("insr iter=%u %s %zu %s", ik, cn, i, OM::str(ys).c_str()), fmt("p=%zu", rm), fmt("p=%zu", rs));
				}
				else if (op < 27) { auto ys = someVals(3); size_t i = (size_t)rng.below(n + 1); R.step(fmt("insl %s %zu %s", cn, i, OM::str(ys).c_str()), fmt("p=%zu", OM::insertList(m, i, ys)), fmt("p=%zu", OS::insertList(st, i, ys))); }
				else if (op < 30) {
					size_t i = (size_t)rng.below(n + 1), cnt = (size_t)rng.below(5); const CVal val(x);
					size_t rm = OM::idxOf(m, m.insert(m.cbegin() + (ptrdiff_t)i, cnt, val)), rs = OS::idxOf(st, st.insert(st.cbegin() + (ptrdiff_t)i, cnt, val));
					R.step(fmt("insn %s %zu %zu %d", cn, i, cnt, x), fmt("p=%zu", rm), fmt("p=%zu", rs));
				}
				else if (op < 34) {
					auto ys = someVals(rng.chance(1, 5) ? 40 : 4); unsigned ik = (unsigned)rng.below(4);
					OM::withRange(ys, ik, [&](auto f, auto l) { m.assign(f, l); });
					OS::withRange(ys, ik, [&](auto f, auto l) { st.assign(f, l); });
					R.step(fmt("assignr iter=%u %s %s", ik, cn, OM::str(ys).c_str()), OM::state(m), OS::state(st));
				}
				else if (op < 36) { auto ys = someVals(3); bool vo = rng.chance(1, 2); OM::assignList(m, vo, ys); OS::assignList(st, vo, ys); R.step(fmt("assignl op=%d %s %s", (int)vo, cn, OM::str(ys).c_str()), OM::state(m), OS::state(st)); }
				else if (op < 38) { size_t cnt = (size_t)rng.below(9); const CVal val(x); m.assign(cnt, val); st.assign(cnt, val); R.step(fmt("assignn %s %zu %d", cn, cnt, x), OM::state(m), OS::state(st)); }
				else if (op < 44) {
					if (n == 0) continue;
					size_t i = (size_t)rng.below(n), j = i + 1 + (size_t)rng.below(std::min<size_t>(n - i - 1, 4) + 1);
					if (rng.chance(1, 2)) R.step(fmt("erp %s %zu", cn, i), fmt("p=%zu", OM::idxOf(m, m.erase(m.cbegin() + (ptrdiff_t)i))), fmt("p=%zu", OS::idxOf(st, st.erase(st.cbegin() + (ptrdiff_t)i))));
					else R.step(fmt("err %s %zu %zu", cn, i, j), fmt("p=%zu", OM::idxOf(m, m.erase(m.cbegin() + (ptrdiff_t)i, m.cbegin() + (ptrdiff_t)j))), fmt("p=%zu", OS::idxOf(st, st.erase(st.cbegin() + (ptrdiff_t)i, st.cbegin() + (ptrdiff_t)j))));
				}
				else if (op < 46) R.step(fmt("erval %s %d", cn, x), OM::eraseVal(m, x), OS::eraseVal(st, x));
				else if (op < 48) { int mm = 2 + (int)rng.below(4), rr = (int)rng.below((uint64_t)mm); R.step(fmt("erif %s %d %d", cn, mm, rr), OM::eraseIf(m, mm, rr), OS::eraseIf(st, mm, rr)); }
				else if (op < 52) { size_t k = (size_t)rng.below(n + 8); if (rng.chance(1, 2)) { m.resize(k); st.resize(k); R.step(fmt("resize %s %zu", cn, k), OM::state(m), OS::state(st)); } else { const CVal val(x); m.resize(k, val); st.resize(k, val); R.step(fmt("resizev %s %zu %d", cn, k, x), OM::state(m), OS::state(st)); } }
				else if (op < 56) {
					// reserve(k): capacity() >= k, and no reallocation (data() stable) while size() <= capacity()
					size_t k = n + (size_t)rng.below(30);
					std::string opn = fmt("reserve %s %zu", cn, k);
					m.reserve(k); st.reserve(k);
					R.step(opn, OM::state(m), OS::state(st));
					R.inv(m.capacity() >= k && m.capacity() >= m.size(), opn, fmt("capacity() %zu < %zu", (size_t)m.capacity(), k));
					const CVal* d0 = m.data(); size_t cap0 = m.capacity();
					while (m.size() < k && !R.diverged) { m.push_back(CVal(x)); st.push_back(CVal(x)); }
					R.inv(m.data() == d0 && m.capacity() == cap0, opn, "push_back below the reserved capacity reallocated");
				}
				else if (op < 59) {
					std::string opn = fmt("shrink %s", cn);
					m.shrink_to_fit(); st.shrink_to_fit();
					R.step(opn, OM::state(m), OS::state(st));
					R.inv(m.capacity() >= m.size(), opn, "capacity() < size()");
					c.stats.count(m.capacity() == m.size() ? "api.vec.shrink_exact" : "api.vec.shrink_not_exact");
				}
				else if (op < 67) { size_t i = (size_t)rng.below(n + 3); std::string a = OM::access(m, i); if (a.find("cat=E") != std::string::npos) c.stats.count("api.vec.at_const.out_of_range"); R.step(fmt("access %s %zu", cn, i), a, OS::access(st, i)); }
				else if (op < 71) { if (n == 0) continue; unsigned how = (unsigned)rng.below(5); size_t i = (size_t)rng.below(n); OM::write(m, how, i, x); OS::write(st, how, i, x); R.step(fmt("write how=%u %s %zu %d", how, cn, i, x), OM::state(m), OS::state(st)); }
				else if (op < 74) R.step(fmt("rev %s", cn), OM::reverse(m), OS::reverse(st));
				else if (op < 80) R.step("cmp", OM::cmp(ma, mb), OS::cmp(sa, sb));
				else if (op < 82) { if (rng.chance(1, 2)) { swap(ma, mb); swap(sa, sb); } else { ma.swap(mb); sa.swap(sb); } R.step("swap", OM::state(ma) + " | " + OM::state(mb), OS::state(sa) + " | " + OS::state(sb)); }
				else if (op < 86) {
					unsigned form = (unsigned)rng.below(6); size_t cnt = (size_t)rng.below(7);
					OM::constructN(m, form, cnt, x, A(5)); OS::constructN(st, form, cnt, x, A(5));
					R.step(fmt("cn form=%u %s %zu %d", form, cn, cnt, x), OM::state(m), OS::state(st));
				}
				else if (op < 91) {
					auto ys = someVals(rng.chance(1, 5) ? 40 : 4); unsigned ik = (unsigned)rng.below(4); bool wa = rng.chance(1, 2);
					OM::withRange(ys, ik, [&](auto f, auto l) { OM::construct(m, wa, f, l, A(6)); });
					OS::withRange(ys, ik, [&](auto f, auto l) { OS::construct(st, wa, f, l, A(6)); });
					R.step(fmt("crange iter=%u alloc=%d %s %s", ik, (int)wa, cn, OM::str(ys).c_str()), OM::state(m), OS::state(st));
				}
				else if (op < 94) { auto ys = someVals(3); bool wa = rng.chance(1, 2); OM::constructList(m, wa, ys, A(4)); OS::constructList(st, wa, ys, A(4)); R.step(fmt("clist alloc=%d %s %s", (int)wa, cn, OM::str(ys).c_str()), OM::state(m), OS::state(st)); }
				else if (op < 96) { R.step(fmt("maxsize %s", cn), fmt("%d", (int)(m.max_size() >= m.size() && m.max_size() > 1000)), "1"); }
				else if (op < 98) { if (n == 0) continue; m.pop_back(); st.pop_back(); R.step(fmt("pop %s", cn), OM::state(m), OS::state(st)); }
				else { m.clear(); st.clear(); R.step(fmt("clear %s", cn), OM::state(m), OS::state(st)); }
				if (R.diverged) break;
				if (OM::vals(ma) != OS::vals(sa) || OM::vals(mb) != OS::vals(sb)) {
					R.inv(false, "contents", fmt("contents differ: momo a [%s] b [%s], libstdc++ a [%s] b [%s]", OM::str(OM::vals(ma)).c_str(), OM::str(OM::vals(mb)).c_str(), OM::str(OS::vals(sa)).c_str(), OM::str(OS::vals(sb)).c_str()));
					break;
				}
				if (ma.size() != sa.size() || ma.empty() != sa.empty()) R.inv(false, "size", "size() / empty() differ");
				long expect = (long)(ma.size() + mb.size() + sa.size() + sb.size());
				if (cc().liveVals != expect) R.inv(false, "ledger", fmt("%ld elements alive, %ld stored in the four vectors", cc().liveVals, expect));
			}
			if (!R.diverged) c.stats.nontrivial(fmt("api_vec run=%u", run));
			if (run < 1) c.stats.sample(fmt("api_vec: %s", R.tail().substr(0, 300).c_str()));
		}
		if (cc().liveVals != 0) { c.fail("C06 api/vec: %ld elements alive after all vectors were destroyed; last calls: %s", cc().liveVals, R.tail().c_str()); cc() = CountedCtl(); }
	}
}

static void runVectorAll(Ctx& c, Rng& rng)
{
	runVectorApi(c, rng, c.thorough ? 300 : 60, c.thorough ? 700 : 500);
	// deduction guide vector(It, It)
	std::vector<int> ks = { 4, 2, 7 };
	momo::stdish::vector dv(ks.begin(), ks.end());
	static_assert(std::is_same<decltype(dv), momo::stdish::vector<int>>::value, "vector(It, It)");
	c.stats.evaluations++;
	if (std::vector<int>(dv.begin(), dv.end()) != ks) c.fail("C06 api/deduction vector(It, It): contents differ");
	c.stats.count("api.deduction_guides_vector", 1);
}
#endif // VF_PART == 3
