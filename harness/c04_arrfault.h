// Shared part of the fault-injection correspondence harnesses c04_arrfault.cpp (momo::Array) and c04_segfault.cpp
// (momo::SegmentedArray): the fault-point counter, the memory manager with ledger / log / faults, the instrumented
// element types.  See c04_arrfault.cpp for the protocol.
#pragma once
#include "momo/Array.h"
#include "common/verif_common.h"

#include <memory>
#include <algorithm>
#include <deque>
#include <stdexcept>
#include <new>

namespace af {
using namespace vf;


// ------------------------------------------------------------------ fault points
struct FP { long countdown = -1; bool fired = false; long points = 0; };
static FP& fp() { static FP f; return f; }
struct ElemFault : public std::runtime_error { ElemFault() : std::runtime_error("element") {} };
// true = this step has to throw
static bool pointFires() {
	FP& f = fp();
	++f.points;
	if (f.countdown == 0) { f.countdown = -1; f.fired = true; return true; }
	if (f.countdown > 0) --f.countdown;
	return false;
}
static void point() { if (pointFires()) throw ElemFault(); }

// ------------------------------------------------------------------ memory manager: ledger + log + faults
struct MMWorld {
	std::map<void*, std::pair<size_t, size_t>> live;	// block -> (size the container knows, bytes really allocated)
	std::vector<std::string> ev;
	size_t badDealloc = 0;
	bool oracle = false;
};
static MMWorld& mw() { static MMWorld w; return w; }
static const size_t slack = 1 << 16;

template<bool tInplace>
class MMBase
{
public:
	explicit MMBase() noexcept {}
	MMBase(MMBase&&) noexcept {}
	MMBase(const MMBase&) noexcept {}
	~MMBase() = default;
	MMBase& operator=(const MMBase&) = delete;
	void* Allocate(size_t size)
	{
		if (pointFires()) { mw().ev.push_back(fmt("A%zu", size)); throw std::bad_alloc(); }
		size_t real = size + (tInplace ? slack : 0);
		void* p = std::malloc(real);
		if (p == nullptr) throw std::bad_alloc();
		mw().live[p] = std::make_pair(size, real);
		mw().ev.push_back(fmt("a%zu", size));
		return p;
	}
	void Deallocate(void* ptr, size_t size) noexcept
	{
		mw().ev.push_back(fmt("d%zu", size));
		auto it = mw().live.find(ptr);
		if (it == mw().live.end() || it->second.first != size) { ++mw().badDealloc; return; }
		mw().live.erase(it);
		std::free(ptr);
	}
protected:
	void* doReallocate(void* ptr, size_t size, size_t newSize)
	{
		if (pointFires()) { mw().ev.push_back(fmt("R%zu:%zu", size, newSize)); throw std::bad_alloc(); }
		auto it = mw().live.find(ptr);
		if (it == mw().live.end() || it->second.first != size) ++mw().badDealloc; else mw().live.erase(it);
		size_t real = newSize + (tInplace ? slack : 0);
		void* p = std::realloc(ptr, real);
		if (p == nullptr) throw std::bad_alloc();
		mw().live[p] = std::make_pair(newSize, real);
		mw().ev.push_back(fmt("r%zu:%zu", size, newSize));
		return p;
	}
	bool doInplace(void* ptr, size_t size, size_t newSize) noexcept
	{
		auto it = mw().live.find(ptr);
		bool known = it != mw().live.end() && it->second.first == size;
		bool ok = mw().oracle && known && newSize <= it->second.second;
		mw().ev.push_back(fmt("i%zu:%zu:%d", size, newSize, ok ? 1 : 0));
		if (ok) it->second.first = newSize;
		return ok;
	}
};
template<bool tRealloc, bool tInplace> class MM;
template<> class MM<false, false> : public MMBase<false> {};
template<> class MM<true, false> : public MMBase<false> {
public: void* Reallocate(void* p, size_t s, size_t n) { return doReallocate(p, s, n); }
};
template<> class MM<false, true> : public MMBase<true> {
public: bool ReallocateInplace(void* p, size_t s, size_t n) noexcept { return doInplace(p, s, n); }
};
template<> class MM<true, true> : public MMBase<true> {
public:
	void* Reallocate(void* p, size_t s, size_t n) { return doReallocate(p, s, n); }
	bool ReallocateInplace(void* p, size_t s, size_t n) noexcept { return doInplace(p, s, n); }
};

// ------------------------------------------------------------------ element types
static const uint32_t LIVE = 0xA11CE, MOVED = 0x30FED, DEAD = 0xDEAD;
static long& liveObjs() { static long n = 0; return n; }

// trivially copyable: relocation by memcpy / Reallocate, nothing throws, a move is a copy
struct Tr { uint32_t id; uint32_t state; uint32_t pad[2]; };

// nothrow-move-constructible; the copy constructor throws at a fault point BEFORE anything is built; tAT: copy and
// move assignment throw at a fault point before they change anything; a move marks its source, a self-move-assignment
// is destructive (what std::string does)
template<bool tAT>
struct ElM
{
	uint32_t id; uint32_t state;
	explicit ElM(uint32_t i) : id(i), state(LIVE) { ++liveObjs(); }
	ElM(const ElM& o) : id((point(), o.id)), state(o.state) { ++liveObjs(); }
	ElM(ElM&& o) noexcept : id(o.id), state(o.state) { o.state = MOVED; ++liveObjs(); }
	ElM& operator=(const ElM& o) noexcept(!tAT) { if (tAT) point(); id = o.id; state = o.state; return *this; }
	ElM& operator=(ElM&& o) noexcept(!tAT)
	{
		if (tAT) point();
		if (this == &o) state = MOVED; else { id = o.id; state = o.state; o.state = MOVED; }
		return *this;
	}
	~ElM() { state = DEAD; --liveObjs(); }
};

// copy-only (no move operations): not nothrow relocatable; "moves" are copies that can throw
template<bool tAT>
struct ElC
{
	uint32_t id; uint32_t state;
	explicit ElC(uint32_t i) : id(i), state(LIVE) { ++liveObjs(); }
	ElC(const ElC& o) : id((point(), o.id)), state(o.state) { ++liveObjs(); }
	ElC& operator=(const ElC& o) noexcept(!tAT) { if (tAT) point(); id = o.id; state = o.state; return *this; }
	~ElC() { state = DEAD; --liveObjs(); }
};

// "not nothrow-movable but nothrow-swappable" (copy-and-swap idiom; the category of vf::ElemSW in common/verif_elems.h): no move
// constructor (gcc / clang: momo treats every type that DECLARES a move constructor as nothrow relocatable), the copy constructor
// throws at a fault point before anything is built, assignment takes its argument BY VALUE - its one fallible step is the copy
// construction of the parameter, before the target changes - and swaps; ADL swap is noexcept.  Array / SegmentedArray assign
// with a plain `item = ...` (ItemTraits::Assign) and relocate by copy + destroy, so for them this is the model's category
// "copy-only with throwing assignment" (tc = tm = ta = 1): one fallible step per construction and per assignment, operands
// untouched when it throws
struct ElS
{
	uint32_t id; uint32_t state;
	explicit ElS(uint32_t i) : id(i), state(LIVE) { ++liveObjs(); }
	ElS(const ElS& o) : id((point(), o.id)), state(o.state) { ++liveObjs(); }
	ElS& operator=(ElS o) { swap(*this, o); return *this; }
	friend void swap(ElS& a, ElS& b) noexcept { uint32_t i = a.id; a.id = b.id; b.id = i; uint32_t s = a.state; a.state = b.state; b.state = s; }
	~ElS() { state = DEAD; --liveObjs(); }
};

template<typename T> struct Kind;
template<> struct Kind<Tr> { static const bool keeps = true, tc = false, tm = false, ta = false, lo = false; static const char* name() { return "triv"; }
	static Tr make(uint32_t id) { Tr t; t.id = id; t.state = LIVE; t.pad[0] = id * 7; t.pad[1] = ~id; return t; } };
template<bool tAT> struct Kind<ElM<tAT>> { static const bool keeps = false, tc = true, tm = false, ta = tAT, lo = true;
	static const char* name() { return tAT ? "nothrowmove_throwassign" : "nothrowmove"; } static ElM<tAT> make(uint32_t id) { return ElM<tAT>(id); } };
template<bool tAT> struct Kind<ElC<tAT>> { static const bool keeps = true, tc = true, tm = true, ta = tAT, lo = true;
	static const char* name() { return tAT ? "copyonly_throwassign" : "copyonly"; } static ElC<tAT> make(uint32_t id) { return ElC<tAT>(id); } };

template<> struct Kind<ElS> { static const bool keeps = true, tc = true, tm = true, ta = true, lo = true;
	static const char* name() { return "copyswap"; } static ElS make(uint32_t id) { return ElS(id); } };

template<typename T> static std::string show(const T& t) {
	if (t.state == LIVE) return std::to_string(t.id);
	if (t.state == MOVED) return "~";
	return "!dead";
}


struct ExtGuard { long& e; explicit ExtGuard(long& e_) : e(e_) { ++e; } ~ExtGuard() { --e; } };
struct Budget { unsigned rounds; unsigned opsPerRound; unsigned maxSize; };

} // namespace af
